"""C18 — message log: filters mean what they say; the view equals the filtered log (FilterLog.tla).

Bindings
  B3 tables (spec -> code): TLC prints atom x entry verdicts, every expression tree up to the
      depth bound with both renderings, its grouping and the expected value of EVERY node on
      every entry of a family realising all T/F/X valuations, and every token string up to a
      length bound with its parse; each row is replayed through compile_filter / .match in
      both evaluation modes on fresh, frozen(thawed) and exported+imported entries.
  B1 (spec -> code): every edge of the bounded log machine is replayed into a fresh real
      FilteringMessageLogger (directly and behind a WrappingMessageLogger, which freezes);
      list(logger) and the call's result are compared with SpecView / the spec's result.
  B2 (code -> spec): random filters x random entries, random logger walks with window
      overflow, freeze/thaw and export/import projections; validated by TLC.
The oracle is always TLC's output; Python only builds inputs, projects observations and
classifies mismatches (the `cause` feature) by probing the real code.
"""
from __future__ import annotations

import collections
import json
import os
import struct

from . import common
from .common import Check, Graph, impl_call

# ----------------------------------------------------------------------------------------
# configuration text
# ----------------------------------------------------------------------------------------

def _consts(**kw):
    d = dict(W=2, MaxLog=3, Depth=5, TreeDepth=1, TreeKind="LLUDP", TokLen=1, UseEnt="{1,2,3,4}",
             UseFlt="{1,2,3,4,5,6,7}", ProbeKinds="{}")
    d.update(kw)
    return ('CONSTANTS W = %(W)d MaxLog = %(MaxLog)d Depth = %(Depth)d TreeDepth = %(TreeDepth)d '
            'TreeKind = "%(TreeKind)s" TokLen = %(TokLen)d UseEnt = %(UseEnt)s UseFlt = %(UseFlt)s '
            'ProbeKinds = %(ProbeKinds)s\n' % d)


LOG_INVS = ["ViewIsSpec", "NoDuplicates", "ArrivalOrder", "WindowVisible", "ViewMatches", "RetainedSound",
            "RawIsWindow", "FilterWellFormed", "UnevaluableHidden"]
PROBE_INVS = ["EvalIsDenote", "ParseRender", "ValuationsComplete", "ParseStable", "CmpLaws", "AtomNeedsWitness"]

# ----------------------------------------------------------------------------------------
# typed model values -> Python / filter text  (input construction; no semantics here)
# ----------------------------------------------------------------------------------------

def _imports():
    global Vector3, Quaternion, TaggedUnion, Block, Message, ml, compile_filter, HippoHTTPFlow, CapData, tflow, tutils
    from hippolyzer.lib.base.datatypes import Vector3, Quaternion, TaggedUnion
    from hippolyzer.lib.base.message.message import Block, Message
    from hippolyzer.lib.proxy import message_logger as ml
    from hippolyzer.lib.proxy.message_filter import compile_filter
    from hippolyzer.lib.proxy.http_flow import HippoHTTPFlow
    from hippolyzer.lib.proxy.caps import CapData
    from mitmproxy.test import tflow, tutils


def pyval(v):
    t = v["ty"]
    if t == "int":
        return v["v"]
    if t == "str":
        return "".join(chr(c) for c in v["v"])
    if t == "bytes":
        return bytes(v["v"])
    if t == "none":
        return None
    if t == "vec":
        return Vector3(*v["v"])
    if t == "quat":
        return Quaternion(*v["v"])
    raise common.MachineryError("bad typed value %r" % (v,))


def val_repr(v):
    return "<packed>" if v["ty"] == "packed" else repr(pyval(v))


def lit_text(l, hexint=False):
    t = l["ty"]
    if t == "int":
        return hex(l["v"]) if hexint else str(l["v"])
    if t == "str":
        return '"%s"' % "".join(chr(c) for c in l["v"])
    if t == "bytes":
        return 'b"%s"' % "".join(chr(c) for c in l["v"])
    if t == "none":
        return "None"
    if t == "vec":
        return "(%d, %d, %d)" % tuple(l["v"])
    if t == "badenum":
        return BAD_ENUM_TEXT      # compiles; evaluating it raises KeyError (no such member)
    raise common.MachineryError("bad literal %r" % (l,))


BAD_ENUM_TEXT = "PCode.PRIMITVE"
BADENUM = {"ty": "badenum", "v": 0}


def lit_py(l):
    if l["ty"] == "badenum":
        return tuple(BAD_ENUM_TEXT.split("."))
    return tuple(l["v"]) if l["ty"] == "vec" else pyval(l)


def sel_text(sel):
    """The fourth selector component (subfield name / glob) travels as code points."""
    return ".".join(x if isinstance(x, str) else "".join(chr(c) for c in x) for x in sel)


def atom_text(a, tight=False, hexint=False):
    s = sel_text(a["sel"])
    if a["op"]:
        s += ("%s%s" if tight else " %s %s") % (a["op"], lit_text(a["lit"], hexint))
    return s


def toks_text(toks, tight=False, hexint=False):
    return ("" if tight else " ").join(t[0] if t[0] != "atom" else atom_text(t[1], tight, hexint) for t in toks)


def entry_has_vec(e):
    return any(v["val"]["ty"] == "vec" for b in e["blocks"] for v in b["vars"])


# Fields with a subfield serializer: how the named subfields are packed into the real field
# (`Var_=` makes Block run the field's registered serializer when it joins the message).
_SUB_PACK = {
    ("ObjectUpdate", "ObjectData", "ObjectData"): lambda d: TaggedUnion(60, d),       # full-precision form
    ("ImprovedTerseObjectUpdate", "ObjectData", "Data"): lambda d: d,
    # unpacks to an object, not to named subfields: nothing selectable
    ("ObjectUpdate", "ObjectData", "TextureEntry"): lambda d: _default_te(),
}


def _default_te():
    from hippolyzer.lib.base.templates import TextureEntryCollection
    return TextureEntryCollection()


def _block_kwargs(name, b):
    kw = {}
    for v in b["vars"]:
        if v.get("subs") or v["val"]["ty"] == "packed":
            pack = _SUB_PACK.get((name, b["blk"], v["var"]))
            if pack is None:
                raise common.MachineryError("no subfield packer for %s.%s.%s" % (name, b["blk"], v["var"]))
            kw[v["var"] + "_"] = pack({"".join(chr(c) for c in sf["sub"]): pyval(sf["val"]) for sf in v.get("subs", [])})
        else:
            kw[v["var"]] = pyval(v["val"])
    return kw


def build_entry(e, eid=0):
    """Real log entry for a model entry.  `eid` is a tag readable through public attributes."""
    kind = e["kind"]
    meta = {m["key"]: pyval(m["val"]) for m in e["meta"] if m["val"]["ty"] != "none"}
    if kind == "LLUDP":
        blocks = [Block(b["blk"], **_block_kwargs(e["name"], b)) for b in e["blocks"]]
        msg = Message(e["name"], *blocks, packet_id=eid)
        msg.meta.update(meta)
        return ml.LLUDPMessageLogEntry(msg, None, None)
    if kind == "EQ":
        body = {"id": eid}
        for b in e["blocks"]:
            body.setdefault(b["blk"], []).append({v["var"]: pyval(v["val"]) for v in b["vars"] if not v.get("subs")})
        ent = ml.EQMessageLogEntry({"message": e["name"], "body": body}, None, None)
    elif kind == "HTTP":
        fl = tflow.tflow(req=tutils.treq(path=b"/%d" % eid), resp=tutils.tresp())
        fl.metadata["cap_data"] = CapData(cap_name=e["name"])
        ent = ml.HTTPMessageLogEntry(HippoHTTPFlow(fl))
    else:
        raise common.MachineryError("bad entry kind %r" % kind)
    ent.meta.update(meta)
    return ent


def entry_id(ent):
    """Projection: the tag build_entry put into the entry."""
    if isinstance(ent, ml.LLUDPMessageLogEntry):
        return ent.seq
    if isinstance(ent, ml.EQMessageLogEntry):
        return ent.event["body"]["id"]
    return int(ent.flow.request.path.lstrip("/"))


def staged(e, stage, eid=0):
    ent = build_entry(e, eid)
    if stage == "fresh":
        return ent
    ent.freeze()
    if stage == "frozen":
        return ent
    return ml.import_log_entries(ml.export_log_entries([ent]))[0]


def stages_for(e):
    # LLSD has no vector type: a vector field is an array after export/import (named in the report);
    # filters on re-imported entries are judged on entries without vector fields.
    return ("fresh", "frozen") if entry_has_vec(e) else ("fresh", "frozen", "imported")


_FILTERS = {}
_STAGED = {}


def staged_cached(key, e, stage):
    """Entries are not mutated by matching: build each (family entry, stage) once per process."""
    r = _STAGED.get((key, stage))
    if r is None:
        r = _STAGED[(key, stage)] = impl_call(staged, e, stage)
    return r


def compiled(text):
    r = _FILTERS.get(text)
    if r is None:
        r = _FILTERS[text] = impl_call(compile_filter, text)
    return r


def verdict(node, ent, sc):
    st, r = impl_call(lambda: bool(node.match(ent, sc)))
    if st == "ok":
        return ("T" if r else "F"), ""
    return "E", r


def project_tree(node):
    """Projection of a compiled filter: prefix shape + leaves + nodes in prefix order (public attributes)."""
    from hippolyzer.lib.proxy import message_filter as mf
    shape, leaves, nodes = [], [], []

    def walk(n):
        nodes.append(n)
        if isinstance(n, mf.UnaryNotFilterNode):
            shape.append("!")
            walk(n.node)
        elif isinstance(n, mf.AndFilterNode):
            shape.append("&&")
            walk(n.left_node)
            walk(n.right_node)
        elif isinstance(n, mf.OrFilterNode):
            shape.append("||")
            walk(n.left_node)
            walk(n.right_node)
        elif isinstance(n, mf.MessageFilterNode):
            shape.append("a")
            val = n.value
            if isinstance(val, mf.EnumFieldSpecifier):
                val = ("lit", tuple(val))
            else:
                val = ("na",) if val is None else ("lit", val.value)
            leaves.append([list(n.selector), n.operator or "", val])
        else:
            raise common.MachineryError("reflection bridge: unknown filter node %r" % (n,))
    walk(node)
    return shape, leaves, nodes


def _has_le_ge(toks):
    return any(t[0] == "atom" and t[1]["op"] in ("<=", ">=") for t in toks)


def leaf_equals(leaf, a):
    want = ("na",) if not a["op"] else ("lit", lit_py(a["lit"]))
    if leaf[0] != sel_text(a["sel"]).split(".") or leaf[1] != a["op"] or leaf[2][0] != want[0]:
        return False
    return want[0] == "na" or (type(leaf[2][1]) is type(want[1]) and leaf[2][1] == want[1])


# ----------------------------------------------------------------------------------------
# mismatch classification (features for known_findings): probes the real code only
# ----------------------------------------------------------------------------------------

def atom_where(a):
    if len(a["sel"]) == 1:
        return "name"
    if len(a["sel"]) == 4:
        return "subfield"
    return "meta" if a["sel"][0] == "Meta" else "field"


def atom_cause(a, impl, exc, hasx):
    if impl == "E":
        if "__bool__ should return bool" in exc:
            return "bitand-verdict-not-bool"
        return "inapplicable-comparison-raises" if hasx else "comparison-raises"
    if a["op"] == "!=" and a["lit"]["ty"] == "vec":
        return "vector-not-equal"
    return "wrong-verdict"


def atom_features(a, impl, exc, hasx, stage, via):
    """`cause` + operator + selector class identify the defect; everything else goes to the detail."""
    return {"kind": "atom", "cause": atom_cause(a, impl, exc, hasx), "op": a["op"] or "bare", "where": atom_where(a)}


class Agg:
    """Collapse identical (what, features) cases into one violation with a count and the first example."""

    def __init__(self):
        self.d = {}

    def add(self, what, features, detail):
        # the framework keeps a few detailed cases per `what`: name the class in it
        tag = ",".join(str(features[k]) for k in ("cause", "op", "where") if k in features)
        if tag and not what.endswith("]"):
            what = "%s [%s]" % (what, tag)
        k = (what, common.skey(features))
        if k in self.d:
            self.d[k][2]["occurrences"] += 1
        else:
            detail = dict(detail)
            detail["occurrences"] = 1
            self.d[k] = [what, features, detail]

    def extend(self, items):
        for what, features, detail in items:
            n = detail.get("occurrences", 1)
            k = (what, common.skey(features))
            if k in self.d:
                self.d[k][2]["occurrences"] += n
            else:
                detail = dict(detail)
                detail["occurrences"] = n
                self.d[k] = [what, features, detail]

    def items(self):
        return list(self.d.values())

    def flush(self, chk):
        for what, features, detail in self.d.values():
            chk.violation(what, features, detail)
        self.d = {}


# ----------------------------------------------------------------------------------------
# B3: tables
# ----------------------------------------------------------------------------------------
_ROWS = None
_HDR = None
_HDR_KEY = None


def _check_atom_row(r, agg):
    a, e = r["a"], r["e"]
    text = atom_text(a)
    st, node = compiled(text)
    n = 0
    if st != "ok":
        agg.add("compile_filter refuses a well-formed atom", {"kind": "grammar", "cause": "refused-well-formed", "le_ge": a["op"] in ("<=", ">=")},
                {"filter": text, "exc": node})
        return 0
    want = "T" if r["val"] else "F"
    for stage in stages_for(e):
        st, ent = impl_call(staged, e, stage)
        if st != "ok":
            agg.add("freeze/export/import of a generated entry raised", {"kind": "stage-raises", "stage": stage, "entry_kind": e["kind"]},
                    {"entry": e, "exc": ent})
            continue
        for sc in (True, False):
            n += 1
            got, exc = verdict(node, ent, sc)
            if got != want:
                agg.add("atom verdict differs from FilterLog!AtomTrue", atom_features(a, got, exc, r["hasx"], stage, "atom-table"),
                        {"filter": text, "entry": e, "short_circuit": sc, "stage": stage, "spec": want, "impl": got, "exc": exc})
    return n


def _check_tree_row(r, agg):
    n = 0
    entries = _HDR
    for rend in ("min", "full"):
        toks = r[rend]
        text = toks_text(toks)
        st, node = compiled(text)
        if st != "ok":
            agg.add("compile_filter refuses a well-formed filter", {"kind": "grammar", "cause": "refused-well-formed", "le_ge": _has_le_ge(toks)},
                    {"filter": text, "exc": node})
            continue
        shape, leaves, nodes = project_tree(node)
        if shape != r["shape"] or len(leaves) != len(r["leaves"]) or not all(leaf_equals(x, a) for x, a in zip(leaves, r["leaves"])):
            agg.add("compiled filter groups differently from FilterLog!Parse", {"kind": "grammar", "cause": "grouping", "rendering": rend},
                    {"filter": text, "spec_shape": r["shape"], "impl_shape": shape, "impl_leaves": repr(leaves)[:300]})
            continue
        leaf_pos = [i for i, s in enumerate(shape) if s == "a"]
        # every node on fresh entries; the root on thawed / re-imported entries and for the second rendering
        # (which compiled to the same tree, just compared)
        for ei, e in enumerate(entries):
            for stage in (stages_for(e) if rend == "min" else ("fresh",)):
                use_nodes = nodes if (rend == "min" and stage == "fresh") else nodes[:1]
                want = ["T" if b else "F" for b in r["vals"][ei]][:len(use_nodes)]
                st, ent = staged_cached((_HDR_KEY, ei), e, stage)
                if st != "ok":
                    agg.add("freeze/export/import of a generated entry raised", {"kind": "stage-raises", "stage": stage, "entry_kind": e["kind"]},
                            {"entry": e, "exc": ent})
                    continue
                for sc in (True, False):
                    got = [verdict(nd, ent, sc) for nd in use_nodes]
                    n += len(use_nodes)
                    if [g[0] for g in got] == want:
                        continue
                    bad_leaves = [k for k, p in enumerate(leaf_pos) if p < len(got) and got[p][0] != want[p]]
                    if len(use_nodes) == 1 and len(nodes) > 1:
                        # diagnose through the atoms on their own
                        lres = [verdict(compiled(atom_text(a))[1], ent, sc) for a in r["leaves"]]
                        lwant = ["T" if r["vals"][ei][p] else "F" for p in leaf_pos]
                        bad_leaves = [k for k in range(len(lres)) if lres[k][0] != lwant[k]]
                        leaf_got = lres
                    else:
                        leaf_got = [got[p] for p in leaf_pos]
                    if bad_leaves:
                        k = bad_leaves[0]
                        a = r["leaves"][k]
                        g, exc = leaf_got[k]
                        feats = atom_features(a, g, exc, r["lx"][ei][k], stage, "tree-table")
                    else:
                        p = next(i for i in range(len(use_nodes)) if got[i][0] != want[i])
                        feats = {"kind": "node", "cause": "boolean-structure", "node": shape[p], "short_circuit": sc}
                    agg.add("node verdict differs from FilterLog!Denote", feats,
                            {"filter": text, "entry": e, "short_circuit": sc, "stage": stage, "spec_nodes_prefix_order": want,
                             "impl_nodes_prefix_order": [g[0] for g in got], "exc": [g[1] for g in got if g[1]][:2]})
    return n


def _check_toks_row(r, agg):
    text = toks_text(r["toks"])
    st, node = compiled(text)
    if (st == "ok") != r["ok"]:
        agg.add("compile_filter accepts/refuses differently from FilterLog!Parse",
                {"kind": "grammar", "cause": "refused-well-formed" if r["ok"] else "accepted-ill-formed", "le_ge": _has_le_ge(r["toks"])},
                {"filter": text, "spec_ok": r["ok"], "impl": st, "exc": node if st != "ok" else ""})
        return 1
    if st == "ok":
        shape, leaves, _ = project_tree(node)
        if shape != r["shape"] or len(leaves) != len(r["leaves"]) or not all(leaf_equals(x, a) for x, a in zip(leaves, r["leaves"])):
            agg.add("compiled filter groups differently from FilterLog!Parse", {"kind": "grammar", "cause": "grouping", "rendering": "tokens"},
                    {"filter": text, "spec_shape": r["shape"], "impl_shape": shape})
    return 1


def _table_chunk(idx):
    _imports()
    agg = Agg()
    n = 0
    for i in idx:
        r = _ROWS[i]
        if r["row"] == "atom":
            n += _check_atom_row(r, agg)
        elif r["row"] == "tree":
            n += _check_tree_row(r, agg)
        elif r["row"] == "toks":
            n += _check_toks_row(r, agg)
    return n, agg.items()


def _tables(chk: Check, agg: Agg, kind, tree_depth, tok_len, probe_kinds, label, mc_only=False):
    global _ROWS, _HDR, _HDR_KEY
    pk = "{%s}" % ",".join('"%s"' % k for k in probe_kinds)
    consts = _consts(TreeDepth=tree_depth, TreeKind=kind, TokLen=tok_len, ProbeKinds=pk)
    if mc_only:
        # model-only run (initial states are enumerated by one thread): started now, joined at the end of run()
        cfgp = os.path.join(chk.scratch, "probe-mc.cfg")
        with open(cfgp, "w") as f:
            f.write("SPECIFICATION SpecProbe\n" + consts + "".join("INVARIANT %s\n" % i for i in PROBE_INVS))
        import concurrent.futures as cf
        ex = cf.ThreadPoolExecutor(max_workers=1)
        fut = ex.submit(common.run_tlc, os.path.join(common.SPECS, "FilterLog.tla"), cfgp, 1, chk.scratch)
        return lambda: (chk.require_model_ok(fut.result(), "FilterLog probes " + label), ex.shutdown())
    # the export run checks the same invariants on the same states (one TLC run instead of two)
    cfg = "SPECIFICATION MSpecProbe\n" + consts + "".join("INVARIANT %s\n" % i for i in PROBE_INVS)
    cfgp = os.path.join(chk.scratch, "probe-%s.cfg" % label.replace(" ", "_"))
    with open(cfgp, "w") as f:
        f.write(cfg)
    res = common.run_tlc(os.path.join(common.SPECS, "FilterLog_MBT.tla"), cfgp, workers=1, scratch=chk.scratch, heap="8g")
    chk.require_model_ok(res, "FilterLog probes " + label)
    if not res.ok:
        return
    rows = res.printed()
    hdr = [r for r in rows if r.get("row") == "hdr"]
    _HDR = hdr[0]["entries"] if hdr else []
    _HDR_KEY = label
    _ROWS = [r for r in rows if r.get("row") in ("atom", "tree", "toks")]
    want = {"atom": 1000, "tree": 20, "toks": 50}
    for k in probe_kinds:
        if sum(1 for r in _ROWS if r["row"] == k) < want[k]:
            raise common.MachineryError("FilterLog_MBT printed too few %s rows (%s)" % (k, label))
    if "tree" in probe_kinds and len(_HDR) not in (18, 27):
        raise common.MachineryError("tree family header missing")
    results = common.parallel_map(_table_chunk, common.chunked(list(range(len(_ROWS))), common.NCPU * 6))
    for n, items in results:
        chk.count(n)
        agg.extend(items)
    chk.cov["traces_validated_against_impl"] += len(_ROWS)
    chk.cov.setdefault("b3_rows_replayed", 0)
    chk.cov["b3_rows_replayed"] += len(_ROWS)
    for r in _ROWS:
        if r["row"] == "atom" and (r["hasx"] or r["val"]):
            chk.nontrivial(("atom", label, common.skey(r["a"]), common.skey(r["e"])))
        elif r["row"] == "tree" and len(r["shape"]) > 1:
            chk.nontrivial(("tree", label, common.skey(r["min"])))
        elif r["row"] == "toks" and r["ok"] and len(r["shape"]) > 1:
            chk.nontrivial(("toks", label, common.skey(r["toks"])))
    for k in probe_kinds:
        ex = [r for r in _ROWS if r["row"] == k]
        r = ex[len(ex) // 2]
        if k == "tree":
            chk.sample({"binding": "B3 tree row", "filter": toks_text(r["min"]), "shape": r["shape"], "entry[0]": _HDR[0],
                        "expected_nodes_on_entry[0]": r["vals"][0]})
        elif k == "atom":
            chk.sample({"binding": "B3 atom row", "filter": atom_text(r["a"]), "entry": r["e"], "expected": r["val"], "inapplicable": r["hasx"]})
        else:
            chk.sample({"binding": "B3 token row", "text": toks_text(r["toks"]), "well_formed": r["ok"], "shape": r["shape"]})


# ----------------------------------------------------------------------------------------
# B1: log machine edges
# ----------------------------------------------------------------------------------------
_G = None
_W = None
_ENTS = None
_FLTS = None


class _Impl:
    def __init__(self, W, wrapped):
        self.logger = ml.FilteringMessageLogger(maxlen=W)
        self.front = self.logger
        self.wrapped = wrapped
        if wrapped:
            self.front = ml.WrappingMessageLogger()
            self.front.loggers.append(self.logger)
        self.next_id = 1
        self.paused = False
        self.dropped = 0
        self.sender_msg = None      # behind the wrapper: ONE Message object the sender re-uses for every LLUDP send
        self.mutations = 0

    def log(self, e):
        """-> (observable result 1/0/2, raised?)"""
        if self.paused:
            self.dropped += 1
            eid = -self.dropped
        else:
            eid = self.next_id
            self.next_id += 1
        if e["kind"] == "LLUDP":
            msg = build_entry(e, eid).message
            if self.wrapped:
                # Environment (FilterLog!Mutate): the sender re-uses one Message object across sends and keeps changing it
                # afterwards.  The log must hold the message AS LOGGED.  (Only behind the WrappingMessageLogger, which
                # freezes what it hands on; a bare FilteringMessageLogger documents that it never copies.)
                if self.sender_msg is None:
                    self.sender_msg = msg
                else:
                    self._overwrite(self.sender_msg, msg)
                msg = self.sender_msg
            st, r = impl_call(self.front.log_lludp_message, None, None, msg)
            if self.wrapped:
                self._scramble(msg, eid)
        else:
            st, r = impl_call(self.front.add_log_entry, build_entry(e, eid))
        if st != "ok":
            return 2, r
        return (2 if self.wrapped else (1 if r else 0)), ""

    @staticmethod
    def _overwrite(dst, src):
        """Re-use `dst` for the next send: same object, the content of `src`."""
        dst.name = src.name
        dst.blocks = src.blocks
        dst.meta = dict(src.meta)
        dst.packet_id = src.packet_id
        dst.direction = src.direction

    def _scramble(self, msg, eid):
        """After the send the sender changes everything the filters and the entry tag look at."""
        self.mutations += 1
        for bl in msg.blocks.values():
            for blk in bl:
                for var, val in list(blk.vars.items()):
                    if isinstance(val, bytes):
                        blk[var] = bytes(len(val))              # packed fields stay unpackable
                    elif isinstance(val, int):
                        blk[var] = "scrambled"
                    else:
                        blk[var] = 5 if self.mutations % 2 else 0
        for k in ("Q", "R"):
            msg.meta[k] = "zz" if isinstance(msg.meta.get(k), int) else 1 + (self.mutations % 2)
        msg.name = "Scrambled" if msg.name != "Scrambled" else "Foo"
        msg.packet_id = 1000000 + self.mutations

    def set_filter(self, toks):
        return impl_call(self.logger.set_filter, toks_text(toks))

    def set_paused(self, b):
        self.paused = b
        return impl_call(self.logger.set_paused, b)

    def clear(self):
        return impl_call(self.logger.clear)

    def view(self):
        st, r = impl_call(lambda: [entry_id(x) for x in self.logger])
        return r if st == "ok" else ["raise", r]

    def apply(self, act):
        n = act["n"]
        if n == "Log":
            return self.log(_ENTS[act["e"] - 1])
        if n == "SetFilter":
            return self.set_filter(_FLTS[act["f"] - 1])
        if n == "SetPaused":
            return self.set_paused(act["b"])
        return self.clear()


def _diagnose_filter(toks, ents):
    """Does the real filter raise on one of these entries? (classification only)"""
    st, node = compiled(toks_text(toks))
    if st != "ok":
        return ""
    for e in ents:
        for sc in (True, False):
            g, exc = verdict(node, build_entry(e), sc)
            if g == "E":
                return exc
    return ""


def _aliases_sender(view):
    """Classification only: a tag >= 10^6 is the packet id the driver gave its re-used object AFTER the send."""
    return isinstance(view, list) and any(isinstance(x, int) and x >= 1000000 for x in view)


def _edge_cause(hasx, exc):
    if exc:
        if exc.startswith("NoMatch"):
            return "refused-well-formed"
        if "__bool__ should return bool" in exc:
            return "bitand-verdict-not-bool"
        return "inapplicable-comparison-raises" if hasx else "filter-raises"
    return "view-mismatch"


_PURE_COMPILE = {}


def _memo_compile(text):
    """compile_filter is a pure function of its text and builds a fresh arpeggio parser per call (~1.5 ms);
    the edge replay creates ~10^5 loggers, each compiling "" in its constructor.  The real function
    computes every distinct text once per process; its exceptions are replayed as well."""
    r = _PURE_COMPILE.get(text)
    if r is None:
        r = _PURE_COMPILE[text] = impl_call(_REAL_COMPILE, text)
        if r[0] != "ok":
            try:
                _REAL_COMPILE(text)
            except Exception as e:  # keep the real exception object to re-raise
                r = _PURE_COMPILE[text] = ("raise", e)
    if r[0] == "ok":
        return r[1]
    raise r[1]


_REAL_COMPILE = None


def _replay_edges(edge_ids):
    global _REAL_COMPILE
    _imports()
    if _REAL_COMPILE is None:
        _REAL_COMPILE = ml.compile_filter
        ml.compile_filter = _memo_compile       # worker process only (fork); the tables and traces use the plain function
    g, W = _G, _W
    agg = Agg()
    n = 0
    for item in edge_ids:
        # item = edge index, or (self-loop edge, following edge): the abstractly idle action is replayed first
        pre = []
        if isinstance(item, tuple):
            pre, ei = [g.edges[item[0]]], item[1]
        else:
            ei = item
        e = g.edges[ei]
        # plain edges: directly and behind a WrappingMessageLogger (which freezes); idle-action pairs: behind the wrapper
        for wrapped in ((True,) if pre else (False, True)):
            im = _Impl(W, wrapped)
            hist = []
            deviated = False
            for pe in g.path_to(e["_s"]) + pre:
                im.apply(pe["act"])
                hist.append(pe["act"])
                if im.view() != pe["obs"]["view"]:
                    deviated = True     # reported where that edge is the last one of its own replay
                    break
            if deviated:
                continue
            r = im.apply(e["act"])
            hist.append(e["act"])
            n += 1
            act, obs = e["act"], e["obs"]
            bad = []
            exc = ""
            if act["n"] == "Log":
                res, exc = r
                if exc:
                    bad.append("log call raised")
                elif res != 2 and res != (1 if obs["res"] else 0):
                    bad.append("log result")
            elif act["n"] == "SetFilter":
                if (r[0] == "ok") != obs["res"]:
                    bad.append("set_filter accepts well-formed" if obs["res"] else "set_filter refuses ill-formed")
                    exc = r[1] if r[0] != "ok" else ""
            elif r[0] != "ok":
                bad.append(act["n"] + " raised")
                exc = r[1]
            v = im.view()
            if v != obs["view"]:
                bad.append("view")
            if not bad:
                continue
            flt = _FLTS[e["dst"]["flt"] - 1]
            ents = [_ENTS[i - 1] for i in e["dst"]["arr"]] + ([_ENTS[act["e"] - 1]] if act["n"] == "Log" else [])
            after_raise = any(pe["obs"].get("raises") for pe in g.path_to(e["_s"]) + pre + [e])
            if after_raise:
                cause = "unevaluable-entry-retention"     # an entry arrived while the filter in force raised on it
            else:
                exc = exc or _diagnose_filter(flt, ents)
                cause = _edge_cause(obs.get("hasx", False), exc)
            if _aliases_sender(v):
                cause = "logged-message-aliases-sender-object"     # the view shows the sender's object as it is NOW
            feats = {"kind": "log-edge", "act": act["n"], "what": bad[0], "cause": cause}
            agg.add("B1 log machine: %s differs from specification" % bad[0], feats,
                    {"history": [_act_text(a) for a in hist], "window": W, "behind_wrapping_logger": wrapped,
                     "spec_view": obs["view"], "impl_view": v, "spec_result": obs.get("res"), "impl_result": repr(r), "exc": exc})
    return n, agg.items()


def _act_text(a):
    if a["n"] == "Log":
        e = _ENTS[a["e"] - 1]
        return "log %s %s meta=%s blocks=%s" % (e["kind"], e["name"], [(m["key"], pyval(m["val"])) for m in e["meta"]],
                                                [(b["blk"], [(v["var"], val_repr(v["val"])) for v in b["vars"]]) for b in e["blocks"]])
    if a["n"] == "SetFilter":
        return "set_filter(%r)" % toks_text(_FLTS[a["f"] - 1])
    if a["n"] == "SetPaused":
        return "set_paused(%r)" % a["b"]
    return "clear()"


def _machine(chk: Check, agg: Agg, W, max_log, depth, use_ent, use_flt, label, pairs_mode=None):
    global _G, _W, _ENTS, _FLTS
    consts = _consts(W=W, MaxLog=max_log, Depth=depth, UseEnt=use_ent, UseFlt=use_flt)
    # the export run enumerates the same graph and checks the invariants on it
    cfg = ("SPECIFICATION MSpecLog\n" + consts + "CONSTRAINT Bound\n" + "".join("INVARIANT %s\n" % i for i in LOG_INVS)
           + "PROPERTY LogOnlyAppends\nPROPERTY LogAlwaysRetains\n")
    cfgp = os.path.join(chk.scratch, "mbt-%s.cfg" % label.replace(" ", "_"))
    with open(cfgp, "w") as f:
        f.write(cfg)
    res = common.run_tlc(os.path.join(common.SPECS, "FilterLog_MBT.tla"), cfgp, workers=1, scratch=chk.scratch, heap="8g")
    chk.require_model_ok(res, "FilterLog machine " + label)
    if not res.ok:
        return
    recs = res.printed()
    init = [r for r in recs if "init" in r][0]
    _ENTS, _FLTS = init["entries"], init["filters"]
    g = Graph(recs)
    _G, _W = g, W
    # + every (self-loop, following edge) pair: a paused log call, a refused filter text ... must not disturb hidden state
    pairs_mode = pairs_mode or ("reduced" if chk.tier == "quick" else "all")
    pairs = g.selfloop_pairs() if pairs_mode != "none" else []
    if pairs_mode == "reduced":
        # one idle log call per state (the paused log calls of a state differ only in the dropped entry)
        first_log = {}
        for i, _ in pairs:
            le = g.edges[i]
            if le["act"]["n"] == "Log":
                first_log[le["_s"]] = min(first_log.get(le["_s"], i), i)
        pairs = [(i, j) for i, j in pairs if g.edges[i]["act"]["n"] != "Log" or first_log[g.edges[i]["_s"]] == i]
    ids = g.reachable_edges() + pairs
    results = common.parallel_map(_replay_edges, common.chunked(ids, common.NCPU * 6))
    for n, items in results:
        chk.count(n)
        agg.extend(items)
    chk.cov["traces_validated_against_impl"] += 2 * len(ids) - len(pairs)
    chk.cov.setdefault("b1_edges_replayed", 0)
    chk.cov["b1_edges_replayed"] += 2 * len(ids) - len(pairs)
    chk.cov.setdefault("b1_selfloop_pairs_replayed", 0)
    chk.cov["b1_selfloop_pairs_replayed"] += len(pairs)
    for e in g.edges:
        if e["src"] != e["dst"]:
            chk.nontrivial(("edge", label, e["_s"], common.skey(e["act"])))
    e = g.edges[min(len(g.edges) - 1, 4321)]
    chk.sample({"binding": "B1 edge replay (window %d)" % W, "path": [_act_text(p["act"]) for p in g.path_to(e["_s"])] + [_act_text(e["act"])],
                "expected": e["obs"]})


# ----------------------------------------------------------------------------------------
# B2: generators (inputs only) and trace recording
# ----------------------------------------------------------------------------------------

def _iv(n):
    return {"ty": "int", "v": n}


def _sv(s, ty="str"):
    return {"ty": ty, "v": [ord(c) for c in s]}


NONE = {"ty": "none", "v": 0}
NOLIT = {"ty": "na", "v": 0}
_STRS = ["", "a", "b", "ab", "ba", "aab", "bb"]


def _rand_val(rng, with_vec, kinds=("int", "str", "bytes", "none", "vec")):
    k = rng.choice([k for k in kinds if with_vec or k != "vec"])
    if k == "int":
        return _iv(rng.randrange(0, 8))
    if k in ("str", "bytes"):
        return _sv(rng.choice(_STRS), k)
    if k == "vec":
        return {"ty": "vec", "v": [rng.randrange(0, 4) for _ in range(3)]}
    return NONE


def _rand_entry(rng, with_vec, kind=None):
    kind = kind or rng.choice(["LLUDP", "LLUDP", "EQ", "HTTP"])
    meta = [{"key": k, "val": _rand_val(rng, False, ("int", "str", "none"))} for k in ("Q", "R") if rng.random() < 0.7]
    blocks = []
    if kind != "HTTP":
        for _ in range(rng.randrange(0, 4)):
            names = [n for n in ("A", "B", "C") if rng.random() < 0.6]
            blocks.append({"blk": rng.choice(["Bar", "Baz"]), "vars": [{"var": n, "val": _rand_val(rng, with_vec), "subs": []} for n in names]})
        # a message groups its blocks by name: keep equal names adjacent so that the arrival order is the model's
        blocks.sort(key=lambda b: b["blk"])
    return {"kind": kind, "name": rng.choice(["Foo", "Foo", "Zed"]), "meta": meta, "blocks": blocks}


_SELS3 = [["Foo", "Bar", "A"], ["Foo", "*", "A"], ["*", "*", "*"], ["Foo", "Baz", "*"], ["LLUDP", "*", "B"], ["Zed", "Bar", "C"],
          ["*", "Bar", "B"]]
_ORD = ["<", "<=", ">", ">="]


def _rand_atom(rng, with_vec):
    """Stay inside FilterLog!InDomain for every entry of the same profile."""
    c = rng.random()
    if c < 0.2:
        return {"sel": [rng.choice(["Foo", "Zed", "*", "LLUDP", "EQ", "HTTP"])], "op": "", "lit": NOLIT}
    sel = ["Meta", rng.choice(["Q", "R", "Nope"])] if c < 0.45 else list(rng.choice(_SELS3))
    if rng.random() < 0.12:
        return {"sel": sel, "op": "", "lit": NOLIT}
    op = rng.choice(["==", "!=", "^=", "$=", "~=", "&"] + _ORD)
    if with_vec and op == "~=":
        op = "=="
    lit = _rand_val(rng, with_vec)
    if op == "~=" and lit["ty"] == "int":
        lit = _sv(rng.choice(_STRS))
    if with_vec and op in _ORD and lit["ty"] in ("str", "bytes"):
        lit = _iv(rng.randrange(0, 8))
    return {"sel": sel, "op": op, "lit": lit}


_CP = lambda t: [ord(c) for c in t]
_SUB_GLOBS = ["Position", "Velocity", "Acceleration", "AngularVelocity", "Rotation", "*", "*c*", "A*", "*Velocity", "*ion", "*x*", "*o*"]
_NO_ROT = {"Position", "Velocity", "Acceleration", "AngularVelocity", "*c*", "A*", "*Velocity", "*x*"}


def _rand_sub_entry(rng):
    """An ObjectUpdate whose ObjectData field unpacks to five named subfields (1-2 block instances)."""
    def vec():
        return {"ty": "vec", "v": [rng.choice([0, 1, 3])] * 3 if rng.random() < 0.7 else [rng.randrange(0, 4) for _ in range(3)]}
    blocks = []
    for _ in range(rng.choice([1, 1, 2])):
        subs = [{"sub": _CP("Position"), "val": vec()}, {"sub": _CP("Velocity"), "val": vec()}, {"sub": _CP("Acceleration"), "val": vec()},
                {"sub": _CP("Rotation"), "val": {"ty": "quat", "v": rng.choice([[0, 0, 0, 1], [1, 0, 0, 0], [0, 1, 0, 0]])}},
                {"sub": _CP("AngularVelocity"), "val": vec()}]
        blocks.append({"blk": "ObjectData", "vars": [{"var": "ObjectData", "val": {"ty": "packed", "v": 0}, "subs": subs}]})
    meta = [{"key": "Q", "val": _rand_val(rng, False, ("int", "str", "none"))}] if rng.random() < 0.5 else []
    return {"kind": "LLUDP", "name": "ObjectUpdate", "meta": meta, "blocks": blocks}


def _rand_sub_atom(rng):
    """Four-part selectors (kept inside FilterLog!InDomain: no ordered comparison that reaches the quaternion)."""
    c = rng.random()
    if c < 0.12:
        return {"sel": [rng.choice(["ObjectUpdate", "*", "Zed"])], "op": "", "lit": NOLIT}
    if c < 0.22:
        return {"sel": ["Meta", "Q"], "op": rng.choice(["==", "&"]), "lit": _iv(rng.randrange(0, 4))}
    g = rng.choice(_SUB_GLOBS)
    head = rng.choice([["ObjectUpdate", "ObjectData", "ObjectData"]] * 3 + [["*", "*", "*"], ["ObjectUpdate", "*", "ObjectData"], ["LLUDP", "ObjectData", "*"]])
    if rng.random() < 0.15:
        return {"sel": head + [_CP(g)], "op": "", "lit": NOLIT}
    vec = {"ty": "vec", "v": [rng.choice([0, 1, 2, 3])] * 3}
    op, lit = rng.choice([("==", vec), ("==", vec), ("!=", vec), ("<", vec), (">=", vec), (">", vec), ("&", _iv(1)), ("==", _iv(1)), ("<", _iv(2)),
                          ("^=", _sv("a")), ("==", NONE)])
    if op in _ORD and lit["ty"] == "vec" and g not in _NO_ROT:
        g = rng.choice(sorted(_NO_ROT))
    return {"sel": head + [_CP(g)], "op": op, "lit": lit}


def _rand_tokens(rng, depth, atoms):
    """A random sentence of the grammar (TLC parses it; no tree is built here)."""
    def expr(d):
        out = term(d)
        if d > 0 and rng.random() < 0.6:
            out += [[rng.choice(["&&", "||"])]] + expr(d - 1)
        return out

    def term(d):
        a = rng.choice(atoms)
        c = rng.random()
        if d == 0 or c < 0.35:
            if not a["op"] and rng.random() < 0.3:
                return [["!"], ["atom", a]]
            return [["atom", a]]
        pre = [["!"]] if rng.random() < 0.5 else []
        return pre + [["("]] + expr(d - 1) + [[")"]]
    return expr(depth)


def _mutate_tokens(rng, toks):
    toks = list(toks)
    c = rng.random()
    if c < 0.4 and toks:
        del toks[rng.randrange(len(toks))]
    elif c < 0.8:
        toks.insert(rng.randrange(len(toks) + 1), [rng.choice(["(", ")", "!", "&&", "||"])])
    else:
        rng.shuffle(toks)
    return toks


def _expr_traces(chk: Check, n_traces, per_trace, depth):
    rng = chk.rng
    traces = []
    for t in range(n_traces):
        with_vec = rng.random() < 0.4
        sub = t % 4 == 3            # every fourth trace: subfield (four-part) selectors on messages with unpackable fields
        atoms = [(_rand_sub_atom(rng) if sub else _rand_atom(rng, with_vec)) for _ in range(rng.randrange(2, 6))]
        evs = []
        for _ in range(per_trace):
            toks = _rand_tokens(rng, rng.randrange(0, depth + 1), atoms)
            tight, hexint = rng.random() < 0.25, rng.random() < 0.2
            text = toks_text(toks, tight, hexint)
            if rng.random() < 0.25:
                bad = _mutate_tokens(rng, toks)
                btext = toks_text(bad, tight, hexint)
                st, node = impl_call(compile_filter, btext)
                evs.append({"ev": "Parse", "i": len(evs), "toks": bad, "text": btext, "ok": st == "ok",
                            "shape": project_tree(node)[0] if st == "ok" else []})
            st, node = impl_call(compile_filter, text)
            evs.append({"ev": "Parse", "i": len(evs), "toks": toks, "text": text, "ok": st == "ok",
                        "shape": project_tree(node)[0] if st == "ok" else []})
            if st != "ok":
                continue
            leaves = [tk[1] for tk in toks if tk[0] == "atom"]
            for _ in range(3):
                e = _rand_sub_entry(rng) if sub else _rand_entry(rng, with_vec)
                stage = rng.choice(stages_for(e))
                s2, ent = impl_call(staged, e, stage)
                if s2 != "ok":
                    evs.append({"ev": "Same", "i": len(evs), "what": "stage-" + stage, "before": "ok", "after": ent, "e": e,
                                "bk": [], "bc": [], "ac": []})
                    continue
                sc = rng.random() < 0.5
                res, exc = verdict(node, ent, sc)
                lres = [verdict(compiled(atom_text(a))[1], ent, sc) for a in leaves]
                evs.append({"ev": "Match", "i": len(evs), "e": e, "toks": toks, "text": text, "sc": sc, "stage": stage, "res": res,
                            "leaf": [x[0] for x in lres], "exc": [exc] + [x[1] for x in lres]})
        traces.append(evs)
    return traces


def _walk_traces(chk: Check, n_walks, length, W):
    rng = chk.rng
    traces = []
    for t in range(n_walks):
        with_vec = rng.random() < 0.3
        sub = t % 5 == 4            # subfield selectors over messages with unpackable fields
        atoms = [(_rand_sub_atom(rng) if sub else _rand_atom(rng, with_vec)) for _ in range(4)] + [{"sel": ["*"], "op": "", "lit": NOLIT}]
        pool = [(_rand_sub_entry(rng) if sub else _rand_entry(rng, with_vec)) for _ in range(5)]
        im = _Impl(W, wrapped=rng.random() < 0.5)
        evs = []
        since_clear = []
        for _ in range(length):
            c = rng.random()
            if c < 0.58:
                e = rng.choice(pool)
                if not im.paused:
                    since_clear.append(e)
                res, exc = im.log(e)
                evs.append({"ev": "Log", "i": len(evs), "e": e, "ret": res, "raised": bool(exc), "exc": exc, "view": im.view()})
            elif c < 0.80:
                toks = _rand_tokens(rng, rng.randrange(0, 3), atoms)
                if rng.random() < 0.15:
                    toks = _mutate_tokens(rng, toks)
                elif rng.random() < 0.22:
                    # a filter whose evaluation raises (typo'd enum member), as a single atom.  set_filter does not
                    # swallow, so it is normally installed only when nothing logged since the last clear trips it
                    # (probed on the real filter; the specification decides legality on its own)
                    ra = {"sel": ["Meta", "Q"] if rng.random() < 0.3 else list(rng.choice(_SELS3 if not sub else [["ObjectUpdate", "ObjectData", "ObjectData"]])),
                          "op": rng.choice(["==", "!=", "<"]), "lit": BADENUM}
                    rt = [["atom", ra]]
                    trips = _diagnose_filter(rt, since_clear)
                    if not trips or rng.random() < 0.1:
                        toks = rt
                r = im.set_filter(toks)
                evs.append({"ev": "SetFilter", "i": len(evs), "toks": toks, "text": toks_text(toks), "res": "ok" if r[0] == "ok" else "raise",
                            "exc": r[1] if r[0] != "ok" else "", "view": im.view()})
                if r[0] != "ok" and not r[1].startswith("NoMatch"):
                    break       # set_filter raised while evaluating: the logger is left half-rebuilt, the walk ends
            elif c < 0.93:
                b = not im.paused
                im.set_paused(b)
                evs.append({"ev": "Pause", "i": len(evs), "on": b, "view": im.view()})
            else:
                im.clear()
                since_clear = []
                evs.append({"ev": "Clear", "i": len(evs), "view": im.view()})
        traces.append(evs)
    return traces


# ---- preservation of the logged message (freeze/thaw, export/import): projections ----------

def canon(x):
    """Canonical, type-tagged but container-insensitive text of a value (tuple / list / vector alike)."""
    import uuid
    from hippolyzer.lib.base.datatypes import TupleCoord
    if isinstance(x, bool):
        return "b%d" % x
    if isinstance(x, int):
        return "i%d" % x
    if isinstance(x, float):
        return "r" + struct.pack("<d", x).hex()
    if isinstance(x, str):
        return "s" + json.dumps(x)
    if isinstance(x, (bytes, bytearray)):
        return "x" + bytes(x).hex()
    if x is None:
        return "~"
    if isinstance(x, uuid.UUID):
        return "u" + str(x)
    if isinstance(x, TupleCoord):
        return "[" + ",".join(canon(float(c)) for c in x) + "]"
    if isinstance(x, (list, tuple)):
        return "[" + ",".join(canon(c) for c in x) + "]"
    if isinstance(x, dict):
        return "{" + ",".join(json.dumps(str(k)) + ":" + canon(x[k]) for k in sorted(x, key=str)) + "}"
    return "?" + type(x).__name__ + ":" + str(x)


def proj_message(msg, ser):
    st, wire = impl_call(lambda: bytes(ser.serialize(msg)).hex()) if ser is not None else ("ok", "-")
    body = [[bn, i, [[vn, canon(v)] for vn, v in blk.items()]] for bn, bl in msg.blocks.items() for i, blk in enumerate(bl)]
    return json.dumps({"lists": [[bn, len(bl)] for bn, bl in msg.blocks.items()], "name": msg.name, "dir": msg.direction.name, "pid": -1 if msg.packet_id is None else msg.packet_id,
                       "flags": int(msg.send_flags), "acks": [int(a) for a in msg.acks], "extra": bytes(msg.extra).hex(),
                       "dropped": bool(msg.dropped), "synthetic": bool(msg.synthetic), "meta": canon(msg.meta), "body": body,
                       "wire": wire if st == "ok" else "unserializable"}, sort_keys=True)


def proj_entry(ent, ser=None):
    head = [ent.type, ent.name, ent.method, canon({k: v for k, v in ent.meta.items()})]
    if isinstance(ent, ml.LLUDPMessageLogEntry):
        return json.dumps([head, ent.seq if ent.seq is not None else -1, proj_message(ent.message, ser)])
    if isinstance(ent, ml.EQMessageLogEntry):
        return json.dumps([head, canon(ent.event)])
    rq, rs = ent.flow.request, ent.flow.response
    return json.dumps([head, rq.method, rq.url, canon([list(p) for p in rq.headers.fields]), canon(rq.content), rs.status_code,
                       canon([list(p) for p in rs.headers.fields]), canon(rs.content), canon(ent.flow.cap_data and ent.flow.cap_data.cap_name),
                       bool(ent.flow.request_injected)])


def _f32(rng):
    return struct.unpack("<f", struct.pack("<f", rng.choice([0.0, 1.0, -1.0, 0.5, 128.25, 1e-3, 3.14159, rng.uniform(-256, 256)])))[0]


def _rand_field(rng, var):
    from hippolyzer.lib.base.datatypes import Vector3 as V3, Vector4, Quaternion, UUID
    from hippolyzer.lib.base.message.msgtypes import MsgType as T
    import uuid
    t = var.type
    ints = {T.MVT_U8: (0, 255), T.MVT_U16: (0, 65535), T.MVT_U32: (0, 2 ** 32 - 1), T.MVT_U64: (0, 2 ** 64 - 1), T.MVT_S8: (-128, 127),
            T.MVT_S16: (-32768, 32767), T.MVT_S32: (-2 ** 31, 2 ** 31 - 1), T.MVT_S64: (-2 ** 63, 2 ** 63 - 1), T.MVT_IP_PORT: (0, 65535)}
    if t in ints:
        lo, hi = ints[t]
        return rng.choice([lo, hi, 0, 1, rng.randint(lo, hi)]) if lo < 0 or rng.random() < 0.5 else rng.randint(0, min(hi, 1000))
    if t == T.MVT_F32:
        return _f32(rng)
    if t == T.MVT_F64:
        return rng.choice([0.0, 1.5, -2.25, rng.uniform(-1e6, 1e6)])
    if t == T.MVT_LLVector3:
        return V3(_f32(rng), _f32(rng), _f32(rng))
    if t == T.MVT_LLVector3d:
        return V3(rng.uniform(-1e5, 1e5), 2.5, -1.0)
    if t == T.MVT_LLVector4:
        return Vector4(_f32(rng), _f32(rng), _f32(rng), _f32(rng))
    if t == T.MVT_LLQuaternion:
        return Quaternion(0.0, 0.0, 0.0, 1.0) if rng.random() < 0.5 else Quaternion(0.5, 0.5, 0.5, 0.5)
    if t == T.MVT_LLUUID:
        return UUID(int=rng.getrandbits(128)) if rng.random() < 0.8 else UUID(int=0)
    if t == T.MVT_BOOL:
        return rng.random() < 0.5
    if t == T.MVT_IP_ADDR:
        return "%d.%d.%d.%d" % tuple(rng.randrange(256) for _ in range(4))
    if t == T.MVT_FIXED:
        return bytes(rng.randrange(256) for _ in range(var.size))
    if t == T.MVT_VARIABLE:
        n = rng.choice([0, 1, 5, 20])
        if var.probably_text and rng.random() < 0.7:
            return "".join(rng.choice("abc xyz") for _ in range(n))
        return bytes(rng.randrange(256) for _ in range(n))
    raise common.MachineryError("unknown template variable type %r" % (t,))


EMPTY_CASES = ("only-block", "trailing", "before-populated", "all-variable-blocks-empty")


def _templates_for_empty_case(case):
    """Templates in which a zero-entry Variable block can sit in the wanted position (input construction)."""
    from hippolyzer.lib.base.message.template_dict import DEFAULT_TEMPLATE_DICT
    from hippolyzer.lib.base.message.msgtypes import MsgBlockType
    out = []
    for name in sorted(DEFAULT_TEMPLATE_DICT.message_templates):
        bl = DEFAULT_TEMPLATE_DICT.message_templates[name].blocks
        var = [i for i, b in enumerate(bl) if b.block_type == MsgBlockType.MBT_VARIABLE]
        if not var:
            continue
        if case == "only-block" and len(bl) == 1:
            out.append((name, {bl[0].name}))
        elif case == "trailing" and len(bl) > 1 and var[-1] == len(bl) - 1:
            # every Variable block of the trailing run may be empty; keep something populated before it
            k = len(bl) - 1
            while k - 1 in var and k - 1 > 0:
                k -= 1
            out.append((name, {b.name for b in bl[k:]}))
        elif case == "before-populated" and var[0] < len(bl) - 1:
            out.append((name, {bl[var[0]].name}))
        elif case == "all-variable-blocks-empty" and len(var) >= 2:
            out.append((name, {bl[i].name for i in var}))
    return out


def block_counts(msg):
    """Projection: per template block, the number of entries of the message's block list (-1: no such list)."""
    from hippolyzer.lib.base.message.template_dict import DEFAULT_TEMPLATE_DICT
    tmpl = DEFAULT_TEMPLATE_DICT.message_templates.get(msg.name)
    if tmpl is None:
        return [], []
    kinds = ["S", "M", "V"]
    return ([kinds[tb.block_type] for tb in tmpl.blocks],
            [len(msg.blocks[tb.name]) if tb.name in msg.blocks else -1 for tb in tmpl.blocks])


def _rand_template_message(rng, names, empty_case=None):
    from hippolyzer.lib.base.message.template_dict import DEFAULT_TEMPLATE_DICT
    from hippolyzer.lib.base.message.msgtypes import MsgBlockType
    from hippolyzer.lib.base.network.transport import Direction
    zero = set()
    if empty_case:
        name, zero = rng.choice(_templates_for_empty_case(empty_case))
        tmpl = DEFAULT_TEMPLATE_DICT.message_templates[name]
    else:
        tmpl = DEFAULT_TEMPLATE_DICT.message_templates[rng.choice(names)]
    blocks = []      # in template order; a zero-entry Variable block is a present but empty block list
    for tb in tmpl.blocks:
        if tb.block_type == MsgBlockType.MBT_SINGLE:
            n = 1
        elif tb.block_type == MsgBlockType.MBT_MULTIPLE:
            n = tb.number
        elif tb.name in zero:
            n = 0
        else:
            n = rng.randrange(1, 4)
        blocks.append((tb.name, [Block(tb.name, **{v.name: _rand_field(rng, v) for v in tb.variables}) for _ in range(n)]))
    flags = rng.choice([0, 0x40, 0x80, 0xC0, 0x20, 0x40 | 0x10])
    acks = tuple(rng.randrange(1, 1000) for _ in range(rng.randrange(1, 4))) if flags & 0x10 else None
    msg = Message(tmpl.name, packet_id=rng.randrange(1, 2 ** 31), flags=flags, acks=acks,
                  direction=rng.choice([Direction.IN, Direction.OUT]))
    for bname, bl in blocks:
        msg.create_block_list(bname)
        for b in bl:
            msg.add_block(b)
    if rng.random() < 0.3:
        msg.meta["Note"] = rng.choice(["x", 7])
    return msg


def _preserve_traces(chk: Check, n_lludp, n_other):
    """Freeze/thaw and export/import of generated entries; TLC compares the projections."""
    from hippolyzer.lib.base.message.template_dict import DEFAULT_TEMPLATE_DICT
    from hippolyzer.lib.base.message.udpserializer import UDPMessageSerializer
    from hippolyzer.lib.base.message.udpdeserializer import UDPMessageDeserializer
    from hippolyzer.lib.base.settings import Settings
    rng = chk.rng
    ser = UDPMessageSerializer()
    desers = []
    for deferred in (True, False):
        s = Settings()
        s.ENABLE_DEFERRED_PACKET_PARSING = deferred
        desers.append(UDPMessageDeserializer(settings=s))
    names = sorted(DEFAULT_TEMPLATE_DICT.message_templates)
    traces, evs = [], []
    skipped = 0

    def record(what, before, fn, bk=(), bc=(), cfn=None):
        """`fn` -> projection text after the round trip; `cfn` -> the message whose block lists are counted."""
        st, after = impl_call(fn)
        ac = []
        if st == "ok" and cfn is not None:
            st2, m = impl_call(cfn)
            ac = block_counts(m)[1] if st2 == "ok" else []
        evs.append({"ev": "Same", "i": len(evs), "what": what, "before": before, "after": after if st == "ok" else "raised " + after,
                    "bk": list(bk), "bc": list(bc), "ac": ac})

    made = 0
    attempts = 0
    n_empty = collections.Counter()
    while made < n_lludp and attempts < n_lludp * 4:
        attempts += 1
        # every third message carries zero-entry Variable blocks, cycling through the positions
        empty_case = EMPTY_CASES[(attempts // 3) % 4] if attempts % 3 == 0 else None
        msg = _rand_template_message(rng, names, empty_case)
        st, wire = impl_call(lambda: bytes(ser.serialize(msg)))
        if st != "ok" or len(wire) > 1200:
            skipped += 1      # not a loggable message of this driver (codec limits are C01's subject)
            continue
        src = rng.choice(["built", "parsed-deferred", "parsed"])
        de = desers[0 if src == "parsed-deferred" else 1]
        # twins: the logged message is never touched by the projections (it stays unparsed if deferred)
        st, tw = impl_call(lambda: [de.deserialize(wire) for _ in range(3)])
        if st != "ok":
            skipped += 1
            continue
        for m in tw:
            m.direction = msg.direction
        st, rewire = impl_call(lambda: (tw[2].blocks, bytes(ser.serialize(tw[2])))[1])
        if st != "ok" or rewire != wire:
            skipped += 1      # parse -> serialize is not the identity on this datagram: C01/C02's subject, not a loggable input here
            continue
        if src == "built":
            logged, twin1, twin2 = msg, msg, msg
        else:
            logged, twin1, twin2 = tw
        st, before = impl_call(proj_message, twin1, ser)
        if st != "ok" or '"wire": "unserializable"' in before:
            skipped += 1
            continue
        made += 1
        if empty_case:
            n_empty[empty_case + "/" + src] += 1
        bk, bc = block_counts(twin1)
        ent = ml.LLUDPMessageLogEntry(logged, None, None)
        ebefore = proj_entry(ml.LLUDPMessageLogEntry(twin2, None, None), ser)
        st, r = impl_call(ent.freeze)
        if st != "ok":
            evs.append({"ev": "Same", "i": len(evs), "what": "freeze", "before": before, "after": "raised " + r, "bk": bk, "bc": bc, "ac": []})
        else:
            record("freeze", before, lambda: proj_message(ent.message, ser), bk, bc, lambda: ent.message)
            record("freeze-entry", ebefore, lambda: proj_entry(ent, ser), bk, bc, lambda: ent.message)
        record("export", ebefore, lambda: proj_entry(ml.import_log_entries(ml.export_log_entries([ent]))[0], ser), bk, bc,
               lambda: ml.import_log_entries(ml.export_log_entries([ent]))[0].message)
        chk.nontrivial(("preserve", made))
        if len(evs) >= 24:
            traces.append(evs)
            evs = []
    for k in range(n_other):
        e = _rand_entry(rng, True, kind=rng.choice(["EQ", "HTTP", "LLUDP"]))
        ent = build_entry(e, k)
        before = proj_entry(ent)
        st, r = impl_call(ent.freeze)
        if st != "ok":
            evs.append({"ev": "Same", "i": len(evs), "what": "freeze", "before": before, "after": "raised " + r, "bk": [], "bc": [], "ac": []})
        else:
            record("freeze-entry", before, lambda: proj_entry(ent))
        record("export", before, lambda: proj_entry(ml.import_log_entries(ml.export_log_entries([ent]))[0]))
        chk.nontrivial(("preserve-other", k))
        if len(evs) >= 24:
            traces.append(evs)
            evs = []
    if evs:
        traces.append(evs)
    # several entries through one export (the list and its order are part of the claim)
    for k in range(max(2, n_other // 10)):
        es = [_rand_entry(rng, True) for _ in range(rng.randrange(2, 6))]
        ents = [build_entry(e, i) for i, e in enumerate(es)]
        before = json.dumps([proj_entry(x) for x in ents])
        st, after = impl_call(lambda: json.dumps([proj_entry(x) for x in ml.import_log_entries(ml.export_log_entries(ents))]))
        traces.append([{"ev": "Same", "i": 0, "what": "export-list", "before": before, "after": after if st == "ok" else "raised " + after,
                        "bk": [], "bc": [], "ac": []}])
    chk.notes.append("preservation driver: %d generated template messages skipped before logging (not serializable / too long)" % skipped)
    chk.cov.setdefault("preserved_messages_with_zero_entry_variable_block", {})
    for k, v in sorted(n_empty.items()):
        chk.cov["preserved_messages_with_zero_entry_variable_block"][k] = chk.cov["preserved_messages_with_zero_entry_variable_block"].get(k, 0) + v
    if n_lludp >= 100 and len({k.split("/")[0] for k in n_empty}) < 4:
        raise common.MachineryError("preservation driver produced no message for some zero-entry block position: %r" % dict(n_empty))
    return traces


def _preserve_cause(before, after):
    """Classification only: what kind of difference is it?"""
    after = str(after)
    if after.startswith("raised "):
        return "raised"
    import re
    xs = re.findall(r'\\"(x[0-9a-f]*)\\"', before)
    ls = re.findall(r'\\"(\[(?:i\d+,?)*\])\\"', after)
    if ls and len(xs) > len(re.findall(r'\\"(x[0-9a-f]*)\\"', after)):
        return "bytes-field-becomes-int-list"
    return "differs"


def _b2(chk: Check, agg: Agg, traces, W, label):
    if not traces:
        return
    shards = 4 if chk.tier == "quick" else 12
    cfg = "SPECIFICATION TraceSpec\n" + _consts(W=W) + "POSTCONDITION TraceAccepted\nCHECK_DEADLOCK FALSE\n"
    slim = [[{k: v for k, v in ev.items() if k not in ("exc", "text")} for ev in t] for t in traces]
    acc, rej, results = common.validate_traces("FilterLog_Trace", cfg, slim, chk.scratch, shards=shards,
                                               tag="".join(c for c in label if c.isalnum()))
    fails = {}
    for r in results:
        chk.add_tlc(r, "FilterLog_Trace " + label)
        for rec in r.printed():
            if isinstance(rec, dict) and "fail" in rec:
                fails.setdefault((rec["tid"], rec["i"]), []).append(rec)
    chk.cov["traces_validated_against_impl"] += len(traces)
    chk.count(sum(len(t) for t in traces))
    for ti, j, ev in rej:
        agg.add("B2 %s: trace rejected by FilterLog_Trace at event %d (%s)" % (label, j, ev.get("ev")),
                {"kind": "b2-reject", "label": label, "event": ev.get("ev")}, {"rejected": common._clip(ev)})
    first_walk_fail = {}
    for (tid, i) in fails:
        if traces[tid][i]["ev"] in ("Log", "SetFilter", "Pause", "Clear"):
            first_walk_fail[tid] = min(i, first_walk_fail.get(tid, i))
    for (tid, i), fl in sorted(fails.items()):
        ev = traces[tid][i]
        if ev["ev"] in ("Log", "SetFilter", "Pause", "Clear") and first_walk_fail[tid] != i:
            continue        # the implementation's state already left the specification's: fallout of the first mismatch
        clause = fl[0]["fail"]
        if ev["ev"] == "Match":
            leaf_fails = [f for f in fl if f["fail"].startswith("Match.atom")]
            if leaf_fails:
                f = leaf_fails[0]
                a = [tk[1] for tk in ev["toks"] if tk[0] == "atom"][f["k"] - 1]
                feats = atom_features(a, ev["leaf"][f["k"] - 1], ev["exc"][f["k"]], "inapplicable" in f["fail"], ev["stage"], "random-filter")
                clause = f["fail"]
            else:
                feats = {"kind": "node", "cause": "boolean-structure", "clause": clause, "short_circuit": ev["sc"]}
            agg.add("B2 %s: %s" % (label, clause), feats,
                    {"filter": ev["text"], "entry": ev["e"], "short_circuit": ev["sc"], "stage": ev["stage"], "impl": ev["res"],
                     "impl_atoms": ev["leaf"], "exc": [x for x in ev["exc"] if x][:2], "failed_clauses": [f["fail"] for f in fl]})
        elif ev["ev"] == "Parse":
            agg.add("B2 %s: %s" % (label, clause), {"kind": "grammar", "cause": {"Parse.accepts": "refused-well-formed" if not ev["ok"] else "accepted-ill-formed"}.get(clause, "grouping"),
                                                    "le_ge": _has_le_ge(ev["toks"])},
                    {"filter": ev["text"], "impl_ok": ev["ok"], "impl_shape": ev["shape"]})
        elif ev["ev"] == "Same":
            agg.add("B2 %s: %s" % (label, clause), {"kind": "preserve", "what": ev["what"],
                                                    "cause": ("zero-entry-block-list-lost" if "zero-entry-variable-block" in clause and ev["ac"] != ev["bc"]
                                                              else _preserve_cause(ev["before"], ev["after"]))},
                    {"before": ev["before"][:1500], "after": str(ev["after"])[:1500], "entry": ev.get("e")})
        else:
            hasx = any("inapplicable-comparison-in-force" in f["fail"] for f in fl)
            unev = any("entry-logged-while-filter-raised" in f["fail"] for f in fl)
            exc = ev.get("exc", "")
            if not exc:
                # classification only: does the filter now in force raise on an entry of this walk?
                flt = next((p["toks"] for p in reversed(traces[tid][:i + 1]) if p["ev"] == "SetFilter" and p["res"] == "ok"), None)
                if flt is not None:
                    exc = _diagnose_filter(flt, [p["e"] for p in traces[tid][:i + 1] if p["ev"] == "Log"])
            feats = {"kind": "log-walk", "act": ev["ev"], "what": clause.split("[")[0],
                     "cause": ("logged-message-aliases-sender-object" if _aliases_sender(ev.get("view"))
                               else "unevaluable-entry-retention" if unev else _edge_cause(hasx, exc))}
            if feats["cause"] == "refused-well-formed":
                feats["le_ge"] = _has_le_ge(ev.get("toks", []))
            agg.add("B2 walk: %s" % clause.split("[")[0], feats,
                    {"failed_clauses": [f["fail"] for f in fl], "exc": exc, "window": W,
                     "history": [_ev_text(p) for p in traces[tid][:i + 1]][-14:], "impl_view": ev.get("view")})
    return fails


def _ev_text(p):
    if p["ev"] == "Log":
        e = p["e"]
        return "log %s %s meta=%s blocks=%s -> %s" % (e["kind"], e["name"], [(m["key"], pyval(m["val"])) for m in e["meta"]],
                                                    [(b["blk"], [(v["var"], val_repr(v["val"])) for v in b["vars"]]) for b in e["blocks"]], p["view"])
    if p["ev"] == "SetFilter":
        return "set_filter(%r) %s -> %s" % (p["text"], p["res"], p["view"])
    if p["ev"] == "Pause":
        return "set_paused(%r) -> %s" % (p["on"], p["view"])
    return "clear() -> %s" % (p["view"],)


# ----------------------------------------------------------------------------------------

def run(chk: Check):
    _imports()
    chk.cov["rule"] = (
        "B3: every TLC-printed row replayed through compile_filter/.match with short_circuit on and off on fresh, thawed and "
        "re-imported entries (atom rows: every operator x field value x literal, selector x field layout; tree rows: every "
        "expression tree up to the depth bound in both renderings, every node compared on all T/F/inapplicable valuations (fresh "
        "entries; the root on thawed and re-imported ones); token "
        "rows: every token string up to the length bound). non-trivial = atom rows that are true or inapplicable, trees/parses with "
        "an operator. B1: every edge of the bounded log machine replayed twice (plain, behind WrappingMessageLogger); non-trivial = "
        "edges that change the abstract state. B2: random filters/entries/walks/preservation records validated by TLC.")
    chk.assumptions += [
        "value domain: ints 0..7, str/bytes over {a,b}, None, 3-vectors; literals as the grammar allows; patterns are a name or '*'",
        "out of domain (FilterLog!InDomain): `~=` on vector fields or with an int literal on bytes (Python membership), ordered "
        "comparison of a vector with a text literal or of a quaternion with a vector/text literal (zip truncation), comparisons against "
        "the packed bytes of a field that has a subfield serializer; Meta.x.y, enum and Meta.* compare values",
        "four-part selectors select the named subfields a field unpacks to (bound through ObjectUpdate.ObjectData.ObjectData and "
        "ImprovedTerseObjectUpdate.ObjectData.Data; the fourth component is an exact name or a '*' glob); a field whose unpacked "
        "value is not a mapping has no selectable subfields",
        "a bare three-part selector asks for the presence of the field; a bare Meta selector for its truthiness (as the code documents)",
        "an ill-formed filter text is refused by set_filter and changes nothing",
        "filters whose evaluation raises (a compare value naming a missing enum member) are single atoms in the history model; "
        "set_filter does not swallow, so installing one is legal only when it can be evaluated on every retained entry "
        "(FilterLog!SetFilterLegal, a guard); in walks an illegal one must raise and ends the walk; Log always retains",
        "re-imported entries are compared through filters only when they hold no vector field (LLSD has no vector type), and through "
        "a container-insensitive canonical projection + the serialized datagram for the logged message",
        "entries are tagged through packet_id / event body / request path to recognise them in list(logger)",
        "behind the WrappingMessageLogger the driver sends every LLUDP message through ONE re-used Message object and overwrites "
        "its name, fields, metadata and packet id right after each send (FilterLog!Mutate: no effect on the log); EQ events and "
        "HTTP flows are not mutated (their entries keep a reference to the caller's object; see report)",
    ]
    agg = Agg()
    quick = chk.tier == "quick"
    import time
    t0 = [time.time()]

    def lap(name):
        chk.notes.append("phase %s: %.1fs" % (name, time.time() - t0[0]))
        t0[0] = time.time()
    # ---- part 1: expression semantics
    join_mc = None
    if not quick:
        join_mc = _tables(chk, agg, "EQ2", 3, 1, ("tree",), "two atoms, depth 3 (model only)", mc_only=True)
    _tables(chk, agg, "LLUDP", 2, 4 if quick else 6, ("tree", "atom", "toks"), "LLUDP d2")
    _tables(chk, agg, "EQ", 1 if quick else 2, 1, ("tree",), "EQ")
    _tables(chk, agg, "HTTP", 1 if quick else 2, 1, ("tree",), "HTTP")
    lap("tables")
    # ---- part 2: the log machine
    if quick:
        _machine(chk, agg, 2, 4, 6, "{1,2,3,4}", "{1,2,3,5,6,8}", "W2")      # 8: raises on the LLUDP entries
        _machine(chk, agg, 1, 3, 6, "{1,2,4}", "{1,2,4,7,9}", "W1")          # 7: ill-formed text, 9: raises on every entry
    else:
        _machine(chk, agg, 2, 4, 9, "{1,2,3,4}", "{1,2,3,4,5,6,7,8}", "W2", pairs_mode="reduced")
        _machine(chk, agg, 1, 4, 7, "{1,2,3,4}", "{1,2,4,5,7,8,9}", "W1", pairs_mode="reduced")
        _machine(chk, agg, 3, 5, 7, "{1,2,4}", "{1,2,4,5,8,9}", "W3", pairs_mode="reduced")
        _machine(chk, agg, 2, 5, 6, "{1,2,3,4}", "{1,2,3,4,5,6,8}", "W2 five entries", pairs_mode="none")
    lap("machine")
    # ---- part 3: code -> spec
    n = 1 if quick else 8
    _b2(chk, agg, _expr_traces(chk, 40 * n, 6, 4) + _preserve_traces(chk, 120 * n, 60 * n), 2, "random filters + preservation")
    for W in ((1, 3) if quick else (1, 2, 3, 5)):
        _b2(chk, agg, _walk_traces(chk, 30 * n, 40, W), W, "walks W%d" % W)
    lap("traces")
    if join_mc:
        join_mc()
        lap("join depth-3 model run")
    agg.flush(chk)
    chk.cov["exhaustive"] = True
