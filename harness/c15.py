"""C15 — intercepted HTTP flows are handed back exactly once, state intact (HttpFlow.tla).

B1: every edge of the bounded model (one flow through request and response interception,
all scripted addon behaviours x fault positions x late addon calls x proxy-side applies) is
replayed into the real IPCInterceptionAddon / MITMProxyEventManager / HippoHTTPFlow /
AddonManager with the two multiprocessing queues replaced by in-process queues that pickle
every item, and the whole observable state (queue items, proxy-side flow, main-side flow)
is compared with the specification's target state.
B2: random multi-flow runs with generated URLs / bodies over shared queues; every flow's
events are recorded with digests of the complete request/response and validated by TLC.
"""
from __future__ import annotations

import asyncio
import gc
import hashlib
import os
import pickle
import queue
import re

from . import common
from .common import Check, Graph

KINDS = ["none", "login", "normal", "seed", "eq", "upload", "temp", "asset", "wrapper", "proxyonly"]
BEHAVIOURS = ["ignore", "take", "takeResume", "resume", "inject", "rewrite", "nostream", "raise", "takeRaise", "handled",
              "clearcap", "setcap"]
MIRROR_URL = "https://mirror.test/mirrored/path?m=1"
REGION_ADDRS = {1: ("127.0.0.1", 13001), 2: ("127.0.0.1", 13002)}
ADDON_URL = "https://rewritten-by-addon.test/elsewhere?x=1"
ASSET_URL = "http://asset-cdn.test/viewerasset"
UNKNOWN_URL = "https://unknown.test/some/path"
LOGIN_URL = "https://login.grid.test/cgi-bin/login.cgi"
SERVER_MARK = "X-Verif-Server"
BAD_LLSD = b"<llsd><map><key>oops"


class ScriptedRaise(Exception):
    pass


def _raising_subscriber(_flow):
    raise ScriptedRaise("subscriber")


def _idle_subscriber(_flow):
    return None


# ----------------------------------------------------------------------------------------
# the process boundary: queues that pickle every item (what multiprocessing.Queue does),
# without processes or sleeps.  `gate` lets the driver release items one at a time to the
# real _pump_callbacks loop.
# ----------------------------------------------------------------------------------------
class PickleQueue:
    def __init__(self, gated=False):
        self.items = []
        self.gated = gated
        self.budget = 0
        self.polls = 0
        self.on_put = None

    def put(self, obj, block=True, timeout=None):
        data = pickle.dumps(obj)
        if self.on_put and self.on_put(obj) == "drop":
            return          # an item for a flow the driver does not track further (counted by on_put)
        self.items.append(data)

    def get(self, block=True, timeout=None):
        self.polls += 1
        if not self.items or (self.gated and self.budget <= 0):
            raise queue.Empty()
        self.budget -= 1
        return pickle.loads(self.items.pop(0))

    def empty(self):
        return not self.items

    def clear(self):
        self.items.clear()
        self.budget = 0


class _Flag:
    def __init__(self):
        self.f = False

    def is_set(self):
        return self.f

    def set(self):
        self.f = True


class FlowContext:
    """Stand-in for http_proxy.HTTPFlowContext (same four public attributes)."""

    def __init__(self):
        self.from_proxy_queue = PickleQueue()
        self.to_proxy_queue = PickleQueue(gated=True)
        self.shutdown_signal = _Flag()
        self.mitmproxy_ready = _Flag()


class _Master:
    """Stands in for mitmproxy's master + client playback (needs a full mitmproxy master): like the real
    thing it marks a flow handed to replay.client as a replay, forgets its response and feeds it through
    the proxy-side request hook like any other request."""

    def __init__(self):
        self.commands = self
        self.replayed = []

    def call(self, command, flows):
        if command != "replay.client":
            raise common.MachineryError("unexpected mitmproxy command " + str(command))
        for flow in flows:
            flow.is_replay = "request"
            flow.response = None
            self.replayed.append(flow)
            Runtime.current.proxy.request(flow)

    def shutdown(self):
        pass


# ----------------------------------------------------------------------------------------
# per-process runtime: one event loop, one proxy-side addon with its real callback pump
# ----------------------------------------------------------------------------------------
class Runtime:
    def __init__(self):
        import mitmproxy.ctx
        from hippolyzer.lib.proxy import http_flow
        from hippolyzer.lib.proxy.http_proxy import SLMITMAddon
        self.loop = asyncio.new_event_loop()
        asyncio.set_event_loop(self.loop)
        self.ctx = FlowContext()
        self.proxy = SLMITMAddon(self.ctx)
        self.master = _Master()
        mitmproxy.ctx.master = self.master
        self.pump_task = None
        # reflection bridge (observation only): remember the main-process flow objects that
        # pump_proxy_event builds, so their public attributes can be read at hand-back time
        self.built = {}
        cls = http_flow.HippoHTTPFlow
        if not getattr(cls, "_verif_wrapped", False):
            orig = cls.from_state.__func__

            def from_state(klass, flow_state, session_manager):
                fl = orig(klass, flow_state, session_manager)
                Runtime.current.built[fl.id] = fl
                Runtime.current.last_built = fl
                return fl
            cls.from_state = classmethod(from_state)
            cls._verif_wrapped = True
        Runtime.current = self
        self.last_built = None
        # everything imported so far lives forever: keep it out of the collections that
        # World.close_session triggers (worlds are created after this point and stay collectable)
        import hippolyzer.lib.proxy.http_event_manager  # noqa: F401
        import mitmproxy.test.tflow  # noqa: F401
        gc.collect()
        gc.freeze()

    async def start_pump(self):
        if self.pump_task is None:
            self.pump_task = self.loop.create_task(self.proxy._pump_callbacks())
            await asyncio.sleep(0)

    async def apply_one(self):
        """Let the real _pump_callbacks loop consume exactly one item."""
        q = self.ctx.to_proxy_queue
        await self.start_pump()
        q.budget = 1
        n = len(q.items)
        for _ in range(20000):
            if len(q.items) < n:
                break
            await asyncio.sleep(0.0002)
        else:
            raise common.MachineryError("proxy callback pump did not consume an item")
        p = q.polls
        for _ in range(20000):
            if q.polls > p:
                break
            await asyncio.sleep(0.0002)
        else:
            raise common.MachineryError("proxy callback pump did not come back")
        if self.pump_task.done():
            raise common.MachineryError("proxy callback pump died: %r" % (self.pump_task.exception(),))

    async def idle_poll(self):
        """HttpFlow!IdlePoll: the real _pump_callbacks loop wakes up and gets queue.Empty (the gate
        is shut, so also while an item waits), one whole iteration including its finally."""
        q = self.ctx.to_proxy_queue
        await self.start_pump()
        q.budget = 0
        p = q.polls
        for _ in range(20000):
            if q.polls >= p + 2:
                break
            await asyncio.sleep(0.0003)
        else:
            raise common.MachineryError("proxy callback pump does not poll")
        if self.pump_task.done():
            raise common.MachineryError("proxy callback pump died: %r" % (self.pump_task.exception(),))

    def reset(self):
        self.ctx.from_proxy_queue.clear()
        self.ctx.to_proxy_queue.clear()
        self.ctx.to_proxy_queue.on_put = None
        self.built.clear()
        self.last_built = None
        self.proxy.flows.clear()
        self.master.replayed.clear()


_RT = None


def runtime() -> Runtime:
    global _RT
    if _RT is None or _RT.pid != os.getpid():
        _RT = Runtime()
        _RT.pid = os.getpid()
    return _RT


# ----------------------------------------------------------------------------------------
# world: two sessions with two regions each (same circuit addresses in both sessions),
# one URL per (cap kind, session, region)
# ----------------------------------------------------------------------------------------
class Logger:
    paused = False

    def __init__(self, raising):
        self.raising = raising
        self.calls = 0

    def log_http_response(self, flow):
        self.calls += 1
        if self.raising:
            raise ScriptedRaise("logger")

    def log_lludp_message(self, *a):
        pass

    def log_eq_event(self, *a):
        pass


class Scripted:
    """An addon object whose hook performs one scripted behaviour."""

    def __init__(self, world, idx):
        self.world = world
        self.idx = idx
        self.behaviour = "ignore"

    def _act(self, flow):
        import mitmproxy.http
        b = self.behaviour
        self.world.hook_calls += 1
        if flow.id != self.world.cur_flow_id:
            return None     # the script is about one flow; other flows in the queue pass untouched
        if b == "ignore":
            return None
        if b == "take":
            flow.take()
        elif b == "takeResume":
            flow.take()
            flow.resume()
        elif b == "resume":
            flow.resume()
        elif b == "inject":
            flow.response = mitmproxy.http.Response.make(299, b"ADDON", {"X-Verif-Addon": "1"})
        elif b == "rewrite":
            flow.request.url = ADDON_URL
        elif b == "nostream":
            flow.can_stream = False
        elif b == "raise":
            raise ScriptedRaise("hook")
        elif b == "takeRaise":
            flow.take()
            raise ScriptedRaise("hook after take")
        elif b == "handled":
            return True
        elif b == "mirror":
            mirrored = flow.copy()
            mirrored.request.url = MIRROR_URL
            mirrored.metadata.pop("cap_data_ser", None)
            mirrored.metadata.pop("cap_data", None)
            self.world.sm.flow_context.to_proxy_queue.put(("replay", None, mirrored.get_state()))
        elif b == "clearcap":
            flow.cap_data = None
        elif b == "setcap":
            alt = self.world.alt_cap(flow)
            if alt is not None:
                flow.cap_data = alt
        return None

    def handle_http_request(self, session_manager, flow):
        return self._act(flow)

    def handle_http_response(self, session_manager, flow):
        return self._act(flow)


class World:
    def __init__(self, n_addons, salt=""):
        from hippolyzer.lib.base.datatypes import UUID
        from hippolyzer.lib.proxy.addons import AddonManager
        from hippolyzer.lib.proxy.caps import CapType
        from hippolyzer.lib.proxy.sessions import SessionManager
        from hippolyzer.lib.proxy.settings import ProxySettings
        self.rt = runtime()
        self.ctx = self.rt.ctx
        self.sm = SessionManager(ProxySettings())
        self.sm.flow_context = self.ctx
        self.sessions = {}
        self.regions = {}
        self.urls = {}
        self.name2kind = {}
        self.hook_calls = 0
        self.cur_flow_id = None
        for s in (1, 2):
            sess = self.sm.create_session({
                "session_id": UUID(int=0x1000 + s), "secure_session_id": UUID(int=0x2000 + s),
                "agent_id": UUID(int=0x3000 + s), "circuit_code": 7000 + s,
                "sim_ip": REGION_ADDRS[1][0], "sim_port": REGION_ADDRS[1][1],
                "region_x": 0, "region_y": 0,
                "seed_capability": self._url("seed", s, 1, salt),
            })
            self.sm.claim_session(sess.id)
            self.sessions[s] = sess
            for r in (1, 2):
                if r == 1:
                    region = sess.regions[0]
                else:
                    region = sess.register_region(REGION_ADDRS[r], seed_url=self._url("seed", s, r, salt))
                self.regions[(s, r)] = region
                self.urls[("seed", s, r)] = self._url("seed", s, r, salt)
                caps = {}
                for kind, name in (("eq", "EventQueueGet"), ("normal", "FetchInventory2"), ("upload", "NewFileAgentInventory")):
                    caps[name] = self._url(kind, s, r, salt)
                    self.urls[(kind, s, r)] = caps[name]
                caps["ViewerAsset"] = ASSET_URL
                region.update_caps(caps)
                self.urls[("wrapper", s, r)] = region.register_wrapper_cap("ViewerAsset")
                self.urls[("orphanwrapper", s, r)] = self._url("orphanwrapper", s, r, salt)
                region.register_cap("OrphanProxyWrapper", self.urls[("orphanwrapper", s, r)], CapType.WRAPPER)
                self.urls[("proxyonly", s, r)] = self._url("proxyonly", s, r, salt)
                region.register_cap("VerifProxyOnly", self.urls[("proxyonly", s, r)], CapType.PROXY_ONLY)
                self.urls[("temp", s, r)] = self._url("temp", s, r, salt)
                region.register_cap("NewFileAgentInventoryUploader", self.urls[("temp", s, r)], CapType.TEMPORARY)
            sess.main_region = self.regions[(s, 1)]
        self.name2kind = {
            ("Seed", "NORMAL"): "seed", ("EventQueueGet", "NORMAL"): "eq", ("FetchInventory2", "NORMAL"): "normal",
            ("NewFileAgentInventory", "NORMAL"): "upload", ("NewFileAgentInventoryUploader", "TEMPORARY"): "temp",
            ("ViewerAsset", "NORMAL"): "asset", ("ViewerAssetProxyWrapper", "WRAPPER"): "wrapper",
            ("OrphanProxyWrapper", "WRAPPER"): "wrapper", ("VerifProxyOnly", "PROXY_ONLY"): "proxyonly",
            ("LoginRequest", "NORMAL"): "login", ("FirestormBridge", "NORMAL"): "bridge",
        }
        self.sid2idx = {str(sess.id): s for s, sess in self.sessions.items()}
        self.addr2idx = {str(a): r for r, a in REGION_ADDRS.items()}
        self.n_addons = n_addons
        self.AddonManager = AddonManager
        self.agent_ids = {s: str(sess.agent_id) for s, sess in self.sessions.items()}
        self.dirty = False          # a session was closed: the world cannot be brought back
        self._caps0 = {key: self._capmap(reg) for key, reg in self.regions.items()}
        self._nsess = len(self.sm.sessions)
        self.fresh()

    def fresh(self):
        """Bring a (possibly used) world back to its initial state through public API only.
        Building a SessionManager costs ~35 ms of multiprocessing primitives, so worlds are
        reused; a mismatch is always re-checked in a brand-new world before it is reported."""
        from hippolyzer.lib.proxy.http_event_manager import MITMProxyEventManager
        self.rt.reset()
        self.hook_calls = 0
        if len(self.sm.sessions) != self._nsess:
            raise common.MachineryError("world gained or lost a session")
        for key, reg in self.regions.items():
            if self._capmap(reg) != self._caps0[key]:
                reg.caps.clear()
                for name, vals in self._caps0[key].items():
                    for typ, url in reversed(vals):
                        reg.register_cap(name, url, typ)
                if self._capmap(reg) != self._caps0[key]:
                    raise common.MachineryError("could not restore region caps")
            reg.eq_manager.clear()
        self.sm.message_logger = None
        self.addons = [Scripted(self, i) for i in range(self.n_addons)]
        self.AddonManager.init([], self.sm, list(self.addons), swallow_addon_exceptions=True)
        self.em = MITMProxyEventManager(self.sm, self.ctx)
        return self

    def alt_cap(self, flow):
        """The cap an addon re-attributes a flow to (HttpFlow!AltCap): another kind, region 2 of
        the first session that is still open."""
        import weakref
        from hippolyzer.lib.proxy.caps import CapData, CapType
        if not self.sessions:
            return None
        a = min(self.sessions)
        kind = "upload" if self.cur_tgt_kind == "normal" else "normal"
        name = {"upload": "NewFileAgentInventory", "normal": "FetchInventory2"}[kind]
        return CapData(name, weakref.ref(self.regions[(a, 2)]), weakref.ref(self.sessions[a]),
                       self.urls[(kind, a, 2)], CapType.NORMAL)

    def close_session(self, s):
        """The viewer of session s logs out: SessionManager.close_session, then every strong
        reference the driver holds is dropped and the objects are collected (what happens in the
        running proxy sooner or later).  The weak references inside CapData are then dead."""
        import weakref
        self.dirty = True
        sess = self.sessions.pop(s)
        refs = [weakref.ref(sess)] + [weakref.ref(self.regions.pop((s, r))) for r in (1, 2)]
        self._caps0 = {k: v for k, v in self._caps0.items() if k[0] != s}
        self.sm.close_session(sess)
        del sess
        for _ in range(3):
            gc.collect()
            if all(r() is None for r in refs):
                break
        if any(r() is not None for r in refs):
            raise common.MachineryError("closed session/region objects are still referenced; cannot exercise SessionCloses")

    @staticmethod
    def _capmap(reg):
        m = {}
        for name, val in reg.caps.items():
            m.setdefault(name, []).append(val)
        return m

    @staticmethod
    def _url(kind, s, r, salt):
        return "https://%s-s%dr%d%s.caps.test/cap/%s%d%d" % (kind, s, r, salt, kind, s, r)

    # ---- projections (public attributes only) ---------------------------------------------
    def _capkind(self, name, typ):
        if name is None:
            return "empty"
        return self.name2kind.get((name, typ), "?%s/%s" % (name, typ))

    def url_class(self, url, fl):
        if url == fl.orig_url:
            return "orig"
        if url == ADDON_URL:
            return "addon"
        if url == MIRROR_URL:
            return "mirror"
        if fl.redirect_urls and url == fl.redirect_urls[0]:
            return "handler"            # the original url on the wrapped cap's host
        if fl.redirect_urls and url == fl.redirect_urls[1]:
            return "handlerAddon"       # the addon's url on the wrapped cap's host
        return "other:" + str(url)

    @staticmethod
    def resp_class(resp, fl=None):
        if resp is None:
            return "none"
        if resp.status_code == 307:
            loc = resp.headers.get("Location")
            urls = getattr(fl, "redirect_urls", ()) or (None, None)
            if loc == urls[0]:
                return "redir"
            if loc == urls[1]:
                return "redirAddon"
            return "other:307 to %s" % loc
        if resp.headers.get(SERVER_MARK):
            return "server"
        if resp.status_code == 299 and resp.headers.get("X-Verif-Addon") == "1" and resp.content == b"ADDON":
            return "addon"
        if resp.status_code in (500, 200) and not resp.headers.get("X-Verif-Addon"):
            return "handler"
        return "other:%s" % resp.status_code

    def project_main(self, hf, fl):
        """Abstract metadata of a main-process HippoHTTPFlow."""
        try:
            return self._project_main(hf, fl)
        except Exception as e:  # the implementation's own accessors failed: an observation
            return ["!raise %s: %s" % (type(e).__name__, str(e)[:80])]

    def project_proxy(self, f, fl):
        """Abstract metadata of a proxy-side mitmproxy HTTPFlow (or of a queued state)."""
        try:
            return self._project_proxy(f, fl)
        except Exception as e:
            return ["!raise %s: %s" % (type(e).__name__, str(e)[:80])]

    def _project_main(self, hf, fl):
        cd = hf.cap_data
        if cd is None:
            cap = ["unset", 0, 0]
        else:
            sess = cd.session() if cd.session else None
            reg = cd.region() if cd.region else None
            s = next((i for i, x in self.sessions.items() if x is sess), 0 if sess is None else -1)
            r = next((rr for (ss, rr), x in self.regions.items() if x is reg), 0 if reg is None else -1)
            if reg is not None and s > 0 and self.regions.get((s, r)) is not reg:
                r = -1          # a region of another session
            cap = [self._capkind(cd.cap_name, cd.type.name), s, r]
        return cap + [bool(hf.request_injected), bool(hf.response_injected), bool(hf.can_stream), bool(hf.from_browser),
                      self.url_class(hf.request.url, fl), self.resp_class(hf.response, fl)]

    def _project_proxy(self, f, fl):
        md = f.metadata
        ser = md.get("cap_data_ser")
        if ser is None:
            cap = ["unset", 0, 0]
        else:
            s = self.sid2idx.get(ser.session_id, -1) if ser.session_id is not None else 0
            r = self.addr2idx.get(ser.region_addr, -1) if ser.region_addr is not None else 0
            cap = [self._capkind(ser.cap_name, ser.type), s, r]
        return cap + [bool(md.get("request_injected", False)), bool(md.get("response_injected", False)),
                      bool(md.get("can_stream", True)), bool(md.get("from_browser", False)),
                      self.url_class(f.request.url, fl), self.resp_class(f.response, fl)]


def digest_flow(f):
    """Digest of everything of a request/response pair that must survive the transfer."""
    h = hashlib.sha1()
    rq = f.request
    h.update(repr((rq.method, rq.url, sorted(rq.headers.items(multi=True)), rq.content)).encode("utf8", "replace"))
    rs = f.response
    if rs is not None:
        h.update(repr((rs.status_code, sorted(rs.headers.items(multi=True)), rs.content)).encode("utf8", "replace"))
    return h.hexdigest()[:16]


# ----------------------------------------------------------------------------------------
# one flow in a world, driven step by step with the model's actions
# ----------------------------------------------------------------------------------------
class FlowDriver:
    def __init__(self, world: World, tgt, req_fault="none", resp_fault="none", owner="absent", salt_body=b""):
        self.w = world
        self.tgt = tgt
        self.req_fault = req_fault
        self.resp_fault = resp_fault
        self.owner = owner
        self.salt_body = salt_body
        self.flow = None           # proxy-side original mitmproxy flow
        self.orig_url = None
        self.redirect_urls = ()    # what a wrapper request may be rewritten to: same URL on the wrapped cap's host
        self.main = None           # last main-process HippoHTTPFlow built for this flow
        self.put_log = []          # (kind, flow id, main-side projection, main-side digest) per to_proxy put
        self.on_put = self._on_put   # a multi-flow run installs a dispatcher instead
        self.others = []             # other flows' events around ours: {"flow", "r", "back"}

    # ---- inputs -----------------------------------------------------------------------
    def _request(self, browser, hdr):
        from mitmproxy.test import tutils
        from mitmproxy.http import Headers
        k, s, r = self.tgt
        method, content, ctype = b"GET", b"", None
        if k == "none":
            url = UNKNOWN_URL
        elif k == "login":
            url, method, ctype = LOGIN_URL, b"POST", b"text/xml"
            content = b'<?xml version="1.0"?><methodCall><methodName>login_to_simulator</methodName></methodCall>'
        elif k == "asset":
            url = ASSET_URL + "/?texture_id=00000000-0000-0000-0000-00000000abcd"
        elif k == "wrapper":
            base = self.w.urls[("orphanwrapper" if self.req_fault == "cap" else "wrapper", s, r)]
            url = base + "/?texture_id=00000000-0000-0000-0000-00000000abcd"
            if self.req_fault != "cap":
                host = ASSET_URL.split("/")[2]
                self.redirect_urls = (ASSET_URL + "/?texture_id=00000000-0000-0000-0000-00000000abcd",
                                      re.sub(r"^(https?://)[^/]+", lambda m: m.group(1) + host, ADDON_URL))
        else:
            url = self.w.urls[(k, s, r)]
            if k in ("normal", "upload", "temp"):
                url += "/sub?q=1"
        if k == "seed":
            method, ctype = b"POST", b"application/llsd+xml"
            content = BAD_LLSD if self.req_fault == "cap" else b"<llsd><array><string>EventQueueGet</string><string>VerifProxyOnly</string></array></llsd>"
        elif k == "eq":
            method, ctype = b"POST", b"application/llsd+xml"
            content = BAD_LLSD if self.req_fault == "cap" else b"<llsd><map><key>ack</key><integer>7</integer><key>done</key><boolean>0</boolean></map></llsd>"
        elif k in ("upload", "temp", "normal", "proxyonly"):
            method, ctype = b"POST", b"application/llsd+xml"
            content = b"<llsd><map><key>x</key><integer>1</integer></map></llsd>"
        if self.salt_body and content and k not in ("seed", "eq", "login"):
            content = content + b"<!--" + self.salt_body + b"-->"
        m = re.match(r"(https?)://([^/:]+)(?::(\d+))?(/.*)?$", url)
        scheme, host, port, path = m.group(1), m.group(2), m.group(3), m.group(4) or "/"
        hdrs = [(b"Host", host.encode()), (b"User-Agent", b"Mozilla/5.0 (CEF)" if browser else b"SecondLife/6.6 (Verif)")]
        if ctype:
            hdrs.append((b"Content-Type", ctype))
        if hdr:
            hdrs.append((b"X-Hippo-Injected", b"1"))
        req = tutils.treq(method=method, scheme=scheme.encode(), host=host, port=int(port or (443 if scheme == "https" else 80)),
                          path=path.encode(), authority=b"", headers=Headers(hdrs), content=content)
        return req

    def _server_response(self, bridge):
        from mitmproxy.test import tutils
        from mitmproxy.http import Headers
        k = self.tgt[0]
        hdrs = [(SERVER_MARK.encode(), b"1"), (b"Content-Type", b"application/llsd+xml")]
        content = b"<llsd><map><key>ok</key><integer>1</integer></map></llsd>"
        bad = self.resp_fault == "cap"
        if k == "seed":
            content = BAD_LLSD if bad else (b"<llsd><map><key>EventQueueGet</key><string>https://neweq.test/cap/1</string>"
                                            b"<key>Other</key><string>https://other.test/cap/2</string></map></llsd>")
        elif k == "eq":
            content = BAD_LLSD if bad else b"<llsd><map><key>id</key><integer>8</integer><key>events</key><array></array></map></llsd>"
        elif k == "upload":
            content = BAD_LLSD if bad else b"<llsd><map><key>uploader</key><string>https://uploader.test/cap/up</string></map></llsd>"
        elif k == "login":
            content = b"this is not an XML-RPC login response"
        if bridge:
            hdrs.append((b"X-SecondLife-Object-Name", b"#Firestorm LSL Bridge v99"))
            if self.owner == "bad":
                hdrs.append((b"X-SecondLife-Owner-Key", b"not-a-uuid"))
            elif self.owner in ("s1", "s2"):
                hdrs.append((b"X-SecondLife-Owner-Key", self.w.agent_ids[int(self.owner[1])].encode()))
            content = b"<llsd><string>bridge reply</string></llsd>"
        if self.salt_body:
            content = content + b"<!--" + self.salt_body + b"-->"
        return tutils.tresp(status_code=200, headers=Headers(hdrs), content=content)

    # ---- the model's actions ----------------------------------------------------------
    def intercept_request(self, browser, hdr):
        from mitmproxy.test import tflow
        self.flow = tflow.tflow(req=self._request(browser, hdr))
        self.orig_url = self.flow.request.url
        self.w.rt.proxy.request(self.flow)

    def intercept_response(self, bridge):
        f = self.flow
        if f.response is None:
            f.response = self._server_response(bridge)
        self.w.rt.proxy.responseheaders(f)
        self.w.rt.proxy.response(f)

    def enqueue_other(self, raises):
        """HttpFlow!EnqueueOther: another flow is intercepted by the real proxy-side hook.  Handling
        it raises out of the pump (a Seed request whose body is not LLSD) or does not (unknown URL)."""
        from mitmproxy.test import tflow
        tmpl = FlowDriver(self.w, ["seed", 1, 1], req_fault="cap") if raises else FlowDriver(self.w, ["none", 0, 0])
        f = tflow.tflow(req=tmpl._request(False, False))
        self.others.append({"flow": f, "r": bool(raises), "back": 0})
        self.w.rt.proxy.request(f)

    def _on_put(self, obj):
        kind, fid, _state = obj
        for o in self.others:
            if o["flow"].id == fid:
                o["back"] += 1
                return "drop"       # other flows are not followed beyond their hand-back
        if kind == "replay":        # a copy an addon wants replayed: carries no flow id
            self.put_log.append([kind, fid is None, None, None])
            return None
        hf = self.w.rt.built.get(fid)
        if hf is None or self.flow is None or fid != self.flow.id:
            self.put_log.append([kind, False, None, None])
            return
        # at this instant resume()/preempt() has already produced the state; the main-side
        # object still shows what was handed back
        self.put_log.append([kind, True, self.w.project_main(hf, self), digest_flow(hf.flow)])

    async def handle(self, cfg, drain=True):
        """One turn of the main process: as MITMProxyEventManager.run does, pump (exceptions caught)
        until the queue is empty (drain) -- or pump exactly once (multi-flow walks)."""
        w = self.w
        w.cur_flow_id = self.flow.id if self.flow is not None else None
        for a, b in zip(w.addons, cfg["addons"]):
            a.behaviour = b
        w.AddonManager._SWALLOW_ADDON_EXCEPTIONS = bool(cfg["swallow"])
        w.sm.message_logger = Logger(cfg["fault"] == "logger") if cfg["logger"] else None
        w.ctx.to_proxy_queue.on_put = self.on_put
        w.cur_tgt_kind = self.tgt[0]
        before = w.hook_calls
        st, res = "ok", None
        # response-phase fault: besides the malformed body, the session's and the region's HTTP
        # message handlers get a raising subscriber and a subscriber with a raising predicate
        subs = []
        if cfg["fault"] == "cap" and self.flow.response is not None and self.tgt[1] in w.sessions:
            for h in (w.sessions[self.tgt[1]].http_message_handler, w.regions[(self.tgt[1], self.tgt[2])].http_message_handler):
                evt = h.register("*")
                evt.subscribe(_raising_subscriber)
                evt.subscribe(_idle_subscriber, predicate=_raising_subscriber)
                subs.append(evt)
        for _ in range(16 if drain else 1):
            if drain and w.ctx.from_proxy_queue.empty():
                break
            try:
                await w.em.pump_proxy_event()
            except Exception as e:  # an exception of the implementation is an observation
                st, res = "raise", type(e).__name__ + ": " + str(e)[:120]
        for evt in subs:
            evt.unsubscribe(_raising_subscriber)
            evt.unsubscribe(_idle_subscriber)
        self.main = w.rt.built.get(self.flow.id) if self.flow is not None else None
        for a in w.addons:
            a.behaviour = "ignore"
        return st, res, w.hook_calls - before

    def addon_call(self, op, mod):
        import mitmproxy.http
        self.w.ctx.to_proxy_queue.on_put = self.on_put
        hf = self.main
        if mod:
            hf.response = mitmproxy.http.Response.make(299, b"ADDON", {"X-Verif-Addon": "1"})
        try:
            getattr(hf, op)()
            return "ok"
        except AssertionError:
            return "assert"
        except Exception as e:   # anything else is an observation too (the model knows only ok / assert)
            return "raised " + type(e).__name__

    async def apply(self, bad):
        q = self.w.ctx.to_proxy_queue
        if not q.items:
            # the implementation did not put what the model put earlier on this path; that edge is
            # replayed and reported on its own, here there is simply nothing to apply
            return
        if bad:
            kind, fid, state = pickle.loads(q.items[0])
            state = dict(state)
            state["version"] = -1        # set_state will raise on this
            q.items[0] = pickle.dumps((kind, fid, state))
        await self.w.rt.apply_one()
        # flows the proxy side created for replay are other flows from now on
        known = {id(o["flow"]) for o in self.others}
        for f in self.w.rt.master.replayed:
            if id(f) not in known:
                self.others.append({"flow": f, "r": False, "back": 0})

    # ---- observation ------------------------------------------------------------------
    def _project_state(self, state):
        from mitmproxy.http import HTTPFlow
        try:
            f = HTTPFlow.from_state(state)
        except Exception as e:
            return ["!unusable state %s" % type(e).__name__]
        return self.w.project_proxy(f, self)

    def observe(self):
        w = self.w
        fromq, order = [], []
        oid = {o["flow"].id: "o%d" % (i + 1) for i, o in enumerate(self.others)}
        for b in w.ctx.from_proxy_queue.items:
            ev, state = pickle.loads(b)
            fid = state.get("id") if isinstance(state, dict) else None
            if fid in oid:
                order.append(oid[fid])
            else:
                order.append("me")
                fromq.append([ev, self._project_state(state)])
        toq = []
        for b in w.ctx.to_proxy_queue.items:
            kind, fid, state = pickle.loads(b)
            ok = fid is None if kind == "replay" else (self.flow is not None and fid == self.flow.id)
            toq.append([kind, ok, self._project_state(state)])
        if self.flow is not None:
            px = [bool(self.flow.intercepted), w.project_proxy(self.flow, self)]
        else:       # our flow does not exist yet
            px = [False, ["unset", 0, 0, False, False, True, False, "orig", "none"]]
        mf = None
        if self.main is not None:
            mf = [bool(self.main.taken), bool(self.main.resumed), w.project_main(self.main, self)]
        oth = [[("o%d" % (i + 1)) in order, o["back"]] for i, o in enumerate(self.others)]
        # the proxy side's registry of intercepted flows, keyed by flow id: every flow that was ever
        # intercepted is found there under its own id (identities are distinct)
        flows = w.rt.proxy.flows
        reg = [self.flow is not None and flows.get(self.flow.id) is self.flow] + \
              [flows.get(o["flow"].id) is o["flow"] for o in self.others]
        return {"fromQ": fromq, "toQ": toq, "px": px, "mf": mf, "oth": oth, "order": order, "reg": reg}


def expected_obs(dst):
    """What the specification's target state says the same observation must be."""
    mf = None
    if dst["mf"][0] != "none":
        mf = [dst["mf"][1], dst["mf"][2], dst["mf"][3]]
    oth = dst.get("oth", [])
    order = (["o%d" % (i + 1) for i, o in enumerate(oth) if o[2] and o[1] == "ahead"] + (["me"] if dst["fromQ"] else [])
             + ["o%d" % (i + 1) for i, o in enumerate(oth) if o[2] and o[1] == "behind"])
    return {"fromQ": [[e, m] for e, m in dst["fromQ"]],
            "toQ": [[k, True, m] for k, _ev, m in dst["toQ"]],
            "px": [dst["px"][1], dst["px"][2]],
            "mf": mf,
            "oth": [[o[2], o[3]] for o in oth],     # still queued?, callbacks put
            "order": order,
            "reg": [dst["px"][0] != "start"] + [True] * len(oth)}


def _lookahead(path):
    """Inputs of the flow that exist before the handlers see them (bodies, headers) are fixed
    by the Handle configurations further down the replayed path."""
    req_fault = resp_fault = "none"
    owner = "absent"
    for e in path:
        a = e["act"]
        if a["n"] == "Handle":
            ev = e["src"]["fromQ"][0][0]
            if ev == "request":
                req_fault = a["cfg"]["fault"]
            else:
                resp_fault = a["cfg"]["fault"]
                owner = a["cfg"]["owner"]
    return req_fault, resp_fault, owner


_WORLDS = {}


def get_world(n_addons, brand_new=False) -> World:
    key = (os.getpid(), n_addons)
    if brand_new or key not in _WORLDS or _WORLDS[key].dirty:
        _WORLDS[key] = World(n_addons)
        return _WORLDS[key]
    return _WORLDS[key].fresh()


async def _run_path(path, n_addons, compare_from=None, brand_new=False):
    """Replay a path of model edges in a fresh world; compare after the last edge (and after
    every edge >= compare_from)."""
    world = get_world(n_addons, brand_new)
    tgt = path[0]["src"]["tgt"]
    rf, pf, owner = _lookahead(path)
    fd = FlowDriver(world, tgt, rf, pf, owner)
    results = []
    for i, e in enumerate(path):
        a = e["act"]
        n = a["n"]
        out = {"exc": False, "res": "ok"}
        hooks = None
        try:
            if n == "InterceptRequest":
                fd.intercept_request(a["browser"], a["hdr"])
            elif n == "InterceptResponse":
                fd.intercept_response(a["bridge"])
            elif n == "Handle":
                st, res, hooks = await fd.handle(a["cfg"])
                out = {"exc": st == "raise", "res": "ok", "detail": res}
            elif n == "AddonCall":
                out = {"exc": False, "res": fd.addon_call(a["op"], a["mod"]) if fd.main is not None else "no flow object"}
            elif n == "Apply":
                await fd.apply(a["bad"])
                out = {"exc": False, "res": "bad" if a["bad"] else "ok"}
            elif n == "SessionCloses":
                world.close_session(a["s"])
            elif n == "EnqueueOther":
                fd.enqueue_other(a["r"])
            else:
                raise common.MachineryError("unknown action " + n)
        except common.MachineryError:
            raise
        except Exception as e:   # the implementation raised where the model has no exception: an observation
            out = {"exc": False, "res": "impl raised %s: %s" % (type(e).__name__, str(e)[:100])}
        if compare_from is not None and i >= compare_from or i == len(path) - 1:
            await world.rt.idle_poll()      # IdlePoll is enabled everywhere and changes nothing
            results.append((i, fd.observe(), out, list(fd.put_log), hooks))
    return results


def _diff(exp, got):
    bad = []
    for k in ("fromQ", "toQ", "px", "mf", "oth", "order", "reg"):
        if exp[k] != got[k]:
            bad.append((k, exp[k], got[k]))
    return bad


_G = None
_NADD = 1


def _replay_chunk(edge_ids):
    """Replay edges (each: BFS-tree path to its source + the edge) into fresh worlds."""
    g = _G
    rt = runtime()
    out = []
    stats = {"steps": 0, "exc_expected": 0, "exc_seen": 0, "drift": []}
    for ei in edge_ids:
        e = g.edges[ei]
        path = g.path_to(e["_s"]) + [e]
        try:
            res = rt.loop.run_until_complete(_run_path(path, _NADD))
        except common.MachineryError:
            raise
        i, got, outobs, put_log, hooks = res[-1]
        stats["steps"] += len(path)
        exp = expected_obs(e["dst"])
        if e["dst"]["px"][0] == "dead":
            exp["px"][1] = got["px"][1] if got["px"] else None     # unusable state: only "resumed" is claimed
        bad = _diff(exp, got)
        if e["obs"]["res"] != outobs["res"]:
            bad.append(("result", e["obs"]["res"], outobs["res"]))
        # every item ever put for this flow carried what the main-side object showed at that instant
        for kind, same_id, mproj, _dg in put_log:
            if not same_id:
                bad.append(("put for a foreign flow id", kind, None))
        if e["obs"]["exc"]:
            stats["exc_expected"] += 1
        if outobs.get("exc"):
            stats["exc_seen"] += 1
        if bool(e["obs"]["exc"]) != bool(outobs.get("exc")) and len(stats["drift"]) < 5:
            stats["drift"].append({"act": e["act"], "tgt": e["src"]["tgt"], "spec_exc": e["obs"]["exc"], "impl": outobs.get("detail")})
        if bad:
            out.append({"edge": ei, "history": [p["act"] for p in path], "tgt": e["src"]["tgt"],
                        "mismatches": [list(b) for b in bad[:4]], "spec_dst": e["dst"], "impl_out": outobs})
    return stats, out


# ----------------------------------------------------------------------------------------
# B1
# ----------------------------------------------------------------------------------------
INVARIANTS = ["AtMostOnce", "BackUnlessOwned", "OwnedNotBack", "ResumedIffBack", "TakenExclusive", "Causal",
              "HeldUntilApplied", "RoutingStable", "FlagsStable", "AttributionKept", "AppliedAttribution",
              "InjectedSurvives", "RedirectFollowsRewrite", "OthersExactlyOnce", "GoneReadsNone"]


def _tla_set(xs):
    return "{" + ", ".join('"%s"' % x if isinstance(x, str) else str(x).upper() if isinstance(x, bool) else str(x) for x in xs) + "}"


def _consts(c):
    return ("CONSTANTS\n Kinds = %s\n Pairs = %s\n Behaviours = %s\n NAddons = %d\n Faults = %s\n MaxCalls = %d\n"
            " BadApply = %s\n CloseSet = %s\n MaxOthers = %d\n Depth = 16\nCONSTRAINT Bound\nVIEW View\n" % (
                _tla_set(c["kinds"]), _tla_set(c["pairs"]), _tla_set(c["behaviours"]), c["naddons"],
                _tla_set(c["faults"]), c["maxcalls"], _tla_set(c["bad"]), _tla_set(c.get("close", [])), c.get("others", 0)))


def _recheck_fresh(b, n_addons):
    """A mismatch seen in a reused world must reproduce in a brand-new one."""
    g = _G
    e = g.edges[b["edge"]]
    path = g.path_to(e["_s"]) + [e]
    res = runtime().loop.run_until_complete(_run_path(path, n_addons, brand_new=True))
    _i, got, outobs, _pl, _h = res[-1]
    exp = expected_obs(e["dst"])
    if e["dst"]["px"][0] == "dead":
        exp["px"][1] = got["px"][1] if got["px"] else None
    bad = _diff(exp, got)
    if e["obs"]["res"] != outobs["res"]:
        bad.append(("result", e["obs"]["res"], outobs["res"]))
    return bad


def _b1(chk: Check, c, label):
    global _G, _NADD
    # one TLC run both checks the invariants exhaustively and prints the transition system
    cfgp = os.path.join(chk.scratch, "mbt-%s.cfg" % label)
    with open(cfgp, "w") as f:
        f.write("SPECIFICATION MSpec\n" + _consts(c) + "".join("INVARIANT %s\n" % i for i in INVARIANTS))
    res = common.run_tlc(os.path.join(common.SPECS, "HttpFlow_MBT.tla"), cfgp, workers=1, scratch=chk.scratch, heap="8g")
    chk.require_model_ok(res, "HttpFlow_MBT %s (invariants + export)" % label)
    if not res.ok:
        return
    recs = res.printed()
    del res
    g = Graph(recs)
    del recs
    for e in g.edges:           # share the state records (memory: the pool forks this process)
        e["src"], e["dst"] = g.states[e["_s"]], g.states[e["_d"]]
    gc.collect()
    gc.freeze()
    _G, _NADD = g, c["naddons"]
    ids = g.reachable_edges()
    frac = float(os.environ.get("VERIF_C15_SAMPLE", "1") or 1)     # development aid only (mutant triage)
    if frac < 1:
        ids = sorted(chk.rng.sample(ids, max(1, int(len(ids) * frac))))
    # deepest first inside a chunk is irrelevant; interleave so that chunks cost about the same
    chunks = [ids[i::common.NCPU * 4] for i in range(common.NCPU * 4)]
    results = common.parallel_map(_replay_chunk, [ch for ch in chunks if ch])
    exc_exp = sum(r[0]["exc_expected"] for r in results)
    exc_seen = sum(r[0]["exc_seen"] for r in results)
    chk.count(sum(r[0]["steps"] for r in results))
    chk.cov["traces_validated_against_impl"] += len(ids)
    chk.cov["b1_edges_replayed"] = chk.cov.get("b1_edges_replayed", 0) + len(ids)
    chk.cov["b1_raise_points_expected"] = chk.cov.get("b1_raise_points_expected", 0) + exc_exp
    chk.cov["b1_raise_points_reached"] = chk.cov.get("b1_raise_points_reached", 0) + exc_seen
    for r in results:
        for d in r[0]["drift"]:
            if len(chk.notes) < 10:
                chk.notes.append({"drift (not a violation): pump_proxy_event raised/did not raise unlike the model": d})
    for e in g.edges:
        if e["src"] != e["dst"]:
            chk.nontrivial(("edge", label, e["_s"], common.skey(e["act"])))
    rechecked = 0
    for _st, bads in results:
        for b in bads:
            rechecked += 1
            # (the first mismatches are re-run in a brand-new world; if they all reproduce, reuse is not the cause)
            again = _recheck_fresh(b, c["naddons"]) if rechecked <= 25 else True
            if not again:
                raise common.MachineryError("mismatch did not reproduce in a brand-new world (state leaked between "
                                            "replays): %s" % common.skey(b)[:1500])
            m = b["mismatches"][0]
            last = b["history"][-1]
            feat = {"kind": "b1", "act": last["n"], "field": m[0], "tgt_kind": b["tgt"][0],
                    "after_session_closed": any(h["n"] == "SessionCloses" for h in b["history"])}
            if last["n"] == "Handle":
                feat["event"] = "request" if not any(h["n"] == "InterceptResponse" for h in b["history"]) else "response"
                feat["addons"] = list(last["cfg"]["addons"])
                feat["fault"] = last["cfg"]["fault"]
            chk.violation("B1 %s: %s after %s differs from specification" % (label, m[0], last["n"]), feat, b)
    e = g.edges[min(len(g.edges) - 1, 4321)]
    chk.sample({"binding": "B1 edge replay", "target": e["src"]["tgt"],
                "path": [p["act"] for p in g.path_to(e["_s"])] + [e["act"]],
                "expected_observation": expected_obs(e["dst"])})
    _G = None
    del g
    gc.unfreeze()
    gc.collect()


ALLB = BEHAVIOURS[:10]      # the behaviours that leave the attribution alone
RECAP = ["ignore", "take", "takeResume", "inject", "raise", "handled", "clearcap", "setcap"]


def run(chk: Check):
    chk.cov["rule"] = ("B1: every edge of the bounded model replayed (BFS path to its source state + the edge) into the real "
                       "proxy-side addon, event manager, flow wrapper and AddonManager over pickling queues, comparing "
                       "from_proxy/to_proxy queue items, the proxy-side flow and the main-side flow with the model's "
                       "target state; non-trivial = edges that change the abstract state. B2: random runs of several flows at "
                       "once (3 scripted addons, generated host names and bodies, shared queues and managers), one trace "
                       "per flow validated by TLC incl. digests of the whole request/response at hand-back vs. after the "
                       "proxy applied it; non-trivial = flows with a non-idle hook that were handed back and applied.")
    chk.assumptions += [
        "flows are independent of each other in the model (they only share two FIFO queues); B2 runs several at once",
        "assert statements are enabled (no python -O): take/resume/preempt legality is an AssertionError",
        "queue items are picklable (addon metadata that is not is lost by multiprocessing's feeder thread: outside the property)",
        "a login reply in the explored universe is never a well-formed XML-RPC login response",
        "whether an injected asset response is handed to the main process at all is left open (not explored)",
        "server responses have status 200; no asset is served from the local asset repo; no cached EventQueueGet reply",
        "B2: a temporary cap URL / an EventQueueGet URL is used by one flow per world (consumed / cached otherwise)",
        "other flows waiting in the proxy->main queue around ours are plain request events (unknown URL, or a Seed request "
        "whose body is not LLSD and whose handling raises out of the pump); the main process pumps until the queue is empty, "
        "exceptions caught, as MITMProxyEventManager.run does; how many events one pump takes is left open",
        "mitmproxy's client replay machinery is stood in for (marks the flow as a replay, drops its response, feeds it through "
        "the real proxy-side request hook); a replayed copy is followed as another flow up to its hand-back",
        "addons that change the attribution either clear it (flow.cap_data = None) or set one fixed other cap of the universe",
        "SessionCloses = SessionManager.close_session + the session's and regions' objects unreferenced and collected "
        "(driver drops its references and runs gc.collect(); still-referenced objects are a MachineryError); B1 explores one "
        "closing per flow after its first event was handled, B2 closes at any time",
        "B2 reads MITMProxyEventManager._asset_server_proxied (state kept across flows) through a reflection bridge",
    ]
    F3 = ["none", "cap", "logger"]
    B6 = ["ignore", "take", "takeResume", "resume", "inject", "raise"]
    if chk.tier == "quick":
        _b1(chk, dict(kinds=KINDS, pairs=[21], behaviours=ALLB, naddons=1, faults=F3, maxcalls=1, bad=[False, True]), "N1-s2r1")
        _b1(chk, dict(kinds=["normal", "seed", "login"], pairs=[12], behaviours=RECAP, naddons=1, faults=F3, maxcalls=1, bad=[False]), "N1-s1r2-recap")
        _b1(chk, dict(kinds=["normal"], pairs=[21], behaviours=["ignore", "clearcap", "setcap", "take"], naddons=2, faults=["none"],
                      maxcalls=1, bad=[False]), "N2-recap")
        _b1(chk, dict(kinds=["normal", "proxyonly"], pairs=[22], behaviours=B6, naddons=2, faults=["none"], maxcalls=1, bad=[False]), "N2")
        _b1(chk, dict(kinds=["normal", "seed", "none"], pairs=[21], behaviours=["ignore", "take", "takeResume", "inject", "raise"],
                      naddons=1, faults=["none"], maxcalls=1, bad=[False], close=[1, 2]), "close")
        _b1(chk, dict(kinds=["eq"], pairs=[21], behaviours=["ignore", "take", "raise"], naddons=1, faults=["none", "cap"], maxcalls=0,
                      bad=[False], others=2), "queue")
        _b1(chk, dict(kinds=["normal"], pairs=[21], behaviours=["ignore", "mirror", "take"], naddons=2, faults=["none"], maxcalls=0,
                      bad=[False]), "mirror")
        _b2(chk, 96, 4, "walks")
    else:
        owned = [k for k in KINDS if k not in ("none", "login", "asset")]
        for i, p in enumerate([21, 12, 11, 22]):
            _b1(chk, dict(kinds=KINDS if i == 0 else owned, pairs=[p], behaviours=ALLB, naddons=1, faults=F3, maxcalls=2,
                          bad=[False, True]), "N1-s%dr%d" % (p // 10, p % 10))
        _b1(chk, dict(kinds=["normal", "wrapper", "proxyonly", "none"], pairs=[12], behaviours=ALLB, naddons=2, faults=["none", "cap"],
                      maxcalls=1, bad=[False]), "N2")
        _b1(chk, dict(kinds=["normal", "seed", "wrapper", "proxyonly", "none"], pairs=[12], behaviours=ALLB, naddons=1,
                      faults=["none", "cap"], maxcalls=1, bad=[False], close=[1, 2]), "close")
        _b1(chk, dict(kinds=KINDS, pairs=[12], behaviours=["ignore", "clearcap", "setcap", "take", "takeResume", "inject", "handled"],
                      naddons=1, faults=F3, maxcalls=1, bad=[False]), "recap")
        _b1(chk, dict(kinds=["normal", "eq", "seed", "wrapper"], pairs=[21], behaviours=["ignore", "take", "raise", "inject", "takeResume"],
                      naddons=1, faults=["none", "cap"], maxcalls=0, bad=[False], others=2), "queue")
        _b1(chk, dict(kinds=["normal", "wrapper"], pairs=[12], behaviours=["ignore", "mirror", "take", "inject"],
                      naddons=2, faults=["none"], maxcalls=0, bad=[False], others=1), "mirror")
        _b2(chk, 1600, 5, "walks")
    if chk.cov.get("b1_raise_points_expected", 0) and not chk.cov.get("b1_raise_points_reached", 0) and not chk.violations:
        raise common.MachineryError("no scripted fault ever made pump_proxy_event raise: fault injection is vacuous")
    chk.cov["exhaustive"] = True


# ----------------------------------------------------------------------------------------
# B2: random multi-flow runs, one recorded trace per flow
# ----------------------------------------------------------------------------------------
TRACE_CFG = ("SPECIFICATION TraceSpec\nCONSTANTS\n Kinds = %s\n Pairs = {11, 12, 21, 22}\n Behaviours = %s\n NAddons = 3\n"
             " Faults = {\"none\", \"cap\", \"logger\"}\n MaxCalls = 1000\n BadApply = {FALSE, TRUE}\n CloseSet = {1, 2}\n MaxOthers = 0\n"
             "POSTCONDITION TraceAccepted\nCHECK_DEADLOCK FALSE\n" % (_tla_set(KINDS), _tla_set(BEHAVIOURS)))


class _Rec:
    """Book-keeping of one flow in a multi-flow run (driver side only; no oracle)."""

    def __init__(self, fd):
        self.fd = fd
        self.events = []
        self.phase = "start"       # start, req, mid, resp, end, dead
        self.calls = 0
        self.nput = 0              # put_log entries already reported


def _new_puts(rec):
    new = rec.fd.put_log[rec.nput:]
    rec.nput = len(rec.fd.put_log)
    return [[k, same, proj, dg] for k, same, proj, dg in new]


def _mf(rec):
    fd = rec.fd
    if fd.main is None:     # the implementation never built / lost the flow: an observation
        return []
    return [bool(fd.main.taken), bool(fd.main.resumed), fd.w.project_main(fd.main, fd)]


async def _random_run(seed, n_flows, n_addons=3):
    import random
    from mitmproxy.http import HTTPFlow
    rng = random.Random(seed)
    salt = "-%x" % rng.getrandbits(32)
    world = World(n_addons, salt=salt)      # brand-new world: generated host names
    q_from, q_to = world.ctx.from_proxy_queue, world.ctx.to_proxy_queue
    recs = []
    by_id = {}
    foreign = []

    def on_put(obj):
        fid = obj[1]
        rec = by_id.get(fid)
        if rec is None:
            foreign.append(fid)
        else:
            rec.fd._on_put(obj)

    used = set()
    for _ in range(n_flows):
        # environment: a temporary cap is consumed by its first request and an EventQueueGet poll
        # with a repeated ack is answered from the cache, so such URLs are used by one flow per world
        while True:
            k = rng.choice(KINDS)
            s, r = (rng.choice((1, 2)), rng.choice((1, 2))) if k not in ("none", "login", "asset") else (0, 0)
            if k not in ("temp", "eq") or (k, s, r) not in used:
                break
        used.add((k, s, r))
        req_fault = "cap" if k in ("wrapper", "eq", "seed") and rng.random() < 0.25 else "none"
        resp_fault = "cap" if k == "login" or (k in ("seed", "eq", "upload") and rng.random() < 0.3) else "none"
        owner = rng.choice(["absent", "bad", "s1", "s2"])
        fd = FlowDriver(world, [k, s, r], req_fault, resp_fault, owner, salt_body=b"%08x" % rng.getrandbits(32))
        recs.append(_Rec(fd))
    order_from = []     # which flow each from_proxy / to_proxy item belongs to (FIFO)
    order_to = []
    for rec in recs:
        rec.fd.on_put = on_put
    for _step in range(n_flows * 14):
        choices = []
        for rec in recs:
            if rec.phase == "start":
                choices.append(("ireq", rec))
            if rec.phase == "mid" and not rec.fd.flow.intercepted and not any(x[0] is rec for x in order_to):
                # (environment guard of InterceptResponse: injected asset responses are not explored)
                proj = world.project_proxy(rec.fd.flow, rec.fd)
                if not (proj[4] and proj[0] in ("asset", "wrapper")):
                    choices.append(("iresp", rec))
            if rec.fd.main is not None and rec.calls < 2:
                choices.append(("call", rec))
        if not world.dirty and _step > 2 and rng.random() < 0.06:
            choices.append(("close", recs[0]))
        if order_from:
            choices += [("handle", order_from[0])] * 3
        if order_to:
            choices += [("apply", order_to[0][0])] * 3
        if not choices:
            break
        what, rec = rng.choice(choices)
        fd = rec.fd
        if what == "close":
            s_closed = rng.choice((1, 2))
            world.close_session(s_closed)
            for r2 in recs:     # every flow of the world lives through it
                r2.events.append({"ev": "SessionCloses", "s": s_closed, "mf": _mf(r2) if r2.fd.main is not None else []})
        elif what == "ireq":
            browser, hdr = rng.random() < 0.25, rng.random() < 0.3
            fd.intercept_request(browser, hdr)
            by_id[fd.flow.id] = rec
            order_from.append(rec)
            rec.phase = "req"
            ev, state = pickle.loads(q_from.items[-1])
            rec.events.append({"ev": "InterceptRequest", "browser": browser, "hdr": hdr,
                               "q": [ev, world.project_proxy(HTTPFlow.from_state(state), fd)]})
        elif what == "iresp":
            bridge = fd.flow.response is None and fd.tgt[0] in ("none", "login") and rng.random() < 0.6
            fd.intercept_response(bridge)
            order_from.append(rec)
            rec.phase = "resp"
            ev, state = pickle.loads(q_from.items[-1])
            rec.events.append({"ev": "InterceptResponse", "bridge": bridge,
                               "q": [ev, world.project_proxy(HTTPFlow.from_state(state), fd)]})
        elif what == "handle":
            order_from.pop(0)
            is_req = rec.phase == "req"
            fault = "none"
            if (fd.req_fault if is_req else fd.resp_fault) == "cap":
                fault = "cap"
            elif rng.random() < 0.3:
                fault = "logger"
            logger = True if fault == "logger" else (rng.random() < 0.5 if is_req else False)
            try:    # reflection bridge: state the event manager keeps across flows
                proxied = bool(world.em._asset_server_proxied)
            except AttributeError:
                raise common.MachineryError("MITMProxyEventManager._asset_server_proxied is gone")
            cfg = {"addons": [rng.choice(BEHAVIOURS) for _ in range(n_addons)], "swallow": rng.random() < 0.6,
                   "fault": fault, "logger": logger, "owner": fd.owner, "proxied": proxied}
            n_before = len(q_from.items)
            await fd.handle(cfg, drain=False)
            # the law is per flow: whatever number of queued events this pump took (one on the unchanged
            # tree), each of them must have been handled and handed back -- recorded for each
            taken_now = [rec]
            for _ in range(max(0, n_before - len(q_from.items) - 1)):
                if order_from:
                    taken_now.append(order_from.pop(0))
            for r2 in taken_now:
                r2.fd.main = world.rt.built.get(r2.fd.flow.id)
                puts = _new_puts(r2)
                order_to.extend((r2,) for _ in puts)
                r2.events.append({"ev": "Handle", "cfg": cfg, "puts": puts, "mf": _mf(r2)})
        elif what == "call":
            rec.calls += 1
            op = rng.choice(["take", "resume", "resume", "preempt"])
            mod = op == "resume" and bool(fd.main.taken) and rng.random() < 0.5
            res = fd.addon_call(op, mod)
            puts = _new_puts(rec)
            order_to.extend((rec,) for _ in puts)
            rec.events.append({"ev": "AddonCall", "op": op, "mod": mod, "res": res, "puts": puts, "mf": _mf(rec)})
        elif what == "apply":
            order_to.pop(0)
            kind, fid, state = pickle.loads(q_to.items[0])
            bad = kind == "callback" and rng.random() < 0.08
            item = [kind, world.project_proxy(HTTPFlow.from_state(state), fd)]
            await fd.apply(bad)
            if bad:
                rec.phase = "dead"
            elif kind == "callback":
                rec.phase = {"req": "mid", "resp": "end"}.get(rec.phase, rec.phase)
            rec.events.append({"ev": "Apply", "bad": bad, "item": item,
                               "px": [bool(fd.flow.intercepted), world.project_proxy(fd.flow, fd)],
                               "pd": digest_flow(fd.flow)})
        if rng.random() < 0.25:
            # the proxy-side pump wakes up with nothing to apply: nothing may change for any flow
            await world.rt.idle_poll()
            for r2 in recs:
                if r2.fd.flow is not None and r2.phase != "dead":
                    r2.events.append({"ev": "IdlePoll", "px": [bool(r2.fd.flow.intercepted), world.project_proxy(r2.fd.flow, r2.fd)]})
    return [(r.fd.tgt, r.events) for r in recs], foreign


def _b2_chunk(seeds):
    rt = runtime()
    out = []
    for seed, n_flows in seeds:
        flows, foreign = rt.loop.run_until_complete(_random_run(seed, n_flows))
        out.append((seed, flows, foreign))
    _WORLDS.clear()
    return out


def _b2(chk: Check, n_runs, n_flows, label):
    seeds = [(chk.rng.getrandbits(48), n_flows) for _ in range(n_runs)]
    results = common.parallel_map(_b2_chunk, common.chunked(seeds, common.NCPU * 2))
    traces = []
    for part in results:
        for seed, flows, foreign in part:
            if foreign:
                chk.violation("B2 %s: an item for an unknown flow id was put on to_proxy_queue" % label,
                              {"kind": "b2-foreign-id", "label": label}, {"seed": seed, "ids": foreign[:3]})
            for tgt, events in flows:
                if events:
                    traces.append((tgt, events))
    # the Reset record of a trace must carry the flow's target: prepend it as the first event
    # of the trace by giving check_traces traces whose Reset is produced by common (tid only)
    # and whose first own event re-binds tgt
    tl = [[{"ev": "Target", "tgt": tgt}] + evs for tgt, evs in traces]
    common.check_traces(chk, "HttpFlow_Trace", TRACE_CFG, tl, label, shards=4 if chk.tier == "quick" else common.NCPU)
    for i, (tgt, evs) in enumerate(traces):
        if any(e["ev"] == "Handle" and any(b != "ignore" for b in e["cfg"]["addons"]) for e in evs) and \
                any(e["ev"] == "Apply" for e in evs):
            chk.nontrivial(("flow", label, i))
    if traces:
        chk.sample({"binding": "B2 trace of one flow", "target": traces[0][0], "events": traces[0][1][:5]})


# ---- growth beyond the listed property: the local asset repository that gets "first bite" at asset
# ---- requests in _handle_request (one of this property's raise points) -- AssetRepo.tla
_run_flows = run


def run(chk):
    _run_flows(chk)
    from . import growth_assetrepo
    common.growth(chk, "AssetRepo", growth_assetrepo.section, 2, 6 if chk.tier == "quick" else 8)
    chk.cov["rule"] += ("  AssetRepo: every edge of the bounded model (create permanent/one-shot asset, clock, requests through asset and "
                        "other caps with good/bad id parameters) replayed into HTTPAssetRepo with a virtual clock.")
