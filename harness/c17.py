"""C17 — event queue: nothing lost, duplicated or reordered; injections delivered once (EventQueue.tla).

Binding B1: TLC enumerates every interleaving of {viewer polls (fresh ack / repeated ack after a
lost response), simulator answers with 1-3 events of several shapes (untemplated with a map / array /
string / undef / integer body, three value-equal events, templated with a complete body / an omitted block /
an empty block, one the proxy's own handling raises on, region-announcing incl. a template-complete CrossedRegion),
addons swallow any subset of the non-announcing events (by position), addon injects, non-200 answer, region teardown}
up to the depth bound.  Every edge is replayed into a fresh real Session / ProxiedRegion behind the
real MITMProxyEventManager._handle_request / _handle_response (mitmproxy flows, state-serialised
between the request and the response phase), with a scripted swallowing addon registered through
the real AddonManager and injections through the real EventQueueManager.inject_event (the wake-up
message goes to a recording transport).  Compared after the edge: the body handed to the viewer
(parsed with the real LLSD parser), the addon's call log, session.regions, and -- by probing the
discarded object with extra polls -- the replay cache (a poll with the cached ack must be answered
with exactly the cached body, any other ack must go upstream) and the pending injections (they must
ride on the next event-carrying response, behind the simulator's events).
"""
from __future__ import annotations

import gc
import struct

from . import common
from .common import Check, Graph, impl_call, skey

INVS = ["Delivery", "NoDuplicates", "InjectedOnce", "UndefForm", "SeenOnce", "RegsOnce"]
PROPS = ["InjectedNext", "InjectedWaits", "ReplayIsLast"]
CONSTS = "MaxEv = %(MaxEv)d MaxInj = %(MaxInj)d MaxDown = %(MaxDown)d Batches = {%(Batches)s} Depth = %(Depth)d"

EQ_URL = "https://sim1.test:12043/cap/0e5d1f0a-eq00-4000-8000-000000000001"
SEEDS = {1: "https://sim1.test:12043/cap/seed-0001", 2: "https://sim2.test:12043/cap/seed-0002",
         3: "https://sim3.test:12043/cap/seed-0003"}
ADDRS = {1: ("127.0.0.1", 13001), 2: ("127.0.0.2", 13002), 3: ("127.0.0.3", 13003)}
PROBE_EVENT = 800       # a simulator event (injected ones are > 900)
PROBE_ACK = 7777

_SM = None


class ScriptedAddon:
    """An addon that swallows the events at the POSITIONS it is told to (the k-th event it is shown of the current
    response: value-equal events cannot be told apart by content) and logs what it is shown."""

    def __init__(self):
        self.plan = []        # per position of the current response: swallow?
        self.calls = 0
        self.seen = []

    def script(self, plan):
        self.plan, self.calls = list(plan), 0

    def handle_eq_event(self, session, region, event):
        vid = event.get("verif") if isinstance(event, dict) else None
        self.seen.append(vid)
        k, self.calls = self.calls, self.calls + 1
        return True if k < len(self.plan) and self.plan[k] else None


def _handle(r):
    return (r << 40) | (7 << 8)


class World:
    def __init__(self):
        global _SM
        from hippolyzer.lib.base.datatypes import UUID
        from hippolyzer.lib.base.test_utils import MockTransport
        from hippolyzer.lib.proxy.addons import AddonManager
        from hippolyzer.lib.proxy.http_event_manager import MITMProxyEventManager
        from hippolyzer.lib.proxy.sessions import SessionManager
        from hippolyzer.lib.proxy.settings import ProxySettings
        if _SM is None:
            _SM = SessionManager(ProxySettings())     # opens multiprocessing queues (~50 ms): once per worker
        self.sm = _SM
        self.sm.sessions.clear()
        self.session = self.sm.create_session({
            "session_id": UUID(int=1001), "secure_session_id": UUID(int=2001), "agent_id": UUID(int=3001),
            "circuit_code": 101, "sim_ip": ADDRS[1][0], "sim_port": ADDRS[1][1], "region_x": 256, "region_y": 256,
            "seed_capability": SEEDS[1],
        })
        self.region = self.session.regions[0]
        self.region.update_caps({"EventQueueGet": EQ_URL})
        self.transport = MockTransport()
        self.near = ("127.0.0.1", 1)
        self.session.open_circuit(self.near, self.region.circuit_addr, self.transport)
        self.addon = ScriptedAddon()
        AddonManager.init([], self.sm, [self.addon])
        self.em = MITMProxyEventManager(self.sm, self.sm.flow_context)
        self.inflight = None
        self.vis = {}         # stream position of an event -> its viewer-visible content id (differs for "eq" events)
        self.handed = {}      # request ack -> last event-carrying body handed to the viewer for a poll with that ack

    def visible(self, pl):
        """projection of a model payload: stream positions -> the content the viewer / an addon can see"""
        if isinstance(pl, dict) and isinstance(pl.get("evs"), list):
            return dict(pl, evs=[self.vis.get(e, e) for e in pl["evs"]])
        return pl

    # --- events ---------------------------------------------------------------------------
    def event(self, vid, kind):
        from hippolyzer.lib.base.datatypes import UUID
        from hippolyzer.lib.base.message.llsd_msg_serializer import LLSDMessageSerializer
        from hippolyzer.lib.base.message.message import Message, Block
        k, x = kind["k"], kind["reg"]
        if k in ("p", "eq"):
            ev = {"message": "VerifPlainEvent", "body": {"n": vid}}
        elif k in ("ba", "bs", "bu", "bi"):
            # an untemplated event whose body is not a map: LLSD array / string / undef / integer
            ev = {"message": "VerifOddBodyEvent",
                  "body": {"ba": [vid, "x", {"k": vid}], "bs": "body of %d" % vid, "bu": None, "bi": vid}[k]}
        elif k in ("tc", "to", "te"):
            # A templated message whose variable-count GroupData block holds a U64 (GroupPowers) the proxy has to
            # unpack; written out by hand (not with the serializer under test) the way a simulator sends it.
            # "to": the agent is in no groups and the block is left out; "te": it is there but empty.
            group = {"GroupID": UUID(int=7000 + vid), "GroupPowers": struct.pack(">Q", (1 << 40) | vid), "AcceptNotices": True,
                     "GroupInsigniaID": UUID(int=7100 + vid), "GroupName": "group %d" % vid}
            if vid % 2:
                body = {"AgentData": [{"AgentID": UUID(int=3001)}]}
                group["Contribution"] = 0
                name = "AgentGroupDataUpdate"
            else:
                body = {"AgentData": [{"AgentID": UUID(int=3001), "AvatarID": UUID(int=3001)}],
                        "NewGroupData": [{"ListInProfile": True}]}
                group["GroupTitle"] = "member"
                name = "AvatarGroupsReply"
            if k == "tc":
                body["GroupData"] = [group, dict(group, GroupID=UUID(int=7200 + vid))]
            elif k == "te":
                body["GroupData"] = []
            ev = {"message": name, "body": body}
        elif k == "EAC":
            ev = {"message": "EstablishAgentCommunication",
                  "body": {"agent-id": UUID(int=3001), "sim-ip-and-port": "%s:%d" % ADDRS[x], "seed-capability": SEEDS[x]}}
        elif k == "ES":
            ev = LLSDMessageSerializer().serialize(Message(
                "EnableSimulator", Block("SimulatorInfo", Handle=_handle(x), IP=ADDRS[x][0], Port=ADDRS[x][1])), True)
        elif k == "CR":
            # template-complete: CrossedRegion carries the simulator in RegionData AND has an Info block of its own
            from hippolyzer.lib.base.datatypes import Vector3
            ev = LLSDMessageSerializer().serialize(Message(
                "CrossedRegion", Block("AgentData", AgentID=UUID(int=3001), SessionID=UUID(int=1001)),
                Block("RegionData", SimIP=ADDRS[x][0], SimPort=ADDRS[x][1], RegionHandle=_handle(x), SeedCapability=SEEDS[x]),
                Block("Info", Position=Vector3(128.0, 64.0, 25.5), LookAt=Vector3(1.0, 0.0, 0.0))), True)
        elif k == "hr":
            # looks like a TeleportFinish, but its U32 fields are plain LLSD integers (as some third-party grids send
            # them): the proxy's own handling of this event raises
            ev = {"message": "TeleportFinish", "body": {"Info": [{
                "AgentID": UUID(int=3001), "LocationID": 4, "SimIP": struct.pack(">BBBB", 127, 0, 0, 9), "SimPort": 13009,
                "RegionHandle": struct.pack(">Q", _handle(9)), "SeedCapability": "https://sim9.test:12043/cap/seed-0009",
                "SimAccess": 13, "TeleportFlags": 1 << 4}]}}
        elif k == "TF":
            ev = LLSDMessageSerializer().serialize(Message(
                "TeleportFinish", Block("Info", AgentID=UUID(int=3001), LocationID=4, SimIP=ADDRS[x][0], SimPort=ADDRS[x][1],
                                        RegionHandle=_handle(x), SeedCapability=SEEDS[x], SimAccess=13, TeleportFlags=1 << 4)), True)
        else:
            raise common.MachineryError("unknown event kind %r" % (kind,))
        ev["verif"] = vid      # identity tag; the proxy passes event maps through untouched
        return ev

    # --- the three HTTP-level operations ------------------------------------------------------
    def poll(self, ack):
        """The viewer's poll reaches the proxy.  -> {"k":"fwd"} or the body the proxy answered itself."""
        from hippolyzer.lib.base import llsd
        from hippolyzer.lib.proxy.caps import SerializedCapData
        from hippolyzer.lib.proxy.http_flow import HippoHTTPFlow
        from mitmproxy.test import tflow, tutils
        f = tflow.tflow(req=tutils.treq(method=b"POST", content=llsd.format_xml({"ack": ack or None, "done": False})))
        f.request.url = EQ_URL
        f.metadata["cap_data_ser"] = SerializedCapData()
        hf = HippoHTTPFlow.from_state(f.get_state(), self.sm)
        self.em._handle_request(hf)
        if hf.response is not None:
            # an answer made by the proxy goes back to the viewer; mitmproxy raises no response event for it,
            # pump_proxy_event only logs it.
            return body_of(hf.response.status_code, hf.response.content), None
        return {"k": "fwd"}, hf.get_state()

    def respond(self, state, status, body):
        from hippolyzer.lib.base import llsd
        from hippolyzer.lib.proxy.http_flow import HippoHTTPFlow
        from mitmproxy.http import HTTPFlow, Response
        f = HTTPFlow.from_state(state)
        if status == 200:
            f.response = Response.make(200, llsd.format_xml(body), {"Content-Type": "application/llsd+xml"})
        else:
            f.response = Response.make(status, body, {"Content-Type": "text/html"})
        hf = HippoHTTPFlow.from_state(f.get_state(), self.sm)
        self.em._handle_response(hf)
        return body_of(hf.response.status_code, hf.response.content, raw_fail=body if status != 200 else None)

    # --- actions ------------------------------------------------------------------------------
    def apply(self, act):
        n = act["n"]
        if n == "Poll":
            def go():
                out, st = self.poll(act["ack"])
                if st is not None:
                    self.inflight, self.inflight_ack = st, act["ack"]
                elif out != self.handed.get(act["ack"]):
                    return {"k": "replay-differs-from-previous-response", "previous": self.handed.get(act["ack"]), "now": out}
                return out
            return impl_call(go)
        if n == "SimRespond":
            def go():
                self.addon.script([v in act["swallow"] for v in act["evs"]])
                st, self.inflight = self.inflight, None
                # "eq" events of one response are equal in value: all carry the content of the first of them
                eqs = [v for v, k in zip(act["evs"], act["batch"]) if k["k"] == "eq"]
                for v in eqs:
                    self.vis[v] = eqs[0]
                evs = [self.event(self.vis.get(v, v), k) for v, k in zip(act["evs"], act["batch"])]
                out = self.respond(st, 200, {"id": act["id"], "events": evs})
                self.handed[self.inflight_ack] = out
                return out
            return impl_call(go)
        if n == "SimFail":
            def go():
                st, self.inflight = self.inflight, None
                if act["kind"] == "undef200":
                    return self.respond(st, 200, None)
                return self.respond(st, 502, b"<html><body>Upstream error</body></html>")
            return impl_call(go)
        if n == "Inject":
            def go():
                self.region.eq_manager.inject_event({"message": "VerifInjectedEvent", "body": {"n": act["e"]}, "verif": act["e"]})
                return {"k": "none"}
            return impl_call(go)
        if n == "Teardown":
            def go():
                self.region.mark_dead()
                self.inflight = None
                self.handed.clear()
                # the region may be re-established later: the viewer's UseCircuitCode re-opens the circuit
                self.session.open_circuit(self.near, self.region.circuit_addr, self.transport)
                return {"k": "none"}
            return impl_call(go)
        raise common.MachineryError("unknown action %r" % (act,))

    # --- observation ----------------------------------------------------------------------------
    def observe(self, obs):
        bad = []
        n = 2
        exp_seen = [self.vis.get(x, x) for x in obs["seen"]]
        if self.addon.seen != exp_seen:
            bad.append(("addon-log", exp_seen, list(self.addon.seen)))
        exp_regs = [list(ADDRS[1])] + [list(ADDRS[x]) for x in obs["regs"]]
        got_regs = [list(r.circuit_addr) for r in self.session.regions]
        if got_regs != exp_regs:
            bad.append(("session.regions", exp_regs, got_regs))
        # --- probes (the object is discarded afterwards) ---
        st, r = impl_call(self.poll, obs["cack"])
        n += 1
        exp = self.visible(obs["cpl"]) if obs["cpl"]["k"] == "events" else {"k": "fwd"}
        if st != "ok" or not same_body(exp, r[0]) or (exp["k"] == "events" and r[0] != self.handed.get(obs["cack"])):
            bad.append(("probe: poll with the cached ack", exp, r[0] if st == "ok" else r))
        st, r = impl_call(self.poll, PROBE_ACK)
        n += 1
        if st != "ok" or r[0] != {"k": "fwd"}:
            bad.append(("probe: poll with an unrelated ack", {"k": "fwd"}, r[0] if st == "ok" else r))
        else:
            self.addon.script([])
            st, r2 = impl_call(self.respond, r[1], 200,
                               {"id": 424242, "events": [self.event(PROBE_EVENT, {"k": "p", "reg": 0})]})
            n += 1
            exp = {"k": "events", "id": 424242, "evs": [PROBE_EVENT] + obs["queue"]}
            if st != "ok" or not same_body(exp, r2):
                bad.append(("probe: pending injections ride on the next response", exp, r2))
        return n, bad


def same_body(exp, got):
    """The property fixes the order of the simulator's events and says each injected event is delivered
    once in that response; where injected events sit among them is left open.  The model prints one
    representative (injected events last); bodies are compared up to that freedom."""
    if exp == got:
        return True
    if not isinstance(got, dict) or exp.get("k") != "events" or got.get("k") != "events" or exp["id"] != got.get("id"):
        return False
    ge = got.get("evs")
    if not isinstance(ge, list) or not all(isinstance(e, int) for e in ge):
        return False
    return [e for e in exp["evs"] if e <= 900] == [e for e in ge if e <= 900] and \
        sorted(e for e in exp["evs"] if e > 900) == sorted(e for e in ge if e > 900)


def body_of(status, content, raw_fail=None):
    """Project an HTTP answer onto the model's terms."""
    from hippolyzer.lib.base import llsd
    if status != 200:
        return {"k": "fail"} if (raw_fail is None or content == raw_fail) and status == 502 else \
            {"k": "fail-altered", "status": status, "content": repr(content)[:100]}
    st, parsed = impl_call(llsd.parse_xml, content)
    if st != "ok":
        return {"k": "unparseable", "content": repr(content)[:100]}
    if parsed is None:
        return {"k": "undef"}
    if not isinstance(parsed, dict) or set(parsed) != {"id", "events"} or not isinstance(parsed["events"], list):
        return {"k": "malformed", "parsed": repr(parsed)[:200]}
    evs = [e.get("verif", "?") if isinstance(e, dict) else "?" for e in parsed["events"]]
    return {"k": "events", "id": parsed["id"], "evs": evs}


# ----------------------------------------------------------------------------------------
_G = None


def _replay_chunk(edge_ids):
    g = _G
    out = []
    queries = 0
    for item in edge_ids:
        # item = edge index, or (f, e) with f a NON-TREE edge into src(e) (a merging history or a self-loop such as a
        # poll answered from the cache and lost again): replayed as path_to(src f) + f + e
        pre = []
        if isinstance(item, tuple):
            pre, ei = [g.edges[item[0]]], item[1]
        else:
            ei = item
        e = g.edges[ei]
        w = World()
        hist = []
        bad = []
        for pe in g.path_to(pre[0]["_s"] if pre else e["_s"]) + pre:
            st, got = w.apply(pe["act"])
            hist.append(pe["act"])
        st, got = w.apply(e["act"])
        hist.append(e["act"])
        queries += 1
        if st != "ok":
            bad.append(("action raised", e["out"], got))
        elif not same_body(w.visible(e["out"]), got):
            bad.append(("body handed to the viewer", w.visible(e["out"]), got))
        n, b2 = w.observe(e["obs"])
        queries += n
        bad += b2
        if bad:
            out.append({"history": hist, "kind": bad[0][0], "mismatches": [list(map(repr, b)) for b in bad[:5]],
                        "spec_state": e["dst"]})
    return queries, out


def _cfg(spec, consts, invs=(), props=(), view=False):
    return ("SPECIFICATION %s\nCONSTANTS %s\nCONSTRAINT Bound\n" % (spec, CONSTS % consts)
            + "".join("INVARIANT %s\n" % i for i in invs) + "".join("PROPERTY %s\n" % p for p in props)
            + ("VIEW View\n" if view else ""))


def _b1(chk: Check, consts, label, pair_cap):
    global _G
    common.model_check(chk, "EventQueue_MC", _cfg("Spec", consts, INVS, PROPS), "EventQueue " + label)
    recs = common.export_records(chk, "EventQueue_MBT", _cfg("MSpec", consts, view=True), "EventQueue_MBT " + label)
    obs = {skey(r["st"]): r["obs"] for r in recs if "st" in r}
    edges = []
    for r in recs:
        if "init" in r:
            edges.append(r)
        elif "src" in r and skey(r["dst"]) in obs:      # target inside the depth bound
            r["obs"] = obs[skey(r["dst"])]
            edges.append(r)
    g = Graph(edges)
    if len(g.edges) < 100:
        raise common.MachineryError("EventQueue_MBT exported only %d edges" % len(g.edges))
    _G = g
    pairs = g.merge_pairs(pair_cap)
    ids = g.reachable_edges() + pairs
    chk.cov["b1_merge_pairs_replayed"] = chk.cov.get("b1_merge_pairs_replayed", 0) + len(pairs)
    World()                         # import the implementation once, before forking
    gc.collect()
    gc.freeze()                     # the exported graph is shared read-only with the workers
    results = common.parallel_map(_replay_chunk, common.chunked(ids, common.NCPU * 8))
    gc.unfreeze()
    chk.count(sum(r[0] for r in results))
    chk.cov["traces_validated_against_impl"] += len(ids)
    chk.cov["b1_edges_replayed"] = chk.cov.get("b1_edges_replayed", 0) + len(ids)
    acts = {}
    for e in g.edges:
        a = e["act"]
        key = a["n"] + (":cached" if a["n"] == "Poll" and e["out"]["k"] == "events" else "") \
            + (":swallow" if a.get("swallow") else "") + (":undef" if e["out"]["k"] == "undef" else "")
        acts[key] = acts.get(key, 0) + 1
        if a["n"] == "SimRespond" and (a["swallow"] or e["src"]["queue"]) or key == "Poll:cached":
            chk.nontrivial(("edge", label, e["_s"], skey(a)))
    chk.cov.setdefault("b1_edges_by_action", {})[label] = acts
    for _, bads in results:
        for b in bads:
            chk.violation("B1 %s: %s differs from specification" % (label, b["kind"]),
                          {"kind": b["kind"], "history": b["history"]}, b)
    e = g.edges[min(len(g.edges) - 1, 4321)]
    chk.sample({"binding": "B1 edge replay", "path": [p["act"] for p in g.path_to(e["_s"])] + [e["act"]],
                "expected_body": e["out"], "expected_observation": e["obs"]})


def run(chk: Check):
    chk.cov["rule"] = ("B1: every edge (inside the depth bound) of the exhaustively enumerated model replayed through the real "
                       "_handle_request/_handle_response with body, addon log, session.regions and probed cache/injection queue "
                       "compared; non-trivial = simulator answers with swallowed events or pending injections, and polls answered "
                       "from the replay cache.")
    chk.assumptions += [
        "the viewer has one poll outstanding per region and repeats a poll with the same ack after a lost response",
        "the simulator never re-sends events; a 200 answer carries at least one event or an undef body",
        "addons swallow only events that announce no region (registration after a swallowed announcement is left open)",
        "what was owed or queued at a region teardown is dropped with the region; the simulator does not answer a poll "
        "that was outstanding at teardown",
        "events are identified by an extra key on the event map, which the proxy hands through untouched; value-equal "
        "events share it and are told apart by position only (the scripted addon swallows by position)",
        "every event map has a 'message' and a 'body' key (the body may be undef)",
        "a response the proxy gives up rewriting (its handling of an event raised) reaches the viewer untouched and is not "
        "remembered for replay (the unchanged code's outcome, taken as the specification's); such a response is not lost",
    ]
    if chk.tier == "quick":
        _b1(chk, dict(MaxEv=4, MaxInj=2, MaxDown=1, Batches="1,2,3,4,5,6,7,8,9,10,11,12", Depth=7), "ev4-d7", 6000)
    else:
        _b1(chk, dict(MaxEv=5, MaxInj=2, MaxDown=1, Batches="1,2,3,4,5,6,7,8,9,10,11,12", Depth=9), "ev5-d9", 60000)
    chk.cov["exhaustive"] = True
