"""Growth: the proxy's in-memory HTTP asset repository (AssetRepo.tla), B1 edge replay into the real
HTTPAssetRepo with a virtual clock (module attribute `dt` of hippolyzer.lib.proxy.http_asset_repo)."""
from __future__ import annotations

import datetime as real_dt
import types
import uuid

from . import common
from .common import Check, Graph

UNIT = 1.0   # seconds per model clock unit (Grace = 5 units = the code's 5 s)


class Impl:
    def __init__(self):
        from hippolyzer.lib.proxy import http_asset_repo as mod
        self.mod = mod
        self.now = real_dt.datetime(2021, 1, 1)
        outer = self

        class _DT(real_dt.datetime):
            @classmethod
            def now(cls, tz=None):
                return outer.now
        self.saved = mod.dt
        mod.dt = types.SimpleNamespace(datetime=_DT, timedelta=real_dt.timedelta)
        self.repo = mod.HTTPAssetRepo()
        self.ids = []

    def close(self):
        self.mod.dt = self.saved

    def step(self, act):
        from hippolyzer.lib.proxy.caps import CapData
        res = {}
        if act["n"] == "Create":
            data = b"asset-%d" % len(self.ids)
            self.ids.append((self.repo.create_asset(data, one_shot=act["oneShot"]), data))
        elif act["n"] == "Advance":
            self.now = self.now + real_dt.timedelta(seconds=act["dt"] * UNIT)
        else:
            aid = self.ids[act["i"] - 1][0] if 0 < act["i"] <= len(self.ids) else uuid.UUID(int=77)
            query = {"texture_id": str(aid)} if act["good"] else {"texture": str(aid), "mesh_id": "not-a-uuid"}
            flow = types.SimpleNamespace(
                cap_data=CapData(cap_name="GetTexture" if act["cap"] else "EventQueueGet"),
                request=types.SimpleNamespace(query=query), response=None)
            st, served = common.impl_call(self.repo.try_serve_asset, flow)
            if st != "ok":
                res["raised"] = served
                served = False
            which = 0
            if served and flow.response is not None:
                for n, (i_, d) in enumerate(self.ids):
                    if bytes(flow.response.content) == d:
                        which = n + 1
            res.update({"served": bool(served), "which": which})
        self.repo.collect_garbage()
        res["stored"] = len(self.repo)
        return res


_G = None


def _replay(items):
    g = _G
    out = []
    for item in items:
        pre = []
        if isinstance(item, tuple):
            pre, ei = [g.edges[item[0]]], item[1]
        else:
            ei = item
        e = g.edges[ei]
        impl = Impl()
        try:
            hist = []
            for pe in g.path_to(pre[0]["_s"] if pre else e["_s"]) + pre:
                impl.step(pe["act"])
                hist.append(pe["act"])
            got = impl.step(e["act"])
            hist.append(e["act"])
            exp = {"stored": e["obs"]["s"]["stored"]}
            if e["act"]["n"] == "Request":
                exp.update({"served": e["obs"]["o"]["served"], "which": e["obs"]["o"]["which"]})
            if got != exp:
                out.append({"history": hist, "expected": exp, "observed": got})
        finally:
            impl.close()
    return out


def section(chk: Check, max_assets: int, depth: int):
    global _G
    cfg = ("SPECIFICATION MSpec\nCONSTANTS MaxAssets = %d Grace = 5 Depth = %d\nINVARIANT PermanentStays\nINVARIANT NeverServeExpired\n"
           % (max_assets, depth))
    g = Graph(common.export_records(chk, "AssetRepo_MBT", cfg, "AssetRepo a%d d%d" % (max_assets, depth)))
    _G = g
    ids = g.reachable_edges() + g.merge_pairs(8000)
    results = common.parallel_map(_replay, common.chunked(ids, common.NCPU * 2))
    chk.count(len(ids))
    chk.cov["traces_validated_against_impl"] += len(ids)
    chk.cov["assetrepo_edges"] = len(ids)
    for e in g.edges:
        if e["act"]["n"] == "Request" and e["obs"]["o"]["served"]:
            chk.nontrivial(("assetrepo", e["_s"], common.skey(e["act"])))
    for bads in results:
        for b in bads:
            chk.divergence("AssetRepo", "B1 asset repo: observation differs from AssetRepo specification",
                          {"kind": "b1-assetrepo", "last": b["history"][-1]["n"]}, b)
    pick = [e for e in g.edges if e["act"]["n"] == "Request" and not e["obs"]["o"]["served"] and e["act"]["i"] > 0 and e["act"]["cap"] and e["act"]["good"]]
    if pick:
        e = pick[0]
        chk.sample({"binding": "B1 asset repo (expired one-shot not served)", "path": [p["act"] for p in g.path_to(e["_s"])] + [e["act"]]})
