"""C13 — fast compressed-object reader vs. declarative template (CompressedObj.tla).

Bindings
* model: the encoder machine of CompressedObj.tla is checked exhaustively over all 2^11 flag
  words x content variants (and a product of variants / kinds / junk high flag bits on selected
  flag words) against the reference parser of the same module.
* B3 (spec -> code): every complete payload of the bounded model is printed by
  CompressedObj_MBT with the reference parser's view (presence, offsets, meaning of State);
  the payload is fed to BOTH real decoders and every field of both results, projected to wire
  bytes, is compared with the slice TLC designates; both results are re-encoded through the
  template and compared with the payload TLC produced.
* B2 (code -> spec): payloads assembled here from struct-based section generators (rich
  contents, every flag word, every kind) and byte-level mutations of them are fed to both real
  decoders; CompressedObj_Trace re-parses each payload with the reference parser and decides
  every clause.

Python computes no expected value: `canon` only projects a decoded value back to bytes.
"""
from __future__ import annotations

import concurrent.futures as cf
import os
import struct
import uuid as _uuid

from . import common
from .common import Check, impl_call, run_tlc, SPECS

INVS = ["TypeOK", "LengthLaw", "ReadBack", "PresenceLaw", "Complete", "Truncated", "StateLaw"]
SINGLES = [1 << k for k in range(11)]


# ------------------------------------------------------------------------------------------
# implementation access (observe_at: Fast...Deserializer.read(bytes), ...Serializer.deserialize/serialize)
# ------------------------------------------------------------------------------------------

class _Impl:
    def __init__(self):
        import hippolyzer.lib.base.serialization as se
        import hippolyzer.lib.base.templates as tmpls
        from hippolyzer.lib.base.objects import FastObjectUpdateCompressedDataDeserializer as Fast
        self.se, self.tmpls = se, tmpls
        self.S = tmpls.ObjectUpdateCompressedDataSerializer
        self.fast_read = Fast.read
        self.known_pcodes = sorted(int(x) for x in tmpls.PCode)
        # sub-serializers used only to project a composite section value back to its content bytes
        self.sub = {
            "PSBlock": tmpls.PSBLOCK_TEMPLATE, "PSBlockNew": tmpls.PSBLOCK_TEMPLATE,
            "ExtraParams": tmpls.EXTRA_PARAM_COLLECTION, "NameValue": tmpls.NameValuesSerializer,
            "TextureEntry": tmpls.TE_SERIALIZER, "TextureAnim": tmpls.TA_TEMPLATE,
        }

    @staticmethod
    def _force(d):
        """The texture entry is decoded lazily; a decode is only complete once it has been realised."""
        if isinstance(d, dict):
            for v in d.values():
                if hasattr(type(v), "__wrapped__") or type(v).__name__ == "Proxy":
                    v.__wrapped__   # noqa: realise (raises what the deferred decode raises)
        return d

    def fast_des(self, p):
        return self._force(self.fast_read(p))

    def tmpl_des(self, p):
        return self._force(self.S.deserialize(None, p))

    def tmpl_ser(self, vals):
        return bytes(self.S.serialize(None, vals))

    def tmpl_positions(self, vals):
        w = self.se.MemberTrackingBufferWriter("<")
        w.write(self.S.TEMPLATE, vals)
        return {st[0]: pos for pos, st in w.member_positions if len(st) == 1}


_I = None


def impl() -> _Impl:
    global _I
    if _I is None:
        try:
            _I = _Impl()
        except Exception as e:  # the anchored names are gone: the bridge broke
            raise common.MachineryError("cannot import the anchored code: %r" % (e,))
    return _I


# projection of a decoded field value to wire bytes (struct only; composite sections through their own
# section serializer).  Strict about Python types so that e.g. bytes-instead-of-str is not hidden.
CANON = {
    "FullID": "uuid", "ID": "I", "PCode": "B", "State": "B", "CRC": "I", "Material": "B", "ClickAction": "B",
    "Scale": "vec3", "Position": "vec3", "Rotation": "quat3", "Flags": "I", "OwnerID": "uuid",
    "AngularVelocity": "vec3", "ParentID": "I", "TreeSpecies": "B", "ScratchPad": "bytes", "Text": "str",
    "TextColor": "bytes", "MediaURL": "str", "PSBlock": "sub", "ExtraParams": "sub", "Sound": "uuid",
    "SoundGain": "f", "SoundFlags": "B", "SoundRadius": "f", "NameValue": "sub",
    "PathCurve": "B", "ProfileCurve": "B", "PathBegin": "H", "PathEnd": "H", "PathScaleX": "B", "PathScaleY": "B",
    "PathShearX": "B", "PathShearY": "B", "PathTwist": "b", "PathTwistBegin": "b", "PathRadiusOffset": "b",
    "PathTaperX": "b", "PathTaperY": "b", "PathRevolutions": "B", "PathSkew": "b", "ProfileBegin": "H",
    "ProfileEnd": "H", "ProfileHollow": "H", "TextureEntry": "sub", "TextureAnim": "sub", "PSBlockNew": "sub",
}
_MISSING = object()
BADCANON = [-1]


def canon(I: _Impl, name: str, v):
    k = CANON[name]
    if k == "uuid":
        if not isinstance(v, _uuid.UUID):
            raise TypeError("not a UUID")
        return v.bytes
    if k in ("I", "B", "H", "b"):
        if not isinstance(v, int) or isinstance(v, bool):
            raise TypeError("not an int")
        return struct.pack("<" + k, int(v))
    if k == "f":
        if not isinstance(v, float):
            raise TypeError("not a float")
        return struct.pack("<f", v)
    if k in ("vec3", "quat3"):
        want = "Vector3" if k == "vec3" else "Quaternion"
        if type(v).__name__ != want:
            raise TypeError("not a " + want)
        return struct.pack("<3f", v.X, v.Y, v.Z)
    if k == "bytes":
        if not isinstance(v, (bytes, bytearray, memoryview)):
            raise TypeError("not bytes")
        return bytes(v)
    if k == "str":
        if not isinstance(v, str):
            raise TypeError("not a str")
        return v.encode("utf8")
    w = I.se.BufferWriter("<")
    w.write(I.sub[name], v)
    return bytes(w.buffer)


def _kind(v):
    if isinstance(v, bool):
        return "bool"
    for t, n in ((int, "int"), (float, "float"), (str, "str"), ((bytes, bytearray, memoryview), "bytes")):
        if isinstance(v, t):
            return n
    return getattr(v, "__class__", type(v)).__name__     # a lazy proxy reports the wrapped class


def _project(I, names, d):
    """-> (has, b) for one decoder result."""
    has, b = [], {}
    for n in names:
        v = d.get(n, _MISSING)
        if v is _MISSING:
            b[n] = BADCANON
            continue
        if v is None:
            b[n] = []
            continue
        has.append(n)
        try:
            b[n] = list(canon(I, n, v))
        except Exception:
            b[n] = BADCANON
    return has, b


def observe(I: _Impl, names, p: bytes, wf: bool) -> dict:
    """Feed one payload to both real decoders and record everything the clauses talk about."""
    empty = {n: [] for n in names}
    ev = {"ev": "Dec", "p": list(p), "wf": bool(wf),
          "fast": {"res": "raise", "has": [], "b": empty, "exc": ""},
          "tmpl": {"res": "raise", "has": [], "b": empty, "pos": [], "exc": ""},
          "rt": {"res": "na", "b": []}, "rf": {"res": "na", "b": []}, "ne": []}
    st, fast = impl_call(I.fast_des, p)
    if st == "ok" and isinstance(fast, dict):
        has, b = _project(I, names, fast)
        ev["fast"] = {"res": "ok", "has": has, "b": b, "exc": ""}
        st2, rb = impl_call(I.tmpl_ser, fast)
        ev["rf"] = {"res": "ok", "b": list(rb)} if st2 == "ok" else {"res": "raise", "b": [], "exc": rb}
    else:
        ev["fast"]["exc"] = fast if st != "ok" else "returned %s" % type(fast).__name__
        fast = None
    st, tm = impl_call(I.tmpl_des, p)
    if st == "ok" and isinstance(tm, dict):
        has, b = _project(I, names, tm)
        ev["tmpl"] = {"res": "ok", "has": has, "b": b, "pos": [], "exc": ""}
        st2, rb = impl_call(I.tmpl_ser, tm)
        if st2 == "ok":
            ev["rt"] = {"res": "ok", "b": list(rb)}
            pos = I.tmpl_positions(tm)
            ev["tmpl"]["pos"] = [pos.get(n, -1) for n in names]
        else:
            ev["rt"] = {"res": "raise", "b": [], "exc": rb}
    else:
        ev["tmpl"]["exc"] = tm if st != "ok" else "returned %s" % type(tm).__name__
        tm = None
    if fast is not None and tm is not None:
        ne = []
        for n in sorted(set(names) | set(fast) | set(tm)):
            a, b_ = fast.get(n, _MISSING), tm.get(n, _MISSING)
            if a is _MISSING or b_ is _MISSING:
                ne.append(n)
                continue
            try:
                same = bool(a == b_)
            except Exception:
                same = False
            if not same:   # NaN-carrying values: equal wire bytes and the same kind of value
                same = (n in CANON and _kind(a) == _kind(b_) and ev["fast"]["b"].get(n) == ev["tmpl"]["b"].get(n)
                        and ev["fast"]["b"].get(n) != BADCANON)
            if not same:
                ne.append(n)
        ev["ne"] = ne
    return ev


# ------------------------------------------------------------------------------------------
# input generators (inputs only: every expected value comes from TLC)
# ------------------------------------------------------------------------------------------

FLAG = dict(SCRATCHPAD=0, TREE=1, TEXT=2, PARTICLES=3, SOUND=4, PARENT_ID=5, TEXTURE_ANIM=6,
            ANGULAR_VELOCITY=7, NAME_VALUES=8, MEDIA_URL=9, PARTICLES_NEW=10)
PRIM = [("PathCurve", 1), ("ProfileCurve", 1), ("PathBegin", 2), ("PathEnd", 2), ("PathScaleX", 1), ("PathScaleY", 1),
        ("PathShearX", 1), ("PathShearY", 1), ("PathTwist", 1), ("PathTwistBegin", 1), ("PathRadiusOffset", 1),
        ("PathTaperX", 1), ("PathTaperY", 1), ("PathRevolutions", 1), ("PathSkew", 1), ("ProfileBegin", 2),
        ("ProfileEnd", 2), ("ProfileHollow", 2)]


def g_f32(rng):
    m = rng.randrange(6)
    if m == 0:
        return struct.pack("<f", rng.choice([0.0, -0.0, 1.0, -1.0, 0.5, 256.0, 1e-3]))
    if m == 1:
        return struct.pack("<f", rng.uniform(-1, 1))
    if m == 2:
        return struct.pack("<f", rng.uniform(-4096, 4096))
    b = bytearray(rng.randbytes(4))
    if (b[3] & 0x7f) == 0x7f and (b[2] & 0x80):
        b[2] &= 0x7f     # domain rule: no NaN / infinity
    return bytes(b)


def g_utf8(rng, n):
    return "".join(rng.choice(["a", "Z", " ", "/", ":", "é", "ü", "日", "\U0001f600", "\n", "%"])
                   for _ in range(n)).encode("utf8")


# ---- "special value" rules: one scalar field of a section set to 0 / 1 / max, the rest as generated ------------
I_ = "i"
PSYS_L = [(4, I_), (4, I_), (1, I_), (2, I_), (2, I_), (1, I_), (1, I_), (2, I_), (2, I_), (2, I_), (2, I_), (1, I_)] \
    + [(2, I_)] * 6 + [(16, I_), (16, I_)]                       # CRC, flags, pattern, ages, angles, burst.., vel, accel, texture, target
PDATA_L = [(4, "skip"), (2, I_), (4, I_), (4, I_), (1, I_), (1, I_), (1, I_), (1, I_)]
TA_L = [(1, I_), (1, I_), (1, I_), (1, I_), (4, "f"), (4, "f"), (4, "f")]
XP_L = {0x10: [(1, I_)] * 4, 0x20: [(4, I_), (4, "f"), (4, "f"), (4, "f")], 0x30: [(16, I_), (1, I_)], 0x60: [(16, I_), (1, I_)],
        0x40: [(16, I_), (4, "f"), (4, "f"), (4, "f")], 0x70: [(4, I_)], 0x90: [(4, "f"), (4, "f"), (1, I_)]}
SCALARS = {"FullID": (16, I_), "ID": (4, I_), "State": (1, I_), "CRC": (4, I_), "Material": (1, I_), "ClickAction": (1, I_),
           "OwnerID": (16, I_), "ParentID": (4, I_), "TreeSpecies": (1, I_), "TextColor": (4, I_), "Sound": (16, I_),
           "SoundGain": (4, "f"), "SoundFlags": (1, I_), "SoundRadius": (4, "f"),
           "Scale": (12, "v"), "Position": (12, "v"), "Rotation": (12, "v"), "AngularVelocity": (12, "v")}
SCALARS.update({n: (w, I_) for n, w in PRIM})


def _special_value(rng, w, kind):
    if kind == "f":        # domain rule: no NaN / infinity -> max is the largest finite float
        return struct.pack("<f", rng.choice([0.0, -0.0, 1.0, 3.4028234663852886e38, -3.4028234663852886e38]))
    return rng.choice([bytes(w), b"\x01" + bytes(w - 1), b"\xff" * w])


def specialize(rng, blob, layout, p=0.3):
    """with probability p: ONE scalar field of the block becomes 0 / 1 / max, everything else stays as generated"""
    if rng.random() >= p or sum(w for w, _ in layout) > len(blob):
        return blob
    idx = rng.choice([i for i, (w, k) in enumerate(layout) if k != "skip"])
    off = sum(w for w, _ in layout[:idx])
    w, k = layout[idx]
    return blob[:off] + _special_value(rng, w, k) + blob[off + w:]


def special_scalar(rng, name, blob, p=0.08):
    """the same for a top-level scalar / vector field (one component of a vector)"""
    if name not in SCALARS or rng.random() >= p:
        return blob
    w, k = SCALARS[name]
    if len(blob) != w:
        return blob
    if k == "v":
        c = rng.randrange(3)
        return blob[:4 * c] + _special_value(rng, 4, "f") + blob[4 * c + 4:]
    return _special_value(rng, w, k)


def g_psys(rng):
    b = specialize(rng, rng.randbytes(68), PSYS_L)
    if rng.random() < 0.08:
        b = bytes(4) + b[4:]      # a populated particle system whose CRC is 0
    return b


def g_pdata(rng, allow_ext):
    fl = rng.choice([0, 1, 0x7ff, rng.getrandbits(11), rng.getrandbits(11)])
    ext = b""
    if allow_ext:
        if rng.random() < 0.5:
            fl |= 0x10000
            ext += rng.randbytes(2)
        if rng.random() < 0.5:
            fl |= 0x20000
            ext += bytes([rng.randrange(0, 12), rng.randrange(0, 12)])
    return specialize(rng, struct.pack("<I", fl) + rng.randbytes(14), PDATA_L) + ext


def g_psblock_legacy(rng):
    m = rng.random()
    if m < 0.06:
        return bytes(86)                                                     # zero-filled block
    if m < 0.12:
        return b"\xff" * 68 + b"\xff\xff\xfc\xff" + b"\xff" * 14             # all FF (minus the glow / blend bits: no room)
    return g_psys(rng) + g_pdata(rng, False)


def g_psblock_new(rng):
    m = rng.randrange(4)
    if m == 0:
        return b""
    if m == 1:
        return g_psblock_legacy(rng)     # exactly 86 bytes left selects the legacy layout
    ps, pd = g_psys(rng), g_pdata(rng, True)
    z = rng.random()
    if z < 0.06:
        ps, pd = bytes(68), bytes(18)
    elif z < 0.12:
        ps, pd = b"\xff" * 68, b"\xff" * 22
    return struct.pack("<i", len(ps)) + ps + struct.pack("<i", len(pd)) + pd


def g_psblock_new_max(rng):
    """variable-length particle system with every optional part (glow and blend)"""
    ps = g_psys(rng)
    pd = struct.pack("<I", rng.getrandbits(11) | 0x30000) + rng.randbytes(14) + rng.randbytes(2) + bytes([rng.randrange(10), rng.randrange(10)])
    return struct.pack("<i", len(ps)) + ps + struct.pack("<i", len(pd)) + pd


def g_extra(rng):
    types = [0x10, 0x20, 0x30, 0x40, 0x60, 0x70, 0x80, 0x90]
    chosen = rng.sample(types, rng.choice([0, 0, 1, 1, 2, 3, len(types)]))   # domain rule: a mapping, no type twice
    out = bytes([len(chosen)])
    for t in chosen:
        if t == 0x10:
            d = rng.randbytes(4) + (b"".join(g_f32(rng) for _ in range(3)) if rng.random() < .5 else b"")
        elif t == 0x20:
            d = rng.randbytes(4) + g_f32(rng) + g_f32(rng) + g_f32(rng)
        elif t in (0x30, 0x60):
            d = rng.randbytes(16) + bytes([rng.choice([0, 1, 2, 3, 4, 5, 0x45, 0x85, 0xC1])])
        elif t == 0x40:
            d = rng.randbytes(16) + g_f32(rng) + g_f32(rng) + g_f32(rng)
        elif t == 0x70:
            d = struct.pack("<I", rng.choice([0, 1, 3, 0x80000001]))
        elif t == 0x80:
            n = rng.randrange(0, 4)
            d = bytes([n]) + b"".join(bytes([rng.randrange(256)]) + rng.randbytes(16) for _ in range(n))
        else:
            d = g_f32(rng) + g_f32(rng) + bytes([rng.randrange(4)])
        if t in XP_L:
            d = specialize(rng, d, XP_L[t], 0.25)
        out += struct.pack("<HI", t, len(d)) + d
    return out


def g_namevalue(rng):
    lines = []
    if rng.random() < 0.1:
        return b""         # present but empty: a bare terminator is a legal name-value section
    for _ in range(rng.choice([1, 1, 2, 3])):
        name = "".join(rng.choice("abcXYZ_09") for _ in range(rng.randrange(1, 8)))
        ty = rng.choice(['STRING', 'F32', 'S32', 'VEC3', 'U32', 'ASSET', 'U64', 'NULL', 'CAMERA'])
        rw = rng.choice(['R', 'RW', 'NULL'])
        st = rng.choice(['S', 'DS', 'SV', 'DSV', 'NULL'])
        val = "".join(rng.choice("abc 123.<>,-é") for _ in range(rng.randrange(0, 10)))
        lines.append(" ".join([name, ty, rw, st, val]))
    return "\n".join(lines).encode("utf8")


HIGH_FACES = [13, 14, 20, 21, 44, 45, 46, 62, 63]     # group boundaries of the 7-bit face bitfield, and beyond MAX_TES


def g_faces(rng):
    m = rng.random()
    if m < 0.2:
        faces = [rng.choice(HIGH_FACES)]                                   # a high face alone
    elif m < 0.45:
        faces = rng.sample(HIGH_FACES, rng.randrange(1, 4)) + rng.sample(range(0, 13), rng.randrange(0, 3))
    else:
        faces = rng.sample(range(0, rng.choice([7, 8, 14, 21, 32])), rng.randrange(1, 4))
    packed = 0
    for f in faces:
        packed |= 1 << f
    arr = []
    while packed:
        arr.append(packed & 0x7f)
        packed >>= 7
    arr.reverse()
    return bytes((v | 0x80) if i < len(arr) - 1 else v for i, v in enumerate(arr))


def g_te(rng):
    if rng.random() < 0.15:
        return b""

    def fld(valgen, first=False):
        out = b"" if first else b"\x00"
        out += valgen()
        used = set()
        for _ in range(rng.choice([0, 0, 1, 2])):
            fb = g_faces(rng)
            if fb in used:
                continue        # domain rule: a face set appears once per field
            used.add(fb)
            out += fb + valgen()
        return out

    def s16():
        # domain rule: raw -32768 excluded (texture rotation is not bit-exact there: C10 / D5)
        return struct.pack("<h", rng.choice([0, 1, -1, 32767, -32767, rng.randrange(-32767, 32768)]))
    out = fld(lambda: rng.randbytes(16), True) + fld(lambda: rng.randbytes(4))
    out += fld(lambda: g_f32(rng)) + fld(lambda: g_f32(rng)) + fld(s16) + fld(s16) + fld(s16)
    out += fld(lambda: rng.randbytes(1)) + fld(lambda: rng.randbytes(1)) + fld(lambda: rng.randbytes(1))
    if rng.random() < 0.5:
        out += fld(lambda: rng.randbytes(16))
    return out


def g_ta(rng):
    m = rng.random()
    if m < 0.06:
        return bytes(16)
    if m < 0.12:
        return b"\xff" * 4 + g_f32(rng) + g_f32(rng) + g_f32(rng)
    return specialize(rng, bytes([rng.getrandbits(7), rng.randrange(256), rng.randrange(256), rng.randrange(256)])
                      + g_f32(rng) + g_f32(rng) + g_f32(rng), TA_L)


BOUNDARY_LENS = [0, 1, 254, 255, 256, 257, 511, 512, 513, 1000]


def g_utf8_len(rng, n):
    """valid UTF-8 without NUL of exactly n bytes"""
    out = b""
    while len(out) < n:
        c = rng.choice(["a", "Z", " ", "/", ":", "%", "q", "7", "é", "日", "\U0001f600"]).encode("utf8")
        if len(out) + len(c) <= n:
            out += c
    return out


def g_extra_max(rng):
    """every extra-param kind at its largest: flexi with user force, 255 render-material entries"""
    ent = [(0x10, rng.randbytes(4) + g_f32(rng) + g_f32(rng) + g_f32(rng)), (0x20, rng.randbytes(4) + g_f32(rng) * 3),
           (0x30, rng.randbytes(16) + b"\x05"), (0x40, rng.randbytes(16) + g_f32(rng) * 3), (0x60, rng.randbytes(16) + b"\x45"),
           (0x70, struct.pack("<I", 1)), (0x80, bytes([255]) + b"".join(bytes([i]) + rng.randbytes(16) for i in range(255))),
           (0x90, g_f32(rng) + g_f32(rng) + b"\x03")]
    rng.shuffle(ent)
    return bytes([len(ent)]) + b"".join(struct.pack("<HI", t, len(d)) + d for t, d in ent)


def g_namevalue_long(rng):
    lines = ["n%d STRING RW SV %s" % (i, g_utf8_len(rng, rng.choice([250, 256, 300, 600])).decode("utf8").replace("\n", " "))
             for i in range(rng.choice([1, 2, 4]))]
    return "\n".join(lines).encode("utf8")


def gen_payload(rng, flags, pcode, hi_bits=0, text_len=None, url_len=None, big=False):
    """-> (payload, parts) with parts = [(field, framing, content|None, start offset)]."""
    raw = []
    if text_len is None and rng.random() < 0.06:
        text_len = rng.choice(BOUNDARY_LENS)
    if url_len is None and rng.random() < 0.06:
        url_len = rng.choice(BOUNDARY_LENS)

    def add(name, framing, content):
        if content is not None and name not in ("PCode", "Flags"):
            content = special_scalar(rng, name, content)
        raw.append((name, framing, content))

    def on(name):
        return bool(flags >> FLAG[name] & 1)
    add("FullID", "fixed", rng.randbytes(16))
    add("ID", "fixed", rng.randbytes(4))
    add("PCode", "fixed", bytes([pcode]))
    add("State", "fixed", rng.randbytes(1))
    add("CRC", "fixed", rng.randbytes(4))
    add("Material", "fixed", bytes([rng.choice([0, 1, 2, 3, 4, 5, 6, 7, 8, 0x13, 255])]))
    add("ClickAction", "fixed", rng.randbytes(1))
    for n in ("Scale", "Position", "Rotation"):
        add(n, "fixed", g_f32(rng) + g_f32(rng) + g_f32(rng))
    add("Flags", "fixed", struct.pack("<I", flags | hi_bits))
    add("OwnerID", "fixed", rng.choice([bytes(16), rng.randbytes(16)]))
    add("AngularVelocity", "fixed", g_f32(rng) + g_f32(rng) + g_f32(rng) if on("ANGULAR_VELOCITY") else None)
    add("ParentID", "fixed", rng.choice([bytes(4), rng.randbytes(4)]) if on("PARENT_ID") else None)
    add("TreeSpecies", "fixed", rng.randbytes(1) if on("TREE") else None)
    add("ScratchPad", "u32", rng.choice([rng.randbytes(rng.choice([0, 1, 2, 5, 40])), bytes(rng.choice([1, 4, 16])),
                                         b"\xff" * rng.choice([1, 4, 16])]) if on("SCRATCHPAD") else None)
    add("Text", "nul", (g_utf8_len(rng, text_len) if text_len is not None else g_utf8(rng, rng.choice([0, 1, 3, 12])))
        if on("TEXT") else None)
    add("TextColor", "fixed", rng.randbytes(4) if on("TEXT") else None)
    add("MediaURL", "nul", (g_utf8_len(rng, url_len) if url_len is not None else g_utf8(rng, rng.choice([0, 1, 9])))
        if on("MEDIA_URL") else None)
    add("PSBlock", "fixed", g_psblock_legacy(rng) if on("PARTICLES") else None)
    add("ExtraParams", "xp", g_extra_max(rng) if big else g_extra(rng))
    s = on("SOUND")
    add("Sound", "fixed", rng.randbytes(16) if s else None)
    add("SoundGain", "fixed", g_f32(rng) if s else None)
    add("SoundFlags", "fixed", bytes([rng.getrandbits(6)]) if s else None)
    add("SoundRadius", "fixed", g_f32(rng) if s else None)
    add("NameValue", "nul", (g_namevalue_long(rng) if big or rng.random() < 0.05 else g_namevalue(rng)) if on("NAME_VALUES") else None)
    for n, w in PRIM:
        add(n, "fixed", rng.randbytes(w))
    add("TextureEntry", "u32", g_te(rng))
    add("TextureAnim", "u32", g_ta(rng) if on("TEXTURE_ANIM") else None)
    add("PSBlockNew", "rest", (g_psblock_new_max(rng) if big else g_psblock_new(rng)) if on("PARTICLES_NEW") else None)
    return _assemble(raw)


def _assemble(raw):
    """[(field, framing, content|None)] -> (payload, [(field, framing, content|None, start offset)])"""
    out = b""
    parts = []
    for name, fr, c in raw:
        parts.append((name, fr, c, len(out)))
        if c is None:
            continue
        if fr == "u32":
            out += struct.pack("<I", len(c)) + c
        elif fr == "nul":
            out += c + b"\x00"
        else:
            out += c
    return out, parts


# every length-prefixed / counted / terminated / greedy section, with the flag that announces it (None: unconditional)
EMPTIABLE = {"ScratchPad": "SCRATCHPAD", "Text": "TEXT", "MediaURL": "MEDIA_URL", "ExtraParams": None,
             "NameValue": "NAME_VALUES", "TextureEntry": None, "TextureAnim": "TEXTURE_ANIM", "PSBlockNew": "PARTICLES_NEW"}


def gen_empty_sections(rng, base_flags, pcode, which):
    """A payload whose sections `which` are announced (flag set) but EMPTY: zero-length block, zero count,
    bare terminator, nothing left.  Whether that is in the domain is the template's decision (observed)."""
    flags = base_flags
    for n in which:
        if EMPTIABLE[n]:
            flags |= 1 << FLAG[EMPTIABLE[n]]
    p, parts = gen_payload(rng, flags, pcode)
    raw = [(n, fr, (b"\x00" if n == "ExtraParams" else b"") if n in which else c) for n, fr, c, _ in parts]
    return _assemble(raw)[0], flags


MUTATIONS = ["trunc", "append", "flagflip", "byte", "content", "len", "dropsec", "dupsec", "nul", "hiflag"]


def mutate(rng, p: bytes, parts, kind: str) -> bytes:
    present = [(n, fr, c, o) for n, fr, c, o in parts if c is not None]
    tail = [x for x in present if x[3] >= 84]
    b = bytearray(p)
    if kind == "trunc":
        cut = rng.choice([rng.randrange(0, len(p)), rng.choice(tail)[3], max(0, len(p) - rng.randrange(1, 4))])
        return bytes(b[:cut])
    if kind == "append":
        return p + rng.randbytes(rng.randrange(1, 4))
    if kind == "flagflip":        # flag bit flipped without adding / removing the section
        k = rng.randrange(11)
        b[64 + k // 8] ^= 1 << (k % 8)
        return bytes(b)
    if kind == "hiflag":          # undefined flag bits: must not matter
        k = rng.randrange(11, 32)
        b[64 + k // 8] ^= 1 << (k % 8)
        return bytes(b)
    if kind == "byte":
        i = rng.randrange(len(b))
        b[i] = rng.randrange(256)
        return bytes(b)
    if kind == "content":         # a byte inside some section's content (framing intact)
        n, fr, c, o = rng.choice([x for x in present if x[2]])
        off = o + (4 if fr == "u32" else 0)
        i = off + rng.randrange(len(c))
        b[i] = rng.randrange(1, 256)
        return bytes(b)
    if kind == "len":
        cands = [x for x in present if x[1] == "u32"]
        n, fr, c, o = rng.choice(cands)
        ln = max(0, len(c) + rng.choice([-1, 1, 2, 255, 1 << 24, 0x7fffffff, 0xffffffff - len(c)]))
        b[o:o + 4] = struct.pack("<I", ln & 0xffffffff)
        return bytes(b)
    if kind in ("dropsec", "dupsec"):
        n, fr, c, o = rng.choice(tail)
        end = o + len(c) + (4 if fr == "u32" else 1 if fr == "nul" else 0)
        return bytes(b[:o] + b[end:]) if kind == "dropsec" else bytes(b[:end] + b[o:end] + b[end:])
    if kind == "nul":
        cands = [x for x in present if x[1] == "nul"]
        if not cands:
            return p + b"\x00"
        n, fr, c, o = rng.choice(cands)
        if c and rng.random() < 0.5:
            i = o + rng.randrange(len(c))
            b[i] = 0               # early terminator
            return bytes(b)
        del b[o + len(c)]          # terminator removed
        return bytes(b)
    raise ValueError(kind)


# ------------------------------------------------------------------------------------------
# model + B3
# ------------------------------------------------------------------------------------------

def _consts(flagwords, hibits, pcodes, variants, product):
    fw = "FlagWords <- AllFlagWords" if flagwords == "all" else "FlagWords = {%s}" % ",".join(map(str, flagwords))
    return "CONSTANTS\n %s\n HighBits = {%s}\n PCodes = {%s}\n Variants = {%s}\n Product = %s\n" % (
        fw, ",".join(map(str, hibits)), ",".join(map(str, pcodes)), ",".join(map(str, variants)),
        "TRUE" if product else "FALSE")


def _mc_cfg(*a):
    return "SPECIFICATION Spec\n" + _consts(*a) + "".join("INVARIANT %s\n" % i for i in INVS)


def _run_mc(scratch, n, cfg_text, workers):
    cfg = os.path.join(scratch, "c13-mc-%d.cfg" % n)
    with open(cfg, "w") as f:
        f.write(cfg_text)
    return run_tlc(os.path.join(SPECS, "CompressedObj.tla"), cfg, workers=workers, scratch=scratch, heap="6g")


FIELD_NAMES = None


def _export(chk: Check, consts_args, label):
    recs = common.export_records(chk, "CompressedObj_MBT", "SPECIFICATION MSpec\n" + _consts(*consts_args), label)
    rows = [r for r in recs if isinstance(r, dict) and r.get("row") == "payload"]
    if not rows:
        raise common.MachineryError("CompressedObj_MBT printed no rows (%s)" % label)
    return rows


_SEEN = {}


def _viol(chk: Check, what, features, detail):
    """At most 3 recorded cases per class (same clause / kind / mutation); the rest is tallied in notes."""
    k = common.skey(features)
    _SEEN[k] = _SEEN.get(k, 0) + 1
    if _SEEN[k] <= 3:
        chk.violation(what, features, detail)


def _features(clause, payload, mut, known, empty=()):
    """pcode_known is read off the payload actually decoded (a mutation may have hit the PCode byte);
    empty_sections names the variable-length sections that are present but empty in the payload as built."""
    return {"kind": "decode", "clause": clause, "pcode_known": len(payload) > 20 and payload[20] in known, "mutation": mut,
            "empty_sections": sorted(empty)}


def _empty_of(parts):
    return [n for n, fr, c, _ in parts if c is not None and fr != "fixed" and (c == b"" or (fr == "xp" and c == b"\x00"))]


def _tag(empty):
    return " [present but empty: %s]" % ",".join(sorted(empty)) if empty else ""


def _replay_rows(chk: Check, rows, label):
    """B3: TLC's payload + TLC's view of it against both real decoders."""
    global FIELD_NAMES
    I = impl()
    names = [f["name"] for f in rows[0]["f"]]
    if FIELD_NAMES is None:
        FIELD_NAMES = names
        missing = [n for n in names if n not in CANON]
        if missing:
            raise common.MachineryError("no projection for spec fields %s" % missing)
    for r in rows:
        p = bytes(r["p"])
        if not r["wf"]:
            raise common.MachineryError("MBT row is not well-formed for the spec itself: flags=%s" % r["flags"])
        ev = observe(I, names, p, True)
        chk.count()
        bad = []
        exp_has = [f["name"] for f in r["f"] if f["val"]]
        exp_pos = [f["start"] for f in r["f"]]
        for side in ("tmpl", "fast"):
            o = ev[side]
            if o["res"] != "ok":
                bad.append(("template-decodes" if side == "tmpl" else "fast-decodes", o["exc"]))
                continue
            for f in r["f"]:
                n = f["name"]
                if not f["val"]:
                    exp = []
                elif n == "State":
                    exp = [r["state"]]
                else:
                    exp = r["p"][f["off"]:f["off"] + f["len"]]
                if (n in o["has"]) != f["val"] or o["b"][n] != exp:
                    bad.append(("%s.%s" % (side, n), {"spec": exp, "impl": o["b"][n], "impl_has_value": n in o["has"]}))
            if sorted(o["has"]) != sorted(exp_has) and not any(b[0].startswith(side + ".") for b in bad):
                bad.append((side + ".presence", {"spec": exp_has, "impl": o["has"]}))
        if ev["tmpl"]["res"] == "ok":
            if ev["rt"]["res"] != "ok" or ev["rt"]["b"] != r["p"]:
                bad.append(("template-reencodes-payload", ev["rt"].get("exc", "bytes differ")))
            elif ev["tmpl"]["pos"] != exp_pos:
                bad.append(("tmpl.positions", {"spec": exp_pos, "impl": ev["tmpl"]["pos"]}))
        if ev["fast"]["res"] == "ok" and (ev["rf"]["res"] != "ok" or ev["rf"]["b"] != r["p"]):
            bad.append(("fast-result-reencodes-payload", ev["rf"].get("exc", "bytes differ")))
        if ev["ne"]:
            bad.append(("values-equal", ev["ne"]))
        emp = [f["name"] for f in r["f"] if f["pres"] and f["start"] >= 84 and
               (f["len"] == 0 or (f["name"] == "ExtraParams" and f["len"] == 1))]
        for clause, detail in bad[:4]:
            _viol(chk, "B3 %s: %s%s" % (label, clause, _tag(emp)), _features(clause, r["p"], "none", I.known_pcodes, emp),
                          {"flags": r["flags"], "hi": r["hi"], "pcode": r["pcode"], "variant": r["v0"],
                           "payload_hex": p.hex(), "detail": detail, "all_failed_clauses": [b[0] for b in bad][:12]})
        chk.nontrivial(("row", r["flags"], r["pcode"], r["v0"], r["hi"], len(p)))
    chk.cov["traces_validated_against_impl"] += len(rows)
    chk.sample({"binding": "B3 row (spec->code)", "flags": rows[len(rows) // 2]["flags"], "pcode": rows[len(rows) // 2]["pcode"],
                "payload_len": len(rows[len(rows) // 2]["p"]),
                "fields_with_value": [f["name"] for f in rows[len(rows) // 2]["f"] if f["val"] and f["start"] >= 84]})


# ------------------------------------------------------------------------------------------
# B2
# ------------------------------------------------------------------------------------------

TRACE_CFG = ("SPECIFICATION TraceSpec\nCONSTANTS\n FlagWords = {0}\n HighBits = {0}\n PCodes = {9}\n Variants = {1}\n"
             " Product = FALSE\nPOSTCONDITION TraceAccepted\nCHECK_DEADLOCK FALSE\n")


def _traces(chk: Check, per_flag: int, n_mut: int, n_empty: int, n_boundary: int):
    I = impl()
    rng = chk.rng
    names = FIELD_NAMES
    known = I.known_pcodes
    unknown = [x for x in (0, 1, 8, 10, 46, 128, 200, 254) if x not in known]
    events, meta = [], []
    pool = []
    for rep in range(per_flag):
        for flags in range(2048):
            r = rng.random()
            pcode = rng.choice(known) if r < 0.9 else rng.choice(unknown)
            if rep == 0 and flags % 4 == 0:
                pcode = known[(flags // 4) % len(known)]
            hi_bits = rng.choice([0, 0, 0, 1 << 11, 1 << 31, 0xfffff800, rng.getrandbits(21) << 11])
            p, parts = gen_payload(rng, flags, pcode, hi_bits)
            events.append(observe(I, names, p, True))
            meta.append({"flags": flags, "pcode": pcode, "mutation": "none", "empty": _empty_of(parts)})
            if pcode in known:
                pool.append((p, parts, flags, pcode))
    # boundary lengths of the terminated / counted sections: each alone, together, and amid all other sections
    T, U = 1 << FLAG["TEXT"], 1 << FLAG["MEDIA_URL"]
    for rep in range(n_boundary):
        for L in BOUNDARY_LENS:
            for flags, kw in ((T, {"text_len": L}), (U, {"url_len": L}), (T | U, {"text_len": L, "url_len": L}),
                              (2047, {"text_len": L, "url_len": BOUNDARY_LENS[(BOUNDARY_LENS.index(L) + 3) % len(BOUNDARY_LENS)]}),
                              (rng.getrandbits(11) | T | U, {"text_len": rng.choice(BOUNDARY_LENS), "url_len": L})):
                pcode = rng.choice(known)
                p, parts = gen_payload(rng, flags, pcode, 0, **kw)
                events.append(observe(I, names, p, True))
                meta.append({"flags": flags, "pcode": pcode, "mutation": "none", "boundary": kw, "empty": _empty_of(parts)})
        for flags in (0, 1 << FLAG["NAME_VALUES"], 1 << FLAG["PARTICLES_NEW"], 2047):
            pcode = rng.choice(known)
            p, parts = gen_payload(rng, flags, pcode, 0, big=True)
            events.append(observe(I, names, p, True))
            meta.append({"flags": flags, "pcode": pcode, "mutation": "none", "boundary": "max-size sections", "empty": _empty_of(parts)})
    stats = {}
    for i in range(n_mut):
        p, parts, flags, pcode = pool[rng.randrange(len(pool))]
        kind = MUTATIONS[i % len(MUTATIONS)]
        q = mutate(rng, p, parts, kind)
        ev = observe(I, names, q, False)
        events.append(ev)
        meta.append({"flags": flags, "pcode": pcode, "mutation": kind})
        indom = ev["tmpl"]["res"] == "ok" and ev["rt"]["res"] == "ok" and ev["rt"]["b"] == ev["p"]
        key = "%s: %s" % (kind, "still in the template's domain" if indom else
                          "fast=%s template=%s" % (ev["fast"]["res"], ev["tmpl"]["res"]))
        stats[key] = stats.get(key, 0) + 1
    # announced-but-empty sections: each alone (on a bare and on a full flag word) and random combinations
    combos = []
    for n in EMPTIABLE:
        combos += [(0, [n]), (2047, [n]), (rng.getrandbits(11), [n])]
    for _ in range(n_empty):
        combos.append((rng.choice([0, 2047, rng.getrandbits(11)]), rng.sample(sorted(EMPTIABLE), rng.randrange(2, len(EMPTIABLE) + 1))))
    for base, which in combos:
        pcode = rng.choice(known)
        q, flags = gen_empty_sections(rng, base, pcode, which)
        # "present but empty" is a legal encoding of every one of these sections except the texture animation block
        # (a fixed 16-byte record): those payloads are well-formed and judged strictly; with an empty TextureAnim
        # the verdict still follows the template's observed acceptance
        ev = observe(I, names, q, "TextureAnim" not in which)
        events.append(ev)
        meta.append({"flags": flags, "pcode": pcode, "mutation": "empty-section", "empty": which})
        indom = ev["tmpl"]["res"] == "ok" and ev["rt"]["res"] == "ok" and ev["rt"]["b"] == ev["p"]
        key = "empty-section: %s" % ("still in the template's domain" if indom else
                                     "fast=%s template=%s" % (ev["fast"]["res"], ev["tmpl"]["res"]))
        stats[key] = stats.get(key, 0) + 1
    traces = [[e] for e in events]
    # exception texts are for the replay file, not for TLC
    slim = [[{k: ({kk: vv for kk, vv in v.items() if kk != "exc"} if isinstance(v, dict) else v) for k, v in e.items()}]
            for e in events]
    acc, rej, results = common.validate_traces("CompressedObj_Trace", TRACE_CFG, slim, chk.scratch, shards=max(2, min(common.NCPU, len(slim) // 900)))
    fails = {}
    for r in results:
        chk.add_tlc(r, "CompressedObj_Trace")
        for rec in r.printed():
            if isinstance(rec, dict) and "fail" in rec:
                if rec["fail"] not in fails.setdefault(rec["tid"], []):
                    fails[rec["tid"]].append(rec["fail"])
    chk.cov["traces_validated_against_impl"] += len(traces)
    chk.count(len(traces))
    for ti, j, ev in rej:
        m = meta[ti]
        _viol(chk, "B2 payload rejected by CompressedObj_Trace", _features("rejected", events[ti]["p"], m["mutation"], known, m.get("empty", ())),
                      {"meta": m, "payload_hex": bytes(events[ti]["p"]).hex()})
    for tid, fl in sorted(fails.items()):
        m, e = meta[tid], events[tid]
        _viol(chk, "B2: %s%s" % (fl[0], _tag(m.get("empty", ()))), _features(fl[0], e["p"], m["mutation"], known, m.get("empty", ())),
                      {"meta": m, "failed_clauses": fl[:12], "payload_hex": bytes(e["p"]).hex(),
                       "fast": {"res": e["fast"]["res"], "exc": e["fast"].get("exc")},
                       "tmpl": {"res": e["tmpl"]["res"], "exc": e["tmpl"].get("exc")}, "ne": e["ne"]})
    for i, (e, m) in enumerate(zip(events, meta)):
        if m["mutation"] == "none":
            chk.nontrivial(("gen", m["flags"], m["pcode"], len(e["p"])))
        elif e["tmpl"]["res"] == "ok" and e["rt"]["b"] == e["p"]:
            chk.nontrivial(("mut-in-domain", i))
    chk.notes.append("outcome classes of mutated payloads (diagnostic, not judged unless still in the template's domain): %s"
                     % ", ".join("%s x%d" % kv for kv in sorted(stats.items())))
    e0 = events[len(events) // 3]
    chk.sample({"binding": "B2 record (code->spec)", "payload_len": len(e0["p"]), "fast": e0["fast"]["res"],
                "tmpl": e0["tmpl"]["res"], "fields_with_value": e0["tmpl"]["has"][12:], "reencoded_equal": e0["rt"]["b"] == e0["p"]})


# ------------------------------------------------------------------------------------------
# B1: histories (CompressedObj_Hist.tla) - a decoder is a function of the payload only
# ------------------------------------------------------------------------------------------

def _hist_cfg(spec, payloads, maxres, checks=True):
    return ("SPECIFICATION %s\nCONSTANTS\n FlagWords = {0}\n HighBits = {0}\n PCodes = {9}\n Variants = {1}\n Product = FALSE\n"
            " HPayloads <- %s\n MaxRes = %d\n" % (spec, payloads, maxres)
            + ("INVARIANT HTypeOK\nINVARIANT HPayloadsOK\nPROPERTY OneAtATime\n" if checks else ""))


def _unwrap(v):
    return v.__wrapped__ if type(v).__name__ == "Proxy" else v


def _is_leaf(v):
    import enum
    import types
    return (v is None or isinstance(v, (int, float, str, bytes, bool, _uuid.UUID, enum.Enum, type, types.ModuleType,
                                        types.FunctionType, types.BuiltinFunctionType, types.MethodType, memoryview, frozenset,
                                        classmethod, staticmethod, property)))


def _children(v):
    """(kind, [(key, child)]) of one mutable node; kind None for leaves / immutable values."""
    v = _unwrap(v)
    if _is_leaf(v):
        return None, []
    if isinstance(v, dict):
        return "dict", list(v.items())
    if isinstance(v, bytearray):
        return "bytearray", []
    if isinstance(v, list):
        return "list", list(enumerate(v))
    if isinstance(v, set):
        return "set", [(None, x) for x in v]
    if isinstance(v, tuple) and not hasattr(v, "__fields__"):
        return "tuple", list(enumerate(v))     # immutable itself, but may hold mutable things
    fields = getattr(type(v), "__fields__", None)
    if fields and all(isinstance(f, str) for f in fields):
        return "record", [(f, getattr(v, f)) for f in fields]
    d = getattr(v, "__dict__", None)
    if isinstance(d, dict):
        return "object", list(d.items())
    return None, []


def _perturb(x):
    if isinstance(x, bool):
        return not x
    if isinstance(x, int):
        return int(x) + 1
    if isinstance(x, float):
        return x + 1.0
    if isinstance(x, str):
        return x + "x"
    if isinstance(x, bytes):
        return x + b"x"
    return "verif-edited"


def mutate_in_place(v, seen=None):
    """Edit every mutable part reachable from v, in place (what a client that owns a result may do)."""
    seen = set() if seen is None else seen
    v = _unwrap(v)
    kind, ch = _children(v)
    if kind is None or id(v) in seen:
        return
    seen.add(id(v))
    for _, c in ch:
        mutate_in_place(c, seen)
    try:
        if kind == "dict":
            for k, c in ch:
                if _children(c)[0] is None:
                    v[k] = _perturb(c)
            v["verif-added-key"] = "verif-added-value"
        elif kind == "list" or kind == "bytearray":
            if kind == "bytearray":
                v.append(1)
            else:
                for k, c in ch:
                    if _children(c)[0] is None:
                        v[k] = _perturb(c)
                v.append("verif-added-item")
        elif kind == "set":
            v.add("verif-added-item")
        elif kind in ("record", "object"):
            for k, c in ch:
                if _children(c)[0] is None:
                    try:
                        setattr(v, k, _perturb(c))
                    except Exception:
                        pass
    except Exception:
        pass


def _mutable_ids(v, acc, seen=None, depth=0):
    """ids of all mutable nodes reachable from v (objects a client could edit in place)."""
    seen = set() if seen is None else seen
    v = _unwrap(v)
    kind, ch = _children(v)
    if kind is None or id(v) in seen or depth > 12:
        return
    seen.add(id(v))
    if kind != "tuple":
        acc[id(v)] = type(v).__name__
    for _, c in ch:
        _mutable_ids(c, acc, seen, depth + 1)


def _static_ids(I):
    """mutable objects reachable from module / class level state of the anchored modules."""
    import sys as _sys
    acc = {}
    roots = []
    for mn in ("hippolyzer.lib.base.objects", "hippolyzer.lib.base.templates", "hippolyzer.lib.base.serialization",
               "hippolyzer.lib.base.namevalue", "hippolyzer.lib.base.datatypes"):
        m = _sys.modules.get(mn)
        if m is None:
            continue
        for name, val in list(vars(m).items()):
            roots.append(val)
            if isinstance(val, type) and getattr(val, "__module__", "") == mn:
                roots.extend(v for v in vars(val).values())
    seen = set()
    for r in roots:
        if isinstance(r, type):
            continue
        _mutable_ids(r, acc, seen)
    return acc


_H = None     # (graph, rows, names) shared with forked workers


def _check_result(I, names, row, res, clean, who, bad, cap=4):
    """every field in `clean` of one decoded result against TLC's row of its payload."""
    has, b = _project(I, names, res)
    for f in row["f"]:
        n = f["name"]
        if n not in clean:
            continue
        exp = [] if not f["val"] else [row["state"]] if n == "State" else row["p"][f["off"]:f["off"] + f["len"]]
        if (n in has) != f["val"] or b[n] != exp:
            if len(bad) < cap:
                bad.append((who, n, {"spec": exp[:40], "impl": b[n][:40], "impl_has_value": n in has}))
    extra = sorted(set(res) - set(names)) if "__all__" in clean else []
    if extra and len(bad) < cap:
        bad.append((who, "<keys>", {"unexpected keys": extra}))


def _hist_replay_chunk(edge_ids):
    g, rows, names = _H
    I = impl()
    out = []
    static = _static_ids(I)
    dec = {"fast": I.fast_des, "tmpl": I.tmpl_des}
    n_obs = 0
    eff, tot = {}, {}
    for ei in edge_ids:
        e = g.edges[ei]
        hist = [pe["act"] for pe in g.path_to(e["_s"])] + [e["act"]]
        held = []
        bad = []
        for a in hist:
            if a["n"] == "Decode":
                st, r = impl_call(dec[a["d"]], bytes(rows[a["k"] - 1]["p"]))
                if st != "ok" or not isinstance(r, dict):
                    bad.append(("decode-raised", a["d"], {"exc": r if st != "ok" else "not a dict", "payload": a["k"]}))
                    r = {}
                held.append(r)
            elif a["n"] == "Mutate":
                mutate_in_place(held[a["i"] - 1].get(a["f"]))
            else:
                r = held[a["i"] - 1]
                for n in list(r):
                    mutate_in_place(r[n])
                    if _children(r[n])[0] is None:
                        r[n] = _perturb(r[n])
                r["verif-added-key"] = "verif-added-value"
        # vacuity guard: the edit of the last step must be visible in the edited field itself
        la = e["act"]
        if la["n"] == "Mutate" and not bad:
            tmp = []
            _check_result(I, names, rows[e["obs"][la["i"] - 1]["k"] - 1], held[la["i"] - 1], {la["f"]}, "x", tmp)
            eff[la["f"]] = eff.get(la["f"], 0) + (1 if tmp else 0)
            tot[la["f"]] = tot.get(la["f"], 0) + 1
        # observation of the target state
        all_names = set(names) | {"__all__"}
        for i, o in enumerate(e["obs"]):
            _check_result(I, names, rows[o["k"] - 1], held[i], set(o["clean"]) | ({"__all__"} if len(o["clean"]) == len(names) else set()),
                          "held-result-changed:%s" % o["d"], bad)
        fresh = []
        for k, row in enumerate(rows):
            for d in ("fast", "tmpl"):
                st, r = impl_call(dec[d], bytes(row["p"]))
                n_obs += 1
                if st != "ok" or not isinstance(r, dict):
                    bad.append(("fresh-decode-differs:%s" % d, "<raised>", {"exc": r, "payload": k + 1}))
                    continue
                _check_result(I, names, row, r, all_names, "fresh-decode-differs:%s" % d, bad)
                st2, rb = impl_call(I.tmpl_ser, r)
                if (st2 != "ok" or list(rb) != row["p"]) and len(bad) < 4:
                    bad.append(("fresh-decode-reencode-differs:%s" % d, "<payload>", {"exc": rb if st2 != "ok" else "bytes differ", "payload": k + 1}))
                fresh.append(("fresh %s #%d" % (d, k + 1), r))
        # non-aliasing, observed directly: no mutable object shared between two results or with static state
        owners = {}
        for who, r in [("held #%d" % (i + 1), h) for i, h in enumerate(held)] + fresh:
            ids = {}
            _mutable_ids(r, ids)
            for oid, tn in ids.items():
                if oid in static and len(bad) < 4:
                    bad.append(("aliasing:static", tn, {"result": who, "shared_with": "module/class level state"}))
                elif oid in owners and owners[oid] != who and len(bad) < 4:
                    bad.append(("aliasing:results", tn, {"result": who, "shared_with": owners[oid]}))
                owners.setdefault(oid, who)
        if bad:
            out.append((ei, hist, bad))
            if len(out) >= 3:      # process-level state may be polluted from here on: stop this chunk
                break
    return out, n_obs, eff, tot


def _history(chk: Check, payloads: str, maxres: int):
    """B1: every edge of the bounded history graph replayed (from the initial state, in forked workers) with the
    full observation: held results, fresh decodes of every payload by both decoders, re-encoding, aliasing."""
    global _H
    label = "histories %s x%d" % (payloads, maxres)
    common.model_check(chk, "CompressedObj_Hist", _hist_cfg("HSpec", payloads, maxres), label, workers=2, heap="2g")
    recs = common.export_records(chk, "CompressedObj_Hist", _hist_cfg("MHSpec", payloads, maxres, False), label, heap="2g")
    init = [r for r in recs if isinstance(r, dict) and "init" in r]
    if not init:
        raise common.MachineryError("CompressedObj_Hist printed no init record")
    rows = init[0]["rows"]
    names = [f["name"] for f in rows[0]["f"]]
    g = common.Graph(recs)
    edges = g.reachable_edges()
    if len(edges) < 100:
        raise common.MachineryError("history graph has only %d edges" % len(edges))
    _H = (g, rows, names)
    # interleave so that every worker sees short and long histories; workers are forked: the parent process stays clean
    chunks = [edges[i::8] for i in range(8)]
    results = common.parallel_map(_hist_replay_chunk, chunks, procs=8)
    known = impl().known_pcodes
    n_fresh = 0
    eff, tot = {}, {}
    for out, n_obs, e1, t1 in results:
        n_fresh += n_obs
        for k, v in e1.items():
            eff[k] = eff.get(k, 0) + v
        for k, v in t1.items():
            tot[k] = tot.get(k, 0) + v
        for ei, hist, bad in out:
            clause, field, detail = bad[0]
            kind = clause.split(":")[0]
            _viol(chk, "B1 history: %s (%s)" % (clause, field),
                  {"kind": "history", "clause": kind, "decoder": clause.split(":")[1] if ":" in clause else "", "field": field},
                  {"history": hist, "first": detail, "all": [(c, f) for c, f, _ in bad], "payloads": [
                      {"flags": r["flags"], "pcode": r["pcode"], "variant": r["variant"], "hex": bytes(r["p"]).hex()} for r in rows]})
    for ei in edges:
        a = g.edges[ei]["act"]
        if a["n"] != "Decode":
            chk.nontrivial(("hist-edge", ei))
    dead = sorted(k for k in tot if not eff.get(k))
    if dead and not chk.violations:
        raise common.MachineryError("in-place edits of %s were never visible in the edited result: the walker is blind there" % dead)
    chk.notes.append("history edges %d; in-place edits visible in the edited field: %s" % (
        len(edges), ", ".join("%s %d/%d" % (k, eff.get(k, 0), tot[k]) for k in sorted(tot))))
    chk.cov["traces_validated_against_impl"] += len(edges)
    chk.count(len(edges) + n_fresh)
    e = g.edges[edges[len(edges) // 2]]
    chk.sample({"binding": "B1 history edge", "history": [pe["act"] for pe in g.path_to(e["_s"])] + [e["act"]],
                "obs": [{"d": o["d"], "payload": o["k"], "fields_still_clean": len(o["clean"])} for o in e["obs"]]})
    _H = None


# ------------------------------------------------------------------------------------------

def run(chk: Check):
    I = impl()
    known = I.known_pcodes
    unknown = [1, 200]
    chk.cov["rule"] = ("spec->code: every complete payload of the bounded encoder machine (all 2^11 flag words x content variants, "
                       "kinds / junk flag bits / variant products on selected flag words) decoded by both real decoders, every field "
                       "compared with the slice TLC designates; code->spec: generated payloads (every flag word, every kind, rich "
                       "contents) and byte-level mutations re-parsed by TLC. non-trivial = distinct (flag word, kind, variant/length) "
                       "payloads plus mutated payloads that stay in the template's domain.")
    chk.assumptions += [
        "generated payloads are well-formed = accepted by the reference parser with nothing left over, and no extra-param type occurs "
        "twice (generator rule, guarded by an Assert in the trace spec); present-but-empty variable-length sections (bare terminator for "
        "Text/MediaURL/NameValue, zero extra-param count, zero-length ScratchPad/TextureEntry, nothing left for PSBlockNew) are well-formed",
        "mutated payloads and payloads with a zero-length TextureAnim block are in the domain iff "
        "the declarative template is observed to decode them and to re-encode them to the same bytes; whether an empty composite section "
        "decodes to 'no value' is bound to the template's observed choice and the fast reader must make the same one",
        "generator domain rules: floats are NaN/inf-free; texture-entry rotation raw -32768 excluded (C10/D5); strings are valid UTF-8",
        "a mutated payload is judged only if the declarative template decodes it and re-encodes it to the same bytes (it is then in the "
        "template's domain); other mutated payloads are tallied in notes only",
        "projection `canon` (struct for scalars, the section's own sub-serializer for PSBlock/ExtraParams/NameValue/TextureEntry/"
        "TextureAnim) is trusted; Rotation.W is derived and not compared",
    ]
    quick = chk.tier == "quick"
    sel = [0, 2047, 1365, 682] + SINGLES
    allv = [1] if quick else [1, 2, 3]
    # exhaustive model, in the background while rows are replayed
    mcs = [("all flag words", _mc_cfg("all", [0], [9], allv, False)),
           ("kinds x junk flag bits x variants", _mc_cfg(sel, [0, 2048, 63488], known + unknown, [1, 2, 3, 4], False)),
           ("all-zero / all-FF blocks", _mc_cfg(sel, [0], [9, 47], [5, 6], False))]
    if not quick:
        mcs.append(("variant product", _mc_cfg([2047, 1365], [0], [9], [1, 2, 3], True)))
    _SEEN.clear()
    with cf.ThreadPoolExecutor(max_workers=1) as ex:
        fut = ex.submit(lambda: [(lab, _run_mc(chk.scratch, n, cfg, 4 if quick else 8)) for n, (lab, cfg) in enumerate(mcs)])
        if quick:
            _replay_rows(chk, _export(chk, ("all", [0], [9], allv, False), "all flag words"), "all flag words")
        else:
            kinds = [9, 47, 255] + [x for x in known if x not in (9, 47, 255)][:1] + unknown[:1]   # prim, avatar, tree, other, unknown
            for pc in kinds:
                _replay_rows(chk, _export(chk, ("all", [0], [pc], allv, False), "all flag words pcode %d" % pc),
                             "all flag words")
        _replay_rows(chk, _export(chk, (sel, [0, 2048, 63488], known + unknown, [1, 2, 3, 4], False),
                                  "kinds x junk flag bits x variants"), "kinds x junk flag bits x variants")
        _replay_rows(chk, _export(chk, (sel, [0], [9, 47], [5, 6], False), "all-zero / all-FF blocks"), "all-zero / all-FF blocks")
        if not quick:
            _replay_rows(chk, _export(chk, ([2047, 1365, 682], [0], [47], [1, 3], True), "variant product"), "variant product")
        _traces(chk, 1 if quick else 4, 1500 if quick else 12000, 120 if quick else 1200, 1 if quick else 6)
        for lab, res in fut.result():
            chk.require_model_ok(res, "CompressedObj " + lab)
    _history(chk, "HPQuick" if quick else "HPThorough", 2)      # forks workers: only once no other thread is running
    extra = {k: n - 3 for k, n in _SEEN.items() if n > 3}
    if extra:
        chk.notes.append("further failing cases not recorded individually: %s" % extra)
    chk.cov["exhaustive"] = True


# ---- growth beyond the listed property: the viewer object cache files behind ObjectUpdateCached, and the name cache
# (ObjectCache.tla, NameCache.tla)
_run_compressed = run


def run(chk):
    _run_compressed(chk)
    from . import growth_objectcache
    if chk.tier == "quick":
        common.growth(chk, "ObjectCache", growth_objectcache.section, 6, 5, 2, [0, 1, 24, 27], False, False, False, 3, 2, False,
                      max_pairs=600)
    else:
        common.growth(chk, "ObjectCache", growth_objectcache.section, 9, 5, 3, [0, 1, 3, 8, 24, 27, 30, 51], False, True, True,
                      4, 2, False, max_pairs=6000)
