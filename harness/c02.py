"""C02 — pass-through fidelity: unmodified datagrams re-encode byte-identically (PassThrough.tla).

Binding
  * model: PassThrough_MC checks the life-cycle design against the property (invariant Faithful) and the
    format law behind it (ReassembleLaw) for EVERY byte string over a small alphabet whose header is
    acceptable for the miniature template universe, both parsing modes, every order of inspections.
  * B1/B2 spec->code->spec: every maximal history TLC enumerates (datagram, mode, order of inspect-header /
    inspect-body / re-encode) is executed on the REAL deserializer / Message / serializer loaded with the
    miniature templates; the recorded trace is validated by PassThrough_Trace, where TLC decides from the
    bytes whether the body parses, what it decodes to, whether the zero-coding is canonical and what the
    re-encoding must therefore be.
  * B2 code->spec: datagrams of every real template (generated, then truncated / extended / byte-flipped /
    trailing blocks dropped / re-zero-coded non-canonically / ack trailer added) go through random orders
    on the real objects; same trace spec.
"""
from __future__ import annotations

import os
import re

from . import common
from .common import Check, impl_call, MachineryError
from . import c01
from .c01 import impl, strip_names, project_header, project_blocks

TRACE_CFG = ("SPECIFICATION TraceSpec\nCONSTANTS DropsRest = FALSE DropsRawOnFail = FALSE\n"
             "POSTCONDITION TraceAccepted\nCHECK_DEADLOCK FALSE\n")
_CAUSE = re.compile(r"\[([a-z0-9-]+)\]$")

BODY_LOOKS = ["blocks", "to_dict", "ensure_parsed", "repr", "contains"]


def look_at_body(msg, how, first_block):
    if how == "blocks":
        msg.blocks                               # noqa
    elif how == "to_dict":
        msg.to_dict()
    elif how == "ensure_parsed":
        msg.ensure_parsed()
        msg.blocks                               # noqa  (ensure_parsed is silent when there is nothing to parse)
    elif how == "repr":
        repr(msg)
    else:
        (first_block or "X") in msg              # noqa


def run_scenario(I, ser, des, shape, data: bytes, mode: str, ops, looks, shapes=None):
    """Execute one history on the real objects and record it.  `des` must match `mode` and stay alive
    (the message only holds a weak reference to it).  Returns (events, accepted)."""
    st, msg = impl_call(des.deserialize, data)
    ev = {"ev": "Recv", "T": strip_names(shape), "d": list(data), "mode": mode, "res": "ok" if st == "ok" else "raise", "vals": []}
    if st != "ok":
        ev["exc"] = msg
        return [ev], False
    if msg.name != shape["name"]:
        # the header selects another template than the one the datagram was built from (mutated number):
        # judge it under the selected one; in the bounded universe TLC names the template, so report
        if shapes is None or msg.name not in shapes:
            return None, False
        shape = shapes[msg.name]
        ev["T"] = strip_names(shape)
    first_block = shape["blocks"][0]["name"] if shape["blocks"] else None
    if mode == "eager":
        st2, vals = impl_call(project_blocks, msg, shape)
        ev["vals"] = vals if st2 == "ok" else [[[c01.BAD]]]
    evs = [ev]
    for n, op in enumerate(ops):
        if op == "H":
            st, h = impl_call(project_header, msg)
            if st != "ok":
                h = {"flags": -1, "pid": [0, 0], "extra": [], "acks": []}
            evs.append(dict(h, ev="Hdr"))
        elif op == "B":
            st, r = impl_call(look_at_body, msg, looks[n % len(looks)], first_block)
            e = {"ev": "Body", "res": "ok" if st == "ok" else "raise", "vals": [], "how": looks[n % len(looks)]}
            if st == "ok":
                st2, vals = impl_call(project_blocks, msg, shape)
                e["vals"] = vals if st2 == "ok" else [[[c01.BAD]]]
            else:
                e["exc"] = r
            evs.append(e)
        else:
            st, out = impl_call(lambda: bytes(ser.serialize(msg)))
            e = {"ev": "Reenc", "res": "ok" if st == "ok" else "raise", "out": list(out) if st == "ok" else []}
            if st != "ok":
                e["exc"] = out
            evs.append(e)
    return evs, True


def validate(chk: Check, label, traces, infos, shards):
    """TLC validation of the recorded traces; one violation per (trace, clause)."""
    acc, rej, results = common.validate_traces("PassThrough_Trace", TRACE_CFG, traces, chk.scratch, shards=shards, tag="pt")
    chk.cov["traces_validated_against_impl"] += len(traces)
    chk.count(sum(len(t) for t in traces))
    seen = set()
    excluded = 0
    classes, by_bytes = {}, {}
    results = sorted(results, key=lambda r: (r.distinct, r.generated))       # shards finish in any order; report deterministically
    recs = []
    for r in results:
        chk.add_tlc(r, "PassThrough_Trace " + label)
        recs += [x for x in r.printed() if isinstance(x, dict)]
    recs.sort(key=lambda x: (x.get("tid", -1), x.get("fail", ""), common.skey(x)))
    for rec in recs:
        if isinstance(rec, dict) and "cls" in rec:
            c = rec["cls"]
            k = "%s/%s%s%s" % (c["status"], "canonical" if c["canon"] else "NON-canonical",
                               "/trailing-bytes" if c["rest"] else "", "/blocks-missing" if c["partial"] else "")
            classes[c["st"] + "/" + k] = classes.get(c["st"] + "/" + k, 0) + 1
            by_bytes[k] = by_bytes.get(k, 0) + 1
            continue
        if not (isinstance(rec, dict) and "fail" in rec):
            continue
        key = (rec["tid"], rec["fail"])
        if key in seen:
            continue
        seen.add(key)
        m = _CAUSE.search(rec["fail"])
        cause = m.group(1) if m else "none"
        clause = _CAUSE.sub("", rec["fail"])
        if cause == "f32-snan":
            excluded += 1       # outside the claimed domain, see assumptions
            continue
        t = traces[rec["tid"]]
        feats = {"kind": "passthrough", "source": label, "clause": clause, "cause": cause}
        chk.violation("B2 %s: %s" % (label, rec["fail"]), feats,
                      dict(infos[rec["tid"]], datagram=bytes(t[0]["d"]).hex(), mode=t[0]["mode"],
                           trace=common._clip([{k: v for k, v in e.items() if k != "T"} for e in t], 80)))
    for ti, j, ev in rej:
        chk.violation("B2 %s: trace not consumable by PassThrough_Trace" % label, {"kind": "passthrough-reject", "source": label},
                      dict(infos[ti], event=common._clip({k: v for k, v in ev.items() if k != "T"}, 80)))
    if excluded:
        chk.cov["excluded_f32_snan_cases"] = chk.cov.get("excluded_f32_snan_cases", 0) + excluded
    # vacuity: every case of the property must have been re-encoded at least once
    chk.cov["reencodings_by_case_" + label] = dict(sorted(classes.items()))
    # (the datagram classes are decided by TLC from the bytes alone; the life-cycle state reached also depends on
    # the implementation, so it is only demanded of a run that found nothing to report)
    for need in ("ok/canonical", "ok/NON-canonical", "fail/canonical", "ok/canonical/trailing-bytes", "ok/canonical/blocks-missing"):
        if need not in by_bytes:
            raise MachineryError("vacuous run: no re-encoding of a datagram of class %s among the %s traces" % (need, label))
    if not chk.violations and not chk.known_hits:
        for need in ("raw/ok/canonical", "raw/fail/canonical", "parsed/ok/canonical", "parsed/ok/NON-canonical", "failed/fail/canonical",
                     "parsed/ok/canonical/trailing-bytes", "parsed/ok/canonical/blocks-missing"):
            if need not in classes:
                raise MachineryError("vacuous run: no re-encoding of case %s among the %s traces" % (need, label))


# ------------------------------------------------------------------------------------------
# part 1: the bounded universe
# ------------------------------------------------------------------------------------------

def mini(chk: Check, alpha, maxtail, flagset, depth_deferred, depth_eager, shards, split=False):
    I = impl()
    consts = ("CONSTANTS Alpha = %s MaxTail = %d FlagSet = %s Offs = {0, 1} DepthDeferred = %d DepthEager = %d "
              "DropsRest = FALSE DropsRawOnFail = FALSE RunLens = %s MBT = %%s\n" % (alpha, maxtail, flagset, depth_deferred, depth_eager, c01.RUN_LENS))
    import concurrent.futures as cf

    def one(i):
        # the universe is split by flag byte so that the single-worker export runs in parallel processes
        cfg = ("SPECIFICATION Spec\n" + (consts % "TRUE").replace("FlagSet = " + flagset, "FlagSet = " + parts[i])
               + "INVARIANT Faithful\nINVARIANT Reassembles\nINVARIANT Selected\n")
        p = os.path.join(chk.scratch, "pt-mc-%d.cfg" % i)
        with open(p, "w") as f:
            f.write(cfg)
        return common.run_tlc(os.path.join(common.SPECS, "PassThrough_MC.tla"), p, workers=1, scratch=chk.scratch, heap="6g")
    flags = [x.strip() for x in flagset.strip("{}").split(",")]
    parts = ["{%s}" % f for f in flags] if split else [flagset]
    with cf.ThreadPoolExecutor(max_workers=len(parts)) as ex:
        mc = list(ex.map(one, range(len(parts))))
    printed = []
    for i, res in enumerate(mc):
        chk.require_model_ok(res, "PassThrough_MC tail<=%d flags %s" % (maxtail, parts[i]))
        if not res.ok:
            return
        printed += res.printed()
    universe, inits, hists = None, [], []
    dclasses = {}
    for r in printed:
        if "universe" in r:
            universe = r["universe"]
        elif "init" in r:
            inits.append(r)
            c = r["cls"]
            k = "%s/%s%s%s%s" % (c["status"], ("canonical-z" if c["canon"] else "NON-canonical-z") if c["z"] else "plain",
                                 "/trailing-bytes" if c["rest"] else "", "/blocks-missing" if c["partial"] else "",
                                 "/acks" if c["acks"] else "")
            dclasses.setdefault(k, set()).add(bytes(r["init"]))
        elif "hist" in r:
            hists.append(r)
    if universe is None or len(hists) < 500:
        raise MachineryError("PassThrough_MC exported %d histories" % len(hists))
    chk.cov["mini_datagrams_by_class"] = {k: len(v) for k, v in sorted(dclasses.items())}
    for need in ("ok/plain", "ok/canonical-z", "ok/NON-canonical-z", "fail/plain", "fail/canonical-z", "empty/plain",
                 "ok/plain/trailing-bytes", "ok/plain/blocks-missing", "ok/plain/acks"):
        if need not in dclasses:
            raise MachineryError("vacuous model: no datagram of class %s in the bounded universe" % need)
    text = c01.render_template_text(universe)
    by_name = {t["name"]: t for t in universe}
    codecs = {}
    for mode in ("eager", "deferred"):
        st, r = impl_call(I.codec, text, mode == "deferred")
        if st != "ok":
            chk.violation("the template parser refuses the miniature universe", {"kind": "template-parse", "where": "mini"}, {"exc": r})
            return
        codecs[mode] = r
    todo = {}
    for r in hists:
        todo.setdefault((bytes(r["d"]), r["mode"], tuple(r["hist"])), r["t"])
    with_hist = {(k[0], k[1]) for k in todo}
    for r in inits:      # arrivals that end at once (refused) still get their Recv validated
        k = (bytes(r["init"]), r["mode"])
        if k not in with_hist:
            todo.setdefault((k[0], k[1], ()), r["t"])
    traces, infos = [], []
    for n, ((data, mode, ops), tname) in enumerate(sorted(todo.items())):
        ser, des, _ = codecs[mode]
        evs, ok = run_scenario(I, ser, des, by_name[tname], data, mode, ops, BODY_LOOKS[n % 5:] + BODY_LOOKS[:n % 5])
        if evs is None:
            chk.violation("header parser selects another template than LLUDPFrame!Ident", {"kind": "passthrough", "source": "mini", "clause": "Recv.template", "cause": "none"},
                          {"datagram": data.hex(), "spec": tname})
            continue
        traces.append(evs)
        infos.append({"template": tname, "ops": list(ops)})
        if len(ops) >= 2 and "B" in ops:
            chk.nontrivial(("mini", data, mode, ops))
    chk.cov["b1_histories_replayed"] = chk.cov.get("b1_histories_replayed", 0) + len(traces)
    chk.sample({"binding": "TLC-enumerated history replayed on the real objects, trace validated by TLC",
                "template": infos[len(infos) // 2]["template"],
                "trace": [{k: v for k, v in e.items() if k != "T"} for e in traces[len(traces) // 2]]})
    validate(chk, "mini", traces, infos, shards)


# ------------------------------------------------------------------------------------------
# part 2: real templates, mutated datagrams
# ------------------------------------------------------------------------------------------

def zero_code(body: bytes, rng, style: str) -> bytes:
    """Input generator only (TLC decodes the result itself): zero-code `body`, canonically or with
    split runs / wrap forms / a trailing lone zero."""
    out = bytearray()
    i, n = 0, len(body)
    while i < n:
        if body[i]:
            out.append(body[i])
            i += 1
            continue
        j = i
        while j < n and body[j] == 0:
            j += 1
        run = j - i
        i = j
        if style == "split" and run >= 2 and rng.random() < 0.7:
            a = rng.randrange(1, run)
            for part in (a, run - a):
                while part > 0:
                    c = min(part, 255)
                    out += bytes([0, c])
                    part -= c
            continue
        if style == "wrap" and run > 256 and run % 256:
            # 00, k continuation zeros (+256 each), count byte c: 256 * k + c zeros
            out += b"\x00" + b"\x00" * (run // 256) + bytes([run % 256])
            continue
        if style == "lone" and i >= n and run == 1:
            out.append(0)
            continue
        while run > 0:
            c = min(run, 255)
            out += bytes([0, c])
            run -= c
    return bytes(out)


# ------------------------------------------------------------------------------------------
# wire values a decoder accepts although no well-behaved sender produces them (input generation only)
# ------------------------------------------------------------------------------------------
import struct as _struct

PRIM_W = {"U8": 1, "S8": 1, "BOOL": 1, "U16": 2, "S16": 2, "IPPORT": 2, "U32": 4, "S32": 4, "F32": 4, "IPADDR": 4, "U64": 8, "S64": 8,
          "F64": 8, "LLVector3": 12, "LLQuaternion": 12, "LLVector4": 16, "LLUUID": 16, "LLVector3d": 24}
_F32_BITS = [0x00000001, 0x007FFFFF, 0x00800000, 0x80000000, 0x80000001, 0x7F7FFFFF, 0xFF7FFFFF, 0x7F800000, 0xFF800000,
             0x3F800001, 0x33800000, 0x00000000]
_F64_BITS = [1, 0x000FFFFFFFFFFFFF, 0x0010000000000000, 1 << 63, (1 << 63) | 1, 0x7FEFFFFFFFFFFFFF, 0x7FF0000000000000,
             0xFFF0000000000000, 0x3FF0000000000001, 0]


def _f32(rng):
    if rng.random() < 0.6:
        return _struct.pack("<I", rng.choice(_F32_BITS))
    while True:
        b = rng.getrandbits(32)
        if (b >> 23) & 0xFF != 0xFF or b & 0x7FFFFF == 0:      # no NaN (outside the claimed domain)
            return _struct.pack("<I", b)


def _f64(rng):
    if rng.random() < 0.6:
        return _struct.pack("<Q", rng.choice(_F64_BITS))
    while True:
        b = rng.getrandbits(64)
        if (b >> 52) & 0x7FF != 0x7FF or b & ((1 << 52) - 1) == 0:
            return _struct.pack("<Q", b)


# three float32 components; squared length > 1 grossly, by one rounding step (0.6f, 0.8f), far beyond, exactly 1, tiny
QUAT_WIRE = [(0.6, 0.8, 0.1), (0.6, 0.8, 0.0), (0.8, -0.6, 0.0), (2.0, 0.0, 0.0), (-1.0, 0.0, 1e-4), (1.0, 1.0, 1.0), (0.70710678, 0.70710678, 0.0),
             (1e30, 0.0, 0.0), (0.0, -1.0, 0.0), (1e-20, 1e-30, 0.0), (0.1, 0.2, 0.3), (-0.0, 0.0, -0.0)]


def wire_value(rng, t: str, quat=None) -> bytes:
    """Bytes for a variable of primitive type t taken from the whole wire domain of the type."""
    if t == "LLQuaternion":
        q = quat or rng.choice(QUAT_WIRE)
        return _struct.pack("<3f", *q) if rng.random() < 0.85 or quat else b"".join(_f32(rng) for _ in range(3))
    if t == "F32":
        return _f32(rng)
    if t == "F64":
        return _f64(rng)
    if t in ("LLVector3", "LLVector4"):
        return b"".join(_f32(rng) for _ in range(PRIM_W[t] // 4))
    if t == "LLVector3d":
        return b"".join(_f64(rng) for _ in range(3))
    w = PRIM_W[t]
    c = rng.randrange(5)
    if t == "BOOL":
        return bytes([rng.choice([0, 1, 2, 127, 128, 255])])
    return (b"\x00" * w if c == 0 else b"\xff" * w if c == 1 else b"\x00" * (w - 1) + b"\x80" if c == 2 else
            b"\xff" * (w - 1) + b"\x7f" if c == 3 else bytes(rng.randrange(256) for _ in range(w)))


def body_layout(shape, prefix: int, typed):
    """[(offset in body, width, type)] of the primitive variables, and the total body length, from the typed
    values the message was generated from."""
    off = prefix
    out = []
    for sb, insts in zip(shape["blocks"], typed):
        if sb["kind"] == "Variable":
            off += 1
        for inst in insts:
            for v, tv in zip(sb["vars"], inst):
                if v["t"] in ("Fixed", "Variable"):
                    n = len(tv["b"]) + (1 if tv["k"] == "str" else 0)
                    off += n + (v["size"] if v["t"] == "Variable" else 0)
                else:
                    out.append((off, PRIM_W[v["t"]], v["t"]))
                    off += PRIM_W[v["t"]]
    return out, off


HISTORIES = [("R",), ("H", "R"), ("B", "R"), ("H", "B", "R"), ("B", "H", "R"), ("R", "B", "R"), ("B", "B", "R"),
             ("B", "R", "R"), ("R", "H", "B", "R")]


def real(chk: Check, per_template, shards, long_zero=4, many_blocks=4, zero_rounds=1, wire_rounds=3, quat_all=False, header_rounds=1):
    I = impl()
    rng = chk.rng
    pairs = c01.real_shapes(chk)
    shapes = {s["name"]: s for s, _ in pairs}
    codecs = {"eager": I.codec(None, False), "deferred": I.codec(None, True)}
    ser0 = codecs["eager"][0]
    traces, infos = [], []
    stats = {}
    zero_runs_seen = set()
    wire_types_seen = {}

    def note(k):
        stats[k] = stats.get(k, 0) + 1

    def one(shape, tmpl, maxlen=12, force_style=None, counts=(0, 1, 1, 2), kinds=None, big_count=0, force=None, tag=None, wire=None,
            extra=None, nacks=None):
        hdr0 = dict(c01.gen_header(rng, rich=False), flags=0, acks=[])
        if extra is not None:
            hdr0["extra"] = extra
        hdr, bp, ty, _ = c01.gen_message(I, rng, shape, tmpl, counts=counts, maxlen=maxlen, force=force, hdr=hdr0)
        kind = rng.choice(kinds or ["pristine", "wire-values", "wire-values", "truncate", "extend", "drop-blocks", "flip", "truncate-z"])
        if force_style:
            kind = "pristine"
        if kind == "drop-blocks" and len(bp) >= 2:
            keep = rng.randrange(1 if len(bp) > 1 else 0, len(bp))
            bp = bp[:keep]
        st, msg = impl_call(c01.build_message, I, shape, hdr, bp, False)
        st, base = impl_call(lambda: bytes(ser0.serialize(msg))) if st == "ok" else (st, msg)
        if st != "ok":
            note("unserializable-input")
            return
        if big_count:
            # the last block is a Variable one holding 64 instances: splice its instance bytes behind a count
            # byte >= 128 by hand, so that the input does not depend on how the serializer writes such a count
            st, m0 = impl_call(c01.build_message, I, shape, hdr, bp[:-1] + [[]], False)
            st, b0 = impl_call(lambda: bytes(ser0.serialize(m0))) if st == "ok" else (st, m0)
            if st != "ok" or b0[-1] != 0 or not base.startswith(b0[:-1]) or base[len(b0) - 1] != 64 or (len(base) - len(b0)) % 64:
                note("big-count-splice-impossible")
                return
            inst = base[len(b0):]
            base = b0[:-1] + bytes([big_count]) + (inst * 4)[:big_count * (len(inst) // 64)]
        body = base[6:]
        prefix = len(tmpl.freq_num_bytes) + len(hdr["extra"])
        if (kind == "wire-values" or wire) and not big_count:
            # overwrite primitive variables in place with values from the whole wire domain of their type
            layout, total = body_layout(shape, prefix, ty[:len(bp)])
            if total != len(body):
                note("layout-mismatch")
            elif layout:
                bb = bytearray(body)
                picks = layout if wire else rng.sample(layout, min(len(layout), rng.randrange(1, 5)))
                for off, w, t in picks:
                    nv = wire(t) if wire else wire_value(rng, t)
                    if nv is not None:
                        bb[off:off + w] = nv
                        wire_types_seen[t] = wire_types_seen.get(t, 0) + 1
                body = bytes(bb)
        if kind == "truncate" and len(body) > prefix:
            body = body[:rng.randrange(prefix, len(body))] if rng.random() < 0.9 else body[:rng.randrange(1, prefix + 1)]
        elif kind == "extend":
            body = body + bytes(rng.choice([0, 0, 1, 255, rng.randrange(256)]) for _ in range(rng.randrange(1, 4)))
        elif kind == "flip" and len(body) > prefix:
            bb = bytearray(body)
            for _ in range(rng.randrange(1, 3)):
                k = rng.randrange(prefix, len(bb))
                bb[k] = rng.choice([0, 1, 2, 255, bb[k] ^ (1 << rng.randrange(8)), (bb[k] + 1) % 256])
            body = bytes(bb)
        flags = rng.choice([0, 0x40, 0x20, 0x60])
        style = "-"
        if force_style or rng.random() < 0.5:
            flags |= 0x80
            style = force_style or rng.choice(["canonical", "canonical", "split", "lone", "wrap"])
            body = zero_code(body, rng, style)
            if kind == "truncate-z" and len(body) > 6:
                body = body[:rng.randrange(5, len(body))]
        tail = b""
        if nacks is not None or rng.random() < 0.35:
            flags |= 0x10
            acks = [rng.choice([1, 0, 0xFFFFFFFF, rng.getrandbits(32)]) for _ in range(rng.choice([0, 1, 2, 5]) if nacks is None else nacks)]
            tail = b"".join(a.to_bytes(4, "big") for a in reversed(acks)) + bytes([len(acks)])
        data = bytes([flags]) + base[1:6] + body + tail
        mode = rng.choice(["eager", "deferred", "deferred"])
        ops = rng.choice(HISTORIES if not (force or wire) else [h for h in HISTORIES if "B" in h])
        ser, des, _ = codecs[mode]
        looks = BODY_LOOKS[:]
        rng.shuffle(looks)
        evs, ok = run_scenario(I, ser, des, shape, data, mode, ops, looks, shapes)
        if evs is None:
            note("unknown-template-selected")
            return
        if not ok and mode == "deferred" and extra is None:
            note("header-refused")       # outside the quantifier (datagrams accepted by the header parser)
            return
        traces.append(evs)
        infos.append({"template": shape["name"], "mutation": tag or kind, "zero-coding": style, "ops": list(ops)})
        if force:
            zero_runs_seen.update(c01.max_zero_runs(base[6:]))
        chk.nontrivial(("real", shape["name"], kind, style, mode, ops))
        note(kind + "/" + style)
    for shape, tmpl in pairs:
        for _ in range(per_template):
            one(shape, tmpl)
    # long zero runs (wrap forms need more than 256 zeros): templates with a two-byte Variable field
    wide = [(s, t) for s, t in pairs if any(v["t"] == "Variable" and v["size"] == 2 for b in s["blocks"] for v in b["vars"])
            and sum(len(b["vars"]) for b in s["blocks"]) <= 14]
    for k in range(long_zero):
        shape, tmpl = rng.choice(wide)
        saved = c01.gen_bytes_field
        c01.gen_bytes_field = lambda r, var, cls, maxlen, big: (
            (bytes(r.choice([300, 513, 600])) + b"\x01", True) if var["t"] == "Variable" and var["size"] == 2 else saved(r, var, cls, 12, False))
        try:
            one(shape, tmpl, force_style=["wrap", "split", "canonical", "wrap"][k % 4])
        finally:
            c01.gen_bytes_field = saved
    # header product: canonically zero-coded, ack trailer with 0..3 IDs, extra bytes of every class, small and large bodies
    # (a refusal of such a datagram is not dropped as out of scope: TLC says whether it was parseable)
    small = [p for p in pairs if sum(c01.inst_size(b) * (b["n"] or 1) for b in p[0]["blocks"]) <= 8
             and all(b["kind"] != "Variable" and all(v["t"] != "Variable" for v in b["vars"]) for b in p[0]["blocks"])]
    large = [p for p in pairs if 60 <= sum(c01.inst_size(b) * (b["n"] or 1) for b in p[0]["blocks"]) <= 300]
    for _ in range(header_rounds):
        for nack in (0, 1, 3):
            for ex in c01.extra_classes(rng):
                shape, tmpl = rng.choice(small if rng.random() < 0.6 else large)
                one(shape, tmpl, maxlen=6, counts=(1,), force_style="canonical", tag="hdr-zc-acks%d-extra%d" % (nack, len(ex)), extra=ex, nacks=nack)
    # every rotation field of the real template with every out-of-the-ordinary wire quaternion
    quat_templates = [(s_, t_) for s_, t_ in pairs if any(v["t"] == "LLQuaternion" for b in s_["blocks"] for v in b["vars"])]
    for shape, tmpl in quat_templates:
        for q in (QUAT_WIRE if quat_all else rng.sample(QUAT_WIRE, 4) + QUAT_WIRE[:2]):
            one(shape, tmpl, maxlen=6, counts=(1,), kinds=["pristine"], tag="wire-quaternion",
                wire=lambda t, q=q: wire_value(rng, t, quat=q) if t == "LLQuaternion" else None)
    # every primitive type at least a few times
    for t in sorted(PRIM_W):
        cands = [(s_, t_) for s_, t_ in pairs if any(v["t"] == t for b in s_["blocks"] for v in b["vars"])
                 and sum(len(b["vars"]) for b in s_["blocks"]) <= 40]
        for _ in range(wire_rounds if cands else 0):
            shape, tmpl = rng.choice(cands)
            one(shape, tmpl, maxlen=6, counts=(1, 2), kinds=["pristine"], tag="wire-" + t,
                wire=lambda tt, t=t: wire_value(rng, tt) if tt == t else None)
    chk.cov["wire_values_substituted_by_type"] = dict(sorted(wire_types_seen.items()))
    if not chk.violations and not chk.known_hits and any(t not in wire_types_seen for t in ("LLQuaternion", "F32", "F64", "U64", "IPADDR", "IPPORT", "BOOL")):
        raise MachineryError("vacuous run: wire values of some primitive type were never substituted")
    # zero runs around the 255 boundaries of zero-coding at the start / in the middle / at the end of a payload (of the
    # body when the field is its last), canonically zero-coded by the harness, parsed, re-encoded
    sites = c01.zero_run_sites(pairs)
    last_sites = [x for x in sites if x[3]] or sites
    for n, pos in [(n, pos) for n in c01.ZERO_RUNS for pos in ("start", "middle", "end")] * zero_rounds:
        shape, tmpl, site, _ = rng.choice(last_sites if pos == "end" else sites)
        one(shape, tmpl, maxlen=6, counts=(1,), force_style="canonical", force={site: c01.zero_run_payload(n, pos)},
            tag="zero-run-%d-%s" % (n, pos))
    chk.cov["real_body_zero_runs_seen"] = sorted(x for x in zero_runs_seen if x >= 250)
    if not chk.violations and not chk.known_hits and not {255, 510, 765} <= zero_runs_seen:
        raise MachineryError("vacuous run: no zero-coded real body with a maximal zero run of 255, 510 and 765 bytes")
    # large repeat counts (count byte >= 128) on templates with small Variable blocks
    small_var = [(s, t) for s, t in pairs if s["blocks"] and s["blocks"][-1]["kind"] == "Variable" and c01.inst_size(s["blocks"][-1]) <= 8
                 and all(v["t"] != "Variable" for v in s["blocks"][-1]["vars"])
                 and all(b["kind"] != "Variable" for b in s["blocks"][:-1]) and sum(c01.inst_size(b) for b in s["blocks"]) <= 60]
    for k in range(many_blocks):
        shape, tmpl = rng.choice(small_var)
        one(shape, tmpl, maxlen=1, counts=(64,), kinds=["pristine", "pristine", "pristine", "extend"], big_count=rng.choice([128, 129, 200, 255]))
    chk.cov["real_scenarios"] = dict(sorted(stats.items()))
    if len(traces) < 100:
        raise MachineryError("only %d real scenarios could be built" % len(traces))
    chk.sample({"binding": "mutated datagram of a real template on the real objects, trace validated by TLC",
                "info": infos[3], "trace": common._clip([{k: v for k, v in e.items() if k != "T"} for e in traces[3]], 24)})
    validate(chk, "real", traces, infos, shards)


def run(chk: Check):
    chk.cov["rule"] = ("every byte string over the alphabet up to the tail bound with an acceptable header x {eager, deferred} x every "
                       "order of {inspect header, inspect body, re-encode} up to the depth bound (ending in a re-encoding), enumerated by "
                       "TLC, executed on the real objects, validated by TLC; plus mutated datagrams of every real template in random orders. "
                       "non-trivial = history that inspects the body / distinct (template, mutation, zero-coding, mode, order).")
    chk.assumptions += [
        "a datagram is in scope when the implementation's header parser hands out a message for it",
        "whether an all-blocks-missing body or a zero-coded body expanding beyond 0x3000 parses is left open (bound to the observed outcome)",
        "what a second inspection of a body that failed to parse returns is not constrained; only that the datagram stays forwardable",
        "float32 signalling-NaN bit patterns are outside the claimed domain (a Python float cannot carry them; DESIGN 9 lists NaN as excluded); "
        "cases whose only divergence TLC attributes to such a pattern are counted in excluded_f32_snan_cases, not reported",
        "decoded values are projected onto packed payloads with Python's struct/uuid/socket (opaque leaves)",
    ]
    if chk.tier == "quick":
        mini(chk, "{0, 1, 255}", 4, "{0, 128, 16, 144}", 3, 2, shards=10)
        real(chk, 2, shards=6)
    else:
        mini(chk, "{0, 1, 255}", 6, "{0, 128, 16, 144}", 3, 2, shards=14, split=True)
        real(chk, 30, shards=14, long_zero=24, many_blocks=40, zero_rounds=6, wire_rounds=30, quat_all=True, header_rounds=6)
    chk.cov["exhaustive"] = True
