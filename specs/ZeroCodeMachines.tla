--------------------------- MODULE ZeroCodeMachines ---------------------------
(* Algo layer of ZeroCode: both functions of the code as byte-fed machines, checked  *)
(* against the Spec layer in every reachable state.                                  *)
EXTENDS ZeroCode
CONSTANTS Alpha,      \* input alphabet of the encoder machine
          MaxLen,     \* longest input fed
          DAlpha,     \* alphabet of encoded strings fed to the decoder machine
          DMaxLen, Cap
VARIABLES mode,            \* "enc" | "dec"
          inp, out, zc,    \* encoder: bytes fed, compressed_buff, zero_count
          denc, dlen, dbuf, inZero, refused   \* decoder: bytes fed, len(decode_buf), decode_buf, in_zero
vars == <<mode, inp, out, zc, denc, dlen, dbuf, inZero, refused>>

Init == /\ mode \in {"enc", "dec"}
        /\ inp = <<>> /\ out = <<>> /\ zc = 0
        /\ denc = <<>> /\ dlen = 0 /\ dbuf = <<>> /\ inZero = FALSE /\ refused = FALSE

\* for char in data: ...
Feed(b) ==
    /\ mode = "enc" /\ Len(inp) < MaxLen
    /\ inp' = Append(inp, b)
    /\ IF b = 0
       THEN IF zc = 0 THEN out' = Append(out, 0) /\ zc' = 1
            ELSE IF zc + 1 = 255 THEN out' = Append(out, 255) /\ zc' = 0     \* _terminate_zeros()
            ELSE out' = out /\ zc' = zc + 1
       ELSE /\ out' = (IF zc > 0 THEN Append(out, zc) ELSE out) \o <<b>>
            /\ zc' = 0
    /\ UNCHANGED <<mode, denc, dlen, dbuf, inZero, refused>>
\* the final _terminate_zeros()
Final == IF zc > 0 THEN Append(out, zc) ELSE out

\* for c in msg_buf: ...
DFeed(c) ==
    /\ mode = "dec" /\ Len(denc) < DMaxLen /\ ~refused
    /\ denc' = Append(denc, c)
    /\ IF dlen > Cap
       THEN refused' = TRUE /\ UNCHANGED <<dlen, dbuf, inZero>>
       ELSE /\ refused' = FALSE
            /\ IF c = 0
               THEN /\ dlen' = dlen + 1 + (IF inZero THEN 255 ELSE 0)
                    /\ dbuf' = dbuf \o Zeros(1 + (IF inZero THEN 255 ELSE 0))
                    /\ inZero' = TRUE
               ELSE IF inZero
                    THEN dlen' = dlen + c - 1 /\ dbuf' = dbuf \o Zeros(c - 1) /\ inZero' = FALSE
                    ELSE dlen' = dlen + 1 /\ dbuf' = Append(dbuf, c) /\ inZero' = FALSE
    /\ UNCHANGED <<mode, inp, out, zc>>

Next == (\E b \in Alpha : Feed(b)) \/ (\E c \in DAlpha : DFeed(c))
Spec == Init /\ [][Next]_vars

\* ---- properties of the encoder, in every state (i.e. for every input string)
EncIsReference == mode = "enc" => Final = Encode(inp)
RoundTrip == mode = "enc" => Decode(Final) = inp
CanonicalOut == mode = "enc" => IsCanonical(Final)
Bounded == mode = "enc" => Len(Final) <= 2 * Len(inp)
\* ---- properties of the decoder machine
DecIsReference == (mode = "dec" /\ ~refused) => (dbuf = Decode(denc) /\ dlen = DecodedLen(denc))
DecBounded == mode = "dec" => dlen <= Cap + 256
RefuseOnlyBeyondCap == (mode = "dec" /\ refused) => ~MustDecode(denc, Cap)
RefuseWhenUnbounded == (mode = "dec" /\ MustRefuse(denc, Cap)) => refused
=============================================================================
