------------------------------ MODULE Transfer ------------------------------
(***************************************************************************)
(* C20, transfer clause -- chunked file transfers of hippolyzer/lib/base/   *)
(* xfer_manager.py (Xfer: sender-side chunking with a 4-byte length prefix, *)
(* receiver XferManager) and transfer_manager.py (TransferManager receiver; *)
(* the sending peer chunks the bare payload).                               *)
(*                                                                         *)
(* A payload of n bytes is put on the wire as Wire(proto, n), cut into      *)
(* NumChunks pieces of at most C bytes, numbered from 0, the last one        *)
(* end-marked.  The receiver sees the pieces in any order, any number of     *)
(* times.  It is complete exactly when every piece 0..last has arrived, and  *)
(* then the pieces in numerical order (prefix removed) are the payload.      *)
(***************************************************************************)
EXTENDS Integers, Sequences, FiniteSets, TLC

Min(a, b) == IF a < b THEN a ELSE b
\* the payload: n bytes that make any loss, duplication or misplacement of a byte visible
Payload(n) == [i \in 1..n |-> ((i * 7 + (i \div 251) * 3) % 251) + 1]
LE32(n) == <<n % 256, (n \div 256) % 256, (n \div 65536) % 256, (n \div 16777216) % 256>>
\* "xferTurbo": the Xfer receiver in its ack-ahead mode (it acknowledges pieces before they arrive); wire image and law are
\* those of "xfer" -- acknowledged is not received
IsXfer(proto) == proto \in {"xfer", "xferTurbo"}
PrefixLen(proto) == IF IsXfer(proto) THEN 4 ELSE 0
Wire(proto, n) == IF IsXfer(proto) THEN LE32(n) \o Payload(n) ELSE Payload(n)
WireLen(proto, n) == PrefixLen(proto) + n
\* an empty wire image still needs one (empty, end-marked) piece
NumChunks(len, C) == IF len = 0 THEN 1 ELSE (len + C - 1) \div C
Chunk(data, C, i) == SubSeq(data, i * C + 1, Min((i + 1) * C, Len(data)))
Chunks(data, C) == [k \in 1..NumChunks(Len(data), C) |-> Chunk(data, C, k - 1)]
\* what the receiver keeps of piece i
Strip(proto, i, chunk) == IF i = 0 THEN SubSeq(chunk, PrefixLen(proto) + 1, Len(chunk)) ELSE chunk
RECURSIVE Flat(_)
Flat(ss) == IF ss = <<>> THEN <<>> ELSE Head(ss) \o Flat(Tail(ss))

VARIABLES proto, n, C,   \* the transfer: protocol, payload length, chunk size
          got,           \* numbers of the pieces that have arrived
          eofSeen,       \* mechanism: the end-marked piece has arrived ...
          stored,        \* ... and the number of distinct pieces stored (what the code counts)
          arrivals,      \* how many packets arrived (bound of the model)
          done           \* the receiver declared the transfer complete
vars == <<proto, n, C, got, eofSeen, stored, arrivals, done>>

N == NumChunks(WireLen(proto, n), C)
Last == N - 1
Piece(i) == Chunk(Wire(proto, n), C, i)
\* property level
Complete(g) == \A j \in 0..Last : j \in g
RECURSIVE Asm(_, _)
Asm(g, i) == IF i > Last THEN <<>> ELSE (IF i \in g THEN Strip(proto, i, Piece(i)) ELSE <<>>) \o Asm(g, i + 1)
Reassembled == Asm(got, 0)

Start(p, len, c) == /\ proto = p /\ n = len /\ C = c /\ got = {} /\ eofSeen = FALSE /\ stored = 0
                    /\ arrivals = 0 /\ done = FALSE

\* piece i arrives (possibly again).  The mechanism: remember the end mark, count distinct pieces.
Arrive(i) == /\ i \in 0..Last
             /\ got' = got \cup {i}
             /\ eofSeen' = (eofSeen \/ i = Last)
             /\ stored' = Cardinality(got \cup {i})
             /\ arrivals' = arrivals + 1
             /\ done' = (done \/ (eofSeen' /\ stored' = Last + 1))
             /\ UNCHANGED <<proto, n, C>>
\* a packet of some other transfer arrives on the same connection
Foreign == /\ arrivals' = arrivals + 1 /\ UNCHANGED <<proto, n, C, got, eofSeen, stored, done>>

(*************************** Properties ************************************)
\* laws of the chunking
ChunkingLaw == LET w == Wire(proto, n) cs == Chunks(w, C) IN
    /\ Flat(cs) = w
    /\ Len(cs) = N /\ N >= 1
    /\ \A k \in 1..Len(cs) : Len(cs[k]) <= C /\ (k < Len(cs) => Len(cs[k]) = C)
    /\ (Len(w) > 0 => Len(cs[Len(cs)]) > 0)
PrefixLaw == IsXfer(proto) => SubSeq(Piece(0), 1, 4) = LE32(n)
\* completes exactly when all pieces up to the end-marked one have arrived
DoneIffComplete == done <=> Complete(got)
\* ... and then reassembles to exactly the payload
ReassemblesToPayload == Complete(got) => Reassembled = Payload(n)
\* nothing but the payload: a partial reassembly is never longer than it
NeverTooLong == Len(Reassembled) <= n
=============================================================================
