------------------------------ MODULE LLUDPMini ------------------------------
(* The miniature template universe shared by the bounded models of C01 and C02.  The     *)
(* harness renders exactly these records as message_template.msg text and loads it into  *)
(* the REAL template parser / serializer / deserializer, so that TLC's exhaustive tables *)
(* over this universe can be replayed byte for byte.  Variable names matter only to the  *)
(* implementation's text/binary guessing ("Name" text, "Data" binary, "Foo" neither).    *)
(* Message numbers are spelt with the bytes 0, 1 and 255 so that every header is         *)
(* reachable from a three-letter alphabet; Low 1 has a zero byte inside its number.      *)
EXTENDS LLUDPFrame
V(n, t, s) == [name |-> n, t |-> t, size |-> s]
B(n, kd, c, vs) == [name |-> n, kind |-> kd, n |-> c, vars |-> vs]
U == <<
  [name |-> "TstHigh", freq |-> "High", num |-> 1, blocks |-> <<
      B("Alpha", "Single", 0, << V("Aa", "U8", 0), V("Name", "Variable", 1) >>) >>],
  [name |-> "TstMed", freq |-> "Medium", num |-> 1, blocks |-> <<
      B("Beta", "Variable", 0, << V("Xx", "U16", 0), V("Data", "Fixed", 2) >>),
      B("Gamma", "Single", 0, << V("Ss", "S8", 0) >>) >>],
  [name |-> "TstLow", freq |-> "Low", num |-> 1, blocks |-> <<
      B("Delta", "Multiple", 2, << V("Pp", "IPPORT", 0) >>),
      B("Eps", "Variable", 0, << V("Foo", "Variable", 2) >>) >>],
  [name |-> "TstFix", freq |-> "Fixed", num |-> 255, blocks |-> <<
      B("Zeta", "Single", 0, << V("Bb", "BOOL", 0), V("Ww", "U32", 0) >>),
      B("Eta", "Single", 0, << V("Qq", "S16", 0) >>) >>],
  [name |-> "TstNone", freq |-> "Low", num |-> 256, blocks |-> << >>],
  [name |-> "TstWide", freq |-> "Low", num |-> 257, blocks |-> <<
      B("Theta", "Single", 0, << V("Uu", "U64", 0), V("Vv", "S64", 0), V("Ii", "S32", 0), V("Text", "Variable", 2) >>) >>]
>>
ASSUME \A i \in 1..Len(U) : WellFormedTemplate(U[i])
\* the template a header selects, 0 if none
Lookup(freq, num) == IF \E i \in 1..Len(U) : U[i].freq = freq /\ U[i].num = num
                     THEN CHOOSE i \in 1..Len(U) : U[i].freq = freq /\ U[i].num = num ELSE 0
\* index of the template whose header d carries, 0 when the header is not acceptable
Select(d) == LET h == Hdr(d) IN IF ~h.ok THEN 0 ELSE LET id == Ident(h) IN IF ~id.ok THEN 0 ELSE Lookup(id.freq, id.num)
=============================================================================
