---- MODULE CompressedObj_MBT ----
(* B3 spec->code table: one row per complete payload of the bounded encoder machine, with *)
(* the reference parser's view of it (presence, value-presence, offsets of every field,   *)
(* the decoded meaning of State).  The harness feeds p to both real decoders.             *)
EXTENDS CompressedObj, Json
Row(p) == LET pr == Parse(p) IN
  [row |-> "payload", flags |-> flags, hi |-> hi, pcode |-> pcode, v0 |-> v0, p |-> p,
   wf |-> WellFormed(pr, p) /\ Canonical(pr),
   f |-> [i \in 1..NF |-> [name |-> Fields[i].name, pres |-> pr.f[i].pres, val |-> HasValue(pr, i),
                           start |-> pr.f[i].start, off |-> pr.f[i].off, len |-> pr.f[i].len]],
   state |-> StateValue(pcode, p[pr.f[StateIdx].off + 1])]
MInit == Init /\ PrintT(ToJson([init |-> [flags |-> flags, pcode |-> pcode, v0 |-> v0]]))
MEmitRun(vs, vm, v) == EmitRun(vs, vm, v) /\ (IF idx' = NF + 1 THEN PrintT(ToJson(Row(buf'))) ELSE TRUE)
MNext == \E vs, vm, v \in Variants \cup {1} : MEmitRun(vs, vm, v)
MSpec == MInit /\ [][MNext]_vars
====
