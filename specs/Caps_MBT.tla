---- MODULE Caps_MBT ----
(* Export wrapper (binding B1).  One JSON line per edge of the bounded model with the     *)
(* action and its OUTPUT (what the real call must return / what the rewritten HTTP body   *)
(* must contain); one JSON line per explored state (printed by the stuttering step MObs)  *)
(* with the observation a correct implementation must show in that state.  VIEW St: the   *)
(* ghost variables are functions of the history and are left out of the exported graph.   *)
EXTENDS Caps, Json
CONSTANT Depth
Bound == TLCGet("level") <= Depth
CapsKey(c) == [r \in Regions |-> {<<n, [i \in 1..Len(c[r][n]) |-> <<c[r][n][i].t, c[r][n][i].u>>]>> :
                                    n \in {n \in Names : c[r][n] # <<>>}}]
PendKey(p) == [r \in Regions |-> IF p[r].on THEN <<p[r].up, p[r].need>> ELSE <<>>]
St == <<CapsKey(caps), PendKey(pend), nseed>>
View == St
(* evaluated exactly once per explored state (a stuttering step) *)
MObs == PrintT(ToJson([st |-> St, obs |-> Obs])) /\ UNCHANGED vars
MInit == Init /\ PrintT(ToJson([init |-> St]))
MSeedReq(r, w) == SeedReq(r, w) /\ PrintT(ToJson(
    [src |-> St, act |-> [n |-> "SeedReq", r |-> r, wanted |-> WL(w)], out |-> UpstreamList(r, w), dst |-> St']))
MSeedResp(r, i) == SeedResp(r, i) /\ PrintT(ToJson(
    [src |-> St, act |-> [n |-> "SeedResp", r |-> r, grant |-> T(r, i)], out |-> Viewer(r, T(r, i)), dst |-> St']))
MRegisterTemp(r, u, n) == RegisterTemp(r, u, n) /\ PrintT(ToJson(
    [src |-> St, act |-> [n |-> "RegisterTemp", r |-> r, u |-> u, name |-> n], out |-> 0, dst |-> St']))
MRegisterProxy(r, n) == RegisterProxy(r, n) /\ PrintT(ToJson(
    [src |-> St, act |-> [n |-> "RegisterProxy", r |-> r, name |-> n], out |-> OutRegisterProxy(r, n), dst |-> St']))
MLongGrant(r) == LongGrant(r) /\ PrintT(ToJson(
    [src |-> St, act |-> [n |-> "LongGrant", r |-> r, u |-> LongUrl(r, NLong(r) + 1)], out |-> 0, dst |-> St']))
MLongTemp(r) == LongTemp(r) /\ PrintT(ToJson(
    [src |-> St, act |-> [n |-> "LongTemp", r |-> r, u |-> LongUrl(r, NLong(r) + 1)], out |-> 0, dst |-> St']))
MResolveTemp(q) == ResolveTemp(q) /\ PrintT(ToJson(
    [src |-> St, act |-> [n |-> "Resolve", q |-> q], out |-> OutResolve(q), dst |-> St']))
MNext == \/ \E r \in Regions : \/ \E w \in 1..7 : MSeedReq(r, w)
                               \/ \E i \in 1..10 : MSeedResp(r, i)
                               \/ \E u \in TempUrls(r) : \E n \in TempNames : MRegisterTemp(r, u, n)
                               \/ \E n \in PONameSet : MRegisterProxy(r, n)
                               \/ MLongGrant(r) \/ MLongTemp(r)
         \/ \E q \in TempReqs : MResolveTemp(q)
         \/ MObs
MSpec == MInit /\ [][MNext]_vars
====
