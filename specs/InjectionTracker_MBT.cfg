SPECIFICATION MSpec
CONSTANTS W = 2 MinEp = 1 MaxEp = 6 MaxInj = 5 Reorder = 1 BuggyInverse = FALSE Depth = 9
CONSTRAINT Bound
