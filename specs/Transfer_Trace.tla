---- MODULE Transfer_Trace ----
(* Binding B2: recorded runs of the real receivers at production sizes (1150-byte Xfer      *)
(* pieces produced by the real sender, 1000-byte Transfer pieces).  Records:                *)
(*  Start  {proto, n, C, ids:[piece numbers], pieces:[lengths of the pieces the sender       *)
(*          produced], eofs:[0/1..],                                                          *)
(*          head:[first bytes of piece 0]}                                                   *)
(*  Arrive {i, done, asm_is_payload}  after piece i was delivered and the loop pumped        *)
(*  Foreign {done, asm_is_payload}    after a packet of another transfer                     *)
(* asm_is_payload is the recorded equality reassemble_chunks() == payload sent.             *)
EXTENDS Transfer, Json, IOUtils, TLCExt
TraceLog == ndJsonDeserialize(IOEnv.TRACE_FILE)
VARIABLES l, tid
tvars == <<vars, l, tid>>
Chk(name, cond) == IF cond THEN TRUE ELSE PrintT(ToJson([fail |-> name, line |-> l, tid |-> tid]))
Env(name, cond) == Assert(cond, <<"driver violated environment assumption", name, l>>)
IsEvent(e) == l <= Len(TraceLog) /\ TraceLog[l].ev = e /\ l' = l + 1
Rec == TraceLog[l]

TInit == Start("none", 0, 1) /\ l = 1 /\ tid = -1
TReset == /\ IsEvent("Reset") /\ tid' = Rec.tid
          /\ proto' = "none" /\ n' = 0 /\ C' = 1 /\ got' = {} /\ eofSeen' = FALSE /\ stored' = 0 /\ arrivals' = 0 /\ done' = FALSE
\* lengths of the pieces of a wire image of length len
Take(s, k) == SubSeq(s, 1, Min(k, Len(s)))       \* never reads past the end: a short head fails the clause, not TLC
PieceLens(len, c) == [k \in 1..NumChunks(len, c) |-> Min(k * c, len) - (k - 1) * c]
TStart == /\ IsEvent("Start") /\ UNCHANGED tid
          /\ proto' = Rec.proto /\ n' = Rec.n /\ C' = Rec.C /\ got' = {} /\ eofSeen' = FALSE /\ stored' = 0 /\ arrivals' = 0 /\ done' = FALSE
          /\ Chk("sender: pieces numbered from 0", Rec.ids = [k \in 1..Len(Rec.ids) |-> k - 1])
          /\ Chk("sender: piece lengths", Rec.pieces = PieceLens(WireLen(Rec.proto, Rec.n), Rec.C))
          /\ Chk("sender: only the last piece is end-marked",
                 Rec.eofs = [k \in 1..NumChunks(WireLen(Rec.proto, Rec.n), Rec.C) |-> IF k = NumChunks(WireLen(Rec.proto, Rec.n), Rec.C) THEN 1 ELSE 0])
          /\ Chk("sender: length prefix", IsXfer(Rec.proto) => Take(Rec.head, 4) = LE32(Rec.n))
          /\ Chk("sender: payload follows the prefix",
                 LET w == Wire(Rec.proto, Min(Rec.n, 12)) IN SubSeq(Rec.head, 1, Min(Len(Rec.head), Len(w))) =
                     (IF IsXfer(Rec.proto) THEN LE32(Rec.n) \o Payload(Min(Rec.n, 12)) ELSE w))
ChkAfter == /\ Chk(IF Rec.done THEN "completed although a piece is missing" ELSE "not completed although every piece arrived",
                   Rec.done = done')
            /\ Chk("complete but reassembly differs from the payload", done' => Rec.asm_is_payload)
\* the pieces come from the real sender: one the payload does not have is the sender's fault, not the driver's
TArrive == /\ IsEvent("Arrive") /\ UNCHANGED tid
           /\ IF Rec.i \in 0..Last
              THEN Arrive(Rec.i) /\ ChkAfter
              ELSE UNCHANGED vars /\ Chk("sender: piece beyond the end of the payload", FALSE)
TForeign == /\ IsEvent("Foreign") /\ UNCHANGED tid
            /\ Foreign
            /\ ChkAfter
TNext == TReset \/ TStart \/ TArrive \/ TForeign
TraceSpec == TInit /\ [][TNext]_tvars
TraceAccepted == PrintT("TRACE_REACHED " \o ToString(TLCGet("stats").diameter - 1) \o " OF " \o ToString(Len(TraceLog)))
====
