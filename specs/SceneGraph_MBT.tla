---- MODULE SceneGraph_MBT ----
(* Export wrapper (binding B1): prints the labelled transition system of the bounded Spec-layer *)
(* model.  One JSON line per EDGE: [s, a, d, o, q, t] = source state, action, target state,     *)
(* outputs of the step (kill events, requests resolved / cancelled), the observation SObs a     *)
(* correct implementation must show in the target state, triage labels of the step.             *)
EXTENDS SceneGraph, Json
CONSTANTS Depth,
          AKinds,    \* announce kinds exported in this run
          TKinds,    \* touch kinds exported in this run
          ReqLocals  \* local IDs requests are exported for
Bound == TLCGet("level") <= Depth
\* compact state: [full |-> <<local, parent, region>>], tracked, pending
St == <<[f \in FullIDs |-> <<obj[f].local, obj[f].parent, obj[f].region>>], tracked, pending>>
E(a, t) == PrintT(ToJson([s |-> St, a |-> a, d |-> St', o |-> out', q |-> SObs(obj', tracked'), t |-> t]))

MInit == Init /\ PrintT(ToJson([init |-> St, q |-> SObs(obj, tracked)]))
MNext ==
    \/ \E k \in AKinds, f \in FullIDs, l \in Locals, p \in Locals \cup {0}, r \in Regions :
          Announce(k, f, l, p, r) /\ E([n |-> "Announce", kind |-> k, f |-> f, l |-> l, p |-> p, r |-> r],
                                       Tags("Announce", k, f, r, l))
    \/ \E k \in TKinds, r \in Regions, l \in Locals :
          Touch(k, r, l) /\ E([n |-> "Touch", kind |-> k, r |-> r, l |-> l], Tags("Touch", k, "-", r, l))
    \/ \E f \in FullIDs : Props(f) /\ E([n |-> "Props", f |-> f], Tags("Props", "-", f, "-", 0))
    \/ \E r \in Trackable, l \in Locals : Kill(r, l) /\ E([n |-> "Kill", r |-> r, l |-> l], Tags("Kill", "-", "-", r, l))
    \/ \E r \in Trackable : Track(r) /\ E([n |-> "Track", r |-> r], Tags("Track", "-", "-", r, 0))
    \/ \E r \in Trackable : Teardown(r) /\ E([n |-> "Teardown", r |-> r], Tags("Teardown", "-", "-", r, 0))
    \/ \E r \in Trackable, l \in ReqLocals, ty \in ReqTypes :
          Request(r, l, ty) /\ E([n |-> "Request", r |-> r, l |-> l, ty |-> ty], {})
MSpec == MInit /\ [][MNext]_svars
====
