---- MODULE FilterLog_MBT ----
(* Export wrapper (bindings B1 / B3).                                                      *)
(*  MSpecLog:   the labelled transition system of the bounded log machine, one JSON line   *)
(*              per edge, with the Spec-layer observation (SpecViewOf(arr', ret', flt'), the call's result).  *)
(*  MSpecProbe: the tables of Part 1, one JSON line per probe: expression trees with both  *)
(*              renderings, their shape and the expected value of EVERY node on every      *)
(*              entry of the family; atom x entry verdicts; token strings with the parse.  *)
EXTENDS FilterLog, Json
EIdx(e) == CHOOSE i \in 1..NEnt : LogEntries[i] = e
FIdx(f) == CHOOSE i \in 1..NFlt : LogFilters[i] = f
StOf(ar, rw, vw, f, p, rt) == [arr |-> [i \in 1..Len(ar) |-> EIdx(ar[i])], raw |-> rw, view |-> vw, flt |-> FIdx(f),
                              paused |-> p, ret |-> rt]
St == StOf(arr, raw, view, flt, paused, ret)
StP == StOf(arr', raw', view', flt', paused', ret')
MInitLog == InitLog /\ PrintT(ToJson([init |-> St, obs |-> [view |-> SpecView], entries |-> LogEntries, filters |-> LogFilters]))
MLog(i) == /\ Len(arr) < MaxLog /\ Log(LogEntries[i])
           /\ PrintT(ToJson([src |-> St, act |-> [n |-> "Log", e |-> i], dst |-> StP,
                             obs |-> [view |-> SpecViewOf(arr', ret', flt'), res |-> LogResult(LogEntries[i]), hasx |-> XInForce(arr', flt'),
                                      raises |-> (~paused /\ Raises(flt, LogEntries[i]))]]))
MSetFilter(i) == /\ LogFilters[i] # flt /\ SetFilterLegal(LogFilters[i]) /\ SetFilter(LogFilters[i])
                 /\ PrintT(ToJson([src |-> St, act |-> [n |-> "SetFilter", f |-> i], dst |-> StP,
                                   obs |-> [view |-> SpecViewOf(arr', ret', flt'), res |-> WellFormed(LogFilters[i]), hasx |-> XInForce(arr', flt')]]))
MSetPaused(b) == /\ b # paused /\ SetPaused(b)
                 /\ PrintT(ToJson([src |-> St, act |-> [n |-> "SetPaused", b |-> b], dst |-> StP, obs |-> [view |-> SpecViewOf(arr', ret', flt')]]))
MClear == /\ (raw # <<>> \/ view # <<>>) /\ Clear
          /\ PrintT(ToJson([src |-> St, act |-> [n |-> "Clear"], dst |-> StP, obs |-> [view |-> SpecViewOf(arr', ret', flt')]]))
MNextLog == (\E i \in UseEnt : MLog(i)) \/ (\E i \in UseFlt : MSetFilter(i)) \/ (\E b \in BOOLEAN : MSetPaused(b)) \/ MClear
MSpecLog == MInitLog /\ [][MNextLog]_vars

RECURSIVE SetToSeq(_)
SetToSeq(S) == IF S = {} THEN <<>> ELSE LET x == CHOOSE x \in S : TRUE IN <<x>> \o SetToSeq(S \ {x})
TreeEntrySeq == SetToSeq(TreeEntries(TreeKind))
Row == CASE probe[1] = "hdr" -> [row |-> "hdr", entries |-> TreeEntrySeq]
         [] probe[1] = "subcover" -> [row |-> "cover"]
         [] probe[1] = "tree" -> [row |-> "tree", min |-> RenderMin(probe[2]), full |-> RenderFull(probe[2]),
                                  shape |-> Shape(probe[2]), leaves |-> LeavesOf(probe[2]),
                                  vals |-> [i \in 1..Len(TreeEntrySeq) |-> NodeVals(probe[2], TreeEntrySeq[i])],
                                  lx |-> [i \in 1..Len(TreeEntrySeq) |->
                                            [k \in 1..Len(LeavesOf(probe[2])) |-> AtomHasX(LeavesOf(probe[2])[k], TreeEntrySeq[i])]]]
         [] probe[1] = "atom" -> [row |-> "atom", a |-> probe[2], e |-> probe[3], val |-> AtomTrue(probe[2], probe[3]),
                                  hasx |-> AtomHasX(probe[2], probe[3])]
         [] probe[1] = "toks" -> LET p == Parse(probe[2]) IN
                                 [row |-> "toks", toks |-> probe[2], ok |-> p[1] = "ok",
                                  shape |-> IF p[1] = "ok" THEN Shape(p[2]) ELSE <<>>,
                                  leaves |-> IF p[1] = "ok" THEN LeavesOf(p[2]) ELSE <<>>]
MInitProbe == /\ \/ InitProbe
                 \/ /\ arr = <<>> /\ raw = <<>> /\ view = <<>> /\ flt = AllFilter /\ paused = FALSE /\ ret = {}
                    /\ "tree" \in ProbeKinds /\ probe = <<"hdr">>
              /\ PrintT(ToJson(Row))
MSpecProbe == MInitProbe /\ [][UNCHANGED vars]_vars
====
