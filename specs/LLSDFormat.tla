------------------------------ MODULE LLSDFormat ------------------------------
(***************************************************************************)
(* LLSD values and two of their serialised forms as executable reference   *)
(* semantics (binding B3 of C12).                                          *)
(*                                                                         *)
(* A value is a record [t |-> tag, v |-> payload]; every payload is a      *)
(* sequence so that values of different kinds are always comparable:       *)
(*   undef <<>> | bool <<0|1>> | int <<4 bytes, two's complement BE>>      *)
(*   real <<8 bytes IEEE BE>> (opaque) | uuid <<16 bytes>>                 *)
(*   str / bin / uri <<bytes>> (str, uri: UTF-8)                           *)
(*   date <<Y, M, D, h, m, s, us>> (the UTC instant in civil fields)       *)
(*   date8 <<8 bytes>>: a date as it sits in the binary form (LE double of  *)
(*        epoch seconds); decoded by TLC in exact arithmetic to             *)
(*   dateus <<neg, bits..>>: the instant in integer microseconds            *)
(*   arr <<values>> | map << <<key bytes, value>>, ... >>                  *)
(*                                                                         *)
(* Binary  : Bin(x) the format's bytes, PBin the reference parser.         *)
(* Notation: Not(x, rt) a canonical text, PNot the reference parser of the *)
(*           whole notation language (both quote kinds, escapes, sized     *)
(*           raw strings, b64/b16/raw binary, word/letter booleans,        *)
(*           optional white space), so that the property "the output       *)
(*           denotes the value" is judged semantically, not byte by byte.  *)
(* Opaque leaves: real texts and binary dates are resolved through tables   *)
(* (sequences of <<key bytes, payload>>) that come from Python's           *)
(* struct/float, never from Hippolyzer code.                               *)
(***************************************************************************)
EXTENDS Integers, Sequences, FiniteSets, TLC

V(tag, payload) == [t |-> tag, v |-> payload]
Err == V("err", <<>>)
Fail == [ok |-> FALSE, v |-> Err, i |-> 0]
Ok(val, nxt) == [ok |-> TRUE, v |-> val, i |-> nxt]

Sub(b, i, n) == IF n <= 0 THEN <<>> ELSE SubSeq(b, i, i + n - 1)
\* non-negative 32-bit big-endian count at b[i..i+3]; -1 when absent or negative
U32At(b, i) == IF i + 3 > Len(b) \/ b[i] >= 128 THEN -1
               ELSE ((b[i] * 256 + b[i + 1]) * 256 + b[i + 2]) * 256 + b[i + 3]
BE32(n) == <<n \div 16777216, (n \div 65536) % 256, (n \div 256) % 256, n % 256>>
\* signed 32-bit <-> 4 bytes
IntVal(b4) == (IF b4[1] >= 128 THEN b4[1] - 256 ELSE b4[1]) * 16777216 + b4[2] * 65536 + b4[3] * 256 + b4[4]
I32Bytes(n) == IF n >= 0 THEN BE32(n)
               ELSE LET m == (n + 2147483647) + 1 IN   \* n + 2^31 in 0..2^31-1
                    <<128 + m \div 16777216, (m \div 65536) % 256, (m \div 256) % 256, m % 256>>

\* ------------------------------------------------- instants in integer microseconds
\* TLC integers are 32 bit; an instant (microseconds since 1970-01-01T00:00:00Z, possibly negative) is
\* <<neg>> \o limbs: sign flag, then the magnitude in limbs of 13 bits, least significant first, no leading
\* zero limb (a limb times a constant below 2^17 stays below 2^31).
LB == 8192
Lm(a, i) == IF i >= 1 /\ i <= Len(a) THEN a[i] ELSE 0
RECURSIVE LAdd(_, _, _)
LAdd(a, b, c) == IF Len(a) = 0 /\ Len(b) = 0 THEN (IF c = 0 THEN <<>> ELSE <<c>>)
                 ELSE LET t == Lm(a, 1) + Lm(b, 1) + c IN
                      <<t % LB>> \o LAdd(IF Len(a) > 0 THEN Tail(a) ELSE a, IF Len(b) > 0 THEN Tail(b) ELSE b, t \div LB)
RECURSIVE LSub(_, _, _)
\* a - b - borrow, for a >= b
LSub(a, b, w) == IF Len(a) = 0 THEN <<>>
                 ELSE LET t == a[1] - Lm(b, 1) - w IN
                      <<IF t < 0 THEN t + LB ELSE t>> \o LSub(Tail(a), IF Len(b) > 0 THEN Tail(b) ELSE b, IF t < 0 THEN 1 ELSE 0)
RECURSIVE LMulC(_, _, _)
\* a * k + c for a constant 0 <= k < 2^17
LMulC(a, k, c) == IF Len(a) = 0 THEN (IF c = 0 THEN <<>> ELSE <<c % LB>> \o LMulC(a, k, c \div LB))
                  ELSE LET t == a[1] * k + c IN <<t % LB>> \o LMulC(Tail(a), k, t \div LB)
RECURSIVE LOfNat(_)
LOfNat(n) == IF n = 0 THEN <<>> ELSE <<n % LB>> \o LOfNat(n \div LB)
RECURSIVE LTrim(_)
LTrim(a) == IF Len(a) > 0 /\ a[Len(a)] = 0 THEN LTrim(SubSeq(a, 1, Len(a) - 1)) ELSE a
SInst(neg, mag) == LET m == LTrim(mag) IN <<IF neg /\ Len(m) > 0 THEN 1 ELSE 0>> \o m
UsErr == <<2>>

\* days since 1970-01-01 of a proleptic Gregorian date (may be negative)
DaysFromCivil(y, m, d) ==
    LET yy == IF m <= 2 THEN y - 1 ELSE y
        era == yy \div 400
        yoe == yy - era * 400
        mp == IF m > 2 THEN m - 3 ELSE m + 9
        doy == (153 * mp + 2) \div 5 + d - 1
        doe == yoe * 365 + yoe \div 4 - yoe \div 100 + doy IN
    era * 146097 + doe - 719468
Mega(a) == LMulC(LMulC(a, 1000, 0), 1000, 0)
\* civil UTC fields <<Y, M, D, h, m, s, us>> -> instant
CivilUs(c) ==
    LET days == DaysFromCivil(c[1], c[2], c[3])
        inday == LAdd(Mega(LOfNat(c[4] * 3600 + c[5] * 60 + c[6])), LOfNat(c[7]), 0)      \* < 86400 * 10^6
        dayus(n) == Mega(LMulC(LOfNat(n), 86400, 0)) IN
    IF days >= 0 THEN SInst(FALSE, LAdd(dayus(days), inday, 0))
    ELSE SInst(TRUE, LSub(dayus(-days), inday, 0))
\* the 8 bytes of a little-endian IEEE double of epoch SECONDS -> instant, rounded to the nearest microsecond
\* (ties to even), in exact arithmetic: (-1)^s * M * 2^(e - 1075) * 10^6
DateUs(d8) ==
    LET neg == d8[8] >= 128
        e == (d8[8] % 128) * 16 + d8[7] \div 16
        top == (d8[7] % 16) + (IF e = 0 THEN 0 ELSE 16)                  \* the implicit leading one
        M == LMulC(LMulC(LMulC(LMulC(LMulC(LMulC(LOfNat(top), 256, d8[6]), 256, d8[5]), 256, d8[4]), 256, d8[3]), 256, d8[2]), 256, d8[1])
        P == LTrim(Mega(M))
        sh == 1075 - (IF e = 0 THEN 1 ELSE e)                            \* P / 2^sh
        w == sh \div 13
        r == sh % 13
        lo == 2 ^ r
        q == [i \in 1..(IF Len(P) > w THEN Len(P) - w ELSE 0) |-> Lm(P, w + i) \div lo + (Lm(P, w + i + 1) % lo) * (LB \div lo)]
        lower == \E i \in 1..Len(P) : i <= w - (IF r = 0 THEN 1 ELSE 0) /\ P[i] # 0
        half == IF r > 0 THEN (Lm(P, w + 1) \div (lo \div 2)) % 2 ELSE Lm(P, w) \div (LB \div 2)
        rest == lower \/ (IF r > 0 THEN Lm(P, w + 1) % (lo \div 2) # 0 ELSE Lm(P, w) % (LB \div 2) # 0)
        odd == Len(q) > 0 /\ q[1] % 2 = 1
        up == half = 1 /\ (rest \/ odd) IN
    IF e = 2047 \/ sh <= 0 THEN UsErr
    ELSE SInst(neg, IF up THEN LAdd(q, <<1>>, 0) ELSE q)
IsDateish(x) == x.t \in {"date", "dateus"}
InstUs(x) == IF x.t = "date" THEN (IF Len(x.v) = 7 THEN CivilUs(x.v) ELSE UsErr) ELSE x.v

\* Structural equality that never compares payloads of different kinds (TLC refuses to compare an
\* integer with a record; projections of arbitrary implementation results may differ in kind anywhere)
RECURSIVE Same(_, _), SameSeq(_, _), SameKV(_, _)
Same(a, b) == IF IsDateish(a) /\ IsDateish(b)
              THEN (IF a.t = "date" /\ b.t = "date" THEN a.v = b.v ELSE InstUs(a) = InstUs(b))   \* the same INSTANT, in integer microseconds
              ELSE IF a.t # b.t THEN FALSE
              ELSE IF a.t = "arr" THEN SameSeq(a.v, b.v)
              ELSE IF a.t = "map" THEN SameKV(a.v, b.v)
              ELSE a.v = b.v
SameSeq(s, u) == IF Len(s) # Len(u) THEN FALSE ELSE IF Len(s) = 0 THEN TRUE
                 ELSE Same(s[1], u[1]) /\ SameSeq(Tail(s), Tail(u))
SameKV(s, u) == IF Len(s) # Len(u) THEN FALSE ELSE IF Len(s) = 0 THEN TRUE
                ELSE s[1][1] = u[1][1] /\ Same(s[1][2], u[1][2]) /\ SameKV(Tail(s), Tail(u))

\* ---------------------------------------------------------------- leaf tables
RECURSIVE Lookup(_, _)
Lookup(tbl, k) == IF Len(tbl) = 0 THEN <<"none">>
                  ELSE IF tbl[1][1] = k THEN <<"some", tbl[1][2]>> ELSE Lookup(Tail(tbl), k)
RECURSIVE RLookup(_, _)
RLookup(tbl, p) == IF Len(tbl) = 0 THEN <<"none">>
                   ELSE IF tbl[1][2] = p THEN <<"some", tbl[1][1]>> ELSE RLookup(Tail(tbl), p)

\* ------------------------------------------------------------- canonical maps
RECURSIVE LexLess(_, _)
LexLess(a, b) == IF Len(b) = 0 THEN FALSE
                 ELSE IF Len(a) = 0 THEN TRUE
                 ELSE IF a[1] # b[1] THEN a[1] < b[1]
                 ELSE LexLess(Tail(a), Tail(b))
RECURSIVE InsertKV(_, _)
InsertKV(s, kv) == IF Len(s) = 0 THEN <<kv>>
                   ELSE IF LexLess(kv[1], s[1][1]) THEN <<kv>> \o s
                   ELSE <<s[1]>> \o InsertKV(Tail(s), kv)
RECURSIVE Canon(_), CanonSeq(_), CanonMap(_, _)
Canon(x) == IF x.t = "arr" THEN V("arr", CanonSeq(x.v))
            ELSE IF x.t = "map" THEN V("map", CanonMap(x.v, <<>>))
            ELSE x
CanonSeq(s) == IF Len(s) = 0 THEN <<>> ELSE <<Canon(s[1])>> \o CanonSeq(Tail(s))
CanonMap(s, acc) == IF Len(s) = 0 THEN acc
                    ELSE CanonMap(Tail(s), InsertKV(acc, <<s[1][1], Canon(s[1][2])>>))
RECURSIVE DistinctSorted(_)
DistinctSorted(s) == Len(s) < 2 \/ (LexLess(s[1][1], s[2][1]) /\ DistinctSorted(Tail(s)))

\* date <-> date8 through a table of <<d8, civil>>; an unknown leaf becomes Err
RECURSIVE FromWire(_, _), FromWireSeq(_, _), FromWireKV(_, _)
FromWire(x, dt) ==
    \* (dt, the former table of Python-decoded doubles, is no longer consulted: TLC decodes the double itself)
    IF x.t = "date8" THEN (IF Len(x.v) = 8 THEN V("dateus", DateUs(x.v)) ELSE Err)
    ELSE IF x.t = "arr" THEN V("arr", FromWireSeq(x.v, dt))
    ELSE IF x.t = "map" THEN V("map", FromWireKV(x.v, dt))
    ELSE x
FromWireSeq(s, dt) == IF Len(s) = 0 THEN <<>> ELSE <<FromWire(s[1], dt)>> \o FromWireSeq(Tail(s), dt)
FromWireKV(s, dt) == IF Len(s) = 0 THEN <<>> ELSE <<<<s[1][1], FromWire(s[1][2], dt)>>>> \o FromWireKV(Tail(s), dt)
RECURSIVE ToWire(_, _), ToWireSeq(_, _), ToWireKV(_, _)
ToWire(x, dt) ==
    IF x.t = "date" THEN LET r == RLookup(dt, x.v) IN IF r[1] = "some" THEN V("date8", r[2]) ELSE Err
    ELSE IF x.t = "arr" THEN V("arr", ToWireSeq(x.v, dt))
    ELSE IF x.t = "map" THEN V("map", ToWireKV(x.v, dt))
    ELSE x
ToWireSeq(s, dt) == IF Len(s) = 0 THEN <<>> ELSE <<ToWire(s[1], dt)>> \o ToWireSeq(Tail(s), dt)
ToWireKV(s, dt) == IF Len(s) = 0 THEN <<>> ELSE <<<<s[1][1], ToWire(s[1][2], dt)>>>> \o ToWireKV(Tail(s), dt)

\* a well-formed (wire-free) LLSD value
RECURSIVE IsLLSD(_)
IsLLSD(x) ==
    CASE x.t = "undef" -> x.v = <<>>
      [] x.t = "bool" -> x.v \in {<<0>>, <<1>>}
      [] x.t = "int" -> Len(x.v) = 4
      [] x.t = "real" -> Len(x.v) = 8
      [] x.t = "uuid" -> Len(x.v) = 16
      [] x.t \in {"str", "bin", "uri"} -> TRUE
      [] x.t = "date" -> Len(x.v) = 7
      [] x.t = "arr" -> \A k \in 1..Len(x.v) : IsLLSD(x.v[k])
      [] x.t = "map" -> \A k \in 1..Len(x.v) : IsLLSD(x.v[k][2])
      [] OTHER -> FALSE
RECURSIVE HasTag(_, _)
HasTag(x, tag) == x.t = tag \/ (x.t = "arr" /\ \E k \in 1..Len(x.v) : HasTag(x.v[k], tag))
                            \/ (x.t = "map" /\ \E k \in 1..Len(x.v) : HasTag(x.v[k][2], tag))

\* ============================================================ binary format
Sized(tagbyte, bs) == <<tagbyte>> \o BE32(Len(bs)) \o bs
RECURSIVE Bin(_), BinSeq(_), BinMap(_)
Bin(x) == CASE x.t = "undef" -> <<33>>
            [] x.t = "bool" -> IF x.v = <<1>> THEN <<49>> ELSE <<48>>
            [] x.t = "int" -> <<105>> \o x.v
            [] x.t = "real" -> <<114>> \o x.v
            [] x.t = "uuid" -> <<117>> \o x.v
            [] x.t = "str" -> Sized(115, x.v)
            [] x.t = "bin" -> Sized(98, x.v)
            [] x.t = "uri" -> Sized(108, x.v)
            [] x.t = "date8" -> <<100>> \o x.v
            [] x.t = "arr" -> <<91>> \o BE32(Len(x.v)) \o BinSeq(x.v) \o <<93>>
            [] x.t = "map" -> <<123>> \o BE32(Len(x.v)) \o BinMap(x.v) \o <<125>>
BinSeq(s) == IF Len(s) = 0 THEN <<>> ELSE Bin(s[1]) \o BinSeq(Tail(s))
BinMap(s) == IF Len(s) = 0 THEN <<>> ELSE Sized(107, s[1][1]) \o Bin(s[1][2]) \o BinMap(Tail(s))

\* "<?llsd/binary?>\n" (written) and "<? LLSD/Binary ?>\n" (also accepted)
HdrPy == <<60, 63, 108, 108, 115, 100, 47, 98, 105, 110, 97, 114, 121, 63, 62>>
HdrCpp == <<60, 63, 32, 76, 76, 83, 68, 47, 66, 105, 110, 97, 114, 121, 32, 63, 62>>
BinDoc(x) == HdrPy \o <<10>> \o Bin(x)
IsPrefix(p, b) == Len(p) <= Len(b) /\ SubSeq(b, 1, Len(p)) = p
RECURSIVE AfterNL(_, _)
AfterNL(b, i) == IF i > Len(b) THEN Len(b) + 1 ELSE IF b[i] = 10 THEN i + 1 ELSE AfterNL(b, i + 1)
BodyStart(b) == IF IsPrefix(HdrPy, b) \/ IsPrefix(HdrCpp, b) THEN AfterNL(b, 1) ELSE 1

RECURSIVE PBin(_, _), PBinSeq(_, _, _, _), PBinMap(_, _, _, _)
PBin(b, i) ==
    IF i > Len(b) THEN Fail ELSE
    LET c == b[i]
        fixed(tag, n) == IF i + n <= Len(b) THEN Ok(V(tag, Sub(b, i + 1, n)), i + 1 + n) ELSE Fail
        sized(tag) == LET n == U32At(b, i + 1) IN
                      IF n < 0 \/ i + 4 + n > Len(b) THEN Fail ELSE Ok(V(tag, Sub(b, i + 5, n)), i + 5 + n)
    IN CASE c = 33 -> Ok(V("undef", <<>>), i + 1)
         [] c = 48 -> Ok(V("bool", <<0>>), i + 1)
         [] c = 49 -> Ok(V("bool", <<1>>), i + 1)
         [] c = 105 -> fixed("int", 4)
         [] c = 114 -> fixed("real", 8)
         [] c = 117 -> fixed("uuid", 16)
         [] c = 100 -> fixed("date8", 8)
         [] c = 115 -> sized("str")
         [] c = 98 -> sized("bin")
         [] c = 108 -> sized("uri")
         [] c = 91 -> LET n == U32At(b, i + 1) IN
                      IF n < 0 THEN Fail ELSE
                      LET r == PBinSeq(b, i + 5, n, <<>>) IN
                      IF r.ok /\ r.i <= Len(b) /\ b[r.i] = 93 THEN Ok(V("arr", r.v), r.i + 1) ELSE Fail
         [] c = 123 -> LET n == U32At(b, i + 1) IN
                       IF n < 0 THEN Fail ELSE
                       LET r == PBinMap(b, i + 5, n, <<>>) IN
                       IF r.ok /\ r.i <= Len(b) /\ b[r.i] = 125 THEN Ok(V("map", r.v), r.i + 1) ELSE Fail
         [] OTHER -> Fail
PBinSeq(b, i, n, acc) == IF n = 0 THEN [ok |-> TRUE, v |-> acc, i |-> i]
                         ELSE LET r == PBin(b, i) IN
                              IF r.ok THEN PBinSeq(b, r.i, n - 1, Append(acc, r.v)) ELSE Fail
PBinMap(b, i, n, acc) ==
    IF n = 0 THEN [ok |-> TRUE, v |-> acc, i |-> i]
    ELSE IF i > Len(b) \/ b[i] # 107 THEN Fail
    ELSE LET kn == U32At(b, i + 1) IN
         IF kn < 0 \/ i + 4 + kn > Len(b) THEN Fail
         ELSE LET r == PBin(b, i + 5 + kn) IN
              IF r.ok THEN PBinMap(b, r.i, n - 1, Append(acc, <<Sub(b, i + 5, kn), r.v>>)) ELSE Fail

\* a whole binary document (optional header): exactly one value, nothing after it
ParseBinAt(b, i) == LET r == PBin(b, i) IN IF r.ok /\ r.i = Len(b) + 1 THEN r.v ELSE Err
ParseBin(b) == ParseBinAt(b, 1)
ParseBinDoc(b) == ParseBinAt(b, BodyStart(b))
\* the value the bytes denote, dates resolved, maps canonical
DenotesBin(b, dt) == Canon(FromWire(ParseBinDoc(b), dt))

\* ================================================================= notation
Digit(n) == 48 + n
RECURSIVE DecNat(_)
DecNat(n) == IF n < 10 THEN <<Digit(n)>> ELSE Append(DecNat(n \div 10), Digit(n % 10))
DecInt(n) == IF n >= 0 THEN DecNat(n)
             ELSE IF n = -2147483647 - 1 THEN <<45, 50, 49, 52, 55, 52, 56, 51, 54, 52, 56>>
             ELSE <<45>> \o DecNat(-n)
RECURSIVE PadNat(_, _)
PadNat(n, w) == IF w = 0 THEN <<>> ELSE Append(PadNat(n \div 10, w - 1), Digit(n % 10))
HexCh(n) == IF n < 10 THEN 48 + n ELSE 87 + n
HexVal(c) == IF c \in 48..57 THEN c - 48 ELSE IF c \in 97..102 THEN c - 87 ELSE IF c \in 65..70 THEN c - 55 ELSE -1
RECURSIVE HexOf(_)
HexOf(bs) == IF Len(bs) = 0 THEN <<>> ELSE <<HexCh(bs[1] \div 16), HexCh(bs[1] % 16)>> \o HexOf(Tail(bs))
UuidText(u) == HexOf(Sub(u, 1, 4)) \o <<45>> \o HexOf(Sub(u, 5, 2)) \o <<45>> \o HexOf(Sub(u, 7, 2)) \o <<45>>
               \o HexOf(Sub(u, 9, 2)) \o <<45>> \o HexOf(Sub(u, 11, 6))
B64Ch(n) == IF n < 26 THEN 65 + n ELSE IF n < 52 THEN 71 + n ELSE IF n < 62 THEN n - 4 ELSE IF n = 62 THEN 43 ELSE 47
B64Val(c) == IF c \in 65..90 THEN c - 65 ELSE IF c \in 97..122 THEN c - 71 ELSE IF c \in 48..57 THEN c + 4
             ELSE IF c = 43 THEN 62 ELSE IF c = 47 THEN 63 ELSE -1
RECURSIVE B64Enc(_)
B64Enc(b) == IF Len(b) = 0 THEN <<>>
             ELSE IF Len(b) = 1 THEN <<B64Ch(b[1] \div 4), B64Ch((b[1] % 4) * 16), 61, 61>>
             ELSE IF Len(b) = 2 THEN <<B64Ch(b[1] \div 4), B64Ch((b[1] % 4) * 16 + b[2] \div 16), B64Ch((b[2] % 16) * 4), 61>>
             ELSE <<B64Ch(b[1] \div 4), B64Ch((b[1] % 4) * 16 + b[2] \div 16), B64Ch((b[2] % 16) * 4 + b[3] \div 64), B64Ch(b[3] % 64)>>
                  \o B64Enc(SubSeq(b, 4, Len(b)))
\* <<"some", bytes>> | <<"none">>
RECURSIVE B64Dec(_)
B64Dec(t) ==
    IF Len(t) = 0 THEN <<"some", <<>>>>
    ELSE IF Len(t) < 4 THEN <<"none">>
    ELSE LET a == B64Val(t[1]) b == B64Val(t[2]) c == B64Val(t[3]) d == B64Val(t[4]) IN
         IF a < 0 \/ b < 0 THEN <<"none">>
         ELSE IF t[3] = 61 /\ t[4] = 61 THEN (IF Len(t) = 4 THEN <<"some", <<a * 4 + b \div 16>>>> ELSE <<"none">>)
         ELSE IF c < 0 THEN <<"none">>
         ELSE IF t[4] = 61 THEN (IF Len(t) = 4 THEN <<"some", <<a * 4 + b \div 16, (b % 16) * 16 + c \div 4>>>> ELSE <<"none">>)
         ELSE IF d < 0 THEN <<"none">>
         ELSE LET r == B64Dec(SubSeq(t, 5, Len(t))) IN
              IF r[1] = "none" THEN r
              ELSE <<"some", <<a * 4 + b \div 16, (b % 16) * 16 + c \div 4, (c % 4) * 64 + d>> \o r[2]>>
RECURSIVE B16Dec(_)
B16Dec(t) == IF Len(t) = 0 THEN <<"some", <<>>>>
             ELSE IF Len(t) = 1 \/ HexVal(t[1]) < 0 \/ HexVal(t[2]) < 0 THEN <<"none">>
             ELSE LET r == B16Dec(SubSeq(t, 3, Len(t))) IN
                  IF r[1] = "none" THEN r ELSE <<"some", <<HexVal(t[1]) * 16 + HexVal(t[2])>> \o r[2]>>

\* ---- canonical notation text (the form the model feeds to the real parser)
RECURSIVE EscStr(_, _)
\* backslash and the delimiter are escaped; a newline is written as backslash n
EscStr(s, delim) == IF Len(s) = 0 THEN <<>>
                    ELSE (IF s[1] = 92 THEN <<92, 92>> ELSE IF s[1] = delim THEN <<92, delim>>
                          ELSE IF s[1] = 10 THEN <<92, 110>> ELSE <<s[1]>>) \o EscStr(Tail(s), delim)
IsoText(d) == PadNat(d[1], 4) \o <<45>> \o PadNat(d[2], 2) \o <<45>> \o PadNat(d[3], 2) \o <<84>>
              \o PadNat(d[4], 2) \o <<58>> \o PadNat(d[5], 2) \o <<58>> \o PadNat(d[6], 2)
              \o (IF d[7] = 0 THEN <<>> ELSE <<46>> \o PadNat(d[7], 6)) \o <<90>>
RECURSIVE Join(_, _)
Join(parts, sep) == IF Len(parts) = 0 THEN <<>> ELSE IF Len(parts) = 1 THEN parts[1]
                    ELSE parts[1] \o sep \o Join(Tail(parts), sep)
RECURSIVE Not(_, _), NotSeq(_, _), NotMap(_, _)
\* rt: table of <<real text, 8 bytes>>
Not(x, rt) ==
    CASE x.t = "undef" -> <<33>>
      [] x.t = "bool" -> IF x.v = <<1>> THEN <<116, 114, 117, 101>> ELSE <<102, 97, 108, 115, 101>>
      [] x.t = "int" -> <<105>> \o DecInt(IntVal(x.v))
      [] x.t = "real" -> <<114>> \o RLookup(rt, x.v)[2]
      [] x.t = "uuid" -> <<117>> \o UuidText(x.v)
      [] x.t = "str" -> <<39>> \o EscStr(x.v, 39) \o <<39>>
      [] x.t = "uri" -> <<108, 34>> \o EscStr(x.v, 34) \o <<34>>
      [] x.t = "bin" -> <<98, 54, 52, 34>> \o B64Enc(x.v) \o <<34>>
      [] x.t = "date" -> <<100, 34>> \o IsoText(x.v) \o <<34>>
      [] x.t = "arr" -> <<91>> \o Join(NotSeq(x.v, rt), <<44>>) \o <<93>>
      [] x.t = "map" -> <<123>> \o Join(NotMap(x.v, rt), <<44>>) \o <<125>>
NotSeq(s, rt) == IF Len(s) = 0 THEN <<>> ELSE <<Not(s[1], rt)>> \o NotSeq(Tail(s), rt)
NotMap(s, rt) == IF Len(s) = 0 THEN <<>>
                 ELSE <<<<39>> \o EscStr(s[1][1], 39) \o <<39, 58>> \o Not(s[1][2], rt)>> \o NotMap(Tail(s), rt)

\* ---- reference parser of the notation language
IsWS(c) == c \in {32, 9, 10, 11, 12, 13}
IsDigit(c) == c \in 48..57
RECURSIVE SkipWS(_, _, _)
SkipWS(b, i, comma) == IF i <= Len(b) /\ (IsWS(b[i]) \/ (comma /\ b[i] = 44)) THEN SkipWS(b, i + 1, comma) ELSE i
RECURSIVE IndexOf(_, _, _)
IndexOf(b, i, c) == IF i > Len(b) THEN 0 ELSE IF b[i] = c THEN i ELSE IndexOf(b, i + 1, c)
RECURSIVE NatOf(_, _)
\* value of a short run of digits (at most 9: lengths); -1 if not all digits
NatOf(t, acc) == IF Len(t) = 0 THEN acc ELSE IF ~IsDigit(t[1]) THEN -1 ELSE NatOf(Tail(t), acc * 10 + (t[1] - 48))
EscChar(c) == CASE c = 97 -> 7 [] c = 98 -> 8 [] c = 102 -> 12 [] c = 110 -> 10 [] c = 114 -> 13
                [] c = 116 -> 9 [] c = 118 -> 11 [] OTHER -> c
RECURSIVE PDelim(_, _, _, _)
\* b[i..] after the opening delimiter; result Ok(bytes, index after closing delimiter)
PDelim(b, i, delim, acc) ==
    IF i > Len(b) THEN Fail
    ELSE IF b[i] = delim THEN Ok(acc, i + 1)
    ELSE IF b[i] # 92 THEN PDelim(b, i + 1, delim, Append(acc, b[i]))
    ELSE IF i + 1 > Len(b) THEN Fail
    ELSE IF b[i + 1] = 120
         THEN IF i + 3 <= Len(b) /\ HexVal(b[i + 2]) >= 0 /\ HexVal(b[i + 3]) >= 0
              THEN PDelim(b, i + 4, delim, Append(acc, HexVal(b[i + 2]) * 16 + HexVal(b[i + 3]))) ELSE Fail
         ELSE PDelim(b, i + 2, delim, Append(acc, EscChar(b[i + 1])))
\* (size)"raw" / (size)'raw' starting at the "(": used by s(..) and b(..)
PSized(b, i) ==
    IF i > Len(b) \/ b[i] # 40 THEN Fail
    ELSE LET j == IndexOf(b, i + 1, 41) IN
         IF j = 0 \/ j - i - 1 > 9 \/ j = i + 1 THEN Fail
         ELSE LET n == NatOf(Sub(b, i + 1, j - i - 1), 0) IN
              IF n < 0 \/ j + 1 > Len(b) \/ b[j + 1] \notin {34, 39} \/ j + 2 + n > Len(b) \/ b[j + 2 + n] # b[j + 1] THEN Fail
              ELSE Ok(Sub(b, j + 2, n), j + 3 + n)
\* any string form starting at i
PStr(b, i) == IF i > Len(b) THEN Fail
              ELSE IF b[i] \in {34, 39} THEN PDelim(b, i + 1, b[i], <<>>)
              ELSE IF b[i] = 115 THEN PSized(b, i + 1)
              ELSE Fail
RECURSIVE PIntDigits(_, _, _, _)
\* accumulates as a non-positive number so that -2^31 is reachable; 1 signals failure / overflow
PIntDigits(b, i, acc, n) ==
    IF i > Len(b) \/ ~IsDigit(b[i]) THEN (IF n = 0 THEN <<1, i>> ELSE <<acc, i>>)
    ELSE LET d == b[i] - 48 IN
         IF acc < -214748364 \/ (acc = -214748364 /\ d > 8) THEN <<1, i>>
         ELSE PIntDigits(b, i + 1, acc * 10 - d, n + 1)
PInt(b, i) == LET neg == i <= Len(b) /\ b[i] = 45
                  j == IF i <= Len(b) /\ b[i] \in {43, 45} THEN i + 1 ELSE i
                  r == PIntDigits(b, j, 0, 0) IN
              IF r[1] = 1 THEN Fail
              ELSE IF neg THEN Ok(V("int", I32Bytes(r[1])), r[2])
              ELSE IF r[1] = -2147483647 - 1 THEN Fail
              ELSE Ok(V("int", I32Bytes(-r[1])), r[2])
RealCh(c) == IsDigit(c) \/ c \in {43, 45, 46, 101, 69, 105, 110, 102, 97, 73, 78, 70, 65}
RECURSIVE RunEnd(_, _)
RunEnd(b, i) == IF i <= Len(b) /\ RealCh(b[i]) THEN RunEnd(b, i + 1) ELSE i
DigitsAt(b, i, n) == i + n - 1 <= Len(b) /\ \A k \in i..(i + n - 1) : IsDigit(b[k])
RECURSIVE FracUs(_, _, _)
\* microseconds of a digit string after the point: first six digits, right-padded
FracUs(t, k, acc) == IF k > 6 THEN acc
                     ELSE FracUs(t, k + 1, acc * 10 + (IF k <= Len(t) THEN t[k] - 48 ELSE 0))
\* "YYYY-MM-DDTHH:MM:SS[.f+]Z" -> civil fields
ParseIso(t) ==
    IF Len(t) = 0 THEN <<"some", <<1970, 1, 1, 0, 0, 0, 0>>>>
    ELSE IF ~(Len(t) >= 20 /\ DigitsAt(t, 1, 4) /\ t[5] = 45 /\ DigitsAt(t, 6, 2) /\ t[8] = 45 /\ DigitsAt(t, 9, 2)
              /\ t[11] = 84 /\ DigitsAt(t, 12, 2) /\ t[14] = 58 /\ DigitsAt(t, 15, 2) /\ t[17] = 58 /\ DigitsAt(t, 18, 2)
              /\ t[Len(t)] = 90) THEN <<"none">>
    ELSE LET base == <<NatOf(Sub(t, 1, 4), 0), NatOf(Sub(t, 6, 2), 0), NatOf(Sub(t, 9, 2), 0),
                       NatOf(Sub(t, 12, 2), 0), NatOf(Sub(t, 15, 2), 0), NatOf(Sub(t, 18, 2), 0)>> IN
         IF Len(t) = 20 THEN <<"some", Append(base, 0)>>
         ELSE IF t[20] # 46 \/ Len(t) < 22 \/ ~DigitsAt(t, 21, Len(t) - 21) THEN <<"none">>
         ELSE <<"some", Append(base, FracUs(Sub(t, 21, Len(t) - 21), 1, 0))>>
Word(b, i, w) == i + Len(w) - 1 <= Len(b) /\ Sub(b, i, Len(w)) = w

RECURSIVE PNot(_, _, _), PNotArr(_, _, _, _), PNotMap(_, _, _, _)
PNot(b, i, rt) ==
    IF i > Len(b) THEN Fail ELSE
    LET c == b[i] IN
    CASE c = 33 -> Ok(V("undef", <<>>), i + 1)
      [] c = 49 -> Ok(V("bool", <<1>>), i + 1)
      [] c = 48 -> Ok(V("bool", <<0>>), i + 1)
      [] c \in {116, 84} -> IF Word(b, i, <<116, 114, 117, 101>>) \/ Word(b, i, <<84, 82, 85, 69>>)
                            THEN Ok(V("bool", <<1>>), i + 4) ELSE Ok(V("bool", <<1>>), i + 1)
      [] c \in {102, 70} -> IF Word(b, i, <<102, 97, 108, 115, 101>>) \/ Word(b, i, <<70, 65, 76, 83, 69>>)
                            THEN Ok(V("bool", <<0>>), i + 5) ELSE Ok(V("bool", <<0>>), i + 1)
      [] c = 105 -> PInt(b, i + 1)
      [] c = 114 -> LET j == RunEnd(b, i + 1) r == Lookup(rt, Sub(b, i + 1, j - i - 1)) IN
                    IF r[1] = "some" THEN Ok(V("real", r[2]), j) ELSE Fail
      [] c = 117 -> IF i + 36 > Len(b) THEN Fail ELSE
                    LET t == Sub(b, i + 1, 36)
                        hx == Sub(t, 1, 8) \o Sub(t, 10, 4) \o Sub(t, 15, 4) \o Sub(t, 20, 4) \o Sub(t, 25, 12)
                        r == B16Dec(hx) IN
                    IF t[9] = 45 /\ t[14] = 45 /\ t[19] = 45 /\ t[24] = 45 /\ r[1] = "some" THEN Ok(V("uuid", r[2]), i + 37) ELSE Fail
      [] c \in {34, 39, 115} -> LET r == PStr(b, i) IN IF r.ok THEN Ok(V("str", r.v), r.i) ELSE Fail
      [] c = 108 -> LET r == PStr(b, i + 1) IN IF r.ok THEN Ok(V("uri", r.v), r.i) ELSE Fail
      [] c = 100 -> LET r == PStr(b, i + 1) IN
                    IF ~r.ok THEN Fail ELSE
                    LET d == ParseIso(r.v) IN IF d[1] = "some" THEN Ok(V("date", d[2]), r.i) ELSE Fail
      [] c = 98 -> IF i + 1 <= Len(b) /\ b[i + 1] = 40
                   THEN LET r == PSized(b, i + 1) IN IF r.ok THEN Ok(V("bin", r.v), r.i) ELSE Fail
                   ELSE IF i + 3 > Len(b) \/ b[i + 3] # 34 THEN Fail
                   ELSE LET j == IndexOf(b, i + 4, 34) IN
                        IF j = 0 THEN Fail ELSE
                        LET t == Sub(b, i + 4, j - i - 4)
                            r == IF Sub(b, i + 1, 2) = <<54, 52>> THEN B64Dec(t)
                                 ELSE IF Sub(b, i + 1, 2) = <<49, 54>> THEN B16Dec(t) ELSE <<"none">> IN
                        IF r[1] = "some" THEN Ok(V("bin", r[2]), j + 1) ELSE Fail
      [] c = 91 -> PNotArr(b, i + 1, rt, <<>>)
      [] c = 123 -> PNotMap(b, i + 1, rt, <<>>)
      [] OTHER -> Fail
PNotArr(b, i, rt, acc) ==
    LET j == SkipWS(b, i, TRUE) IN
    IF j > Len(b) THEN Fail
    ELSE IF b[j] = 93 THEN Ok(V("arr", acc), j + 1)
    ELSE LET r == PNot(b, j, rt) IN IF r.ok THEN PNotArr(b, r.i, rt, Append(acc, r.v)) ELSE Fail
PNotMap(b, i, rt, acc) ==
    LET j == SkipWS(b, i, TRUE) IN
    IF j > Len(b) THEN Fail
    ELSE IF b[j] = 125 THEN Ok(V("map", acc), j + 1)
    ELSE LET k == PStr(b, j) IN
         IF ~k.ok THEN Fail ELSE
         LET c == SkipWS(b, k.i, FALSE) IN
         IF c > Len(b) \/ b[c] # 58 THEN Fail ELSE
         LET r == PNot(b, c + 1, rt) IN
         IF r.ok THEN PNotMap(b, r.i, rt, Append(acc, <<k.v, r.v>>)) ELSE Fail

ParseNot(b, rt) == LET r == PNot(b, 1, rt) IN IF r.ok /\ r.i = Len(b) + 1 THEN r.v ELSE Err
DenotesNot(b, rt) == Canon(ParseNot(b, rt))

\* ====================================================== content sniffing (llsd.parse)
\* The dispatcher used where the content type cannot be trusted: white space IN FRONT of the document is
\* skipped, then the leading bytes pick the format: a binary header -> binary, "<" -> XML, anything else ->
\* notation.  Nothing is removed behind the document: binary LLSD is raw bytes and may END in a byte that
\* happens to be ASCII white space (i 00 00 00 0A, a string ending in a blank, ...).
\* `both` names the variant that also trims the end (kept so that TLC shows the law bites).
RECURSIVE LStripFrom(_, _)
LStripFrom(b, i) == IF i <= Len(b) /\ IsWS(b[i]) THEN LStripFrom(b, i + 1) ELSE i
RECURSIVE RStripTo(_, _)
RStripTo(b, j) == IF j >= 1 /\ IsWS(b[j]) THEN RStripTo(b, j - 1) ELSE j
Trimmed(doc, both) == LET i == LStripFrom(doc, 1)
                          j == IF both THEN RStripTo(doc, Len(doc)) ELSE Len(doc) IN
                      IF j < i THEN <<>> ELSE SubSeq(doc, i, j)
SniffKind(d) == IF IsPrefix(HdrPy, d) \/ IsPrefix(HdrCpp, d) THEN "bin"
                ELSE IF Len(d) > 0 /\ d[1] = 60 THEN "xml" ELSE "not"
Sniff(doc) == SniffKind(Trimmed(doc, FALSE))
\* the value a sniffed document denotes (XML is not modelled: a marker)
SniffParseWith(doc, dt, rt, both) ==
    LET d == Trimmed(doc, both) k == SniffKind(d) IN
    IF k = "bin" THEN DenotesBin(d, dt) ELSE IF k = "not" THEN DenotesNot(d, rt) ELSE V("xml", <<>>)
SniffParse(doc, dt, rt) == SniffParseWith(doc, dt, rt, FALSE)

\* "no string value ever puts a raw newline into notation output"
NoRawNewline(b) == \A k \in 1..Len(b) : b[k] # 10
\* The same law on documents too long to be held as a TLC sequence (strings of thousands of bytes): the output is
\* carried in run-length form << <<byte, count>>, ... >> (lossless; long values are generated as long runs).
NoRawNewlineRL(rl) == \A k \in 1..Len(rl) : rl[k][2] > 0 => rl[k][1] # 10
RECURSIVE LenRL(_)
LenRL(rl) == IF Len(rl) = 0 THEN 0 ELSE rl[1][2] + LenRL(Tail(rl))
RECURSIVE RunAt(_, _)
RunAt(b, i) == IF i < Len(b) /\ b[i + 1] = b[i] THEN 1 + RunAt(b, i + 1) ELSE 1
RECURSIVE ToRLFrom(_, _)
ToRLFrom(b, i) == IF i > Len(b) THEN <<>> ELSE LET n == RunAt(b, i) IN <<<<b[i], n>>>> \o ToRLFrom(b, i + n)
ToRL(b) == ToRLFrom(b, 1)
=============================================================================
