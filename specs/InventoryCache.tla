------------------------------ MODULE InventoryCache ------------------------------
(***************************************************************************)
(* The client-side inventory cache under message histories.                *)
(*   client/inventory_manager.py  InventoryManager (_load_skeleton,        *)
(*       load_cache, _handle_bulk_update_inventory,                        *)
(*       _handle_update_create_inventory_item, _handle_remove_inventory_   *)
(*       item, _handle_remove_inventory_folder, _handle_move_inventory_    *)
(*       item, process_aisv3_response, _validate_recipient)                *)
(*   base/inventory.py  InventoryModel (add/update/upsert/unlink, nodes,   *)
(*       root, dirty_categories/flag_if_dirty), node.parent, cat.children  *)
(*   proxy/inventory_manager.py  ProxyInventoryManager (choice of the      *)
(*       viewer's cache file, _wrap_with_cache_defer,                      *)
(*       _apply_deferred_after_loaded, _handle_aisv3_flow)                 *)
(* Growth beyond the listed properties.                                    *)
(*                                                                         *)
(* The model is a forest: every node knows its parent's ID, nothing else;  *)
(* a folder's children are the nodes that name it as parent.  A parent     *)
(* need not be known (an item may arrive before its folder, and the AIS    *)
(* removal lists unlink single nodes).                                     *)
(*                                                                         *)
(* Environment: folder IDs and item IDs are disjoint; the inventory server *)
(* never builds a cycle -- here: folder f_k only ever sits under a folder  *)
(* of smaller rank, f1 is the root (parent = the null ID) and stays it.    *)
(*                                                                         *)
(* Bugs names the known deviations of the implementation this spec is      *)
(* bound to (the intended behaviour is Bugs = {}):                         *)
(*   "RemFolderUnsubscribed"  RemoveInventoryFolder is never subscribed    *)
(*   "UncheckedBulk", "UncheckedMove"  handlers that do not look at the    *)
(*                            addressee of the message                     *)
(*   "DirtyNeverFlagged"      dirty_categories iterates the keys           *)
(*   "NewestCacheIsLast"      the proxy takes the last cache file listed   *)
(***************************************************************************)
EXTENDS Integers, Sequences, FiniteSets, TLC

CONSTANTS NF, NI,      \* folders f1..fNF, items i1..iNI
          Names,       \* names carried by messages
          Versions,    \* folder versions carried by AIS responses
          Variants,    \* subset of {"client", "proxy", "proxyNF", "nocache"}
          Bugs

FolderSeq == <<"f1", "f2", "f3", "f4">>
ItemSeq == <<"i1", "i2", "i3">>
Folders == {FolderSeq[k] : k \in 1..NF}
Items == {ItemSeq[k] : k \in 1..NI}
Ids == Folders \cup Items
Rank(f) == CHOOSE k \in 1..NF : FolderSeq[k] = f
Root == "f1"
Zero == "0"                       \* the null UUID
NoVer == -1                       \* InventoryCategory.VERSION_NONE
Below(f) == {g \in Folders : Rank(g) < Rank(f)}

VARIABLES variant,    \* which manager: "client" (InventoryManager, load_cache called by the user),
                      \* "proxy"/"proxyNF" (ProxyInventoryManager that found two cache files, the newer listed
                      \* last / first), "nocache" (ProxyInventoryManager that found none)
          nodes,      \* ID -> [k, p, n, v] for the known nodes
          dirty,      \* model.any_dirty
          loaded,     \* handlers run immediately (cache_loaded is set)
          cached,     \* the cache file has been read (or there is none to read)
          deferred,   \* calls waiting for the cache, in arrival order
          out         \* observation of the last step

vars == <<variant, nodes, dirty, loaded, cached, deferred, out>>

Cat(p, n, v) == [k |-> "cat", p |-> p, n |-> n, v |-> v]
Item(p, n) == [k |-> "item", p |-> p, n |-> n, v |-> 0]

(************************ login skeleton and cache files ********************)
SkelParent(f) == IF f = Root THEN Zero ELSE FolderSeq[Rank(f) - 1]      \* a chain f1 > f2 > f3
SkelVer(f) == Rank(f)
\* _load_skeleton: every folder of the skeleton, version NONE ("needs completion from the cache")
Skeleton == [f \in Folders |-> Cat(SkelParent(f), "s", NoVer)]

\* the cache the viewer wrote last: f2 is out of date there, the others are current
CacheNew == [cats |-> {[id |-> f, p |-> SkelParent(f), n |-> "c", v |-> IF Rank(f) = 2 THEN 9 ELSE Rank(f)] : f \in Folders},
             items |-> {[id |-> ItemSeq[k], n |-> "c",
                         p |-> CASE k = 1 -> (IF NF >= 3 THEN "f3" ELSE Root)
                                 [] k = 2 -> (IF NF >= 2 THEN "f2" ELSE Root)
                                 [] OTHER -> Root] : k \in 1..NI}]
\* an older cache file of another viewer
CacheOld == [cats |-> {[id |-> f, p |-> SkelParent(f), n |-> "o", v |-> Rank(f)] : f \in Folders \cap {"f1", "f2"}},
             items |-> {[id |-> "i1", n |-> "o", p |-> IF NF >= 2 THEN "f2" ELSE Root]}]
\* "Look for the newest version of the cached inventory and use that."
Chosen == IF variant = "proxyNF" /\ "NewestCacheIsLast" \in Bugs THEN CacheOld ELSE CacheNew

(****************************** the model ***********************************)
HasDirty(n) == \E x \in DOMAIN n : n[x].k = "cat" /\ n[x].v = NoVer
\* flag_if_dirty
Flag(n, d) == IF "DirtyNeverFlagged" \in Bugs THEN d ELSE d \/ HasDirty(n)

Put(n, id, rec) == [x \in DOMAIN n \cup {id} |-> IF x = id THEN rec ELSE n[x]]
Drop(n, S) == [x \in DOMAIN n \ S |-> n[x]]
\* upsert of a whole node
UpsertItem(n, i) == Put(n, i.id, Item(i.p, i.n))
UpsertCat(n, c) == Put(n, c.id, Cat(c.p, c.n, c.v))
\* upsert(update_fields = parent, name, type): "Don't clobber version, we only want to fetch the folder if it's new"
UpsertMovedCat(n, c) == Put(n, c.id, Cat(c.p, c.n, IF c.id \in DOMAIN n THEN n[c.id].v ELSE NoVer))

\* unlink(node): the node and everything reachable from it through known children
RECURSIVE Under(_, _, _)
Under(n, x, f) == x = f \/ (n[x].p \in DOMAIN n /\ Under(n, n[x].p, f))
Subtree(n, f) == IF f \in DOMAIN n THEN {x \in DOMAIN n : Under(n, x, f)} ELSE {}

\* load_cache on the model as it is
Load(n, d, cache) ==
    LET okCats == {c \in cache.cats : /\ (c.id \notin DOMAIN n \/ n[c.id].v = NoVer)      \* never clobber a completed folder
                                      /\ c.id \in Folders /\ c.v = SkelVer(c.id)}          \* the server says it is current
        okIds == {c.id : c \in okCats}
        n1 == [x \in DOMAIN n \cup okIds |-> IF x \in okIds THEN LET c == CHOOSE c \in okCats : c.id = x IN Cat(c.p, c.n, c.v)
                                                            ELSE n[x]]
        okItems == {i \in cache.items : i.id \notin DOMAIN n1 /\ i.p \in okIds}
        okItemIds == {i.id : i \in okItems}
        n2 == [x \in DOMAIN n1 \cup okItemIds |-> IF x \in okItemIds THEN LET i == CHOOSE i \in okItems : i.id = x IN Item(i.p, i.n)
                                                                  ELSE n1[x]]
    IN [nodes |-> n2, dirty |-> Flag(n2, d)]

(***************************** messages *************************************)
NoCat == [id |-> "none", p |-> "none", n |-> "", v |-> 0]
NoItem == [id |-> "none", p |-> "none", n |-> ""]
CatSpecs(V) == UNION {{[id |-> f, p |-> p, n |-> nm, v |-> v] : p \in (IF f = Root THEN {Zero} ELSE Below(f)), nm \in Names, v \in V} : f \in Folders}
ItemSpecs(NN) == {[id |-> i, p |-> p, n |-> nm] : i \in Items, p \in Folders, nm \in NN}
Msg(t, to, c, i, rc, ri) == [t |-> t, to |-> to, c |-> c, i |-> i, rc |-> rc, ri |-> ri]
Udp == {"Bulk", "Create", "RemItem", "RemFolder", "RemFolderDirect", "Move"}        \* messages that name an addressee
Agents == {"me", "other"}

\* BulkUpdateInventory: folder blocks and item blocks (an absent kind is sent as one block with the null ID)
BulkMsgs == {Msg("Bulk", to, c, i, {}, {}) : to \in Agents, c \in CatSpecs({0}) \cup {NoCat}, i \in ItemSpecs(Names) \cup {NoItem}}
                \ {Msg("Bulk", to, NoCat, NoItem, {}, {}) : to \in Agents}
\* UpdateCreateInventoryItem
CreateMsgs == {Msg("Create", to, NoCat, i, {}, {}) : to \in Agents, i \in ItemSpecs(Names)}
\* RemoveInventoryItem / RemoveInventoryFolder: one block per ID (on the wire preceded by a block for an ID that was
\* never issued, which is skipped like any unknown ID).  "RemFolderDirect" hands the message to the folder-removal
\* handler itself instead of the session's dispatcher: the same thing unless nobody subscribed the handler.
RemItemMsgs == {Msg("RemItem", to, NoCat, NoItem, {}, S) : to \in Agents, S \in SUBSET Items \ {{}}}
RemFolderMsgs == {Msg(t, to, NoCat, NoItem, S, {}) : t \in {"RemFolder", "RemFolderDirect"}, to \in Agents, S \in SUBSET Folders \ {{}}}
\* MoveInventoryItem: new folder, NewName "" = keep the name
MoveMsgs == {Msg("Move", to, NoCat, i, {}, {}) : to \in Agents, i \in ItemSpecs(Names \cup {""})}
\* AIS responses: a category (with "name": it is upserted itself) optionally embedding an item or a link;
\* an item; something without "name" embedding a category and an item; removal lists; and for the proxy a
\* flow that is not a successful LLSD response
AisMsgs == {Msg("AisCat", "me", c, i, {}, {}) : c \in CatSpecs(Versions), i \in ItemSpecs(Names) \cup {NoItem}}
      \cup {Msg("AisItem", "me", NoCat, i, {}, {}) : i \in ItemSpecs(Names)}
      \cup {Msg("AisEmb", "me", c, i, {}, {}) : c \in CatSpecs(Versions), i \in ItemSpecs(Names) \cup {NoItem}}
      \cup ({Msg("AisRem", "me", NoCat, NoItem, rc, ri) : rc \in SUBSET Folders, ri \in SUBSET Items} \ {Msg("AisRem", "me", NoCat, NoItem, {}, {})})
      \cup {Msg("AisBad", why, NoCat, NoItem, Folders, Items) : why \in {"status", "ctype"}}
Msgs == BulkMsgs \cup CreateMsgs \cup RemItemMsgs \cup RemFolderMsgs \cup MoveMsgs \cup AisMsgs

Unchecked == {t \in {"Bulk", "Move"} : ("Unchecked" \o t) \in Bugs}
Unheard == IF "RemFolderUnsubscribed" \in Bugs THEN {"RemFolder"} ELSE {}
\* _validate_recipient
Refused(m) == m.t \in (Udp \ Unchecked) \ Unheard /\ m.to # "me"

\* one handler run on model s = [nodes, dirty]; errs = 1: the handler refused the message (AgentID mismatch)
Eff(s, m) ==
    LET n == s.nodes
        Res(n2, d2) == [nodes |-> n2, dirty |-> d2, errs |-> 0]
    IN IF m.t \in Unheard THEN Res(n, s.dirty)
       ELSE IF Refused(m) THEN [nodes |-> n, dirty |-> s.dirty, errs |-> 1]
       ELSE CASE m.t = "Bulk" ->
                   LET n1 == IF m.c.id # "none" THEN UpsertMovedCat(n, m.c) ELSE n
                       n2 == IF m.i.id # "none" THEN UpsertItem(n1, m.i) ELSE n1
                   IN Res(n2, IF m.c.id # "none" THEN Flag(n2, s.dirty) ELSE s.dirty)
              [] m.t = "Create" -> Res(UpsertItem(n, m.i), s.dirty)
              [] m.t = "RemItem" -> Res(Drop(n, m.ri), s.dirty)
              [] m.t \in {"RemFolder", "RemFolderDirect"} -> Res(Drop(n, UNION {Subtree(n, f) : f \in m.rc}), s.dirty)
              [] m.t = "Move" ->
                   IF m.i.id \in DOMAIN n
                   THEN Res([n EXCEPT ![m.i.id].p = m.i.p, ![m.i.id].n = IF m.i.n = "" THEN @ ELSE m.i.n], s.dirty)
                   ELSE Res(n, s.dirty)                                   \* "Missing inventory item"
              [] m.t = "AisCat" -> LET n1 == UpsertCat(n, m.c) IN Res(IF m.i.id # "none" THEN UpsertItem(n1, m.i) ELSE n1, s.dirty)
              [] m.t = "AisItem" -> Res(UpsertItem(n, m.i), s.dirty)
              [] m.t = "AisEmb" -> LET n1 == UpsertCat(n, m.c) IN Res(IF m.i.id # "none" THEN UpsertItem(n1, m.i) ELSE n1, s.dirty)
              [] m.t = "AisRem" -> Res(Drop(n, m.rc \cup m.ri), s.dirty)  \* "Presumably this list is exhaustive, so don't unlink children."
              [] OTHER -> Res(n, s.dirty)

RECURSIVE Fold(_, _)
Fold(s, q) == IF q = <<>> THEN s
              ELSE LET r == Eff([nodes |-> s.nodes, dirty |-> s.dirty], Head(q))
                   IN Fold([nodes |-> r.nodes, dirty |-> r.dirty, errs |-> s.errs + r.errs], Tail(q))

(****************************** actions *************************************)
Init == /\ variant \in Variants
        /\ nodes = Skeleton /\ dirty = FALSE
        /\ loaded = (variant \in {"client", "nocache"})
        /\ cached = (variant = "nocache")
        /\ deferred = <<>>
        /\ out = [errs |-> 0, m |-> Msg("Init", "me", NoCat, NoItem, {}, {})]

\* a message / response reaches the manager: handled now, or put aside until the cache has been read
Deliver(m) ==
    /\ m.t = "AisBad" => variant # "client"          \* _handle_aisv3_flow exists in the proxy only
    /\ IF m.t = "AisBad" THEN UNCHANGED <<nodes, dirty, deferred>> /\ out' = [errs |-> 0, m |-> m]
       ELSE IF loaded
       THEN LET r == Eff([nodes |-> nodes, dirty |-> dirty], m)
            IN nodes' = r.nodes /\ dirty' = r.dirty /\ out' = [errs |-> r.errs, m |-> m] /\ UNCHANGED deferred
       ELSE deferred' = Append(deferred, m) /\ out' = [errs |-> 0, m |-> m] /\ UNCHANGED <<nodes, dirty>>
    /\ UNCHANGED <<variant, loaded, cached>>

BulkUpdate(m) == m \in BulkMsgs /\ Deliver(m)
UpdateCreate(m) == m \in CreateMsgs /\ Deliver(m)
RemoveItem(m) == m \in RemItemMsgs /\ Deliver(m)
RemoveFolder(m) == m \in RemFolderMsgs /\ Deliver(m)
MoveItem(m) == m \in MoveMsgs /\ Deliver(m)
AisResponse(m) == m \in AisMsgs /\ Deliver(m)

\* the cache file has been read (client: the user calls load_cache; proxy: the loader thread finished):
\* the cache is merged into the model, then everything put aside runs, in arrival order, exactly once
CacheLoaded ==
    /\ ~cached
    /\ LET base == Load(nodes, dirty, Chosen)
           r == Fold([nodes |-> base.nodes, dirty |-> base.dirty, errs |-> 0], deferred)
       IN nodes' = r.nodes /\ dirty' = r.dirty /\ out' = [errs |-> r.errs, m |-> Msg("Load", "me", NoCat, NoItem, {}, {})]
    /\ loaded' = TRUE /\ cached' = TRUE /\ deferred' = <<>>
    /\ UNCHANGED variant

Next == \/ \E m \in Msgs : BulkUpdate(m) \/ UpdateCreate(m) \/ RemoveItem(m) \/ RemoveFolder(m) \/ MoveItem(m) \/ AisResponse(m)
        \/ CacheLoaded
Spec == Init /\ [][Next]_vars

(***************************** properties **********************************)
RecOK(r) == /\ r.k \in {"cat", "item"} /\ r.p \in Folders \cup {Zero}
            /\ r.n \in Names \cup {"s", "c", "o"}
            /\ r.v \in (IF r.k = "item" THEN {0} ELSE Versions \cup {NoVer, 9} \cup 1..NF)
TypeOK == /\ DOMAIN nodes \subseteq Ids
          /\ \A x \in DOMAIN nodes : RecOK(nodes[x]) /\ (nodes[x].k = "cat") = (x \in Folders)
          /\ dirty \in BOOLEAN /\ loaded \in BOOLEAN /\ cached \in BOOLEAN

\* what a reader of the model sees
Parent(n, x) == IF n[x].p \in DOMAIN n THEN n[x].p ELSE "none"
Children(n, f) == {x \in DOMAIN n : n[x].p = f}
\* lookup by ID and the parents' children lists agree in both directions; only folders have children
LookupAgrees == \A x \in DOMAIN nodes :
                   /\ Parent(nodes, x) # "none" => x \in Children(nodes, Parent(nodes, x)) /\ Parent(nodes, x) \in Folders
                   /\ \A y \in Children(nodes, x) : Parent(nodes, y) = x
\* the environment never builds a cycle: walking up ends
RECURSIVE Height(_, _)
Height(n, x) == IF Parent(n, x) = "none" THEN 0 ELSE 1 + Height(n, Parent(n, x))
NoCycle == \A x \in DOMAIN nodes : Height(nodes, x) <= NF
\* until the cache has been read nothing touches the model, and nothing stays put aside afterwards
UntouchedBeforeLoad == ~loaded => nodes = Skeleton /\ ~dirty /\ ~cached
NothingPendingAfterLoad == loaded => deferred = <<>>

\* the steps below are recognised by the message the step handled (out'.m)
Handled(t) == out'.m.t = t /\ loaded /\ out'.m.to = "me" /\ t \notin Unheard
\* everything that hangs below a set of folders, top-down (the actions walk up instead)
RECURSIVE Closure(_, _, _)
Closure(n, S, k) == IF k = 0 THEN S ELSE Closure(n, S \cup {x \in DOMAIN n : n[x].p \in S}, k - 1)
\* removing a folder removes exactly what hangs below it
RemoveFolderExact ==
    [][(Handled("RemFolder") \/ Handled("RemFolderDirect")) =>
          /\ DOMAIN nodes' = DOMAIN nodes \ Closure(nodes, out'.m.rc \cap DOMAIN nodes, NF + 1)
          /\ \A x \in DOMAIN nodes' : nodes'[x] = nodes[x]]_vars
\* removing items removes exactly those
RemoveItemExact ==
    [][Handled("RemItem") =>
          DOMAIN nodes' = DOMAIN nodes \ out'.m.ri /\ \A x \in DOMAIN nodes' : nodes'[x] = nodes[x]]_vars
\* a move changes the parent and possibly the name of that one item
MoveChangesOnlyParentAndName ==
    [][Handled("Move") =>
          /\ DOMAIN nodes' = DOMAIN nodes
          /\ \A x \in DOMAIN nodes : IF x = out'.m.i.id
                                     THEN /\ nodes'[x].k = nodes[x].k /\ nodes'[x].v = nodes[x].v /\ nodes'[x].p = out'.m.i.p
                                          /\ nodes'[x].n = (IF out'.m.i.n = "" THEN nodes[x].n ELSE out'.m.i.n)
                                     ELSE nodes'[x] = nodes[x]]_vars
\* a message for somebody else changes nothing
ForeignChangesNothing ==
    [][(loaded /\ out'.m.t \in Udp /\ out'.m.to # "me" /\ out'.m.t \notin Unchecked) =>
          nodes' = nodes /\ dirty' = dirty /\ (out'.m.t \notin Unheard => out'.errs = 1)]_vars
\* a bulk update of a known folder moves/renames it and keeps its version; a new one still needs fetching
BulkKeepsVersion ==
    [][(Handled("Bulk") /\ out'.m.c.id # "none") =>
          nodes'[out'.m.c.id].v = (IF out'.m.c.id \in DOMAIN nodes THEN nodes[out'.m.c.id].v ELSE NoVer)]_vars
\* after the cache has been read, and after a bulk update that carried folders, consumers are told when a known
\* folder still lacks its contents; the flag is never taken back
DirtyFlagged ==
    [][/\ ("DirtyNeverFlagged" \notin Bugs /\ HasDirty(nodes')
            /\ ((out'.m.t = "Load" /\ deferred = <<>>) \/ (Handled("Bulk") /\ out'.m.c.id # "none"))) => dirty'
       /\ dirty => dirty']_vars
\* created / updated things are where the message says, under the name it says
UpsertLands ==
    [][(loaded /\ out'.m.t \in {"Create", "AisItem", "AisCat", "AisEmb"} /\ out'.errs = 0) =>
          /\ out'.m.i.id # "none" => nodes'[out'.m.i.id] = Item(out'.m.i.p, out'.m.i.n)
          /\ out'.m.c.id # "none" => nodes'[out'.m.c.id] = Cat(out'.m.c.p, out'.m.c.n, out'.m.c.v)
          /\ \A x \in DOMAIN nodes \ {out'.m.i.id, out'.m.c.id} : x \in DOMAIN nodes' /\ nodes'[x] = nodes[x]]_vars
\* what was put aside is not lost, not applied twice, and applied in arrival order: reading the cache gives
\* the model that handling the same calls one by one right after the load would have given
DeferredInOrderOnce ==
    [][out'.m.t = "Load" =>
          /\ deferred' = <<>> /\ loaded'
          /\ LET base == Load(nodes, dirty, Chosen)
                 Step(k, s) == Eff([nodes |-> s.nodes, dirty |-> s.dirty], deferred[k])
                 RECURSIVE Upto(_)
                 Upto(k) == IF k = 0 THEN [nodes |-> base.nodes, dirty |-> base.dirty, errs |-> 0] ELSE Step(k, Upto(k - 1))
             IN nodes' = Upto(Len(deferred)).nodes /\ dirty' = Upto(Len(deferred)).dirty]_vars
\* what the cache contributes: only folders the server says are current, never over a completed folder, and
\* only items of folders that were taken
LoadTakesOnlyCurrent ==
    [][(out'.m.t = "Load" /\ deferred = <<>>) =>
          \A x \in DOMAIN nodes' :
             \/ x \in DOMAIN nodes /\ nodes'[x] = nodes[x]
             \/ x \in Folders /\ nodes'[x].v = SkelVer(x) /\ (x \in DOMAIN nodes => nodes[x].v = NoVer)
             \/ x \in Items /\ x \notin DOMAIN nodes /\ nodes'[x].p \in Folders /\ nodes'[nodes'[x].p].v = SkelVer(nodes'[x].p)]_vars

\* what is compared with the implementation besides nodes / dirty / loaded
Obs == [par |-> [x \in DOMAIN nodes |-> Parent(nodes, x)],
        kids |-> [f \in {x \in DOMAIN nodes : nodes[x].k = "cat"} |-> Children(nodes, f)],
        root |-> IF \E x \in DOMAIN nodes : nodes[x].k = "cat" /\ nodes[x].p = Zero THEN Root ELSE "none",
        dirtyCats |-> IF "DirtyNeverFlagged" \in Bugs THEN {} ELSE {x \in DOMAIN nodes : nodes[x].k = "cat" /\ nodes[x].v = NoVer}]
=============================================================================
