---- MODULE AssetLayout_MBT ----
(* Bounded life cycles of one mesh object, exported edge by edge for replay into the real      *)
(* MeshAsset / LLMeshSerializer (binding B1).                                                  *)
EXTENDS AssetLayout, Json
CONSTANTS Depth
Bound == TLCGet("level") <= Depth
Spec == MInit0 /\ [][MNext0]_mvars
St == [mode |-> mode, cur |-> cur, dropped |-> dropped, raw |-> raw, wire |-> wire, want |-> want]
Obs == [mode |-> mode, cur |-> cur, dropped |-> dropped, rawHas |-> {s \in Segs : raw[s] # -1}, wire |-> wire]
P(act) == PrintT(ToJson([src |-> St, act |-> act, dst |-> St', obs |-> Obs']))
MInit == MInit0 /\ PrintT(ToJson([init |-> St, obs |-> Obs]))
MNext == \/ \E s \in Segs : Edit(s) /\ P([n |-> "Edit", s |-> s])
         \/ \E s \in Segs : Drop(s) /\ P([n |-> "Drop", s |-> s])
         \/ SerializeMesh /\ P([n |-> "Serialize"])
         \/ \E k \in BOOLEAN : Reparse(k) /\ P([n |-> "Reparse", raw |-> k])
MSpec == MInit /\ [][MNext]_mvars
====
