---------------------------- MODULE CommandParser ----------------------------
(***************************************************************************)
(* Parameter parsing of chat commands on the proxy's command channel        *)
(* (proxy/commands.py handle_command).  Growth beyond the listed            *)
(* properties: the command channel is what claims a message in C07.         *)
(*                                                                         *)
(* A command declares an ordered list of parameters; each has a separator   *)
(* character (or is greedy: takes the rest of the text) and may be          *)
(* optional.  Parse(params, text) is the reference semantics: the value     *)
(* bound to each parameter, or a refusal naming the first missing           *)
(* mandatory parameter.                                                     *)
(***************************************************************************)
EXTENDS Naturals, Sequences, FiniteSets, TLC

CONSTANTS Alphabet,     \* characters of the message text (as small naturals); 0 is the space
          MaxLen,       \* longest text
          MaxParams     \* longest parameter list

\* a parameter: [sep |-> character or -1 for greedy, opt |-> BOOLEAN]
ParamKinds == {[sep |-> s, opt |-> o] : s \in {0, 1, 99}, o \in BOOLEAN}   \* 99 stands for "greedy" (sep None)

RECURSIVE LStrip(_, _)
LStrip(t, c) == IF t # <<>> /\ Head(t) = c THEN LStrip(Tail(t), c) ELSE t
\* index of the first c in t, or 0
RECURSIVE Find(_, _, _)
Find(t, c, i) == IF i > Len(t) THEN 0 ELSE IF t[i] = c THEN i ELSE Find(t, c, i + 1)

\* result: [ok |-> BOOLEAN, vals |-> sequence of <<index, text>> for the parameters that were bound, missing |-> index]
RECURSIVE ParseFrom(_, _, _, _)
ParseFrom(ps, i, t, acc) ==
    IF i > Len(ps) THEN [ok |-> TRUE, vals |-> acc, missing |-> 0]
    ELSE LET p == ps[i] IN
         IF p.sep = 99 THEN ParseFrom(ps, i + 1, <<>>, Append(acc, <<i, t>>))          \* greedy: the rest, even if empty
         ELSE LET s == LStrip(t, p.sep) IN
              IF s = <<>> THEN IF p.opt THEN ParseFrom(ps, i + 1, s, acc)              \* optional and absent: skipped
                                        ELSE [ok |-> FALSE, vals |-> acc, missing |-> i]
              ELSE LET k == Find(s, p.sep, 1)
                       val == IF k = 0 THEN s ELSE SubSeq(s, 1, k - 1)
                       rest == IF k = 0 THEN <<>> ELSE SubSeq(s, k + 1, Len(s))
                   IN ParseFrom(ps, i + 1, rest, Append(acc, <<i, val>>))
Parse(ps, t) == ParseFrom(ps, 1, t, <<>>)

VARIABLE row
RECURSIVE Texts(_)
Texts(n) == IF n = 0 THEN {<<>>} ELSE Texts(n - 1) \cup {Append(t, c) : t \in {u \in Texts(n - 1) : Len(u) = n - 1}, c \in Alphabet}
RECURSIVE ParamLists(_)
ParamLists(n) == IF n = 0 THEN {<<>>} ELSE ParamLists(n - 1) \cup {Append(l, p) : l \in {m \in ParamLists(n - 1) : Len(m) = n - 1}, p \in ParamKinds}

Init == row \in {[ps |-> ps, t |-> t] : ps \in ParamLists(MaxParams), t \in Texts(MaxLen)}
Next == UNCHANGED row
Spec == Init /\ [][Next]_row

R == Parse(row.ps, row.t)
\* bound values never contain their own separator and, unless greedy, are never empty
ValuesClean == \A j \in DOMAIN R.vals :
                   LET p == row.ps[R.vals[j][1]] v == R.vals[j][2] IN
                   p.sep # 99 => (v # <<>> /\ \A x \in DOMAIN v : v[x] # p.sep)
\* parameters are bound in declaration order, each at most once
InOrder == \A a, b \in DOMAIN R.vals : a < b => R.vals[a][1] < R.vals[b][1]
\* a refusal names a mandatory parameter, and everything before it that is mandatory was bound
RefusalJustified == ~R.ok => (~row.ps[R.missing].opt /\ row.ps[R.missing].sep # 99)
\* every mandatory parameter is bound when parsing succeeds
MandatoryBound == R.ok => \A i \in DOMAIN row.ps : (~row.ps[i].opt \/ row.ps[i].sep = 99) => \E j \in DOMAIN R.vals : R.vals[j][1] = i
=============================================================================
