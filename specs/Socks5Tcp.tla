------------------------------ MODULE Socks5Tcp ------------------------------
(***************************************************************************)
(* TCP side of the SOCKS5 server (proxy/socks_proxy.py SOCKS5Server /      *)
(* ProxyClientContext): greeting, method selection, command loop, UDP      *)
(* ASSOCIATE, teardown.  Growth beyond the listed properties (DESIGN §10). *)
(*                                                                         *)
(* The client's byte stream is fed one byte at a time (any chunking of a   *)
(* TCP stream is a sequence of such steps); after every byte the server    *)
(* consumes as much as it can.  The observable behaviour is the bytes      *)
(* written back, whether the connection is closed, and how many UDP        *)
(* associations are alive.                                                 *)
(***************************************************************************)
EXTENDS Naturals, Sequences, FiniteSets, TLC

CONSTANTS Greetings,   \* set of greeting byte strings a client may send
          Commands,    \* set of command byte strings
          MaxCmds,     \* commands per connection
          BoundAddr    \* 6 bytes: address and port the UDP association is bound to

VARIABLES todo,        \* bytes the client will still send (chosen up front, fed byte-wise)
          buf,         \* received, not yet consumed
          phase,       \* "greet" | "methods" | "cmd" | "addr" | "dlen" | "port" | "closed"
          need,        \* bytes needed before the phase can advance
          hdr,         \* the command header being parsed
          out,         \* bytes written to the client so far
          assoc,       \* live UDP associations of this connection
          made         \* associations ever created

vars == <<todo, buf, phase, need, hdr, out, assoc, made>>

Reply(code, atyp, addr6) == <<5, code, 0, atyp>> \o addr6
Zero6 == <<0, 0, 0, 0, 0, 0>>

RECURSIVE Flatten(_)
Flatten(ss) == IF ss = <<>> THEN <<>> ELSE Head(ss) \o Flatten(Tail(ss))

\* sequences of at most n commands
RECURSIVE CmdSeqs(_)
CmdSeqs(n) == IF n = 0 THEN {<<>>}
              ELSE CmdSeqs(n - 1) \cup {Append(s, c) : s \in {t \in CmdSeqs(n - 1) : Len(t) = n - 1}, c \in Commands}

Init == /\ todo \in {g \o Flatten(cs) : g \in Greetings, cs \in CmdSeqs(MaxCmds)}
        /\ buf = <<>> /\ phase = "greet" /\ need = 2 /\ hdr = <<>> /\ out = <<>>
        /\ assoc = 0 /\ made = 0

\* one parsing step on state s = [buf, phase, need, hdr, out, assoc, made]; returns the new state
Close(s) == [s EXCEPT !.phase = "closed", !.assoc = 0, !.buf = <<>>]
Take(s) == SubSeq(s.buf, 1, s.need)
Rest(s) == SubSeq(s.buf, s.need + 1, Len(s.buf))

Step(s) ==
    LET t == Take(s) r == Rest(s) IN
    CASE s.phase = "greet" ->
            IF t[1] # 5 \/ t[2] = 0 THEN Close(s)
            ELSE [s EXCEPT !.buf = r, !.phase = "methods", !.need = t[2]]
      [] s.phase = "methods" ->
            IF 0 \in {t[i] : i \in DOMAIN t}
            THEN [s EXCEPT !.buf = r, !.phase = "cmd", !.need = 4, !.out = @ \o <<5, 0>>]
            ELSE Close(s)
      [] s.phase = "cmd" ->
            IF t[1] # 5 THEN Close([s EXCEPT !.out = @ \o Reply(1, 0, Zero6)])
            ELSE IF t[4] = 1 THEN [s EXCEPT !.buf = r, !.phase = "addr", !.need = 4, !.hdr = t]
            ELSE IF t[4] = 3 THEN [s EXCEPT !.buf = r, !.phase = "dlen", !.need = 1, !.hdr = t]
            ELSE Close([s EXCEPT !.out = @ \o Reply(1, 0, Zero6)])
      [] s.phase = "dlen" -> [s EXCEPT !.buf = r, !.phase = IF t[1] = 0 THEN "port" ELSE "addr",
                                       !.need = IF t[1] = 0 THEN 2 ELSE t[1]]
      [] s.phase = "addr" -> [s EXCEPT !.buf = r, !.phase = "port", !.need = 2]
      [] s.phase = "port" ->
            IF s.hdr[2] = 3      \* UDP ASSOCIATE
            THEN [s EXCEPT !.buf = r, !.phase = "cmd", !.need = 4, !.hdr = <<>>,
                           !.out = @ \o Reply(0, 1, BoundAddr), !.assoc = @ + 1, !.made = @ + 1]
            ELSE Close([s EXCEPT !.out = @ \o Reply(7, 0, Zero6)])

RECURSIVE Run(_)
Run(s) == IF s.phase # "closed" /\ Len(s.buf) >= s.need THEN Run(Step(s)) ELSE s

St == [buf |-> buf, phase |-> phase, need |-> need, hdr |-> hdr, out |-> out, assoc |-> assoc, made |-> made]
Set(s) == /\ buf' = s.buf /\ phase' = s.phase /\ need' = s.need /\ hdr' = s.hdr
          /\ out' = s.out /\ assoc' = s.assoc /\ made' = s.made

\* the next byte of the stream arrives
Feed == /\ todo # <<>>
        /\ todo' = Tail(todo)
        /\ IF phase = "closed" THEN UNCHANGED <<buf, phase, need, hdr, out, assoc, made>>
           ELSE Set(Run([St EXCEPT !.buf = Append(buf, Head(todo))]))

\* the client closes its side (at any point of the stream): everything of the connection goes
Eof == /\ phase # "closed"
       /\ todo' = <<>>
       /\ Set(Close(St))

Next == Feed \/ Eof
Spec == Init /\ [][Next]_vars

(***************************** properties **********************************)
\* associations die with the connection
AssocDieWithConnection == phase = "closed" => assoc = 0
AssocCounted == assoc <= made /\ made <= MaxCmds
\* the method-selection reply is sent at most once and only first
WelcomeFirst == out # <<>> => (SubSeq(out, 1, 2) = <<5, 0>> /\ (Len(out) - 2) % 10 = 0)
\* nothing is ever written to a client that did not complete a well-formed greeting
NoReplyBeforeGreeting == phase \in {"greet", "methods"} => out = <<>>
\* every successful association was announced with a success reply
RepliesMatchAssociations ==
    Cardinality({i \in 0..((Len(out) - 2) \div 10 - 1) : Len(out) >= 12 + 10 * i /\ out[4 + 10 * i] = 0}) = made
\* output only ever grows
OutGrows == [][Len(out') >= Len(out) /\ SubSeq(out', 1, Len(out)) = out]_vars

Obs == [out |-> out, closed |-> phase = "closed", assoc |-> assoc]
=============================================================================
