------------------------------ MODULE ParcelOverlay ------------------------------
(***************************************************************************)
(* The parcel map of a region as a client keeps it                         *)
(* (hippolyzer/lib/client/parcel_manager.py ParcelManager, and its proxy   *)
(* subclass hippolyzer/lib/proxy/parcel_manager.py ProxyParcelManager).    *)
(* Growth beyond the listed properties.                                    *)
(*                                                                         *)
(* The simulator describes the parcels of a region as a grid of cells      *)
(* whose bytes carry "there is a parcel border on my south / west edge"    *)
(* bits; the grid arrives cut into NumChunks ParcelOverlay messages, in    *)
(* any order, possibly repeated.  Once every chunk is there the manager    *)
(* segments the grid into parcel indices (two cells share an index iff     *)
(* one can walk from one to the other without crossing a border).  The     *)
(* details of a parcel are asked for with ParcelPropertiesRequest          *)
(* (carrying a fresh sequence id) and arrive as ParcelProperties with the  *)
(* same sequence id; the answer is bound to the parcel index of the cell   *)
(* that was asked about.                                                   *)
(*                                                                         *)
(* Cells are 0 .. N*N-1, cell = y*N + x, y from south to north, x from     *)
(* west to east (the order of the bytes on the wire).  The border value    *)
(* of a cell is 0..3: bit 1 = west line, bit 2 = south line.               *)
(*                                                                         *)
(* Bugs selects the pinned tree's behaviour at two sites where it departs  *)
(* from what the code says it means to do (Bugs = {} is the intended       *)
(* design, on which all properties below hold without exception):          *)
(*  P1  add_overlay_chunk compares the new bytes with a 2-dimensional      *)
(*      memoryview of the old overlay, which never compares equal: every   *)
(*      complete overlay, also an unchanged one, counts as a change (the   *)
(*      map is marked dirty, parcels_downloaded is cleared, everything is  *)
(*      asked for again).                                                  *)
(*  P2  a request_all_parcels() that finishes after the overlay changed    *)
(*      under it still sets parcels_downloaded and clears the dirty flag:  *)
(*      request_dirty_parcels() then answers from a map with unknown       *)
(*      parcels without asking.                                            *)
(***************************************************************************)
EXTENDS Naturals, Sequences, FiniteSets, TLC

CONSTANTS N,             \* edge of the grid (N*N divisible by NumChunks)
          NumChunks,     \* ParcelOverlay messages that make up one overlay (code: NUM_CHUNKS = 4)
          Layouts,       \* overlays the simulator may send: sequence of sequences of N*N border values
          Probes,        \* cells a user asks about
          Bitmaps,       \* sets of cells a ParcelProperties message may carry as its bitmap
          Kinds,         \* managers to consider: "client" (ParcelManager), "proxy" (ProxyParcelManager, which also
                         \* listens to every ParcelProperties message)
          Starts,        \* where a behaviour starts: 0 = nothing received yet, v = Layouts[v] has just been received completely
          InOrder,       \* bounding device: TRUE = the simulator sends the chunks of an overlay in order, each once
          Bugs,          \* behaviours of the pinned tree that the design does not intend (see P1, P2 below)
          MaxCalls,      \* user calls per behaviour
          MaxProps       \* ParcelProperties messages per behaviour

Cells == 0 .. N * N - 1
ChunkLen == (N * N) \div NumChunks
Slice(L, i) == SubSeq(L, i * ChunkLen + 1, (i + 1) * ChunkLen)
ChunkData(i) == {Slice(Layouts[v], i) : v \in DOMAIN Layouts}

VARIABLES kind,        \* which manager this is (fixed at construction)
          pend,        \* chunks collected since the last complete overlay: sequence of NumChunks chunk contents, <<>> = missing
          ov,          \* the overlay last parsed (sequence of N*N border values), <<>> = none yet
          idx,         \* parcel index of each cell (sequence over cells, 0 = not segmented yet)
          parcels,     \* per parcel index: local id of the properties bound to it, 0 = unknown
          dirty,       \* "the parcels have to be asked for again"
          downloaded,  \* the public event parcels_downloaded
          nextSeq,     \* next sequence id
          calls,       \* user calls: [all, c, st, seqs, res, fresh]
          outst,       \* outstanding requests: set of [s, c, call]
          nprops,
          out          \* observation of the last action

vars == <<kind, pend, ov, idx, parcels, dirty, downloaded, nextSeq, calls, outst, nprops, out>>
Proxy == kind = "proxy"

(**************************** the grid ************************************)
West(o, c) == o[c + 1] % 2 = 1
South(o, c) == o[c + 1] \div 2 = 1
XOf(c) == c % N
\* a is directly west of / south of b and no line lies between them
Linked(o, a, b) == \/ (b = a + 1 /\ XOf(a) < N - 1 /\ ~West(o, b))
                   \/ (b = a + N /\ b < N * N /\ ~South(o, b))
MinOf(S) == CHOOSE m \in S : \A n \in S : m <= n
MaxOf(S) == CHOOSE m \in S : \A n \in S : m >= n
\* the neighbours of each cell with no line in between
Nbrs(o) == TLCEval([c \in Cells |-> {b \in Cells : Linked(o, c, b) \/ Linked(o, b, c)}])
\* every cell keeps taking over the smallest label among itself and its neighbours until nothing changes
RECURSIVE Settle(_, _)
Settle(nb, lab) == LET nxt == TLCEval([c \in Cells |-> MinOf({lab[c]} \cup {lab[b] : b \in nb[c]})])
                   IN IF nxt = lab THEN lab ELSE Settle(nb, nxt)
\* the first cell (in wire order) of the parcel each cell lies in: the smallest cell one can walk to without crossing a line
RepOf(o) == Settle(Nbrs(o), [c \in Cells |-> c])
\* parcels are numbered from 1 in the order in which their first cell appears on the wire
IdxOf(o) == LET rep == RepOf(o)
                reps == {rep[c] : c \in Cells}
            IN TLCEval([c1 \in 1 .. N * N |-> Cardinality({r \in reps : r <= rep[c1 - 1]})])
CountOf(ix) == MaxOf({ix[c1] : c1 \in 1 .. N * N})
FirstCell(ix, i) == MinOf({c \in Cells : ix[c + 1] = i})

Complete == ov # <<>>
\* the client's manager never looks at the bitmap: one (misleading) value is enough there
BitmapsFor == IF Proxy THEN Bitmaps ELSE {{N * N - 1}}
At(c) == IF idx[c + 1] = 0 THEN 0 ELSE parcels[idx[c + 1]]      \* what is known about the parcel at cell c

Init == /\ kind \in Kinds
        /\ pend = [j \in 1 .. NumChunks |-> <<>>]
        /\ \E v \in Starts :
              IF v = 0 THEN ov = <<>> /\ idx = [c1 \in 1 .. N * N |-> 0] /\ parcels = <<>>
              ELSE ov = Layouts[v] /\ idx = IdxOf(Layouts[v]) /\ parcels = [n \in 1 .. CountOf(IdxOf(Layouts[v])) |-> 0]
        /\ dirty = TRUE /\ downloaded = FALSE /\ nextSeq = 1
        /\ calls = <<>> /\ outst = {} /\ nprops = 0
        /\ out = [ev |-> "init"]

(**************************** requests ************************************)
NewCall(all, c, st, seqs, res) == [all |-> all, c |-> c, st |-> st, seqs |-> seqs, res |-> res, fresh |-> TRUE]

\* the cells a call asks about once the overlay is complete (ix/k: segmentation at that moment)
AskCells(all, c, ix, k) == IF all THEN [i \in 1 .. k |-> FirstCell(ix, i)] ELSE <<c>>

\* A call starts its requests right away: request_parcel_properties(pos) / request_all_parcels() with a complete overlay
StartNow(all, c) ==
    LET cs == AskCells(all, c, idx, Len(parcels))
        j == Len(calls) + 1
    IN /\ calls' = Append(calls, NewCall(all, c, IF cs = <<>> THEN "ok" ELSE "wr",
                                         {nextSeq + i - 1 : i \in DOMAIN cs}, <<>>))
       /\ outst' = outst \cup {[s |-> nextSeq + i - 1, c |-> cs[i], call |-> j] : i \in DOMAIN cs}
       /\ nextSeq' = nextSeq + Len(cs)
       /\ out' = [ev |-> "call", reqs |-> [i \in DOMAIN cs |-> <<nextSeq + i - 1, cs[i]>>]]

\* ... or has to wait for the overlay first
Park(all, c) == /\ calls' = Append(calls, NewCall(all, c, "wo", {}, <<>>))
                /\ out' = [ev |-> "call", reqs |-> <<>>]
                /\ UNCHANGED <<outst, nextSeq>>

Ask(all, c) == IF Complete THEN StartNow(all, c) ELSE Park(all, c)

Answered(res) == /\ calls' = Append(calls, NewCall(FALSE, 0, "ok", {}, res))
                 /\ out' = [ev |-> "call", reqs |-> <<>>]
                 /\ UNCHANGED <<outst, nextSeq>>

Rest == <<kind, pend, ov, idx, parcels, dirty, downloaded, nprops>>

\* request_parcel_properties(position inside cell c)
ReqProps(c) == /\ Len(calls) < MaxCalls /\ c \in Probes
               /\ Ask(FALSE, c) /\ UNCHANGED Rest
\* request_all_parcels()
ReqAll == /\ Len(calls) < MaxCalls
          /\ Ask(TRUE, 0) /\ UNCHANGED Rest
\* request_dirty_parcels(): what is cached if nothing changed since the last complete download
ReqDirty == /\ Len(calls) < MaxCalls
            /\ (IF dirty THEN Ask(TRUE, 0) ELSE Answered(parcels)) /\ UNCHANGED Rest
\* get_parcel_at(position inside cell c, request_if_missing)
GetAt(c, req) == /\ Len(calls) < MaxCalls /\ c \in Probes
                 /\ (IF req /\ At(c) = 0 THEN Ask(FALSE, c) ELSE Answered(<<At(c)>>)) /\ UNCHANGED Rest

(**************************** the overlay *********************************)
\* The calls parked until the first complete overlay resume in the order in which they were made; those asking for
\* one parcel send their request at once, request_all_parcels() hands its requests to sub-tasks which run after that.
Parked == {j \in DOMAIN calls : calls[j].st = "wo"}
Ahead(j) == {i \in Parked : (~calls[i].all /\ calls[j].all) \/ (calls[i].all = calls[j].all /\ i < j)}
Base(j, k) == nextSeq + Cardinality({i \in Ahead(j) : ~calls[i].all}) + k * Cardinality({i \in Ahead(j) : calls[i].all})
Size(j, k) == IF calls[j].all THEN k ELSE 1

Wake(i0, ix, k) ==
    LET cs(j) == AskCells(calls[j].all, calls[j].c, ix, k)
        sent == UNION {{<<Base(j, k) + i - 1, cs(j)[i], j>> : i \in 1 .. Size(j, k)} : j \in Parked}
    IN /\ calls' = [j \in DOMAIN calls |->
                      IF j \in Parked THEN [calls[j] EXCEPT !.st = "wr", !.seqs = {Base(j, k) + i - 1 : i \in 1 .. Size(j, k)}]
                      ELSE calls[j]]
       /\ outst' = outst \cup {[s |-> t[1], c |-> t[2], call |-> t[3]] : t \in sent}
       /\ nextSeq' = nextSeq + Cardinality(sent)
       /\ out' = [ev |-> "chunk", i |-> i0, done |-> TRUE,
                  reqs |-> [n \in 1 .. Cardinality(sent) |-> LET t == CHOOSE t \in sent : t[1] = nextSeq + n - 1 IN <<t[1], t[2]>>]]

RECURSIVE Cat(_, _)
Cat(p, j) == IF j > NumChunks THEN <<>> ELSE p[j] \o Cat(p, j + 1)

\* ParcelOverlay message with SequenceID i and data d
Chunk(i, d) ==
    /\ i \in 0 .. NumChunks - 1 /\ d \in ChunkData(i)
    /\ InOrder => (pend[i + 1] = <<>> /\ \A j \in 1 .. i : pend[j] # <<>>)
    /\ UNCHANGED <<kind, nprops>>
    /\ LET p2 == [pend EXCEPT ![i + 1] = d] IN
       IF \E j \in 1 .. NumChunks : p2[j] = <<>>
       THEN \* still waiting for chunks: nothing is parsed
            /\ pend' = p2
            /\ out' = [ev |-> "chunk", i |-> i, done |-> FALSE, reqs |-> <<>>]
            /\ UNCHANGED <<ov, idx, parcels, dirty, downloaded, nextSeq, calls, outst>>
       ELSE LET new == TLCEval(Cat(p2, 1))
                \* P1: the pinned tree compares the new bytes with a 2-dimensional view of the old ones, which is
                \* never equal: every complete overlay counts as a change
                changed == new # ov \/ "P1" \in Bugs
                ix == TLCEval(IdxOf(new))
                k == CountOf(ix)
            IN /\ pend' = [j \in 1 .. NumChunks |-> <<>>]
               /\ IF ~changed
                  THEN /\ out' = [ev |-> "chunk", i |-> i, done |-> TRUE, reqs |-> <<>>]
                       /\ UNCHANGED <<ov, idx, parcels, dirty, downloaded, nextSeq, calls, outst>>
                  ELSE /\ ov' = new /\ idx' = ix
                       \* a different number of parcels: what was known is dropped; the same number: kept (documented)
                       /\ parcels' = IF Len(parcels) = k THEN parcels ELSE [n \in 1 .. k |-> 0]
                       /\ dirty' = TRUE /\ downloaded' = FALSE
                       /\ IF ~Complete
                          THEN Wake(i, ix, k)
                          ELSE \* downloads under way no longer describe the whole map
                               /\ calls' = [j \in DOMAIN calls |->
                                              IF calls[j].st = "wr" /\ calls[j].all THEN [calls[j] EXCEPT !.fresh = FALSE] ELSE calls[j]]
                               /\ out' = [ev |-> "chunk", i |-> i, done |-> TRUE, reqs |-> <<>>]
                               /\ UNCHANGED <<outst, nextSeq>>

(**************************** answers *************************************)
\* ParcelProperties message with SequenceID s, local id lid (fresh per message) and bitmap bm
Props(s, bm) ==
    /\ nprops < MaxProps /\ nprops' = nprops + 1
    /\ s \in 1 .. nextSeq /\ bm \in BitmapsFor
    /\ LET lid == nprops + 1
           \* the proxy's manager files every ParcelProperties under the parcel of the first cell of its bitmap
           p1 == IF Proxy /\ bm # {} /\ idx[MinOf(bm) + 1] \in 1 .. Len(parcels)
                 THEN [parcels EXCEPT ![idx[MinOf(bm) + 1]] = lid] ELSE parcels
           m == {o \in outst : o.s = s}
       IN IF m = {}
          THEN \* nobody asked (any more): no call is affected
               /\ parcels' = p1
               /\ out' = [ev |-> "props", s |-> s, lid |-> lid, matched |-> FALSE]
               /\ UNCHANGED <<dirty, downloaded, calls, outst>>
          ELSE LET o == CHOOSE o \in m : TRUE
                   p2 == [p1 EXCEPT ![idx[o.c + 1]] = lid]      \* bound to the parcel of the cell that was asked about
                   cl == calls[o.call]
                   left == cl.seqs \ {s}
                   \* P2: the pinned tree declares the map downloaded and clean even if the overlay changed meanwhile
                   commit == cl.all /\ left = {} /\ (cl.fresh \/ "P2" \in Bugs)
               IN /\ outst' = outst \ {o}
                  /\ parcels' = p2
                  /\ calls' = [calls EXCEPT ![o.call] =
                                 IF ~cl.all THEN [cl EXCEPT !.st = "ok", !.seqs = {}, !.res = <<lid>>]
                                 ELSE IF left # {} THEN [cl EXCEPT !.seqs = left]
                                 ELSE [cl EXCEPT !.st = "ok", !.seqs = {}, !.res = p2]]
                  /\ dirty' = IF commit THEN FALSE ELSE dirty
                  /\ downloaded' = IF commit THEN TRUE ELSE downloaded
                  /\ out' = [ev |-> "props", s |-> s, lid |-> lid, matched |-> TRUE]
    /\ UNCHANGED <<kind, pend, ov, idx, nextSeq>>

\* the answers to everything that is outstanding stay away for the time the manager is willing to wait (10 s)
Timeout ==
    /\ outst # {}
    /\ outst' = {}
    /\ calls' = [j \in DOMAIN calls |-> IF calls[j].st = "wr" THEN [calls[j] EXCEPT !.st = "ex", !.seqs = {}] ELSE calls[j]]
    /\ out' = [ev |-> "timeout"]
    /\ UNCHANGED <<kind, pend, ov, idx, parcels, dirty, downloaded, nextSeq, nprops>>

Next == \/ \E i \in 0 .. NumChunks - 1 : \E d \in ChunkData(i) : Chunk(i, d)
        \/ \E c \in Probes : ReqProps(c) \/ GetAt(c, TRUE) \/ GetAt(c, FALSE)
        \/ ReqAll \/ ReqDirty
        \/ \E s \in 1 .. nextSeq, bm \in BitmapsFor : Props(s, bm)
        \/ Timeout
Spec == Init /\ [][Next]_vars

(***************************** what a user relies on **********************)
\* walking without crossing a line, as the yardstick for idx: what can be reached from S in at most n steps
RECURSIVE Walk(_, _, _)
Walk(o, S, n) == LET T == S \cup {b \in Cells : \E a \in S : Linked(o, a, b) \/ Linked(o, b, a)}
                 IN IF n = 0 \/ T = S THEN S ELSE Walk(o, T, n - 1)

\* every cell has a parcel index in 1..k, every index is in use and is exactly the set of cells one can walk to from
\* its first cell (so: two cells carry the same index iff they are connected, no cell is in two parcels), indices are
\* handed out in wire order of first cells, and there is one slot for what is known per index.
\* (Checked whenever the segmentation changes.)
Segmented(o, ix, k) ==
    /\ \A a \in Cells : ix[a + 1] \in 1 .. k
    /\ \A i \in 1 .. k : LET cls == {a \in Cells : ix[a + 1] = i}
                         IN cls # {} /\ cls = Walk(o, {MinOf(cls)}, N * N)
    /\ \A i, j \in 1 .. k : i < j => FirstCell(ix, i) < FirstCell(ix, j)
Segmentation ==
    /\ (Complete => Segmented(ov, idx, Len(parcels)))
    /\ [][(ov' # ov \/ idx' # idx \/ Len(parcels') # Len(parcels)) => Segmented(ov', idx', Len(parcels'))]_vars
NothingBeforeComplete == ~Complete => (parcels = <<>> /\ outst = {} /\ \A c \in Cells : idx[c + 1] = 0)
\* the overlay is replaced only by the message that brings the last missing chunk ...
ParsedOnlyWhenComplete ==
    [][ov' # ov => (vars' # vars /\ out'.ev = "chunk" /\ out'.done /\ \A j \in 1 .. NumChunks : j # out'.i + 1 => pend[j] # <<>>)]_vars
\* ... and then shows exactly the chunks collected (the newest of each); collecting starts afresh.
\* A complete set that does not differ from the overlay is no news.
CompleteInstallsChunks ==
    [][(vars' # vars /\ out'.ev = "chunk" /\ out'.done) =>
          /\ \A j \in 1 .. NumChunks : pend'[j] = <<>>
          /\ \A j \in 1 .. NumChunks : j # out'.i + 1 => SubSeq(ov', (j - 1) * ChunkLen + 1, j * ChunkLen) = pend[j]
          /\ ("P1" \notin Bugs /\ ov' = ov) => (parcels' = parcels /\ dirty' = dirty /\ downloaded' = downloaded)
          /\ ov' # ov => (dirty' /\ ~downloaded')]_vars
\* an answer completes exactly the call that asked with its sequence id; other answers complete nothing
AnswersMatchRequests ==
    [][/\ \A j \in DOMAIN calls : (calls[j].st = "wr" /\ calls'[j].st = "ok") =>
             (out'.ev = "props" /\ out'.matched /\ out'.s \in calls[j].seqs /\ calls[j].seqs \ {out'.s} = {})
       /\ (vars' # vars /\ out'.ev = "props" /\ ~out'.matched) => (calls' = calls /\ outst' = outst /\ (~Proxy => parcels' = parcels))]_vars
\* sequence ids are never reused, every outstanding request belongs to one waiting call
RequestsWellFormed ==
    /\ \A o \in outst : o.s < nextSeq /\ o.call \in DOMAIN calls /\ calls[o.call].st = "wr" /\ o.s \in calls[o.call].seqs
    /\ \A o1, o2 \in outst : o1.s = o2.s => o1 = o2
    /\ \A j \in DOMAIN calls : calls[j].st = "wr" => (calls[j].seqs # {} /\ \A s \in calls[j].seqs : \E o \in outst : o.s = s /\ o.call = j)
    /\ \A j \in DOMAIN calls : calls[j].st = "wo" => ~Complete
\* what an answer to "what is at cell c" was bound to is what every cell of that parcel now shows
AnswerCoversItsParcel ==
    [][(vars' # vars /\ out'.ev = "props" /\ out'.matched) =>
          \A o \in outst \ outst' : \A b \in Walk(ov, {o.c}, N * N) : (idx'[b + 1] # 0 /\ parcels'[idx'[b + 1]] = out'.lid)]_vars
\* "downloaded" / "nothing to ask again" are only said of a map whose parcels are all known
AllKnown == \A i \in DOMAIN parcels : parcels[i] # 0
DownloadedMeansKnown == ("P2" \notin Bugs /\ downloaded) => (Complete /\ AllKnown)
CleanMeansKnown == ("P2" \notin Bugs /\ Complete /\ ~dirty) => AllKnown

Obs == [complete |-> Complete, downloaded |-> downloaded, idx |-> idx, parcels |-> parcels,
        lookup |-> [c1 \in 1 .. N * N |-> At(c1 - 1)],
        calls |-> [j \in DOMAIN calls |-> [st |-> calls[j].st, res |-> calls[j].res]]]
=================================================================================
