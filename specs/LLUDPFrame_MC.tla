---------------------------- MODULE LLUDPFrame_MC ----------------------------
(* C01, bounded model: every conformant message of the miniature universe, every flag /  *)
(* packet-id / extra / ack combination; one TLC state per message.  The laws of          *)
(* LLUDPFrame are invariants; every state is also printed as a table row                 *)
(* (message, datagram) for replay into the real serializer and deserializer (B3).        *)
EXTENDS LLUDPMini, Json
CONSTANTS PA,        \* payload alphabet of Fixed / Variable fields
          MaxVar,    \* longest Variable payload
          MaxCount,  \* most instances of a Variable block
          Tids,      \* templates (indices into U) of this run
          RunLens    \* lengths of the zero runs of part "runs" (around the 255 boundaries of zero-coding)
VARIABLES tid, m, part
vars == <<tid, m, part>>

RECURSIVE SeqProd(_)
SeqProd(ss) == IF ss = <<>> THEN {<<>>} ELSE {<<x>> \o r : x \in ss[1], r \in SeqProd(Tail(ss))}
SeqsOfLen(S, n) == SeqProd([i \in 1..n |-> S])
SeqsUpTo(S, n) == UNION {SeqsOfLen(S, k) : k \in 0..n}
I(neg, mag) == [k |-> "int", neg |-> neg, mag |-> mag]
IntDom == [U8 |-> {I(0, <<0>>), I(0, <<1>>), I(0, <<255>>)},
           S8 |-> {I(1, <<128>>), I(1, <<1>>), I(0, <<127>>)},
           BOOL |-> {I(0, <<0>>), I(0, <<1>>)},
           U16 |-> {I(0, <<0>>), I(0, <<258>>), I(0, <<65535>>)},
           S16 |-> {I(1, <<32768>>), I(1, <<2>>), I(0, <<32767>>)},
           IPPORT |-> {I(0, <<0>>), I(0, <<258>>), I(0, <<65280>>)},
           U32 |-> {I(0, <<0, 0>>), I(0, <<513, 1027>>), I(0, <<65535, 65535>>)},
           S32 |-> {I(1, <<0, 32768>>), I(1, <<1, 0>>), I(0, <<65535, 32767>>)},
           U64 |-> {I(0, <<513, 1027, 1541, 2055>>), I(0, <<65535, 65535, 65535, 65535>>)},
           S64 |-> {I(1, <<0, 0, 0, 32768>>), I(1, <<1, 0, 0, 0>>), I(0, <<65535, 65535, 65535, 32767>>)}]
Raw(s) == [k |-> "raw", b |-> s]
Str(s) == [k |-> "str", b |-> s]
\* text values: valid UTF-8 without NUL (65 = "A"); offered where the implementation would take a str
TextDom == {Str(<<>>), Str(<<65>>), Str(<<65, 65>>)}
\* maxvar = 0 selects the reduced domain used where the header is what varies
ValDom(v, pa, maxvar, fill) ==
    (CASE v.t = "Variable" -> IF maxvar = 0 THEN {Raw(<<>>), Raw(<<0>>)}
                              ELSE {Raw(s) : s \in SeqsUpTo(pa, maxvar)} \cup (IF v.name \in {"Name", "Foo", "Text"} THEN TextDom ELSE {})
       [] v.t = "Fixed" -> {Raw(s) : s \in SeqsOfLen(pa, v.size)}
       [] OTHER -> IF maxvar = 0 THEN {CHOOSE x \in IntDom[v.t] : x.neg = 1 \/ \A y \in IntDom[v.t] : y.neg = 0 /\ y.mag[1] <= x.mag[1]}
                   ELSE IntDom[v.t])
    \cup (IF fill THEN {[k |-> "unset"]} ELSE {})
InstDom(b, pa, maxvar, fill) == SeqProd([j \in 1..Len(b.vars) |-> ValDom(b.vars[j], pa, maxvar, fill)])
BlockDom(b, pa, maxvar, maxcount, fill) ==
    CASE b.kind = "Single" -> SeqsOfLen(InstDom(b, pa, maxvar, fill), 1)
      [] b.kind = "Multiple" -> SeqsOfLen(InstDom(b, pa, maxvar, fill), b.n)
      [] b.kind = "Variable" -> SeqsUpTo(InstDom(b, pa, maxvar, fill), maxcount)
BlocksDom(T, pa, maxvar, maxcount, fill) == SeqProd([k \in 1..Len(T.blocks) |-> BlockDom(T.blocks[k], pa, maxvar, maxcount, fill)])

Pids == {<<0, 1>>, <<43981, 65535>>}
Extras == {<<>>, <<0>>, <<7, 0>>}
LongExtras == {<<7, 9, 11>>, Zeros(8), Zeros(24), Zeros(100), Zeros(255),
               [i \in 1..24 |-> IF i % 2 = 1 THEN 0 ELSE 200 + i], [i \in 1..255 |-> 7],
               [i \in 1..255 |-> IF i % 2 = 1 THEN 0 ELSE 9]}
AckSeqs == {<<>>, << <<0, 1>> >>, << <<0, 1>>, <<65535, 2>> >>}
AllFlags == {0, 128, 96, 16, 144, 255}
Headers(fl, ps, es) == {h \in {[flags |-> f, pid |-> p, extra |-> e, acks |-> a] : f \in fl, p \in ps, e \in es, a \in AckSeqs} :
                           HasBit(h.flags, ABit) \/ h.acks = <<>>}
Mk(h, bl) == [flags |-> h.flags, pid |-> h.pid, extra |-> h.extra, acks |-> h.acks, blocks |-> bl]
\* part "hdr":   every header combination  x  a small set of block contents
\* part "body":  three headers  x  every block content within the bounds
\* part "fill":  blocks marked for default filling with any subset of variables unset
Msgs(T, pt) ==
    CASE pt = "hdr" -> {Mk(h, bl) : h \in Headers(AllFlags, Pids, Extras), bl \in BlocksDom(T, {0}, 0, 1, FALSE)}
      [] pt = "body" -> {Mk(h, bl) : h \in {[flags |-> 0, pid |-> <<0, 1>>, extra |-> <<>>, acks |-> <<>>],
                                            [flags |-> 128, pid |-> <<0, 2>>, extra |-> <<>>, acks |-> <<>>],
                                            [flags |-> 144, pid |-> <<1, 0>>, extra |-> <<0>>, acks |-> << <<0, 1>> >>]},
                                     bl \in BlocksDom(T, PA, MaxVar, MaxCount, FALSE)}
      \* part "zext": zero-coding x ack trailer (0..2 IDs) x extra header bytes that compress well / badly / have the
      \* maximal length, on small bodies: the datagram is shorter than, about, or longer than 7 + Len(extra)
      [] pt = "zext" -> {Mk(h, bl) : h \in Headers({144, 16, 128}, {<<0, 1>>}, LongExtras), bl \in BlocksDom(T, {0}, 0, 1, FALSE)}
      \* part "runs": zero-coded bodies with a zero run of every length in RunLens at the start / in the
      \* middle / at the end of the body (template TstLow: the two-byte-length field is the last thing in it)
      [] pt = "runs" -> IF T.name # "TstLow" THEN {}
                        ELSE {Mk(h, << <<<<I(0, <<p>>)>>, <<I(0, <<p>>)>>>>, << <<Raw(l \o Zeros(n) \o r)>> >> >>) :
                                 h \in {[flags |-> 128, pid |-> <<0, 2>>, extra |-> <<>>, acks |-> <<>>],
                                        [flags |-> 144, pid |-> <<1, 0>>, extra |-> <<0>>, acks |-> << <<0, 1>> >>]},
                                 p \in {0, 258}, l \in {<<>>, <<1>>}, r \in {<<>>, <<1>>}, n \in RunLens}
      [] pt = "fill" -> {Mk(h, bl) : h \in {[flags |-> 0, pid |-> <<0, 1>>, extra |-> <<>>, acks |-> <<>>],
                                            [flags |-> 128, pid |-> <<0, 2>>, extra |-> <<0>>, acks |-> <<>>]},
                                     bl \in {x \in BlocksDom(T, {65}, 1, 1, TRUE) : HasUnset([blocks |-> x])}}

Row == [row |-> "msg", tid |-> tid, t |-> U[tid].name, part |-> part, m |-> m, dgram |-> Datagram(U[tid], m)]
Init == /\ tid \in Tids /\ part \in {"hdr", "body", "fill", "runs", "zext"} /\ m \in Msgs(U[tid], part)
        /\ PrintT(ToJson(Row))
Next == UNCHANGED vars
Spec == Init /\ [][Next]_vars
ASSUME PrintT(ToJson([universe |-> U]))

T == U[tid]
InDomain == IF part = "fill" THEN WellFormedMsg(T, m) /\ Len(m.blocks) = Len(T.blocks) ELSE Conformant(T, m)
RoundTrip == RoundTripLaw(T, m)
Length == LengthLaw(T, m)
Framing == FramingLaw(T, m)
Fill == part = "fill" => FillLaw(T, m)
\* a zero-coded datagram never costs more than twice the body, and its zero-coding is canonical
ZeroCoded == HasBit(m.flags, ZBit) => (CanonicalZ(Datagram(T, m)) /\ Len(WireBody(T, m)) <= 2 * Len(Body(T, m)))
Reassembled == ReassembleLaw(T, Datagram(T, m))
=============================================================================
