---- MODULE SchemaText_MBT ----
(* One state per (schema, presence set, flavour, link) row: TLC checks the round-trip laws on it and prints   *)
(* what the real code must produce for it (B3 table).  ESpec prints the verdict on the lookup-name tables.    *)
EXTENDS SchemaText
VARIABLE row
Init == row \in Rows
Next == UNCHANGED row
Spec == Init /\ [][Next]_row
\* the legacy text carries everything but the llsd_only fields, and nothing else
TextLaw == row.fl = "text" => Parse(row.s, Lines(row.s, row.p)) = TextSurvivors(row.s, row.p)
\* the LLSD flavours carry everything
LLSDLaw == row.fl # "text" => LLSDRoundTrips(row.s, row.p, row.fl, row.link)
DataOK == Shallow /\ BlockFieldNamedAsSchema /\ OnlyLLSDIncludesNone /\ FieldNamesUnique /\ DefaultedAreLLSDOnly
MInit == /\ row \in Rows
         /\ PrintT(ToJson([row |-> "node", s |-> row.s, p |-> row.p, fl |-> row.fl, link |-> row.link,
                           lines |-> IF row.fl = "text" THEN Lines(row.s, row.p) ELSE <<>>,
                           keys |-> IF row.fl = "text" THEN {} ELSE Keys(row.s, row.p, row.fl, row.link),
                           idkey |-> IF row.fl = "text" THEN row.s ELSE IdKey(row.s, row.fl),
                           rt |-> RowRoundTrips(row)]))
MSpec == MInit /\ [][Next]_row
EInit == row = 0 /\ PrintT(ToJson([row |-> "enums", collisions |-> Collisions, notwords |-> NotWords, n |-> Len(Enums)]))
ESpec == EInit /\ [][Next]_row
====
