---- MODULE EventQueue_MC ----
EXTENDS EventQueue
CONSTANT Depth
Bound == TLCGet("level") <= Depth
====
