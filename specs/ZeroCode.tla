------------------------------- MODULE ZeroCode -------------------------------
(***************************************************************************)
(* LLUDP zero-coding (udpserializer.zero_code_compress /                    *)
(* udpdeserializer.zero_code_expand).                                      *)
(*                                                                         *)
(* Spec layer : Encode / Decode / DecodedLen -- the format, denotationally *)
(*              (closed form over maximal zero runs).                      *)
(* Algo layer : the encoder as a byte-fed machine (inp, out, zc) and the   *)
(*              decoder as a byte-fed machine with the size cap.           *)
(***************************************************************************)
EXTENDS Naturals, Sequences, FiniteSets, TLC

\* ---------------------------------------------------------------- helpers
Zeros(n) == [i \in 1..n |-> 0]
RECURSIVE Rep(_, _)
Rep(s, n) == IF n = 0 THEN <<>> ELSE s \o Rep(s, n - 1)

\* ------------------------------------------------------- Spec layer: format
\* n zeros, canonically: as many (00 FF) pairs as fit, then (00 r) for the rest; no wrap form.
EncRun(n) == Rep(<<0, 255>>, n \div 255) \o (IF n % 255 > 0 THEN <<0, n % 255>> ELSE <<>>)

\* length of the maximal zero run of s starting at i
RECURSIVE RunLen(_, _)
RunLen(s, i) == IF i > Len(s) \/ s[i] # 0 THEN 0 ELSE 1 + RunLen(s, i + 1)

RECURSIVE EncFrom(_, _)
EncFrom(s, i) == IF i > Len(s) THEN <<>>
                 ELSE IF s[i] # 0 THEN <<s[i]>> \o EncFrom(s, i + 1)
                 ELSE LET n == RunLen(s, i) IN EncRun(n) \o EncFrom(s, i + n)
Encode(s) == EncFrom(s, 1)

\* Reference decoder, run-length form: sequence of <<byte, count>>; a zero introduces a run
\* of 1, each directly following zero adds 256, a following non-zero byte c adds c-1 and ends
\* the run; input ending inside a run leaves the zeros counted so far (trailing lone zero = 1).
RECURSIVE RunEnd(_, _, _)
\* returns <<total zeros, next index>> for a run whose first 00 is at i-1, acc zeros so far
RunEnd(e, i, acc) == IF i > Len(e) THEN <<acc, i>>
                     ELSE IF e[i] = 0 THEN RunEnd(e, i + 1, acc + 256)
                     ELSE <<acc + e[i] - 1, i + 1>>
RECURSIVE DecRLFrom(_, _)
DecRLFrom(e, i) == IF i > Len(e) THEN <<>>
                   ELSE IF e[i] # 0 THEN <<<<e[i], 1>>>> \o DecRLFrom(e, i + 1)
                   ELSE LET r == RunEnd(e, i + 1, 1) IN <<<<0, r[1]>>>> \o DecRLFrom(e, r[2])
\* adjacent zero runs merged so that the form is canonical for a byte string
RECURSIVE MergeRL(_)
MergeRL(rl) == IF Len(rl) < 2 THEN rl
               ELSE IF rl[1][1] = 0 /\ rl[2][1] = 0
                    THEN MergeRL(<<<<0, rl[1][2] + rl[2][2]>>>> \o SubSeq(rl, 3, Len(rl)))
                    ELSE <<rl[1]>> \o MergeRL(Tail(rl))
DecodeRL(e) == MergeRL(DecRLFrom(e, 1))

RECURSIVE Expand(_)
Expand(rl) == IF rl = <<>> THEN <<>> ELSE [i \in 1..rl[1][2] |-> rl[1][1]] \o Expand(Tail(rl))
Decode(e) == Expand(DecRLFrom(e, 1))

RECURSIVE SumRL(_)
SumRL(rl) == IF rl = <<>> THEN 0 ELSE rl[1][2] + SumRL(Tail(rl))
DecodedLen(e) == SumRL(DecRLFrom(e, 1))

\* run-length form of a plain byte string (for comparing)
RECURSIVE ToRL(_, _)
ToRL(s, i) == IF i > Len(s) THEN <<>>
              ELSE IF s[i] # 0 THEN <<<<s[i], 1>>>> \o ToRL(s, i + 1)
              ELSE LET n == RunLen(s, i) IN <<<<0, n>>>> \o ToRL(s, i + n)

\* every 00 in e is directly followed by a count in 1..255 (hence never by 00: no wrap form)
RECURSIVE CanonFrom(_, _)
CanonFrom(e, i) == IF i > Len(e) THEN TRUE
                   ELSE IF e[i] # 0 THEN CanonFrom(e, i + 1)
                   ELSE i + 1 <= Len(e) /\ e[i + 1] \in 1..255 /\ CanonFrom(e, i + 2)
IsCanonical(e) == CanonFrom(e, 1)

\* Encode on run-length form (used for long runs without building long sequences)
RECURSIVE EncodeRL(_)
EncodeRL(rl) == IF rl = <<>> THEN <<>>
                ELSE (IF rl[1][1] = 0 THEN EncRun(rl[1][2]) ELSE Rep(<<rl[1][1]>>, rl[1][2])) \o EncodeRL(Tail(rl))
\* drop empty runs, merge zero runs
DropEmpty(rl) == SelectSeq(rl, LAMBDA p : p[2] > 0)
NormRL(rl) == MergeRL(DropEmpty(rl))

\* The size cap.  A decoder may refuse an input only if it expands beyond Cap, and must refuse
\* before holding more than Cap + 256 bytes (one input byte adds at most 256).
MustDecode(e, Cap) == DecodedLen(e) <= Cap
MustRefuse(e, Cap) == DecodedLen(e) > Cap + 256
=============================================================================
