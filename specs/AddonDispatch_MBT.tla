---- MODULE AddonDispatch_MBT ----
EXTENDS AddonDispatch, Json
\* one record per configuration, printed when its pipeline has finished
PrintDone == Done => PrintT(ToJson([cfg |-> cfg, obs |-> Obs]))
====
