---- MODULE CommandParser_MBT ----
EXTENDS CommandParser, Json
PrintRow == PrintT(ToJson([ps |-> row.ps, t |-> row.t, r |-> R]))
====
