---- MODULE Subfield_Trace ----
(* Binding B2 (code->spec): recorded behaviour of the real registered serializers.       *)
(*  "A" events: one adapter registration, a batch of wire integers with what the real     *)
(*      deserialize answered (names / left-over bits / declined), what serialize made of  *)
(*      that answer, and whether the plain-data form evaluated back as a literal.  TLC    *)
(*      gives the answer its meaning with Denote and checks it against the wire integer.  *)
(*  "C" events: one five-stage run raw0 -> v0 -> raw1 -> v1 -> raw2 of any serializer.     *)
(*      Byte strings are [n |-> length, d |-> bytes or digest], values are digests of the  *)
(*      canonical form.                                                                   *)
EXTENDS Subfield, TLCExt
TraceLog == ndJsonDeserialize(IOEnv.TRACE_FILE)
VARIABLES l, tid
tvars == <<vars, l, tid>>

\* every event carries its own id, so that a failed clause names the event (and the sample)
Chk(name, cond) == IF cond THEN TRUE ELSE PrintT(ToJson([fail |-> name, line |-> l, tid |-> tid, id |-> TraceLog[l].id, k |-> 0]))
ChkS(name, k, cond) == IF cond THEN TRUE ELSE PrintT(ToJson([fail |-> name, line |-> l, tid |-> tid, id |-> TraceLog[l].id, k |-> k]))
IsEvent(e) == l <= Len(TraceLog) /\ TraceLog[l].ev = e /\ l' = l + 1
Rec == TraceLog[l]

TInit == l = 1 /\ tid = -1 /\ ai = 1 /\ cs = {} /\ x = {} /\ raw = 0 /\ cached = FALSE /\ cval = 0
TReset == IsEvent("Reset") /\ tid' = Rec.tid /\ UNCHANGED vars

\* one sample of an adapter batch.  Bit lists may contain the marker a.w ("the integer the
\* code produced does not fit the wire type") or a.w + 1 ("the code raised").
SampleOK(a, mode, k, s) ==
    LET xs == ToSet(s.x) IN
    /\ Assert(xs \subseteq WireBits(a), <<"driver generated an integer outside the wire type", l, k>>)
    /\ s.d = "ok" =>
         /\ ChkS("A.names-known", k, ToSet(s.n) \subseteq MemberNames(a))
         /\ ChkS("A.value-in-wire-range", k, ToSet(s.r) \subseteq WireBits(a))
         /\ ChkS("A.value-denotes-x", k, ToSet(s.n) \subseteq MemberNames(a) => Denote(a, ToSet(s.n), ToSet(s.r)) = xs)
         /\ ChkS("A.reencoded=x", k, ToSet(s.e) = xs)
         /\ ChkS("A.literal", k, mode = "pod" => s.l)
         /\ ChkS("A.enum-name-or-integer", k, (a.kind = "enum" /\ mode = "pod") => (s.n = <<>> \/ (Len(s.n) = 1 /\ s.r = <<>>)))
TAdapter == /\ IsEvent("A") /\ UNCHANGED <<vars, tid>>
            /\ Assert(Rec.a \in DOMAIN Adapters, <<"unknown adapter", l>>)
            /\ \A k \in DOMAIN Rec.s : SampleOK(Adapters[Rec.a], Rec.mode, k, Rec.s[k])

SameBytes(p, q) == p.n = q.n /\ p.d = q.d
TContract ==
    /\ IsEvent("C") /\ UNCHANGED <<vars, tid>>
    /\ Rec.d0 = "ok" =>
         /\ Chk("C.encode-accepted-value", Rec.e1 = "ok")
         /\ Rec.e1 = "ok" =>
              /\ Chk("C.byte-exact", Rec.org \in {"wire", "self"} => SameBytes(Rec.raw0, Rec.raw1))
              /\ Chk("C.decode-own-output", Rec.d1 = "ok")
              /\ Rec.d1 = "ok" =>
                   /\ Chk("C.same-value", Rec.v0 = Rec.v1)
                   /\ Chk("C.reencode", Rec.e2 = "ok")
                   /\ Rec.e2 = "ok" => Chk("C.fixed-point", SameBytes(Rec.raw1, Rec.raw2))
         /\ Chk("C.literal", Rec.lit \in {"ok", "nonfinite", "na"})

TNext == TReset \/ TAdapter \/ TContract
TraceSpec == TInit /\ [][TNext]_tvars
TraceAccepted == PrintT("TRACE_REACHED " \o ToString(TLCGet("stats").diameter - 1) \o " OF " \o ToString(Len(TraceLog)))
====
