---- MODULE Transfer_MBT ----
(* Bounded model + export: every transfer shape of the configuration (protocol x payload     *)
(* length x chunk size), every arrival sequence with duplicates up to N + Extra packets.     *)
(* The init record carries the pieces the sender must produce (B3 table for the real sender *)
(* and the packets the harness feeds to the real receiver); every edge carries what the     *)
(* receiver must report afterwards.                                                         *)
EXTENDS Transfer, Json
CONSTANTS XferLens, TransferLens,  \* payload lengths per protocol
          ChunkSizes,
          Extra,    \* arrivals beyond the number of pieces
          Moves,    \* FALSE: only the initial states (sender table)
          Export    \* TRUE: print
Shapes == ({"xfer", "xferTurbo"} \X XferLens \X ChunkSizes) \cup ({"transfer"} \X TransferLens \X ChunkSizes)
Init == \E s \in Shapes : Start(s[1], s[2], s[3])
Bounded == Moves /\ arrivals < N + Extra
Next == Bounded /\ (Foreign \/ \E i \in 0..Last : Arrive(i))
Spec == Init /\ [][Next]_vars

St == [proto |-> proto, n |-> n, C |-> C, got |-> got, arrivals |-> arrivals, done |-> done]
Obs == [done |-> done, asm |-> IF done THEN Reassembled ELSE <<>>]
P(x) == Export => PrintT(ToJson(x))
MInit == Init /\ P([init |-> St, obs |-> Obs, pieces |-> Chunks(Wire(proto, n), C), payload |-> Payload(n)])
MArrive(i) == Arrive(i) /\ P([src |-> St, act |-> [n |-> "Arrive", i |-> i, eof |-> i = Last], dst |-> St', obs |-> Obs'])
MForeign == Foreign /\ P([src |-> St, act |-> [n |-> "Foreign"], dst |-> St', obs |-> Obs'])
MNext == Bounded /\ (MForeign \/ \E i \in 0..Last : MArrive(i))
MSpec == MInit /\ [][MNext]_vars
====
