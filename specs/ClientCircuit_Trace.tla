---- MODULE ClientCircuit_Trace ----
(* Binding B2: validates recorded executions of the real client endpoint (HippoClientSession +  *)
(* HippoClientProtocol + Circuit, recording transport, four subscribers, virtual clock).        *)
(* One record per driver step, logged after the event loop was pumped to quiescence:            *)
(*  Recv  {p, rel, acks:[ids], match, tx, dl, fut}  datagram from the peer (match: a data message,   *)
(*        the name the extra subscribers asked for; else a PacketAck message)                    *)
(*  Sub   {level, kind, tx, fut}                a further subscriber registered at that level    *)
(*  Stray {tx, dl, fut}                         datagram from an unknown address               *)
(*  SendRel / SendUnrel {tx, fut}               application sends                               *)
(*  Tick  {d, tx, fut}                          clock += d ms, then Circuit.resend_unacked()    *)
(* tx  = datagrams the endpoint emitted in this step, in order:                                  *)
(*       [id, rel, resent, acked:[ids it acknowledges, PacketAck body and appended], peer]      *)
(* dl  = [sess, sessAll, reg, regAll |-> number of times that subscriber was called,             *)
(*        other, dyn |-> [sess, reg |-> <<calls of each further subscriber in registration order>>]]*)
(* fut = [[id, "p"|"d"|"f"|"x"]..] state of the future of every send_reliable() so far          *)
(* The packet IDs the endpoint chose are bound to the actions' id parameters; everything else   *)
(* is computed by the specification and compared clause by clause.                              *)
EXTENDS ClientCircuit, Json, IOUtils, TLCExt
TraceLog == ndJsonDeserialize(IOEnv.TRACE_FILE)
VARIABLES l, tid
tvars == <<vars, l, tid>>

Chk(name, cond) == IF cond THEN TRUE ELSE PrintT(ToJson([fail |-> name, line |-> l, tid |-> tid]))
Env(name, cond) == Assert(cond, <<"driver violated environment assumption", name, l>>)
IsEvent(e) == l <= Len(TraceLog) /\ TraceLog[l].ev = e /\ l' = l + 1
Rec == TraceLog[l]
RECURSIVE Flat(_)
Flat(ss) == IF ss = <<>> THEN <<>> ELSE Head(ss) \o Flat(Tail(ss))

\* newly issued IDs (not retransmissions) in emission order
Fresh(tx) == SelectSeq(tx, LAMBDA t : ~t.resent)
FreshIncreasing(tx) == LET f == Fresh(tx) IN
    /\ \A i \in 1..Len(f) : f[i].id > lastId
    /\ \A i \in 1..(Len(f) - 1) : f[i].id < f[i + 1].id
\* the ID parameter of the action: the observed one when it is legal, else the spec's own choice
IdParam(tx) == LET f == Fresh(tx) IN IF f # <<>> /\ f[1].id > lastId THEN f[1].id ELSE lastId + 1

TxSet(tx) == {[id |-> t.id, rel |-> t.rel, resent |-> t.resent] : t \in Range(tx)}
Acked(tx) == Flat([i \in 1..Len(tx) |-> tx[i].acked])

StateOf(id) == IF id \in PendIds' \cup abandoned' THEN "p" ELSE IF id \in done' THEN "d" ELSE IF id \in failed' THEN "f" ELSE "?"
ChkFut(fut) ==
    /\ Chk("futures:one per reliable send", {f[1] : f \in Range(fut)} = relIssued' /\ Len(fut) = Cardinality(relIssued'))
    /\ \A f \in Range(fut) : f[1] \in relIssued' =>
          Chk("future is " \o f[2] \o " but must be " \o StateOf(f[1]), f[2] = StateOf(f[1]))
ChkDl(h, n, exp) == Chk((IF n > exp THEN "dup-dispatch/" ELSE "missing-dispatch/") \o h, n = exp)
ChkExtra(lv, dyn) ==
    /\ Chk("extra subscribers: count", Len(dyn) = Len(subs[lv]))
    /\ \A i \in 1..Len(subs[lv]) : i <= Len(dyn) =>
          Chk((IF dyn[i] > out'.calls[lv][i] THEN "dup-dispatch/" ELSE "missing-dispatch/") \o lv \o "-extra-" \o subs[lv][i].k,
              dyn[i] = out'.calls[lv][i])
ChkDeliver2(dl, exp, wild) ==
                       /\ Chk("subscriber called for another packet", dl.other = 0)
                       /\ ChkExtra("sess", dl.dyn.sess) /\ ChkExtra("reg", dl.dyn.reg)
                       /\ ChkDl("sess", dl.sess, exp) /\ ChkDl("sessAll", dl.sessAll, wild)
                       /\ ChkDl("reg", dl.reg, exp) /\ ChkDl("regAll", dl.regAll, wild)
ChkDeliver(dl, exp) == ChkDeliver2(dl, exp, exp)
ChkIds(tx) == Chk("packet IDs strictly increasing", FreshIncreasing(tx))
\* clauses common to every step: nothing escapes, datagrams go to the peer
ChkStep == /\ Chk("exception escaped", ~Rec.raised)
           /\ Chk("datagrams go to the peer", \A t \in Range(Rec.tx) : t.peer)

TInit == Init /\ l = 1 /\ tid = -1
TReset == /\ IsEvent("Reset") /\ tid' = Rec.tid
          /\ seen' = <<>> /\ evN' = <<>> /\ rR' = <<>> /\ aR' = <<>> /\ dR' = <<>> /\ rU' = <<>> /\ dU' = <<>>
          /\ pend' = {} /\ done' = {} /\ failed' = {} /\ relIssued' = {} /\ ackedSince' = {} /\ xmits' = {}
          /\ ids' = <<>> /\ lastId' = -1 /\ subs' = [lv \in Levels |-> <<>>]
          /\ alive' = "pending" /\ abandoned' = {} /\ epoch' = 0 /\ floor' = 0 /\ pongs' = 0 /\ openSeen' = {}
          /\ out' = [NoOut EXCEPT !.calls = [lv \in Levels |-> <<>>]]

TRecv == /\ IsEvent("Recv") /\ UNCHANGED tid
         /\ Recv(Rec.p, Rec.rel, Range(Rec.acks), IdParam(Rec.tx), Rec.match, Rec.dl.sess > 0)   \* open choice: as observed
         /\ ChkStep
         /\ ChkIds(Rec.tx)
         /\ Chk(IF Rec.rel THEN "ack-every-receipt" ELSE "no ack for unreliable", Acked(Rec.tx) = out'.acks /\ Len(Rec.tx) = Len(out'.acks))
         /\ Chk("ack datagram is a fresh unreliable packet", \A t \in Range(Rec.tx) : ~t.resent /\ ~t.rel)
         /\ ChkDeliver(Rec.dl, IF out'.deliver THEN 1 ELSE 0)
         /\ ChkFut(Rec.fut)
TStray == /\ IsEvent("Stray") /\ UNCHANGED tid
          /\ Stray
          /\ ChkStep
          /\ Chk("stray: nothing emitted", Rec.tx = <<>>)
          /\ ChkDeliver(Rec.dl, 0)
          /\ ChkFut(Rec.fut)
TSendRel == /\ IsEvent("SendRel") /\ UNCHANGED tid
            /\ SendRel(IdParam(Rec.tx))
            /\ ChkStep
            /\ ChkIds(Rec.tx)
            /\ Chk("send: one reliable datagram", TxSet(Rec.tx) = out'.tx /\ Len(Rec.tx) = 1)
            /\ ChkFut(Rec.fut)
TSendUnrel == /\ IsEvent("SendUnrel") /\ UNCHANGED tid
              /\ SendUnrel(IdParam(Rec.tx))
              /\ ChkStep
              /\ ChkIds(Rec.tx)
              /\ Chk("send: one unreliable datagram", TxSet(Rec.tx) = out'.tx /\ Len(Rec.tx) = 1)
              /\ ChkFut(Rec.fut)
TTick == /\ IsEvent("Tick") /\ UNCHANGED tid
         /\ Env("positive step", Rec.d > 0)
         /\ Tick(Rec.d)
         /\ ChkStep
         /\ Chk("resend exactly the due pending sends", TxSet(Rec.tx) = out'.tx /\ Len(Rec.tx) = Cardinality(out'.tx))
         /\ ChkFut(Rec.fut)
\* {"ev":"LoopTick","d":ms,..}: clock += d, then one iteration of HippoClient._attempt_resends
TLoopTick == /\ IsEvent("LoopTick") /\ UNCHANGED tid
             /\ Env("positive step", Rec.d > 0)
             /\ LoopTick(Rec.d)
             /\ ChkStep
             /\ Chk("resend exactly the due pending sends", TxSet(Rec.tx) = out'.tx /\ Len(Rec.tx) = Cardinality(out'.tx))
             /\ ChkFut(Rec.fut)
TSub == /\ IsEvent("Sub") /\ UNCHANGED tid
        /\ Env("level and kind", Rec.level \in Levels /\ Rec.kind \in Kinds)
        /\ Subscribe(Rec.level, Rec.kind)
        /\ ChkStep
        /\ Chk("subscribe: nothing emitted", Rec.tx = <<>>)
        /\ ChkFut(Rec.fut)
\* {"ev":"Alive","how":"handshake"|"bare"}: is_alive set True by the handshake / the driver uses a bare Circuit (first event)
TAlive == /\ IsEvent("Alive") /\ UNCHANGED tid
          /\ Env("pending", alive = "pending") /\ GoAlive
          /\ ChkStep /\ Chk("handshake: nothing emitted", Rec.tx = <<>>) /\ ChkFut(Rec.fut)
TDisconnect == /\ IsEvent("Disconnect") /\ UNCHANGED tid
               /\ Env("not dead", alive # "dead") /\ Disconnect
               /\ ChkStep /\ Chk("disconnect: nothing emitted", Rec.tx = <<>>) /\ ChkFut(Rec.fut)
\* {"ev":"Ping","oldest":n,"pong_ok":bool,tx,dl,fut}: StartPingCheck(OldestUnacked=n); pong_ok: the one datagram emitted is a
\* CompletePingCheck echoing the PingID
TPing == /\ IsEvent("Ping") /\ UNCHANGED tid
         /\ Ping(Rec.oldest, IdParam(Rec.tx))
         /\ ChkStep /\ ChkIds(Rec.tx)
         /\ Chk("ping answered with one CompletePingCheck", TxSet(Rec.tx) = out'.tx /\ Len(Rec.tx) = 1 /\ Rec.pong_ok)
         /\ ChkDeliver2(Rec.dl, 0, 1)
         /\ ChkFut(Rec.fut)
\* {"ev":"Drain","level":l,"i":k,"got":[pids]}: the slow consumer reads everything parked for it
TDrain == /\ IsEvent("Drain") /\ UNCHANGED tid
          /\ Env("an async subscriber", Rec.i \in 1..Len(subs[Rec.level]) /\ subs[Rec.level][Rec.i].k = "asyncq")
          /\ Drain(Rec.level, Rec.i)
          /\ ChkStep
          /\ Chk("async subscriber: every message once, in order", Rec.got = out'.drained)
          /\ ChkFut(Rec.fut)
TNext == TDrain \/ TLoopTick \/ TPing \/ TAlive \/ TDisconnect \/ TReset \/ TRecv \/ TStray \/ TSendRel \/ TSendUnrel \/ TTick \/ TSub
TraceSpec == TInit /\ [][TNext]_tvars
TraceAccepted == PrintT("TRACE_REACHED " \o ToString(TLCGet("stats").diameter - 1) \o " OF " \o ToString(Len(TraceLog)))
====
