---------------------------- MODULE SceneGraph_MC ----------------------------
(***************************************************************************)
(* ALGO layer of C14: a transcription of the bookkeeping the code performs *)
(* (hippolyzer/lib/client/object_manager.py), run in lock step with the    *)
(* SPEC layer of SceneGraph.tla.  TLC checks exhaustively (bounded         *)
(* universe, bounded depth) that the transcribed indices, child lists,     *)
(* parent links, orphanage and futures always equal the views DERIVED from *)
(* the Spec's single object map, and that no assertion / None dereference  *)
(* is hit.                                                                 *)
(*                                                                         *)
(* One record A holds the code's data:                                     *)
(*   ob[f]      attributes of the Object instance with FullID f            *)
(*              (LocalID, ParentID, RegionHandle)                          *)
(*   fidx       keys of ClientWorldObjectManager._fullid_lookup            *)
(*   lidx[r][l] RegionObjectsState.localid_lookup of region r              *)
(*   kids[f]    Object.ChildIDs (Object.Children is maintained in parallel)*)
(*   plink[f]   Object.Parent                                              *)
(*   orph[r][l] RegionObjectsState._orphans[l]                             *)
(*   ford[r]    key order of RegionObjectsState._object_futures            *)
(*   fpend[r]   keys of _object_futures that hold a pending future         *)
(*   raised     an assertion failed / None was dereferenced / KeyError     *)
(*                                                                         *)
(* Bugs selects the pinned tree's behaviour at the defective sites; the    *)
(* check runs with Bugs = {} (the repaired algorithm).  With a bug         *)
(* switched on TLC produces the counterexample:                            *)
(*   "D6"  cancel_futures stops after the first key of the local ID        *)
(*   "D7"  _update_existing_object dereferences the state of an untracked  *)
(*         region (old or new)                                             *)
(*   "D17" killing an untracked local ID drops spared avatar orphans from  *)
(*         the orphanage                                                   *)
(*   "D18" a cached update answered from the object cache always creates a *)
(*         new Object, also when the full ID is already tracked            *)
(*   "T1"  track_region_objects only registers the region manager: objects *)
(*         a straggler update attributed to the region before its handshake*)
(*         stay out of its local index                                     *)
(*   "U1"  untrack_region_objects returns early for a region that has no   *)
(*         region manager (never tracked): regionless objects attributed   *)
(*         to it survive its unloading                                     *)
(***************************************************************************)
EXTENDS SceneGraph

CONSTANTS Bugs, Depth
VARIABLE A
mvars == <<obj, tracked, pending, out, A>>
MView == <<obj, tracked, pending, A>>
Bound == TLCGet("level") <= Depth

Range(s) == {s[i] : i \in DOMAIN s}
NoF == "-"
FKeys == Locals \X ReqTypes

RECURSIVE RemoveFirst(_, _)
RemoveFirst(s, x) == IF s = <<>> THEN <<>>
                     ELSE IF Head(s) = x THEN Tail(s)
                     ELSE <<Head(s)>> \o RemoveFirst(Tail(s), x)
Raise(S) == [S EXCEPT !.raised = TRUE]

AInit == A = [ ob |-> [f \in FullIDs |-> Absent],
               fidx |-> {},
               lidx |-> [r \in Trackable |-> [l \in Locals |-> NoF]],
               kids |-> [f \in FullIDs |-> <<>>],
               plink |-> [f \in FullIDs |-> NoF],
               orph |-> [r \in Trackable |-> [l \in Locals |-> <<>>]],
               ford |-> [r \in Trackable |-> <<>>],
               fpend |-> [r \in Trackable |-> {}],
               raised |-> FALSE ]

(************************ RegionObjectsState *******************************)
\* register_future / resolve_futures / cancel_futures
\* (the key order of the dict only matters to the defective cancel_futures; it is not recorded otherwise)
Register(S, r, l, ty) ==
    [S EXCEPT !.ford[r] = IF "D6" \notin Bugs \/ <<l, ty>> \in Range(@) THEN @ ELSE Append(@, <<l, ty>>),
              !.fpend[r] = @ \cup {<<l, ty>>}]
Resolve(S, r, l, ty) == [S EXCEPT !.fpend[r] = @ \ {<<l, ty>>}]
CancelFutures(S, r, l) ==
    IF "D6" \in Bugs
    THEN LET idx == {i \in DOMAIN S.ford[r] : S.ford[r][i][1] = l}
         IN IF idx = {} THEN S
            ELSE LET first == CHOOSE i \in idx : \A j \in idx : i <= j
                 IN [S EXCEPT !.fpend[r] = @ \ {S.ford[r][first]}]      \* break after the first key
    ELSE [S EXCEPT !.fpend[r] = {k \in @ : k[1] # l}]

\* _parent_object
ParentObject(S, r, f, atHead) ==
    LET pid == S.ob[f].parent
        lid == S.ob[f].local
    IN IF pid = 0 THEN S
       ELSE LET par == S.lidx[r][pid]
            IN IF par # NoF
               THEN IF lid \in Range(S.kids[par]) THEN Raise(S)        \* assert obj.LocalID not in parent.ChildIDs
                    ELSE [S EXCEPT !.kids[par] = IF atHead THEN <<lid>> \o @ ELSE Append(@, lid),
                                   !.plink[f] = par]
               ELSE [S EXCEPT !.orph[r][pid] = Append(@, lid), !.plink[f] = NoF]

\* _unparent_object (with _untrack_orphan)
UnparentObject(S, r, f, oldpid) ==
    LET lid == S.ob[f].local
        S1 == [S EXCEPT !.plink[f] = NoF]
    IN IF oldpid = 0 THEN S1
       ELSE LET S2 == [S1 EXCEPT !.orph[r][oldpid] = RemoveFirst(@, lid)]
                par == S2.lidx[r][oldpid]
            IN IF par # NoF /\ lid \in Range(S2.kids[par])
               THEN [S2 EXCEPT !.kids[par] = RemoveFirst(@, lid)]
               ELSE S2                                                  \* only logs

\* handle_object_reparented: avatars go to the end of the child list, others to the head
Reparented(S, r, f, oldpid) == ParentObject(UnparentObject(S, r, f, oldpid), r, f, f \notin Avatars)

RECURSIVE AdoptAll(_, _, _, _)
AdoptAll(S, r, orphs, i) ==
    IF i > Len(orphs) THEN S
    ELSE LET c == S.lidx[r][orphs[i]]
         IN IF c = NoF THEN Raise(S)                                    \* assert child_obj is not None
            ELSE AdoptAll(ParentObject(S, r, c, FALSE), r, orphs, i + 1)

\* track_object
TrackObject(S, r, f) ==
    LET lid == S.ob[f].local
        S1 == [S EXCEPT !.lidx[r][lid] = f]                             \* clobbers silently (logs an error)
        S2 == ParentObject(S1, r, f, FALSE)
        orphs == S2.orph[r][lid]                                        \* collect_orphans
        S3 == [S2 EXCEPT !.orph[r][lid] = <<>>]
    IN AdoptAll(S3, r, orphs, 1)

RECURSIVE UnparentAll(_, _, _, _)
UnparentAll(S, r, ids, i) ==
    IF i > Len(ids) THEN S
    ELSE LET c == S.lidx[r][ids[i]]
         IN IF c = NoF THEN Raise(S)                                    \* assert child_obj is not None
            ELSE UnparentAll(UnparentObject(S, r, c, S.ob[c].parent), r, ids, i + 1)

\* untrack_object
UntrackObject(S, r, f) ==
    LET lid == S.ob[f].local
        former == S.kids[f]
        S1 == UnparentAll(S, r, former, 1)
        S2 == [S1 EXCEPT !.orph[r][lid] = @ \o former]                  \* children go to the orphanage
        S3 == IF S2.kids[f] # <<>> THEN Raise(S2) ELSE S2               \* assert not obj.ChildIDs
        S4 == UnparentObject(S3, r, f, S3.ob[f].parent)
        S5 == CancelFutures(S4, r, lid)
    IN IF S5.lidx[r][lid] = NoF THEN Raise(S5)                          \* del localid_lookup[..]: KeyError
       ELSE [S5 EXCEPT !.lidx[r][lid] = NoF]

\* clear() + untrack_region_objects
ClearRegion(S, t, r) ==
    LET gone == IF "U1" \in Bugs /\ r \notin t THEN {} ELSE {f \in S.fidx : S.ob[f].region = r}
    IN [S EXCEPT !.lidx[r] = [l \in Locals |-> NoF],
                 !.orph[r] = [l \in Locals |-> <<>>],
                 !.ford[r] = <<>>, !.fpend[r] = {},
                 !.fidx = @ \ gone,
                 !.ob = [f \in FullIDs |-> IF f \in gone THEN Absent ELSE @[f]],
                 !.kids = [f \in FullIDs |-> IF f \in gone THEN <<>> ELSE @[f]],
                 !.plink = [f \in FullIDs |-> IF f \in gone THEN NoF ELSE @[f]]]

(********************** ClientWorldObjectManager ***************************)
\* track_region_objects (repaired): the regionless objects attributed to the region are tracked by it
RECURSIVE TrackAll(_, _, _)
TrackAll(S, r, fs) == IF fs = {} THEN S
                      ELSE LET f == CHOOSE x \in fs : TRUE
                           IN TrackAll(TrackObject(S, r, f), r, fs \ {f})
ATrack(S, r) == IF "T1" \in Bugs THEN S
                ELSE TrackAll(S, r, {f \in S.fidx : S.ob[f].region = r})

\* _run_object_update_hooks: resolves the futures of the object's CURRENT slot
Hooks(S, t, f, ty) ==
    IF S.ob[f].region \in t THEN Resolve(S, S.ob[f].region, S.ob[f].local, ty) ELSE S

\* _update_existing_object for a message carrying LocalID l, ParentID p, RegionHandle r
UpdateExisting(S, t, f, l, p, r, ty) ==
    LET old == S.ob[f]
        S1 == IF old.region # r
              THEN IF old.region \in t THEN UntrackObject(S, old.region, f)
                   ELSE IF "D7" \in Bugs THEN Raise(S) ELSE S           \* None.untrack_object
              ELSE IF old.local # l
              THEN IF old.region \in t
                   THEN TrackObject([UntrackObject(S, old.region, f) EXCEPT !.ob[f].local = l], old.region, f)
                   ELSE IF "D7" \in Bugs THEN Raise(S) ELSE S
              ELSE S
        S2 == [S1 EXCEPT !.ob[f] = [local |-> l, parent |-> p, region |-> r]]   \* update_properties
        S3 == IF r # old.region
              THEN IF r \in t THEN TrackObject(S2, r, f) ELSE S2        \* regionless object, logs a warning
              ELSE IF p # old.parent
              THEN IF r \in t THEN Reparented(S2, r, f, old.parent)
                   ELSE IF "D7" \in Bugs THEN Raise(S2) ELSE S2         \* None.handle_object_reparented
              ELSE S2
    IN IF S1.raised THEN S1 ELSE Hooks(S3, t, f, ty)

\* _track_new_object: a NEW Object instance (no children, no parent link yet)
TrackNew(S, t, f, l, p, r) ==
    LET S1 == [S EXCEPT !.ob[f] = [local |-> l, parent |-> p, region |-> r],
                        !.kids[f] = <<>>, !.plink[f] = NoF]
        S2 == TrackObject(S1, r, f)
    IN Hooks([S2 EXCEPT !.fidx = @ \cup {f}], t, f, "UPDATE")

AAnnounce(S, t, kind, f, l, p, r) ==
    IF kind = "cachedHit" /\ "D18" \in Bugs
    THEN TrackNew(S, t, f, l, p, r)                                     \* never looks the full ID up
    ELSE IF f \in S.fidx THEN UpdateExisting(S, t, f, l, p, r, "UPDATE")
    ELSE IF r \in t THEN TrackNew(S, t, f, l, p, r)
    ELSE S

\* terse / cached-with-same-CRC: _update_existing_object with the unchanged identity
ATouch(S, t, kind, r, l) ==
    IF r \in t /\ kind # "cachedMiss" /\ S.lidx[r][l] # NoF
    THEN LET f == S.lidx[r][l] IN UpdateExisting(S, t, f, l, S.ob[f].parent, r, "UPDATE")
    ELSE S

AProps(S, t, f) ==
    IF f \in S.fidx
    THEN UpdateExisting(S, t, f, S.ob[f].local, S.ob[f].parent, S.ob[f].region, "PROPERTIES")
    ELSE S

\* _kill_object_by_local_id
RECURSIVE KillLocal(_, _, _), KillChildren(_, _, _, _)
KillChildren(S, r, ids, i) ==                  \* for child_id in reversed(child_ids)
    IF i = 0 THEN S
    ELSE LET c == S.lidx[r][ids[i]]
         IN IF c # NoF /\ c \in Avatars THEN KillChildren(S, r, ids, i - 1)     \* avatars are spared
            ELSE KillChildren(KillLocal(S, r, ids[i]), r, ids, i - 1)
KillLocal(S, r, l) ==
    LET f == S.lidx[r][l]
    IN IF f # NoF
       THEN LET S1 == KillChildren(S, r, S.kids[f], Len(S.kids[f]))
                S2 == UntrackObject(S1, r, f)
            IN [S2 EXCEPT !.fidx = @ \ {f}, !.ob[f] = Absent, !.kids[f] = <<>>, !.plink[f] = NoF]
       ELSE LET S0 == CancelFutures(S, r, l)
                orphs == S0.orph[r][l]                                  \* collect_orphans pops the list
                S1 == [S0 EXCEPT !.orph[r][l] = <<>>]
                S2 == KillChildren(S1, r, orphs, Len(orphs))
                spared == SelectSeq(orphs, LAMBDA c : S2.lidx[r][c] # NoF)
            IN IF "D17" \in Bugs THEN S2
               ELSE [S2 EXCEPT !.orph[r][l] = spared \o @]             \* repaired: spared avatars stay orphans

(******************************* lock step *********************************)
MInit == Init /\ AInit
MNext ==
    \/ \E k \in AnnounceKinds, f \in FullIDs, l \in Locals, p \in Locals \cup {0}, r \in Regions :
          Announce(k, f, l, p, r) /\ A' = AAnnounce(A, tracked, k, f, l, p, r)
    \/ \E k \in {"terse", "cachedSame", "cachedMiss"}, r \in Regions, l \in Locals :
          Touch(k, r, l) /\ A' = ATouch(A, tracked, k, r, l)
    \/ \E f \in FullIDs : Props(f) /\ A' = AProps(A, tracked, f)
    \/ \E r \in Trackable, l \in Locals : Kill(r, l) /\ A' = KillLocal(A, r, l)
    \/ \E r \in Trackable : Track(r) /\ A' = ATrack(A, r)
    \/ \E r \in Trackable : Teardown(r) /\ A' = ClearRegion(A, tracked, r)
    \/ \E r \in Trackable, l \in Locals, ty \in ReqTypes : Request(r, l, ty) /\ A' = Register(A, r, l, ty)
MSpec == MInit /\ [][MNext]_mvars

(************************ Algo layer against Spec layer ********************)
NoRaise == ~A.raised
\* lookup by full ID: exactly the announced, not killed, not unloaded objects, with their attributes
FullIndex == /\ A.fidx = LiveIn(obj)
             /\ \A f \in FullIDs : A.ob[f] = obj[f]
\* lookup by local ID agrees with it, region by region
LocalIndex == \A r \in Trackable, l \in Locals :
                 A.lidx[r][l] = (IF r \in tracked /\ AtSlot(obj, r, l) # {}
                                 THEN CHOOSE f \in AtSlot(obj, r, l) : TRUE ELSE NoF)
\* children: exactly the tracked objects naming it as parent, no duplicates; parent link the other way
ChildLists == \A f \in FullIDs :
                 /\ Range(A.kids[f]) = {obj[c].local : c \in Children(obj, tracked, f)}
                 /\ Len(A.kids[f]) = Cardinality(Range(A.kids[f]))
ParentLinks == \A f \in FullIDs : A.plink[f] = ParentName(obj, tracked, f)
\* the orphanage holds exactly the objects whose named parent nobody holds, under that parent's local ID
Orphanage == \A r \in Trackable, l \in Locals :
                /\ Range(A.orph[r][l]) = {obj[c].local : c \in {c \in Orphans(obj, tracked) : obj[c].region = r /\ obj[c].parent = l}}
                /\ Len(A.orph[r][l]) = Cardinality(Range(A.orph[r][l]))
\* every request the code still holds is one the Spec still holds, and vice versa
Futures == \A r \in Trackable : A.fpend[r] = {<<k[2], k[3]>> : k \in {k \in pending : k[1] = r}}
=============================================================================
