----------------------------- MODULE Caps_Algo -----------------------------
(***************************************************************************)
(* Algo layer for C16: a transcription of what region.py / sessions.py DO  *)
(* (prepend-on-add multidict, reverse URL index rebuilt in item order,     *)
(* first `startswith` match, regions and sessions searched in order),      *)
(* run in lock-step with the property-level model Caps and checked against *)
(* it by TLC.  Conformance of the real code is never judged against this   *)
(* layer (harness/c16.py compares with Caps only); its purpose is to let   *)
(* TLC itself show which design decisions break the property:              *)
(*   FirstMatch = TRUE    the pinned tree's resolve_cap loop  -> AlgoResolves violated *)
(*   SwappedIndex = TRUE  the pinned tree's register_proxy_cap -> AlgoProxyStable violated *)
(*   DedupeAdd = TRUE     update_caps skipping a (type, url) pair the name already has     *)
(*                        -> AlgoByName violated by the grant history a, c, a              *)
(*   IterRemove = TRUE    the seed request's name list walked while names are removed from *)
(*                        it -> AlgoUpstream violated by two adjacent proxy-only names     *)
(*   ReAddOnConsume = TRUE  the entries left under a name after a one-shot cap was used up  *)
(*                        re-inserted one by one with add() (which prepends) instead of    *)
(*                        extend() -> AlgoByName violated with three entries under a name  *)
(* and that the candidate repairs (both FALSE) refine the property.        *)
(***************************************************************************)
EXTENDS Caps

CONSTANTS FirstMatch, SwappedIndex, DedupeAdd, IterRemove, ReAddOnConsume, Depth
VARIABLE md          \* md[r]: the CapsMultiDict of region r as its item sequence <<name, type, url>>
avars == <<vars, md>>
Bound == TLCGet("level") <= Depth

Item(n, t, u) == [n |-> n, t |-> t, u |-> u]
Keep(s, n) == SelectSeq(s, LAMBDA it : it.n = n)
Drop(s, n) == SelectSeq(s, LAMBDA it : it.n # n)
(* CapsMultiDict.add: vals = [value] + popall(key); re-add all *)
MdAdd(s, it) == Drop(s, it.n) \o <<it>> \o Keep(s, it.n)
RECURSIVE MdAddAll(_, _)
MdAddAll(s, its) == IF its = <<>> THEN s ELSE MdAddAll(MdAdd(s, Head(its)), Tail(its))
(* update_caps: add every granted pair (optionally skipping pairs the name already has) *)
RECURSIVE MdUpdate(_, _)
MdUpdate(s, its) == IF its = <<>> THEN s
                    ELSE IF DedupeAdd /\ \E i \in DOMAIN s : s[i] = Head(its) THEN MdUpdate(s, Tail(its))
                    ELSE MdUpdate(MdAdd(s, Head(its)), Tail(its))
(* caps[name]: the first item with that key *)
MdGet(s, n) == IF Keep(s, n) = <<>> THEN NoUrl ELSE Head(Keep(s, n)).u
(* _recalc_caps: dict url -> (type, name); key order = first occurrence, value = last occurrence *)
RECURSIVE Keys(_, _)
Keys(s, acc) == IF s = <<>> THEN acc
                ELSE Keys(Tail(s), IF \E i \in DOMAIN acc : acc[i] = Head(s).u THEN acc ELSE Append(acc, Head(s).u))
LastWith(s, u) == LET ix == {i \in DOMAIN s : s[i].u = u} IN s[CHOOSE i \in ix : \A j \in ix : j <= i]
(* ProxiedRegion.resolve_cap: first key the request starts with (pinned tree), or keys by    *)
(* decreasing length first (candidate repair)                                               *)
RECURSIVE FirstPre(_, _)
FirstPre(ks, q) == IF ks = <<>> THEN NoUrl ELSE IF IsPre(Head(ks), q) THEN Head(ks) ELSE FirstPre(Tail(ks), q)
LongestPre(ks, q) == LET m == {ks[i] : i \in {i \in DOMAIN ks : IsPre(ks[i], q)}} IN
                     IF m = {} THEN NoUrl ELSE CHOOSE u \in m : \A v \in m : Len(v) <= Len(u)
RegionResolve(r, q) == LET ks == Keys(md[r], <<>>)
                           u == IF FirstMatch THEN FirstPre(ks, q) ELSE LongestPre(ks, q)
                       IN IF u = NoUrl THEN None4 ELSE LET it == LastWith(md[r], u) IN <<it.n, it.t, r, u>>
(* Session.resolve_cap / SessionManager.resolve_cap: sessions in order, regions in order *)
RECURSIVE FirstRegion(_, _)
FirstRegion(r, q) == IF r > NR THEN None4
                     ELSE IF RegionResolve(r, q) # None4 THEN RegionResolve(r, q) ELSE FirstRegion(r + 1, q)
AlgoResolve(q) == LET h == FirstRegion(1, q) IN
                  IF h = None4 THEN None4
                  ELSE IF h[1] \in Asset /\ h[2] # "W" THEN <<h[1], h[2], 0, 0>>
                  ELSE <<h[1], h[2], h[3], SessOf(h[3])>>

(***************************** lock-step actions ***************************)
AInit == Init /\ md = [r \in Regions |-> <<Item("Seed", "N", SeedUrl(r))>>]
ASeedReq(r, w) == SeedReq(r, w) /\ UNCHANGED md
NameOrder == <<"CapA", "CapB", "GetMesh", "ViewerAsset">>
ASeedResp(r, i) ==
    /\ SeedResp(r, i)
    /\ LET g == T(r, i)
           granted == SelectSeq(NameOrder, LAMBDA n : n \in DOMAIN g)
           grants == [k \in DOMAIN granted |-> Item(granted[k], "N", g[granted[k]])]
           wrapped == SelectSeq(granted, LAMBDA n : n \in Asset)
           wraps == [k \in DOMAIN wrapped |-> Item(WName(wrapped[k]), "W", Viewer(r, g)[wrapped[k]])]
       IN md' = [md EXCEPT ![r] = MdAddAll(MdUpdate(@, grants), wraps)]
ARegisterTemp(r, u, n) == RegisterTemp(r, u, n) /\ md' = [md EXCEPT ![r] = MdAdd(@, Item(n, "T", u))]
(* register_proxy_cap: `if name in self.caps: cap_data = self.caps[name]; if <is proxy-only>: return url` *)
AlgoProxyUrl(r, n) == IF Keep(md[r], n) = <<>> THEN ProxyUrl(r, n)
                      ELSE IF ~SwappedIndex THEN MdGet(md[r], n)
                      ELSE <<"?P" \o ToString(r) \o n \o "#" \o ToString(Len(Keep(md[r], n)) + 1)>>   \* a fresh uuid
ARegisterProxy(r, n) ==
    /\ Len(Keep(md[r], n)) < 3
    /\ RegisterProxy(r, n)
    /\ IF Keep(md[r], n) # <<>> /\ ~SwappedIndex THEN UNCHANGED md
       ELSE md' = [md EXCEPT ![r] = MdAdd(@, Item(n, "P", AlgoProxyUrl(r, n)))]
(* _handle_request, Seed branch: strip the names the region has a PROXY_ONLY item for *)
MdProxyNames(r) == {md[r][i].n : i \in {i \in DOMAIN md[r] : md[r][i].t = "P"}}
RemoveAt(q, i) == SubSeq(q, 1, i - 1) \o SubSeq(q, i + 1, Len(q))
RECURSIVE WalkRemove(_, _, _)
WalkRemove(q, i, S) == IF i > Len(q) THEN q                          \* `for name in lst: lst.remove(name)`:
                       ELSE IF q[i] \in S THEN WalkRemove(RemoveAt(q, i), i + 1, S)   \* the index moves on
                       ELSE WalkRemove(q, i + 1, S)
AlgoUpstreamList(r, w) == IF IterRemove THEN WalkRemove(WL(w), 1, MdProxyNames(r))
                          ELSE SelectSeq(WL(w), LAMBDA n : n \notin MdProxyNames(r))
(* consuming lookup: popall(name); remove the (type, url) pair; extend *)
RECURSIVE RemoveFirstItem(_, _)
RemoveFirstItem(s, u) == IF s = <<>> THEN <<>> ELSE IF Head(s).u = u /\ Head(s).t = "T" THEN Tail(s)
                         ELSE <<Head(s)>> \o RemoveFirstItem(Tail(s), u)
AResolveTemp(q) ==
    /\ ResolveTemp(q)
    /\ LET h == FirstRegion(1, q) IN
         IF h # None4 /\ h[2] = "T"
         THEN md' = [md EXCEPT ![h[3]] = IF ReAddOnConsume THEN MdAddAll(Drop(@, h[1]), RemoveFirstItem(Keep(@, h[1]), h[4]))
                                          ELSE Drop(@, h[1]) \o RemoveFirstItem(Keep(@, h[1]), h[4])]
         ELSE UNCHANGED md
ANext == \/ \E r \in Regions : \/ \E w \in 1..7 : ASeedReq(r, w)
                               \/ \E i \in 1..10 : ASeedResp(r, i)
                               \/ \E u \in TempUrls(r) : \E n \in TempNames : ARegisterTemp(r, u, n)
                               \/ \E n \in PONameSet : ARegisterProxy(r, n)
                               \/ (LongGrant(r) /\ md' = [md EXCEPT ![r] = MdAdd(@, Item("CapA", "N", LongUrl(r, NLong(r) + 1)))])
                               \/ (LongTemp(r) /\ md' = [md EXCEPT ![r] = MdAdd(@, Item("UpTemp", "T", LongUrl(r, NLong(r) + 1)))])
         \/ \E q \in TempReqs : AResolveTemp(q)
ASpec == AInit /\ [][ANext]_avars

(***************************** Algo against Spec ***************************)
AlgoResolves == LET E == EntriesOf(caps) IN
                \A q \in {q \in ReqsIn(E) : \A e \in BestIn(E, q) : e.t # "T"} : AlgoResolve(q) \in AccIn(E, q)
AlgoTemps == LET E == EntriesOf(caps) IN
             \A q \in TempReqs : (\E e \in BestIn(E, q) : e.t = "T") => AlgoResolve(q) \in AccIn(E, q)
AlgoByName == \A r \in Regions : \A n \in Names : MdGet(md[r], n) = ByName(r, n)
AlgoProxyStable == \A r \in Regions : \A n \in PONameSet : firstP[r][n] # NoUrl => AlgoProxyUrl(r, n) = firstP[r][n]
AlgoUpstream == \A r \in Regions : \A w \in Wants : AlgoUpstreamList(r, w) = UpstreamList(r, w)
=============================================================================
