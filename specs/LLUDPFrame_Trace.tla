--------------------------- MODULE LLUDPFrame_Trace ---------------------------
(* B3 code->spec for C01: recorded round trips of the REAL serializer / deserializer.    *)
(* TLC recomputes the datagram from the template shape and the typed values, re-parses   *)
(* it, and compares with what the implementation produced and decoded.                   *)
(*                                                                                       *)
(* {"ev":"RT","eid":n,"T":shape,"m":{flags,pid,extra,acks,blocks},                         *)
(*  "enc":{"res":"ok"|"raise","d":[bytes]},                                              *)
(*  "dec":{"res":"ok"|"raise","flags":n,"pid":[hi,lo],"extra":[..],"acks":[..],"blocks":typed}, *)
(*  "eq":1|0|-1}   eq: Python-level equality of the decoded and the original message     *)
(*                 (-1: not claimed for this record, see harness domain rule)            *)
EXTENDS LLUDPFrame, Integers, Json, IOUtils, TLCExt
TraceLog == ndJsonDeserialize(IOEnv.TRACE_FILE)
VARIABLES l, tid,
          sref, dref   \* instance state: calls the trace's serializer / deserializer instance has refused so far
Rec == TraceLog[l]
Fail(name) == PrintT(ToJson([fail |-> name, line |-> l, tid |-> tid, eid |-> Rec.eid]))
Chk(name, cond) == IF cond THEN TRUE ELSE Fail(name)
Env(name, cond) == Assert(cond, <<"driver violated environment assumption", name, l>>)
IsEvent(e) == l <= Len(TraceLog) /\ TraceLog[l].ev = e /\ l' = l + 1
TInit == l = 1 /\ tid = -1 /\ sref = 0 /\ dref = 0
\* a Reset also stands for fresh instances
TReset == l <= Len(TraceLog) /\ TraceLog[l].ev = "Reset" /\ l' = l + 1 /\ tid' = Rec.tid /\ sref' = 0 /\ dref' = 0

\* a value the decoder handed out denotes a payload; a "str" stands for its bytes plus the terminator
\* Named causes (suffix of every clause of the record, so that a known finding matches exactly its case):
\*   default-fill-fixed : the message leaves a Fixed variable to default filling
\*   str-multi-nul      : a Variable/Fixed payload ends in two or more NULs and the decoder returned text
MultiNul(T, m, dec) ==
    \E k \in 1..Len(m.blocks) : \E i \in 1..Len(m.blocks[k]) : \E j \in 1..Len(m.blocks[k][i]) :
        LET p == Payload(T.blocks[k].vars[j], m.blocks[k][i][j])
        IN /\ Len(p) >= 2 /\ p[Len(p)] = 0 /\ p[Len(p) - 1] = 0
           /\ k <= Len(dec) /\ i <= Len(dec[k]) /\ j <= Len(dec[k][i]) /\ dec[k][i][j].k = "str"
Cause(T, m) ==
    IF HasUnsetOf(T, m, "Fixed") THEN "[default-fill-fixed]"
    ELSE IF Rec.dec.res = "ok" /\ MultiNul(T, m, Rec.dec.blocks) THEN "[str-multi-nul]"
    ELSE ""
SameShape(a, b) == /\ Len(a) = Len(b)
                   /\ \A k \in 1..Len(a) : /\ Len(a[k]) = Len(b[k])
                                            /\ \A i \in 1..Len(a[k]) : Len(a[k][i]) = Len(b[k][i])
TRT == /\ IsEvent("RT") /\ UNCHANGED <<tid, sref, dref>>
       /\ LET T == Rec.T
              m == Rec.m
              c == Cause(T, m)
              d == Datagram(T, m)
          IN /\ Env("template", WellFormedTemplate(T))
             /\ Env("message conforms", Conformant(T, m))
             /\ Chk("RT.encode-ok" \o c, Rec.enc.res = "ok")
             /\ Chk("RT.datagram" \o c, Rec.enc.res = "ok" => Rec.enc.d = d)
             /\ Chk("RT.spec-roundtrip", RoundTripLaw(T, m) /\ LengthLaw(T, m))
             /\ Chk("RT.decode-ok" \o c, Rec.enc.res = "ok" => Rec.dec.res = "ok")
             /\ IF Rec.enc.res = "ok" /\ Rec.dec.res = "ok"
                THEN /\ Chk("RT.decoded-header" \o c,
                            /\ Rec.dec.flags = m.flags /\ Rec.dec.pid = m.pid
                            /\ Rec.dec.extra = m.extra /\ Rec.dec.acks = m.acks)
                     /\ Chk("RT.decoded-values" \o c,
                            /\ SameShape(Rec.dec.blocks, m.blocks)
                            /\ PayBlocks(T, Rec.dec.blocks) = PayBlocks(T, m.blocks))
                     /\ Chk("RT.python-eq" \o c, Rec.eq # 0)
                ELSE TRUE
\* ---- instances with history (LLUDPFrameInst): one serializer and one deserializer object per trace.
\* {"ev":"Ser","eid","inst","T","m","fill":0|1,"res","d"}  a message expressible in the value language
\* {"ev":"Bad","eid","inst","cls","res"}                    a message that is not (unknown block / message ...)
\* {"ev":"Des","eid","inst","T","d","res","flags","pid","extra","acks","blocks"}
\* The law is stated without reference to the history: the datagram of a conformant message is Datagram(T, m),
\* a parseable datagram decodes to Parse(T, d).  The history only names the case: [after-refused-call].
After(n) == IF n > 0 THEN "[after-refused-call]" ELSE ""
TSer == /\ IsEvent("Ser") /\ UNCHANGED <<tid, dref>>
        /\ Env("template", WellFormedTemplate(Rec.T))
        /\ sref' = IF Rec.res = "raise" THEN sref + 1 ELSE sref
        /\ IF Conformant(Rec.T, Rec.m) /\ (Rec.fill = 1 \/ ~HasUnset(Rec.m))
           THEN /\ Chk("Ser.refuses-conformant" \o After(sref), Rec.res = "ok")
                /\ Chk("Ser.datagram" \o After(sref), Rec.res = "ok" => Rec.d = Datagram(Rec.T, Rec.m))
           ELSE TRUE      \* outside the template language: refusing it (or not) is an observation
TBad == /\ IsEvent("Bad") /\ UNCHANGED <<tid, dref>>
        /\ sref' = IF Rec.res = "raise" THEN sref + 1 ELSE sref
TDes == /\ IsEvent("Des") /\ UNCHANGED <<tid, sref>>
        /\ Env("template", WellFormedTemplate(Rec.T))
        /\ dref' = IF Rec.res = "raise" THEN dref + 1 ELSE dref
        /\ IF HeaderFor(Rec.T, Rec.d) /\ Parse(Rec.T, Rec.d).status = "ok"
           THEN LET p == Parse(Rec.T, Rec.d)
                IN /\ Chk("Des.refuses-parseable" \o After(dref), Rec.res = "ok")
                   /\ IF Rec.res = "ok"
                      THEN /\ Chk("Des.header" \o After(dref), /\ Rec.flags = p.hd.flags /\ Rec.pid = p.hd.pid
                                                             /\ Rec.extra = p.extra /\ Rec.acks = p.hd.acks)
                           /\ Chk("Des.values" \o After(dref), /\ SameShape(Rec.blocks, p.blocks)
                                                             /\ PayBlocks(Rec.T, Rec.blocks) = p.blocks)
                      ELSE TRUE
           ELSE TRUE
TNext == TReset \/ TRT \/ TSer \/ TBad \/ TDes
TraceSpec == TInit /\ [][TNext]_<<l, tid, sref, dref>>
TraceAccepted == PrintT("TRACE_REACHED " \o ToString(TLCGet("stats").diameter - 1) \o " OF " \o ToString(Len(TraceLog)))
=============================================================================
