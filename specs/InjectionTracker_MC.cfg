SPECIFICATION SpecT
CONSTANTS W = 2 MinEp = 1 MaxEp = 6 MaxInj = 5 Reorder = 1 BuggyInverse = FALSE Depth = 9
CONSTRAINT Bound
INVARIANT AlgoIsIdeal
INVARIANT Stable
INVARIANT OrderPreserving
INVARIANT AvoidsInjected
INVARIANT Inverse
INVARIANT InverseAll
INVARIANT InjectedKnown
INVARIANT BaseIsHighest
PROPERTY InjectFresh
