---- MODULE CompressedObj_Trace ----
(* B2 code->spec.  One "Dec" record per payload fed to the real code: the payload, what the   *)
(* struct-based fast reader returned, what the declarative template returned (every field     *)
(* projected to its wire bytes by the harness with `struct`, or by the section's own          *)
(* sub-serializer for the five composite sections), the template's field start offsets, and  *)
(* the re-encoding of both results through the template.  TLC parses the payload itself with  *)
(* the reference parser and decides every clause; nothing is compared in Python.              *)
(*                                                                                            *)
(* {"ev":"Dec","p":[..],"wf":bool,                                                            *)
(*  "fast":{"res":"ok"|"raise","has":[names..],"b":{name:[bytes..]}},                         *)
(*  "tmpl":{"res":..,"has":..,"b":..,"pos":[47 offsets]},                                     *)
(*  "rt":{"res":"ok"|"raise"|"na","b":[..]}, "rf":{..}, "ne":[names..]}                       *)
EXTENDS CompressedObj, Json, IOUtils, TLCExt
TraceLog == ndJsonDeserialize(IOEnv.TRACE_FILE)
VARIABLES l, tid
Chk(name, cond) == IF cond THEN TRUE ELSE PrintT(ToJson([fail |-> name, line |-> l, tid |-> tid]))
Env(name, cond) == Assert(cond, <<"driver violated environment assumption", name, l>>)
IsEvent(e) == l <= Len(TraceLog) /\ TraceLog[l].ev = e /\ l' = l + 1
R == TraceLog[l]
ToSet(s) == {s[i] : i \in 1..Len(s)}
Frozen == UNCHANGED vars

TInit == /\ l = 1 /\ tid = -1
         /\ flags = 0 /\ hi = 0 /\ pcode = 0 /\ v0 = 1 /\ idx = 1 /\ buf = <<>> /\ emitted = <<>>
TReset == IsEvent("Reset") /\ tid' = R.tid /\ Frozen

\* Whether a present composite section with EMPTY content (zero-length block / bare terminator /
\* nothing left) decodes to "no value" or to a value that encodes to nothing is the declarative
\* template's choice, not the wire format's: it is left open here and bound to what the template was
\* observed to return; the fast reader has to make the same choice.
OpenEmpty == {"TextureEntry", "NameValue", "TextureAnim", "PSBlockNew"}
HasV(pr, i) == IF pr.f[i].pres /\ pr.f[i].len = 0 /\ Fields[i].name \in OpenEmpty
               THEN Fields[i].name \in ToSet(R.tmpl.has)
               ELSE HasValue(pr, i)
\* what field i must decode to, as wire bytes
Expected(p, pr, i) ==
  IF ~HasV(pr, i) THEN <<>>
  ELSE IF i = StateIdx THEN <<StateValue(p[pr.f[PCodeIdx].off + 1], p[pr.f[i].off + 1])>>
  ELSE Slice(p, pr.f[i].off, pr.f[i].len)
FieldOK(side, p, pr, i) ==
  /\ (Fields[i].name \in ToSet(side.has)) = HasV(pr, i)
  /\ side.b[Fields[i].name] = Expected(p, pr, i)

TDec ==
  /\ IsEvent("Dec") /\ UNCHANGED tid /\ Frozen
  /\ LET p == R.p
         pr == Parse(p)
         wf == WellFormed(pr, p)          \* framing: every field readable, nothing left over
         \* member of the declarative template's domain: it decodes and re-encodes to these bytes.  Which
         \* empty / repeated contents are in the domain is the template's business (observed), not hard-coded.
         indomain == R.tmpl.res = "ok" /\ R.rt.res = "ok" /\ R.rt.b = p
         dom == R.wf \/ indomain
     IN
     /\ Env("generated well-formed payload is well-formed and canonical for the spec", R.wf => (wf /\ Canonical(pr)))
     /\ Chk("template-domain=>spec-wellformed", indomain => wf)
     /\ Chk("template-decodes", R.wf => R.tmpl.res = "ok")
     /\ Chk("fast-decodes", dom => R.fast.res = "ok")
     /\ Chk("template-reencodes-payload", (R.wf /\ R.tmpl.res = "ok") => (R.rt.res = "ok" /\ R.rt.b = p))
     /\ Chk("fast-result-reencodes-payload", (dom /\ R.fast.res = "ok") => (R.rf.res = "ok" /\ R.rf.b = p))
     /\ Chk("values-equal", (dom /\ R.fast.res = "ok" /\ R.tmpl.res = "ok") => R.ne = <<>>)
     /\ (dom /\ wf /\ R.tmpl.res = "ok") =>
          /\ \A i \in 1..NF : Chk("tmpl." \o Fields[i].name, FieldOK(R.tmpl, p, pr, i))
          /\ Chk("tmpl.positions", R.rt.res = "ok" => R.tmpl.pos = [i \in 1..NF |-> pr.f[i].start])
     /\ (dom /\ wf /\ R.fast.res = "ok") =>
          \A i \in 1..NF : Chk("fast." \o Fields[i].name, FieldOK(R.fast, p, pr, i))

TNext == TReset \/ TDec
TraceSpec == TInit /\ [][TNext]_<<vars, l, tid>>
TraceAccepted == PrintT("TRACE_REACHED " \o ToString(TLCGet("stats").diameter - 1) \o " OF " \o ToString(Len(TraceLog)))
====
