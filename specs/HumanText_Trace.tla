---- MODULE HumanText_Trace ----
(* Binding B2 of C11.                                                                         *)
(*  {"ev":"Text","toks":[line tokens of the text the real printer produced],"m":abstract       *)
(*   message reflected from the message, the template and the serializer registry,            *)
(*   "beautify":b,"printed":bool,"outcome":"ok"|"<Exception>: ..","evaluated":bool,           *)
(*   "same":bool (the two bodies are equal; carried as a flag when they are long),            *)
(*   "body0":[bytes the original encodes to],"body1":[bytes the re-parsed message encodes to]} *)
(*  {"ev":"Fuzz","toks":[..],"safe":bool,"outcome":..,"okind":"ok"|"arith"|"exc",               *)
(*   "evaluated":bool}: mutated texts; okind "arith" = the exception is one only running the   *)
(*   text can raise (ZeroDivisionError, NameError)                                                     *)
EXTENDS HumanText, Json, IOUtils, TLCExt
TraceLog == ndJsonDeserialize(IOEnv.TRACE_FILE)
VARIABLES l, tid
Chk(name, cond) == IF cond THEN TRUE ELSE PrintT(ToJson([fail |-> name, line |-> l, tid |-> tid]))
Env(name, cond) == Assert(cond, <<"driver violated an environment assumption", name, l>>)
IsEvent(e) == l <= Len(TraceLog) /\ TraceLog[l].ev = e /\ l' = l + 1
Rec == TraceLog[l]
Parked == kind = "law" /\ msg = NoMsg /\ beautify = FALSE /\ safe = TRUE /\ toks = <<>> /\ rest = <<>> /\ st = St0
TInit == l = 1 /\ tid = -1 /\ Parked
TReset == IsEvent("Reset") /\ tid' = Rec.tid /\ UNCHANGED vars
NoMsgs == {}
\* the lexer sees every line in isolation; lines inside a continued value and comment lines are inert for the
\* parser whatever they look like: normalise them before comparing with the printer's output
RECURSIVE Norm(_, _)
Norm(ts, c) == IF Len(ts) = 0 THEN <<>>
               ELSE IF c THEN <<Tok("other", "", FALSE, FALSE, ts[1].bs)>> \o Norm(Tail(ts), ts[1].bs)
               ELSE IF ts[1].k = "comment" THEN <<CommentTok>> \o Norm(Tail(ts), FALSE)
               ELSE <<ts[1]>> \o Norm(Tail(ts), ts[1].k = "assign" /\ ts[1].bs)
RejectMsg == "ValueError: Can't use eval operator in safe mode"

\* "drift." checks tie the real printer to the model (Format) and the model's reader to the real text; they
\* are reported as diagnostics, not as violations: a printer that changes its layout but still round-trips
\* keeps the property, it only makes this model stale.
TText == /\ IsEvent("Text") /\ UNCHANGED <<tid, vars>>
         /\ LET p == Parse(Rec.toks, TRUE) IN
            /\ Chk("drift.format", Rec.printed => Norm(Rec.toks, FALSE) = Format(Rec.m, Rec.beautify))
            /\ Chk("drift.reads-back", Rec.printed => Faithful(Rec.toks, Rec.m, Rec.beautify))
            /\ Chk("drift.structure", Rec.printed => Rebuilt(p.evs, <<>>) = Shape(Rec.m.blocks))
         /\ Chk("text.print-ok", Rec.printed)
         /\ Chk("text.parse-ok", Rec.printed => Rec.outcome = "ok")
         /\ Chk("text.not-evaluated", ~Rec.evaluated)
         /\ Chk("text.same-body", (Rec.printed /\ Rec.outcome = "ok") => (Rec.same /\ Rec.body1 = Rec.body0))

TFuzz == /\ IsEvent("Fuzz") /\ UNCHANGED <<tid, vars>>
         /\ LET p == Parse(Rec.toks, Rec.safe) IN
            /\ Chk("safe.never-evaluates", Rec.safe => ~Rec.evaluated)
            \* a text whose lines reach an eval operator is never accepted in safe mode, and the refusal is only given for that
            \* (the real parser may stop earlier on a malformed literal, which the line level does not see)
            /\ Chk("safe.eval-operator-not-accepted", (Rec.safe /\ p.status = "rejected") => Rec.outcome # "ok")
            /\ Chk("safe.rejects-only-eval-operator", (Rec.outcome = RejectMsg) => (Rec.safe /\ p.status = "rejected"))
            \* a value that is not a literal (nor a special plain form) under "=" / "=|" is never accepted and never run,
            \* in safe mode and otherwise
            /\ Chk("literal-only.nonliteral-never-accepted", (p.status = "refused") => (Rec.okind # "ok"))
            \* ... nor does it fail in a way only running it can (unless an eval operator legitimately ran before it)
            /\ Chk("literal-only.nonliteral-never-run", (p.status = "refused" /\ ~p.evaluated) => (Rec.okind = "exc"))
            \* with safe mode off, evaluation happens only where the machine reaches an eval operator
            /\ Chk("unsafe.evaluates-only-eval-operator", Rec.evaluated => p.evaluated)

TNext == TReset \/ TText \/ TFuzz
TraceSpec == TInit /\ [][TNext]_<<l, tid, vars>>
TraceAccepted == PrintT("TRACE_REACHED " \o ToString(TLCGet("stats").diameter - 1) \o " OF " \o ToString(Len(TraceLog)))
====
