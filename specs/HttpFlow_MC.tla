---- MODULE HttpFlow_MC ----
EXTENDS HttpFlow
CONSTANT Depth
Bound == TLCGet("level") <= Depth
====
