---------------------------- MODULE VoiceClient ----------------------------
(***************************************************************************)
(* The Vivox voice control connection (lib/voice/connection.py             *)
(* VivoxConnection, lib/voice/client.py VoiceClient).  Growth beyond the   *)
(* listed properties.                                                      *)
(*                                                                         *)
(* Wire: XML documents, each followed by three newlines.  The daemon's     *)
(* byte stream is modelled as a sequence of CELLS: a body piece [d, p] of  *)
(* document number d, or a newline [0, 0].  A document body may contain a  *)
(* double newline and may be followed by a fourth newline; the stream is   *)
(* delivered to the client in chunks of any length (Feed), so a document   *)
(* may be split anywhere and several documents may arrive in one read.     *)
(* After every delivery the client consumes every complete document        *)
(* (VoiceClient._poll_messages), THEN the coroutines woken by what was     *)
(* consumed run (asyncio runs them after the poll loop suspends).          *)
(*                                                                         *)
(* Client: send_message allocates a request id and a future resolved by    *)
(* the Response with that id; the events AccountLoginStateChange, Session  *)
(* Added/Removed, Participant Added/Updated/Removed maintain login state,  *)
(* current session and participant set; login / logout / join_session /    *)
(* leave_session are coroutines (modelled with a stack of labels, one per  *)
(* critical section between two awaits).                                   *)
(*                                                                         *)
(* Bugs: behaviours of the pinned tree that deviate from what a user       *)
(* relies on; with the name in Bugs the specification describes what the   *)
(* code does (so the binding reports nothing), without it what it should   *)
(* do.  Every scenario (mode) exists with all of them (replayed into the   *)
(* code) and with none (model-checked only: the invariants guarded by a    *)
(* name bite there).                                                       *)
(*   "StaleSession"  Session/Participant events of a session that is not   *)
(*                   the current one are applied to the current one        *)
(*   "Outlive"       EOF / close() leave outstanding futures pending       *)
(*   "PollDies"      a document that does not parse ends the poll loop:    *)
(*                   nothing delivered afterwards is ever handled          *)
(*   "IdReuse"       Session.Create uses the channel URI as request id: a  *)
(*                   second create for the same URI while the first is     *)
(*                   outstanding orphans the first future                  *)
(***************************************************************************)
EXTENDS Integers, Sequences, FiniteSets, TLC

CONSTANT Modes      \* set of scenario records (see below); one is chosen initially and never changes

VARIABLES mode,    \* the scenario: bounds, what the daemon emits, how the stream is chunked, which Bugs are modelled
          cl,      \* the client (record, see InitClient)
          wire,    \* cells in flight daemon -> client
          rbuf,    \* cells received, not yet consumed
          docs,    \* documents the daemon has emitted so far
          eof,
          ncancel,
          out      \* what the last step did (requests written, notifications, events seen, documents handled)

vars == <<mode, cl, wire, rbuf, docs, eof, ncancel, out>>

Bugs == mode.bugs
Kinds == mode.kinds              \* document kinds the daemon emits: subset of AllKinds
Flavours == mode.flavours        \* renderings: "plain", "nl2" (double newline inside the body), "trail" (4th newline)
Chunks == mode.chunks            \* Feed sizes in cells; 0 = everything in flight
Atomic == mode.atomic            \* TRUE: a document is delivered whole as it is emitted (no Feed steps)
MaxSessions == mode.maxSessions  \* sessions the daemon announces (handles "s1", "s2", ..)
Start == mode.start              \* "fresh": connector created; "in": also logged in (account "a1", URI "me")
Uris == mode.uris                \* participant URIs ("me" is the account's own)
Channels == mode.channels        \* channel URIs a user joins
Ends == mode.ends                \* subset of {"close", "eof"}: how a behaviour may end the connection
CallKinds == mode.callKinds      \* subset of {"login", "logout", "join", "leave"}
MaxReqs == mode.maxReqs          \* direct send_message / set_region_3d_pos calls
Direct == mode.direct            \* subset of {"send", "pos"}: which of the two
MaxCalls == mode.maxCalls
MaxDocs == mode.maxDocs
MaxCancel == mode.maxCancel

AllKinds == {"resp", "fail", "dup", "zz", "login", "loginx", "sadd", "srem", "padd", "pupd", "prem", "junk", "req"}

(***************************** data ****************************************)
\* a dict is a sequence of entries; t: "s" string, "i" integer, "n" None, "d" dict
S(k, v) == [k |-> k, t |-> "s", s |-> v, n |-> 0, kids |-> <<>>]
I(k, n) == [k |-> k, t |-> "i", s |-> "", n |-> n, kids |-> <<>>]
Nn(k) == [k |-> k, t |-> "n", s |-> "", n |-> 0, kids |-> <<>>]
D(k, kids) == [k |-> k, t |-> "d", s |-> "", n |-> 0, kids |-> kids]
SN(k, v) == IF v = "" THEN Nn(k) ELSE S(k, v)      \* "" stands for None in handles / URIs

Get(es, k) == es[CHOOSE i \in DOMAIN es : es[i].k = k]

\* what xml_to_dict(parse(buildxml(d))) gives back: integers come back as text, None / "" / {} as None;
\* in a Response the top-level ReturnCode is an integer again and InputXml is dropped
RECURSIVE Norm(_, _)
Norm(es, respTop) ==
    LET keep == IF respTop THEN SelectSeq(es, LAMBDA e : e.k # "InputXml") ELSE es IN
    [i \in DOMAIN keep |->
        LET e == keep[i] IN
        IF e.t = "d" THEN (IF e.kids = <<>> THEN Nn(e.k) ELSE D(e.k, Norm(e.kids, FALSE)))
        ELSE IF e.t = "i" THEN (IF respTop /\ e.k = "ReturnCode" THEN e ELSE S(e.k, ToString(e.n)))
        ELSE IF e.t = "s" /\ e.s = "" THEN Nn(e.k)
        ELSE e]

(***************************** documents ***********************************)
Doc(t, a, id, h, u, rc, ss, fl) == [t |-> t, a |-> a, id |-> id, h |-> h, u |-> u, rc |-> rc, ss |-> ss, fl |-> fl]

LoginA == "Account.Login.1"
Payload(d) ==
    CASE d.t = "Response" ->
            <<I("ReturnCode", d.rc),
              D("Results", IF d.a = LoginA
                           THEN <<S("AccountHandle", "a1"), S("DisplayName", "Me"), S("Uri", "me")>>
                           ELSE <<I("StatusCode", 0), S("StatusString", "")>>),
              D("InputXml", <<D("Request", <<>>)>>)>>
      [] d.t = "Request" -> <<S("Foo", "1"), D("Bar", <<>>)>>
      [] d.t = "Junk" -> <<>>
      [] d.a = "AccountLoginStateChangeEvent" ->
            <<S("AccountHandle", "a1"), I("StatusCode", 200), S("StatusString", d.ss), I("State", d.rc)>>
      [] d.a \in {"SessionAddedEvent", "SessionRemovedEvent"} ->
            <<S("SessionGroupHandle", "g" \o d.h), S("SessionHandle", d.h), S("Uri", "")>>
      [] d.a = "ParticipantAddedEvent" ->
            <<S("SessionHandle", d.h), S("ParticipantUri", d.u), S("IsSpeaking", "false")>>
      [] d.a = "ParticipantUpdatedEvent" ->
            <<S("SessionHandle", d.h), S("ParticipantUri", d.u), S("IsSpeaking", "true"), I("Volume", 44)>>
      [] d.a = "ParticipantRemovedEvent" ->
            <<S("SessionHandle", d.h), S("ParticipantUri", d.u), S("Reason", "")>>
Parsed(d) == Norm(Payload(d), d.t = "Response")

NL == [d |-> 0, p |-> 0]
Render(n, fl) ==
    CASE fl = "plain" -> <<[d |-> n, p |-> 1], [d |-> n, p |-> 2], NL, NL, NL>>
      [] fl = "nl2"   -> <<[d |-> n, p |-> 1], NL, NL, [d |-> n, p |-> 2], NL, NL, NL>>
      [] fl = "trail" -> <<[d |-> n, p |-> 1], [d |-> n, p |-> 2], NL, NL, NL, NL>>

(***************************** client **************************************)
NoWait == [t |-> "none", i |-> 0, e |-> ""]
InitClient ==
    [reqs |-> <<>>,       \* [a, id, st "p"|"d"|"x", res, by (0 = the user holds the future, else call index)]
     table |-> <<>>,      \* _pending_req_futures: sequence of [id, i]
     calls |-> <<>>,      \* [k, arg, stack, st "run"|"done"|"raise", wait, ret]
     runq |-> <<>>,       \* calls woken, in wake order (empty between steps)
     evq |-> <<>>,        \* calls waiting for an asyncio.Event, in waiting order
     acct |-> IF Start = "in" THEN "a1" ELSE "", acctUri |-> IF Start = "in" THEN "me" ELSE "", logged |-> Start = "in",
     sess |-> "", grp |-> "", ready |-> FALSE, uri |-> "",
     ref |-> <<0, 0>>, pos |-> <<0, 0, 0>>,
     parts |-> <<>>,      \* [u, h, spk] in insertion order
     alive |-> TRUE,      \* the poll loop runs
     closed |-> FALSE,
     nproc |-> 0,         \* documents handled so far
     sent |-> <<>>, notes |-> <<>>, seen |-> <<>>, proc |-> <<>>]

Note(e, u, p) == [e |-> e, u |-> u, p |-> p]
Zero3 == <<0, 0, 0>>
RegionToGlobal(p, ref) == <<p[1] + ref[1] * 256, p[3], 0 - (p[2] + ref[2] * 256)>>
GlobalToRegion(g, ref) == <<g[1] - ref[1] * 256, 0 - (g[3] + ref[2] * 256), g[2]>>
RegionPos(C) == GlobalToRegion(C.pos, C.ref)

TabGet(C, id) == LET hit == {j \in DOMAIN C.table : C.table[j].id = id} IN
                 IF hit = {} THEN 0 ELSE C.table[CHOOSE j \in hit : TRUE].i
TabDel(C, id) == [C EXCEPT !.table = SelectSeq(@, LAMBDA x : x.id # id)]
TabSet(C, id, i) == [TabDel(C, id) EXCEPT !.table = Append(@, [id |-> id, i |-> i])]

\* VoiceClient.send_message: the request is written at once, the future is registered under its id
DoSend(C, a, data, by) ==
    LET i == Len(C.reqs) + 1
        fresh == "#" \o ToString(i)
        \* Session.Create uses the channel URI as its id ("what the viewer does"); ids of outstanding requests must differ
        id == IF a # "Session.Create.1" THEN fresh
              ELSE LET u == Get(data, "URI").s IN
                   IF "IdReuse" \notin Bugs /\ \E j \in DOMAIN C.reqs : C.reqs[j].id = u /\ C.reqs[j].st = "p" THEN fresh ELSE u
        C1 == [C EXCEPT !.reqs = Append(@, [a |-> a, id |-> id, st |-> "p", res |-> <<>>, by |-> by]),
                        !.sent = Append(@, [a |-> a, id |-> id, data |-> Norm(data, FALSE)])]
    IN TabSet(C1, id, i)

\* asyncio.Event.set(): wakes those that wait, in waiting order, once
SetEv(C, e) ==
    LET isSet == IF e = "logged" THEN C.logged ELSE C.ready
        C1 == IF e = "logged" THEN [C EXCEPT !.logged = TRUE] ELSE [C EXCEPT !.ready = TRUE]
        mine(ci) == C.calls[ci].wait.t = "ev" /\ C.calls[ci].wait.e = e
    IN IF isSet THEN C
       ELSE [C1 EXCEPT !.runq = @ \o SelectSeq(C.evq, mine),
                       !.evq = SelectSeq(@, LAMBDA ci : ~mine(ci))]

RemoveAll(C) == [C EXCEPT !.notes = @ \o [j \in DOMAIN C.parts |-> Note("removed", C.parts[j].u, Zero3)],
                          !.parts = <<>>]
PartIdx(C, u) == {j \in DOMAIN C.parts : C.parts[j].u = u}

Stale(C, d) == "StaleSession" \notin Bugs /\ d.h # C.sess

HandleEvent(C0, d) ==
    LET C == [C0 EXCEPT !.seen = Append(@, [a |-> d.a, data |-> Parsed(d)])] IN
    CASE d.a = "AccountLoginStateChangeEvent" ->
            IF d.ss = "OK" /\ d.rc = 1
            THEN SetEv([C EXCEPT !.acct = "a1"], "logged")
            ELSE [C EXCEPT !.logged = FALSE, !.acct = "", !.acctUri = ""]
      [] d.a = "SessionAddedEvent" ->
            \* a new current session: participants of the previous one are not participants of this one
            LET C1 == IF "StaleSession" \in Bugs \/ d.h = C.sess THEN C ELSE [RemoveAll(C) EXCEPT !.ready = FALSE] IN
            [C1 EXCEPT !.sess = d.h, !.grp = "g" \o d.h, !.notes = Append(@, Note("session", d.h, Zero3))]
      [] d.a = "SessionRemovedEvent" ->
            IF Stale(C, d) THEN C
            ELSE [RemoveAll([C EXCEPT !.sess = ""]) EXCEPT !.ready = FALSE]
      [] d.a = "ParticipantAddedEvent" ->
            IF Stale(C, d) THEN C
            ELSE LET p == [u |-> d.u, h |-> d.h, spk |-> "false"]
                     C1 == [C EXCEPT !.parts = IF PartIdx(C, d.u) = {} THEN Append(@, p)
                                               ELSE [j \in DOMAIN @ |-> IF @[j].u = d.u THEN p ELSE @[j]],
                                     !.notes = Append(@, Note("added", d.u, Zero3))]
                 IN IF d.u = C.acctUri THEN SetEv(C1, "ready") ELSE C1
      [] d.a = "ParticipantUpdatedEvent" ->
            IF Stale(C, d) \/ PartIdx(C, d.u) = {} THEN C
            ELSE [C EXCEPT !.parts = [j \in DOMAIN @ |-> IF @[j].u = d.u THEN [u |-> d.u, h |-> d.h, spk |-> "true"] ELSE @[j]],
                           !.notes = Append(@, Note("updated", d.u, Zero3))]
      [] d.a = "ParticipantRemovedEvent" ->
            IF Stale(C, d) \/ PartIdx(C, d.u) = {} THEN C
            ELSE [C EXCEPT !.parts = SelectSeq(@, LAMBDA p : p.u # d.u),
                           !.notes = Append(@, Note("removed", d.u, Zero3))]

\* one document out of the poll loop
HandleDoc(C0, n) ==
    LET d == docs'[n]
        C == [C0 EXCEPT !.nproc = @ + 1, !.proc = Append(@, n)] IN
    CASE d.t = "Junk" -> IF "PollDies" \in Bugs THEN [C EXCEPT !.alive = FALSE] ELSE C
      [] d.t = "Request" -> C
      [] d.t = "Event" -> HandleEvent(C, d)
      [] d.t = "Response" ->
            LET i == TabGet(C, d.id) IN
            IF i = 0 THEN C                                   \* unknown id, or answered already
            ELSE IF C.reqs[i].st # "p" THEN C                 \* the user cancelled it: nothing to resolve (entry stays)
            ELSE LET waiters == SelectSeq([ci \in DOMAIN C.calls |-> ci],
                                          LAMBDA ci : C.calls[ci].st = "run" /\ C.calls[ci].wait.t = "fut" /\ C.calls[ci].wait.i = i)
                 IN [TabDel(C, d.id) EXCEPT !.reqs[i].st = "d", !.reqs[i].res = Parsed(d), !.runq = @ \o waiters]

IsNL(c) == c.d = 0
\* first position i with buf[i..i+2] newlines, 0 if none
FirstSep(buf) == LET hits == {i \in 1..(Len(buf) - 2) : IsNL(buf[i]) /\ IsNL(buf[i + 1]) /\ IsNL(buf[i + 2])} IN
                 IF hits = {} THEN 0 ELSE CHOOSE i \in hits : \A j \in hits : i <= j
FrameDoc(frame) == LET ds == {frame[i].d : i \in DOMAIN frame} \ {0} IN CHOOSE n \in ds : TRUE

\* _poll_messages: consume every complete document; returns [c, buf]
RECURSIVE Poll(_, _)
Poll(C, buf) ==
    LET i == FirstSep(buf) IN
    IF ~C.alive \/ i = 0 THEN [c |-> C, buf |-> buf]
    ELSE Poll(HandleDoc(C, FrameDoc(SubSeq(buf, 1, i - 1))), SubSeq(buf, i + 3, Len(buf)))

(***************************** coroutines **********************************)
WaitFut(C, ci, next) == [C EXCEPT !.calls[ci].wait = [t |-> "fut", i |-> Len(C.reqs), e |-> ""],
                                  !.calls[ci].stack = <<next>> \o Tail(@)]
WaitEv(C, ci, e, next) == [C EXCEPT !.calls[ci].wait = [t |-> "ev", i |-> 0, e |-> e],
                                    !.calls[ci].stack = <<next>> \o Tail(@), !.evq = Append(@, ci)]
Goto(C, ci, next) == [C EXCEPT !.calls[ci].stack = <<next>> \o Tail(@)]
Push(C, ci, next, sub) == [C EXCEPT !.calls[ci].stack = <<sub, next>> \o Tail(@)]
Pop(C, ci) == LET st == Tail(C.calls[ci].stack) IN
              IF st = <<>> THEN [C EXCEPT !.calls[ci].stack = <<>>, !.calls[ci].st = "done", !.calls[ci].wait = NoWait]
              ELSE [C EXCEPT !.calls[ci].stack = st]

GridOf(ch) == IF ch = "c1" THEN <<1, 2>> ELSE <<2, 1>>

\* run call ci from the label on top of its stack up to its next await that blocks
RECURSIVE Exec(_, _)
Exec(C, ci) ==
    LET c == C.calls[ci] IN
    IF c.st # "run" THEN C ELSE
    LET pc == Head(c.stack) IN
    CASE pc = "leave.begin" ->
            WaitFut(DoSend(C, "SessionGroup.Terminate.1", <<SN("SessionGroupHandle", C.grp)>>, ci), ci, "leave.end")
      [] pc = "leave.end" ->
            Exec(Pop([RemoveAll([C EXCEPT !.ready = FALSE]) EXCEPT !.sess = "", !.grp = "", !.ref = <<0, 0>>, !.uri = ""], ci), ci)
      [] pc = "logout.begin" ->
            IF C.sess # "" THEN Exec(Push(C, ci, "logout.acct", "leave.begin"), ci) ELSE Exec(Goto(C, ci, "logout.acct"), ci)
      [] pc = "logout.acct" ->
            IF C.acct # ""
            THEN WaitFut(DoSend(C, "Account.Logout.1", <<S("AccountHandle", C.acct)>>, ci), ci, "logout.end")
            ELSE Exec(Pop(C, ci), ci)
      [] pc = "logout.end" ->
            Exec(Pop([C EXCEPT !.acct = "", !.acctUri = "", !.logged = FALSE], ci), ci)
      [] pc = "login.begin" ->
            IF C.acct # "" THEN Exec(Push(C, ci, "login.send", "logout.begin"), ci) ELSE Exec(Goto(C, ci, "login.send"), ci)
      [] pc = "login.send" ->
            WaitFut(DoSend(C, LoginA, <<S("AccountName", "user"), S("AccountPassword", "pw")>>, ci), ci, "login.resp")
      [] pc = "login.resp" ->
            LET res == C.reqs[c.wait.i].res IN
            IF Get(res, "ReturnCode").n # 0
            THEN [C EXCEPT !.calls[ci].st = "raise", !.calls[ci].wait = NoWait]
            ELSE LET C1 == [C EXCEPT !.acctUri = Get(Get(res, "Results").kids, "Uri").s, !.calls[ci].ret = res] IN
                 IF C1.logged THEN Exec(Goto(C1, ci, "login.done"), ci) ELSE WaitEv(C1, ci, "logged", "login.done")
      [] pc = "login.done" -> Exec(Pop(C, ci), ci)
      [] pc = "join.begin" ->
            IF C.sess # "" THEN Exec(Push(C, ci, "join.create", "leave.begin"), ci) ELSE Exec(Goto(C, ci, "join.create"), ci)
      [] pc = "join.create" ->
            LET C1 == [C EXCEPT !.ref = GridOf(c.arg), !.uri = c.arg]
                C2 == [C1 EXCEPT !.notes = Append(@, Note("chan", "", RegionPos(C1)))] IN
            WaitFut(DoSend(C2, "Session.Create.1", <<SN("AccountHandle", C.acct), S("URI", c.arg)>>, ci), ci, "join.wait")
      [] pc = "join.wait" ->
            IF C.ready THEN Exec(Pop(C, ci), ci) ELSE WaitEv(C, ci, "ready", "join.done")
      [] pc = "join.done" -> Exec(Pop(C, ci), ci)

RECURSIVE RunCalls(_)
RunCalls(C) == IF C.runq = <<>> THEN C
               ELSE RunCalls(Exec([C EXCEPT !.runq = Tail(@)], Head(C.runq)))

(***************************** actions *************************************)
Strip(C) == [C EXCEPT !.sent = <<>>, !.notes = <<>>, !.seen = <<>>, !.proc = <<>>]
Done(C) == /\ cl' = Strip(C)
           /\ out' = [sent |-> C.sent, notes |-> C.notes, seen |-> C.seen, proc |-> C.proc]

Init == /\ mode \in Modes
        /\ cl = InitClient /\ wire = <<>> /\ rbuf = <<>> /\ docs = <<>> /\ eof = FALSE /\ ncancel = 0
        /\ out = [sent |-> <<>>, notes |-> <<>>, seen |-> <<>>, proc |-> <<>>]

\* the user keeps using the client (the pinned tree accepts requests on a connection that has ended: "Outlive")
Usable == ~cl.closed /\ ("Outlive" \in Bugs \/ ~eof)
NDirect == Cardinality({i \in DOMAIN cl.reqs : cl.reqs[i].by = 0})

\* user: future = client.send_message(a, data)
Send == /\ Usable /\ "send" \in Direct /\ NDirect < MaxReqs
        /\ Done(DoSend(cl, "Aux.SetCaptureDevice.1", <<S("CaptureDeviceSpecifier", "mic"), I("Gain", 7), D("Opts", <<>>)>>, 0))
        /\ UNCHANGED <<wire, rbuf, docs, eof, ncancel>>

Positions == {<<1, 2, 3>>}
\* user: future = client.set_region_3d_pos(p)
SetPos(p) == /\ Usable /\ "pos" \in Direct /\ NDirect < MaxReqs
             /\ LET g == RegionToGlobal(p, cl.ref)
                    C1 == DoSend([cl EXCEPT !.pos = g], "Session.Set3DPosition.1",
                                 <<SN("SessionHandle", cl.sess),
                                   D("SpeakerPosition", <<D("Position", <<I("X", g[1]), I("Y", g[2]), I("Z", g[3])>>)>>)>>, 0)
                IN Done([C1 EXCEPT !.notes = Append(@, Note("chan", "", RegionPos(C1)))])
             /\ UNCHANGED <<wire, rbuf, docs, eof, ncancel>>

\* user: the future of direct request i is cancelled (e.g. asyncio.wait_for timed out)
Cancel(i) == /\ Usable /\ ncancel < MaxCancel
             /\ i \in DOMAIN cl.reqs /\ cl.reqs[i].by = 0 /\ cl.reqs[i].st = "p"
             /\ ncancel' = ncancel + 1
             /\ Done([cl EXCEPT !.reqs[i].st = "x"])
             /\ UNCHANGED <<wire, rbuf, docs, eof>>

StartLabel(k) == CASE k = "login" -> "login.begin" [] k = "logout" -> "logout.begin"
                   [] k = "join" -> "join.begin" [] k = "leave" -> "leave.begin"
\* user: create_task(client.login(..) / logout() / join_session(ch, handle) / leave_session())
Call(k, arg) ==
    /\ Usable /\ Len(cl.calls) < MaxCalls /\ k \in CallKinds
    /\ (k = "join") = (arg # "")
    /\ LET ci == Len(cl.calls) + 1
           C1 == [cl EXCEPT !.calls = Append(@, [k |-> k, arg |-> arg, stack |-> <<StartLabel(k)>>, st |-> "run",
                                                 wait |-> NoWait, ret |-> <<>>])]
       IN Done(Exec(C1, ci))
    /\ UNCHANGED <<wire, rbuf, docs, eof, ncancel>>

\* user: client.close()
Close == /\ ~cl.closed /\ "close" \in Ends
         /\ LET C1 == [cl EXCEPT !.closed = TRUE, !.alive = FALSE] IN
            Done(IF "Outlive" \in Bugs THEN C1
                 ELSE [C1 EXCEPT !.reqs = [i \in DOMAIN @ |-> IF @[i].st = "p" THEN [@[i] EXCEPT !.st = "x"] ELSE @[i]],
                                 !.calls = [i \in DOMAIN @ |-> IF @[i].st = "run" THEN [@[i] EXCEPT !.st = "raise"] ELSE @[i]]])
         /\ UNCHANGED <<wire, rbuf, docs, eof, ncancel>>

\* the documents the daemon may emit now
KnownIds == {cl.reqs[i].id : i \in DOMAIN cl.reqs}
PendingIds == {cl.reqs[i].id : i \in {j \in DOMAIN cl.reqs : cl.reqs[j].st = "p"}}
ActionOf(id) == IF id \in KnownIds
                THEN cl.reqs[CHOOSE i \in DOMAIN cl.reqs : cl.reqs[i].id = id /\ \A j \in DOMAIN cl.reqs : cl.reqs[j].id = id => j <= i].a
                ELSE "Aux.X.1"
DocsOf(a) == {docs[i] : i \in {j \in DOMAIN docs : docs[j].a = a}}
\* the daemon numbers its sessions; events only ever name a session it has announced, and updates / removals a
\* participant it has announced for that session
NextHandle == "s" \o ToString(Cardinality({j \in DOMAIN docs : docs[j].a = "SessionAddedEvent"}) + 1)
AddedHandles == {d.h : d \in DocsOf("SessionAddedEvent")}
AddedUris(h) == {d.u : d \in {x \in DocsOf("ParticipantAddedEvent") : x.h = h}}
Ev(a, h, u, rc, ss) == Doc("Event", a, "", h, u, rc, ss, "")
DocChoices ==
    UNION {
      IF "resp" \in Kinds THEN {Doc("Response", ActionOf(id), id, "", "", 0, "", "") : id \in PendingIds} ELSE {},
      IF "fail" \in Kinds THEN {d \in {Doc("Response", ActionOf(id), id, "", "", 1, "", "") : id \in PendingIds} : d.a = LoginA} ELSE {},
      IF "dup" \in Kinds THEN {Doc("Response", ActionOf(id), id, "", "", 0, "", "") : id \in KnownIds \ PendingIds} ELSE {},
      IF "zz" \in Kinds THEN {Doc("Response", "Aux.X.1", "zz", "", "", 0, "", "")} ELSE {},
      IF "login" \in Kinds THEN {Ev("AccountLoginStateChangeEvent", "", "", 1, "OK"), Ev("AccountLoginStateChangeEvent", "", "", 0, "OK")} ELSE {},
      IF "loginx" \in Kinds THEN {Ev("AccountLoginStateChangeEvent", "", "", 1, "Err")} ELSE {},
      IF "sadd" \in Kinds /\ Cardinality(AddedHandles) < MaxSessions THEN {Ev("SessionAddedEvent", NextHandle, "", 0, "")} ELSE {},
      IF "srem" \in Kinds THEN {Ev("SessionRemovedEvent", h, "", 0, "") : h \in AddedHandles} ELSE {},
      IF "padd" \in Kinds THEN {Ev("ParticipantAddedEvent", h, u, 0, "") : h \in AddedHandles, u \in Uris} ELSE {},
      IF "pupd" \in Kinds THEN UNION {{Ev("ParticipantUpdatedEvent", h, u, 0, "") : u \in AddedUris(h)} : h \in AddedHandles} ELSE {},
      IF "prem" \in Kinds THEN UNION {{Ev("ParticipantRemovedEvent", h, u, 0, "") : u \in AddedUris(h)} : h \in AddedHandles} ELSE {},
      IF "junk" \in Kinds THEN {Doc("Junk", "", "", "", "", 0, "", "")} ELSE {},
      IF "req" \in Kinds THEN {Doc("Request", "Aux.X.1", "q1", "", "", 0, "", "")} ELSE {}}

\* what arrives is consumed, then the woken coroutines run
Deliver(C, buf) == LET r == Poll(C, buf) IN
                   /\ rbuf' = r.buf
                   /\ Done(RunCalls(r.c))

\* daemon: writes document d (rendering fl)
Daemon(d, fl) ==
    /\ ~eof /\ Len(docs) < MaxDocs
    /\ d \in DocChoices /\ fl \in Flavours
    /\ docs' = Append(docs, [d EXCEPT !.fl = fl])
    /\ IF Atomic
       THEN wire' = <<>> /\ Deliver(cl, rbuf \o wire \o Render(Len(docs) + 1, fl))
       ELSE wire' = wire \o Render(Len(docs) + 1, fl) /\ rbuf' = rbuf /\ Done(cl)
    /\ UNCHANGED <<eof, ncancel>>

\* the next k cells of the stream arrive in one read (0: all)
Feed(k) ==
    /\ ~Atomic /\ ~eof /\ wire # <<>> /\ k \in Chunks /\ k <= Len(wire)
    /\ LET m == IF k = 0 THEN Len(wire) ELSE k IN
       /\ wire' = SubSeq(wire, m + 1, Len(wire))
       /\ docs' = docs
       /\ Deliver(cl, rbuf \o SubSeq(wire, 1, m))
    /\ UNCHANGED <<eof, ncancel>>

\* the daemon's side of the connection is closed; what was in flight is lost
Eof == /\ ~eof /\ "eof" \in Ends
       /\ eof' = TRUE /\ wire' = <<>>
       /\ LET C1 == [cl EXCEPT !.alive = FALSE] IN
          Done(IF "Outlive" \in Bugs THEN C1
               ELSE [C1 EXCEPT !.reqs = [i \in DOMAIN @ |-> IF @[i].st = "p" THEN [@[i] EXCEPT !.st = "x"] ELSE @[i]],
                               !.calls = [i \in DOMAIN @ |-> IF @[i].st = "run" THEN [@[i] EXCEPT !.st = "raise"] ELSE @[i]]])
       /\ UNCHANGED <<rbuf, docs, ncancel>>

Next == /\ mode' = mode
        /\ \/ Send
           \/ \E p \in Positions : SetPos(p)
           \/ \E i \in 1..(MaxReqs + 3 * MaxCalls) : Cancel(i)
           \/ \E k \in CallKinds, a \in Channels \cup {""} : Call(k, a)
           \/ Close \/ Eof
           \/ \E d \in DocChoices, fl \in Flavours : Daemon(d, fl)
           \/ \E k \in Chunks : Feed(k)
Spec == Init /\ [][Next]_vars

(***************************** properties **********************************)
\* framing: while the poll loop runs, every document whose terminator has arrived has been handled, in the order
\* written, and nothing else has: handled + still on the way = emitted
OnTheWay == {c.d : c \in {(wire \o rbuf)[i] : i \in DOMAIN (wire \o rbuf)}} \ {0}
FramingLossless == (cl.alive /\ ~eof) => (FirstSep(rbuf) = 0 /\ cl.nproc + Cardinality(OnTheWay) = Len(docs))
InOrder == [][out'.proc = [j \in 1..(cl'.nproc - cl.nproc) |-> cl.nproc + j]]_vars

\* a future is resolved at most once, and only by a Response handled in that step that carries its id; its result
\* is that Response's data
Final == [][\A i \in DOMAIN cl.reqs : cl.reqs[i].st # "p" => cl'.reqs[i] = cl.reqs[i]]_vars
ResolvedByItsResponse ==
    [][\A i \in DOMAIN cl.reqs : (cl.reqs[i].st = "p" /\ cl'.reqs[i].st = "d") =>
          \E j \in DOMAIN out'.proc : LET d == docs'[out'.proc[j]] IN
                d.t = "Response" /\ d.id = cl.reqs[i].id /\ cl'.reqs[i].res = Parsed(d)]_vars
\* a Response resolves at most one future
AtMostOnePerResponse ==
    [][Cardinality({i \in DOMAIN cl.reqs : cl.reqs[i].st = "p" /\ cl'.reqs[i].st = "d"})
          <= Cardinality({j \in DOMAIN out'.proc : docs'[out'.proc[j]].t = "Response"})]_vars
\* every outstanding future can still be resolved: it is registered under its id
NoOrphan == "IdReuse" \in Bugs \/ \A i \in DOMAIN cl.reqs : cl.reqs[i].st = "p" => TabGet(cl, cl.reqs[i].id) = i
\* participants belong to the current session; without a session there are none
ParticipantsScoped == "StaleSession" \in Bugs \/
                      (/\ \A j \in DOMAIN cl.parts : cl.parts[j].h = cl.sess
                       /\ cl.sess = "" => cl.parts = <<>>)
\* whenever the current session goes away the participants go with it and the session is not ready any more
ClearedWithSession == [][(cl.sess # "" /\ cl'.sess = "") => (cl'.parts = <<>> /\ ~cl'.ready)]_vars
NoDuplicateParticipants == \A i, j \in DOMAIN cl.parts : cl.parts[i].u = cl.parts[j].u => i = j
\* logged in means there is an account handle; the flag only moves with a state-change event or the end of logout()
LoggedInHasAccount == cl.logged => cl.acct # ""
LoginFollowsEvents ==
    [][cl'.logged # cl.logged =>
          \/ \E j \in DOMAIN out'.proc : docs'[out'.proc[j]].a = "AccountLoginStateChangeEvent"
          \/ \E ci \in DOMAIN cl.calls : cl.calls[ci].st = "run" /\ cl.calls[ci].k \in {"logout", "login"}]_vars
\* nothing is left waiting on a connection that is gone
NothingOutlivesConnection ==
    "Outlive" \in Bugs \/ ((eof \/ cl.closed) => /\ \A i \in DOMAIN cl.reqs : cl.reqs[i].st # "p"
                                                  /\ \A ci \in DOMAIN cl.calls : cl.calls[ci].st # "run")
\* a dead poll loop only comes from EOF / close
PollSurvives == "PollDies" \in Bugs \/ (~cl.alive => (eof \/ cl.closed))
\* the reference region is the joined channel's, positions convert back and forth
RefFollowsChannel == cl.uri = "" => cl.ref = <<0, 0>>

Obs == [futs |-> [i \in DOMAIN cl.reqs |-> [by |-> cl.reqs[i].by, st |-> cl.reqs[i].st, res |-> cl.reqs[i].res]],
        calls |-> [ci \in DOMAIN cl.calls |-> [k |-> cl.calls[ci].k, st |-> cl.calls[ci].st, ret |-> cl.calls[ci].ret]],
        parts |-> cl.parts, logged |-> cl.logged, ready |-> cl.ready, uri |-> cl.uri,
        rpos |-> RegionPos(cl), gpos |-> cl.pos]
=============================================================================
