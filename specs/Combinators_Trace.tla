--------------------------- MODULE Combinators_Trace ---------------------------
(* B2 / B3 code->spec: cases recorded from the real combinators (tree reflected from the real *)
(* object graph, value, byte order, written bytes or refusal, what each read returned and    *)
(* where the reader stood, what calc_size() said); TLC recomputes Enc / Dec / Size.          *)
EXTENDS Combinators, Json, IOUtils, TLCExt
TraceLog == ndJsonDeserialize(IOEnv.TRACE_FILE)
VARIABLES l, tid
Chk(name, cond) == IF cond THEN TRUE ELSE PrintT(ToJson([fail |-> name, line |-> l, tid |-> tid, id |-> TraceLog[l].id]))
IsEvent(e) == l <= Len(TraceLog) /\ TraceLog[l].ev = e /\ l' = l + 1
Rec == TraceLog[l]
TInit == l = 1 /\ tid = -1
TReset == IsEvent("Reset") /\ tid' = Rec.tid

\* {"ev":"RT","id":n,"t":tree,"v":value,"e":"<"|">","size":n|-1 (None)|-2 (raised),
\*  "writes":[{"pod":bool,"st":"ok"|"raise","b":[..]}],
\*  "reads":[{"pod":bool,"tail":[..],"st":"ok"|"raise","v":value,"pos":n,"left":n}]}
ReadOK(r, rd) ==
  LET x == Dec(Rec.t, r.b \o rd.tail, Rec.e)
  IN /\ Chk("RT.model-law: Dec(Enc(v) o tail) = (v, tail)", x = Got(Rec.v, rd.tail))
     /\ Chk("RT.read raised on what was written", rd.st = "ok")
     /\ rd.st = "ok" =>
          /\ Chk("RT.read(write(v)) = v", rd.v = Rec.v)
          /\ Chk("RT.reader consumed exactly the bytes written", rd.pos = Len(r.b) /\ rd.left = Len(rd.tail))
TRT == /\ IsEvent("RT") /\ UNCHANGED tid
       /\ LET r == Enc(Rec.t, Rec.v, Rec.e) IN
          /\ Chk("RT.size query raised", Rec.size # -2)
          /\ IF r.st = "bad" THEN PrintT(ToJson([skip |-> "value outside the domain", line |-> l, tid |-> tid, id |-> Rec.id]))
             ELSE IF r.st = "rej"
             THEN \A j \in 1..Len(Rec.writes) :
                    Chk("RT.value outside a length/range limit was written", Rec.writes[j].st = "raise")
             ELSE /\ PrintT(ToJson([domain |-> 1, sd |-> SD(Rec.t), tid |-> tid, id |-> Rec.id]))
                  /\ \A j \in 1..Len(Rec.writes) :
                       /\ Chk("RT.write refused a value of the domain", Rec.writes[j].st = "ok")
                       /\ Rec.writes[j].st = "ok" => Chk("RT.written bytes = Enc(v)", Rec.writes[j].b = r.b)
                  /\ Chk("RT.reported size = size of the encoding", Rec.size >= 0 => Len(r.b) = Rec.size)
                  /\ Chk("RT.model-law: Size", Size(Rec.t) # -1 => Len(r.b) = Size(Rec.t))
                  /\ \A j \in 1..Len(Rec.reads) :
                       (SD(Rec.t) \/ Rec.reads[j].tail = <<>>) => ReadOK(r, Rec.reads[j])
TNext == TReset \/ TRT
TraceSpec == TInit /\ [][TNext]_<<l, tid>>
TraceAccepted == PrintT("TRACE_REACHED " \o ToString(TLCGet("stats").diameter - 1) \o " OF " \o ToString(Len(TraceLog)))
=============================================================================
