---- MODULE Subfield_MBT ----
(* Export wrappers.  MASpec: one table row per (adapter, wire integer) state of Part A   *)
(* (B3 spec->code).  MBSpec: the labelled transition system of the Block machine, one    *)
(* JSON line per edge with the observation of the target state (B1).                     *)
EXTENDS Subfield
MAInit == AInit /\ PrintT(ToJson([row |-> ARow]))
MASpec == MAInit /\ [][ANext]_vars

ObsOf(r, c, v) == [raw |-> r, answer |-> (IF c THEN v ELSE r)]
MBInit == BInit /\ PrintT(ToJson([init |-> BSt, obs |-> ObsOf(raw, cached, cval)]))
Edge(act) == PrintT(ToJson([src |-> BSt, act |-> act,
                            dst |-> [raw |-> raw', cached |-> cached', cval |-> cval'],
                            obs |-> ObsOf(raw', cached', cval')]))
MDeser      == Deser /\ Edge([n |-> "Deser"])
MInvalidate == Invalidate /\ Edge([n |-> "Invalidate"])
MSetRaw(r)  == SetRaw(r) /\ Edge([n |-> "SetRaw", r |-> r])
MSerVar(r)  == SerVar(r) /\ Edge([n |-> "SerVar", r |-> r])
MBNext == MDeser \/ MInvalidate \/ \E r \in Raws : MSetRaw(r) \/ MSerVar(r)
MBSpec == MBInit /\ [][MBNext]_vars
====
