---------------------------- MODULE PassThrough_MC ----------------------------
(* Bounded model of C02: EVERY byte string  flags . 00 00 00 01 . off . tail  with tail   *)
(* over Alpha up to MaxTail bytes whose header is acceptable for a template of the         *)
(* miniature universe (this includes truncated, extended, count-/length-mutated, trailing- *)
(* block-less and non-canonically zero-coded datagrams), both parsing modes, every order   *)
(* of {inspect header, inspect body, re-encode} up to the depth bound, ending in a         *)
(* re-encoding.  With MBT = TRUE every maximal history is printed for replay (B1/B2).      *)
EXTENDS PassThrough, LLUDPMini, Json
CONSTANTS Alpha, MaxTail, FlagSet, Offs, DepthDeferred, DepthEager, MBT,
          RunLens   \* zero-run lengths of the additional long datagrams (255 boundaries of zero-coding)

RECURSIVE SeqsOfLen(_, _)
SeqsOfLen(S, n) == IF n = 0 THEN {<<>>} ELSE {<<x>> \o r : x \in S, r \in SeqsOfLen(S, n - 1)}
Tails == UNION {SeqsOfLen(Alpha, n) : n \in 1..MaxTail}
\* with the ACK flag the tail is additionally followed by a well-formed trailer of one / two IDs
\* (tails alone are too short to hold a body and a non-empty trailer)
Trailers == {<<>>, <<0, 0, 0, 1, 1>>, <<255, 0, 1, 0, 0, 0, 0, 1, 2>>}
Dgrams == {x \in {<<f, 0, 0, 0, 1, o>> \o t \o a : f \in FlagSet, o \in Offs, t \in Tails, a \in Trailers} :
             HasBit(x[1], ABit) \/ Len(x) <= 6 + MaxTail}
\* beyond the short strings: canonically zero-coded TstLow datagrams whose body holds a zero run of each
\* length in RunLens at the start / in the middle / at the end (p = 0 joins the run to the zeros before it)
RunDgrams == IF 128 \notin FlagSet THEN {}
             ELSE {Datagram(U[3], [flags |-> 128, pid |-> <<0, 1>>, extra |-> <<>>, acks |-> <<>>,
                                   blocks |-> << <<<<[k |-> "int", neg |-> 0, mag |-> <<p>>]>>, <<[k |-> "int", neg |-> 0, mag |-> <<p>>]>>>>,
                                                 << <<[k |-> "raw", b |-> l \o Zeros(n) \o r]>> >> >>]) :
                      p \in {258}, l \in {<<>>, <<1>>}, r \in {<<>>, <<1>>}, n \in RunLens}
Accepted == {x \in Dgrams : Select(x) # 0} \cup RunDgrams

\* what kind of datagram this is (exported so that the harness can show that no clause of the property
\* is checked vacuously: every class must be inhabited)
Class(t, dg) == LET p == Parse(t, dg)
                IN [status |-> p.status, z |-> HasBit(dg[1], ZBit), canon |-> CanonicalZ(dg),
                    rest |-> (p.status = "ok" /\ p.rest # <<>>),
                    partial |-> (p.status = "ok" /\ Len(p.blocks) < Len(t.blocks)),
                    acks |-> Len(Hdr(dg).acks)]
Emit(r) == IF MBT THEN PrintT(ToJson(r)) ELSE TRUE
Init == \E dg \in Accepted, md \in {"eager", "deferred"}, acc \in BOOLEAN :
          /\ ReceiveOK(U[Select(dg)], dg, md, acc)
          /\ T = U[Select(dg)] /\ d = dg /\ mode = md
          /\ st = IF ~acc THEN "refused" ELSE IF md = "eager" THEN "parsed" ELSE "raw"
          /\ hist = <<>> /\ out = [op |-> "recv"]
          /\ Emit([init |-> dg, t |-> U[Select(dg)].name, mode |-> md, st |-> st, cls |-> Class(U[Select(dg)], dg)])
Depth == IF mode = "eager" THEN DepthEager ELSE DepthDeferred
Step(op) == /\ Len(hist) < Depth /\ (Len(hist) = Depth - 1 => op = "R")
            /\ hist' = Append(hist, op)
            /\ (Len(hist') = Depth => Emit([hist |-> hist', d |-> d, t |-> T.name, mode |-> mode]))
Next == /\ Live
        /\ \/ Step("H") /\ InspectHeader
           \/ \E res \in {"ok", "raise"} : Step("B") /\ BodyOK(res) /\ InspectBody(res)
           \/ Step("R") /\ Reencode(DesignOut.res, DesignOut.o)
Spec == Init /\ [][Next]_vars
ASSUME Emit([universe |-> U])

\* the format law behind the design, for every accepted datagram
Reassembles == hist = <<>> => ReassembleLaw(T, d)
\* every accepted datagram selects the template the header parser of LLUDPFrame finds
Selected == hist = <<>> => HeaderFor(T, d)
=============================================================================
