---- MODULE InjectionTracker_Trace ----
(* Binding B2: validates recorded executions of the real InjectionTracker (random walks, *)
(* production-sized windows) against the Spec layer.  One file holds many traces, each  *)
(* introduced by a Reset record.  Checks that fail are *named* (TRACE_FAIL lines) and   *)
(* the trace continues from the specification's own state, so verdicts are total.       *)
EXTENDS InjectionTracker, Integers, Json, IOUtils, TLCExt
TraceLog == ndJsonDeserialize(IOEnv.TRACE_FILE)
VARIABLES l, tid
tvars == <<vars, l, tid>>

Chk(name, cond) == IF cond THEN TRUE ELSE PrintT(ToJson([fail |-> name, line |-> l, tid |-> tid]))
Env(name, cond) == Assert(cond, <<"driver violated environment assumption", name, l>>)
IsEvent(e) == l <= Len(TraceLog) /\ TraceLog[l].ev = e /\ l' = l + 1
Rec == TraceLog[l]

TInit == Init /\ l = 1 /\ tid = -1
TReset == /\ IsEvent("Reset")
          /\ base' = 0 /\ inj' = <<>> /\ injBase' = 0 /\ allInj' = {} /\ sent' = {} /\ fwd' = {}
          /\ tid' = Rec.tid
\* {"ev":"Send","k":k,"w":w}: w is what get_effective_id returned
TSend == /\ IsEvent("Send")
         /\ Env("CanSend", CanSend(Rec.k))
         /\ Send(Rec.k)
         /\ Chk("Send.w=Ideal", Rec.w = Ideal(Rec.k))
         /\ Chk("Send.stable", Rec.k \in sent => Rec.w = FwdOf(Rec.k))
         /\ UNCHANGED tid
\* {"ev":"Inject","id":n}
TInject == /\ IsEvent("Inject")
           /\ Inject
           /\ Chk("Inject.id fresh", Rec.id = base + 1 /\ \A k \in sent : FwdOf(k) < Rec.id)
           /\ UNCHANGED tid
\* {"ev":"Q","eff":[[k,w|-1]..],"orig":[[w,k|-1]..],"inj":[[w,0|1]..]}: pure queries, -1 = raised
TQuery == /\ IsEvent("Q")
          /\ \A p \in Range(Rec.eff) : (CanSend(p[1]) \/ p[1] \in Live) => Chk("Q.eff", p[2] = Ideal(p[1]))
          /\ \A p \in Range(Rec.orig) : (Above(p[1]) /\ p[1] >= MinEp /\ p[1] \notin allInj) => Chk("Q.orig", p[2] = IdealOrig(p[1]))
          /\ \A p \in Range(Rec.inj) : (Above(p[1]) /\ p[1] >= MinEp) => Chk("Q.inj", (p[2] = 1) <=> (p[1] \in allInj))
          /\ UNCHANGED <<vars, tid>>
TNext == TReset \/ TSend \/ TInject \/ TQuery
TraceSpec == TInit /\ [][TNext]_tvars
TraceAccepted == PrintT("TRACE_REACHED " \o ToString(TLCGet("stats").diameter - 1) \o " OF " \o ToString(Len(TraceLog)))
====
