---- MODULE UdpProxy_MBT ----
(* Binding B1: prints the labelled transition system of the bounded model (one JSON line per  *)
(* edge, with the required transport output of the edge), and the concretisation table: the   *)
(* addresses of viewers / simulators in each layout together with the SOCKS5 UDP header bytes *)
(* (SocksWrap of the empty payload) the harness must use to build viewer datagrams and must   *)
(* find in front of every datagram handed to a viewer.  Extends UdpProxy_MC so that the same  *)
(* run also checks the framing law (ASSUME) next to the invariants / properties of the cfg.   *)
EXTENDS UdpProxy_MC, Json

\* layout 1: everything on one machine (direction can only be told by the learned far
\* addresses); layout 2: viewers, simulators and strangers on different IPs.
A(ip, port) == [ip |-> ip, port |-> port]
Layouts == <<
  [clients |-> <<A(<<127, 0, 0, 1>>, 50001), A(<<127, 0, 0, 1>>, 50002)>>,
   sims |-> <<A(<<127, 0, 0, 1>>, 13001), A(<<127, 0, 0, 1>>, 13002), A(<<127, 0, 0, 1>>, 13003)>>,
   unk |-> A(<<127, 0, 0, 1>>, 19999),
   dom |-> [name |-> <<115, 105, 109, 46, 101, 120, 97, 109, 112, 108, 101>>, port |-> 13001]],
  [clients |-> <<A(<<192, 168, 0, 11>>, 50001), A(<<192, 168, 0, 12>>, 513)>>,
   sims |-> <<A(<<10, 0, 1, 1>>, 13001), A(<<10, 0, 2, 255>>, 256), A(<<10, 0, 2, 255>>, 65535)>>,
   unk |-> A(<<172, 16, 0, 1>>, 9),
   dom |-> [name |-> <<49, 48, 46, 48, 46, 49, 46, 120>>, port |-> 13001]]
>>
Hdr(e) == SocksWrap(e.ip, e.port, <<>>)
Table == [i \in DOMAIN Layouts |->
            [clients |-> Layouts[i].clients, sims |-> Layouts[i].sims, unk |-> Layouts[i].unk,
             clienthdr |-> [b \in DOMAIN Layouts[i].clients |-> Hdr(Layouts[i].clients[b])],
             simhdr |-> [h \in DOMAIN Layouts[i].sims |-> Hdr(Layouts[i].sims[h])],
             unkhdr |-> Hdr(Layouts[i].unk),
             domhdr |-> SocksWrapDom(Layouts[i].dom.name, Layouts[i].dom.port, <<>>)]]

St == [ctl |-> ctl, st |-> st, regs |-> regs, sess |-> sess, circ |-> circ, hnd |-> hnd]
MInit == Init /\ PrintT(ToJson([table |-> Table])) /\ PrintT(ToJson([init |-> St, obs |-> out]))
MNext == Next /\ PrintT(ToJson([src |-> St, act |-> ev', dst |-> St', obs |-> out']))
MSpec == MInit /\ [][MNext]_vars
====
