---------------------------- MODULE Combinators_MC ----------------------------
(***************************************************************************)
(* Bounded model of the combinator algebra: every spec tree up to a depth  *)
(* bound built from a grammar of leaves and one-hole constructors, with a  *)
(* derived list of candidate values per tree (domain values, boundary      *)
(* values and values just outside a length / range limit).  One state per  *)
(* tree; the invariants are the laws of C08 quantified over the tree's     *)
(* candidate values, both byte orders and a set of trailing byte strings.  *)
(* Every state prints one table record (tree, rows of value / status /     *)
(* bytes) that the harness replays into the real combinators (B3).         *)
(***************************************************************************)
EXTENDS Combinators, Json

CONSTANTS Tops,        \* constructor names used at the top of a tree in this shard ("leaf": bare leaves)
          TopLeaves,   \* leaf names allowed as bare trees / directly under the top constructor when Depth = 1
          InnerLeaves, \* leaf names at the bottom of deeper trees
          InnerCons,   \* constructor names below the top
          Depth,       \* number of constructor levels (0 = leaves only)
          CapIn,       \* candidate values taken from a child
          CapOut       \* candidate values kept per tree

VARIABLE tree

\* --------------------------------------------------------------------- leaves
I(w, s) == [k |-> "int", w |-> w, s |-> s]
U8 == I(1, FALSE)
S8 == I(1, TRUE)
U16 == I(2, FALSE)
S16 == I(2, TRUE)
U32 == I(4, FALSE)
S32 == I(4, TRUE)
U64 == I(8, FALSE)
S64 == I(8, TRUE)
Null == [k |-> "null"]
BitF(p, fs, shift) == [k |-> "bitfield", p |-> p, fs |-> fs, shift |-> shift]

LeafOf(name) ==
  CASE name = "U8" -> U8 [] name = "S8" -> S8 [] name = "U16" -> U16 [] name = "S16" -> S16
    [] name = "U32" -> U32 [] name = "S32" -> S32 [] name = "U64" -> U64 [] name = "S64" -> S64
    [] name = "F32" -> [k |-> "float", w |-> 4]
    [] name = "F64" -> [k |-> "float", w |-> 8]
    [] name = "UUID" -> [k |-> "uuid"]
    [] name = "Vec3" -> [k |-> "coord", n |-> 3, w |-> 4]
    [] name = "Null" -> Null
    [] name = "LLSD" -> [k |-> "llsd"]
    [] name = "BT4" -> [k |-> "bytesterm", terms |-> <<32, 9, 13, 10>>, wt |-> TRUE, eof |-> TRUE]
    [] name = "BT2r" -> [k |-> "bytesterm", terms |-> <<0, 10>>, wt |-> TRUE, eof |-> FALSE]
    [] name = "CS3" -> [k |-> "cstr", terms |-> <<0, 10, 59>>, wt |-> TRUE, eof |-> TRUE]
    [] name = "BA8" -> [k |-> "bytearray", p |-> U8]
    [] name = "BAS8" -> [k |-> "bytearray", p |-> S8]
    [] name = "BA16" -> [k |-> "bytearray", p |-> U16]
    [] name = "BA32" -> [k |-> "bytearray", p |-> U32]
    [] name = "BF2" -> [k |-> "bytesfixed", n |-> 2]
    [] name = "BG" -> [k |-> "bytesgreedy"]
    [] name = "BT" -> [k |-> "bytesterm", terms |-> <<0>>, wt |-> TRUE, eof |-> TRUE]
    [] name = "BTs" -> [k |-> "bytesterm", terms |-> <<10, 0>>, wt |-> TRUE, eof |-> FALSE]
    [] name = "BTn" -> [k |-> "bytesterm", terms |-> <<10>>, wt |-> FALSE, eof |-> TRUE]
    [] name = "STR8" -> [k |-> "str", p |-> U8, nt |-> TRUE]
    [] name = "STR16n" -> [k |-> "str", p |-> U16, nt |-> FALSE]
    [] name = "SF3" -> [k |-> "strfixed", n |-> 3]
    [] name = "SF8" -> [k |-> "strfixed", n |-> 8]
    [] name = "SF8" -> [k |-> "strfixed", n |-> 8]
    [] name = "CS" -> [k |-> "cstr", terms |-> <<0>>, wt |-> TRUE, eof |-> TRUE]
    [] name = "CSn" -> [k |-> "cstr", terms |-> <<10>>, wt |-> FALSE, eof |-> TRUE]
    [] name = "BIT8" -> BitF(U8, <<[n |-> "a", bits |-> 3], [n |-> "b", bits |-> 5]>>, TRUE)
    [] name = "BIT16n" -> BitF(U16, <<[n |-> "a", bits |-> 4], [n |-> "b", bits |-> 12]>>, FALSE)
AllLeafNames == {"U8", "S8", "U16", "S16", "U32", "S32", "U64", "S64", "F32", "F64", "UUID", "Vec3", "Null", "LLSD", "BT4", "BT2r", "CS3",
                 "BA8", "BAS8", "BA16", "BA32", "BF2", "BG", "BT", "BTs", "BTn", "STR8", "STR16n", "SF3", "SF8", "CS", "CSn",
                 "BIT8", "BIT16n"}

\* --------------------------------------------------------------- constructors
Coll(m, p, n, c) == [k |-> "coll", m |-> m, p |-> p, n |-> n, c |-> c]
TB(m, p, n, terms, c, ein, ctb) ==
  [k |-> "typedbytes", m |-> m, p |-> p, n |-> n, terms |-> terms, c |-> c, ein |-> ein, ctb |-> ctb]
Tup(cs) == [k |-> "tuple", cs |-> cs]
Tmpl(fs, skip) == [k |-> "template", fs |-> fs, skip |-> skip]
F(n, t) == [n |-> n, t |-> t]
OptFlag(field, mask, c) == [k |-> "optflag", field |-> field, mask |-> mask, c |-> c]
CtxSw(up, field, ch, dflt) == [k |-> "ctxswitch", up |-> up, field |-> field, ch |-> ch, dflt |-> dflt]
K(key, t) == [key |-> key, t |-> t]

\* Sel(up, c): an element whose layout is chosen by the field "sel" `up` frames up (or of the outermost frame)
Sel(up, c) == CtxSw(up, "sel", <<K(0, U8), K(1, c)>>, <<>>)
\* the element X inside a template with a selector, inside a template with a same-named decoy
Decoy(X) == Tmpl(<<F("sel", U8), F("mid", Tmpl(<<F("sel", U8), F("body", X)>>, FALSE))>>, FALSE)

Con(name, c) ==
  CASE name = "CollP" -> Coll("prefix", U8, 0, c)
    [] name = "CollP16" -> Coll("prefix", U16, 0, c)
    [] name = "CollF" -> Coll("fixed", U8, 2, c)
    [] name = "CollG" -> Coll("greedy", U8, 0, c)
    [] name = "OptP" -> [k |-> "optprefix", c |-> c]
    [] name = "IfP" -> [k |-> "ifpresent", c |-> c]
    [] name = "TBP" -> TB("prefix", U8, 0, <<>>, c, FALSE, TRUE)
    [] name = "TBPe" -> TB("prefix", U16, 0, <<>>, c, TRUE, FALSE)
    [] name = "TBF" -> TB("fixed", U8, 2, <<>>, c, FALSE, TRUE)
    [] name = "TBG" -> TB("greedy", U8, 0, <<>>, c, FALSE, TRUE)
    [] name = "TBGe" -> TB("greedy", U8, 0, <<>>, c, TRUE, TRUE)
    [] name = "TBT" -> TB("term", U8, 0, <<0>>, c, FALSE, TRUE)
    [] name = "TBTe" -> TB("term", U8, 0, <<0>>, c, TRUE, TRUE)
    [] name = "TBT2" -> TB("term", U8, 0, <<10, 0>>, c, FALSE, TRUE)
    [] name = "LenSw" -> [k |-> "lenswitch", ch |-> <<K(2, c), K(0, Null), K(5, [k |-> "bytearray", p |-> U32])>>]
    [] name = "LenSwD" -> [k |-> "lenswitch", ch |-> <<K(3, U8), K(-1, c)>>]
    [] name = "EnumSw" -> [k |-> "enumswitch", e |-> U8, ch |-> <<K(0, c), K(1, U16)>>]
    [] name = "FlagSw" -> [k |-> "flagswitch", f |-> U8,
                           ch |-> <<[bit |-> 1, name |-> "A", t |-> c], [bit |-> 4, name |-> "C", t |-> U16]>>]
    [] name = "TupA" -> Tup(<<c, U16>>)
    [] name = "TupB" -> Tup(<<U8, c>>)
    [] name = "Tup2" -> Tup(<<c, c>>)
    [] name = "TmplA" -> Tmpl(<<F("x", c), F("y", U8)>>, FALSE)
    [] name = "TmplFlag" -> Tmpl(<<F("Flags", U8), F("a", OptFlag("Flags", 1, c)), F("b", OptFlag("Flags", 6, U16))>>, FALSE)
    [] name = "TmplSkip" -> Tmpl(<<F("Flags", U8), F("a", OptFlag("Flags", 1, c)),
                                   F("p", [k |-> "optprefix", c |-> U8]), F("z", c)>>, TRUE)
    [] name = "TmplCtx" -> Tmpl(<<F("sel", U8), F("body", CtxSw(0, "sel", <<K(0, c), K(1, U16)>>, <<>>))>>, FALSE)
    [] name = "TmplCtxUp" -> Tmpl(<<F("sel", U8), F("inner", Tup(<<CtxSw(1, "sel", <<K(1, c)>>, <<U8>>), U8>>))>>, FALSE)
    [] name = "Adapt" -> [k |-> "adapter", c |-> c]
    \* context-dependent element under every container kind, inside a template whose ENCLOSING template has a
    \* same-named decoy field: a frame pushed (or not) differently on read and on write picks the wrong option
    [] name = "CtxCollP" -> Decoy(Coll("prefix", U8, 0, Sel(1, c)))
    [] name = "CtxCollF" -> Decoy(Coll("fixed", U8, 2, Sel(1, c)))
    [] name = "CtxCollG" -> Decoy(Coll("greedy", U8, 0, Sel(1, c)))
    [] name = "CtxTup" -> Decoy(Tup(<<Sel(1, c), U8>>))
    [] name = "CtxTmpl" -> Decoy(Tmpl(<<F("x", Sel(1, c))>>, FALSE))
    [] name = "CtxRootG" -> Decoy(Coll("greedy", U8, 0, Sel(-1, c)))
    [] name = "CtxRootTB" -> Decoy(TB("prefix", U8, 0, <<>>, Sel(-1, c), FALSE, TRUE))
    [] name = "CtxOptP" -> Decoy([k |-> "optprefix", c |-> Sel(0, c)])
    [] name = "CtxIfP" -> Decoy([k |-> "ifpresent", c |-> Sel(0, c)])
    [] name = "CtxTBP" -> Decoy(TB("prefix", U16, 0, <<>>, Sel(0, c), FALSE, TRUE))
    [] name = "CtxTBG" -> Decoy(TB("greedy", U8, 0, <<>>, Coll("greedy", U8, 0, Sel(1, c)), TRUE, TRUE))
    [] name = "CtxTBT" -> Decoy(TB("term", U8, 0, <<0>>, Sel(0, c), FALSE, TRUE))
    [] name = "CtxEnum" -> Decoy([k |-> "enumswitch", e |-> U8, ch |-> <<K(0, Sel(0, c)), K(1, U16)>>])
    [] name = "CtxFlag" -> Decoy([k |-> "flagswitch", f |-> U8,
                                  ch |-> <<[bit |-> 1, name |-> "A", t |-> Sel(0, c)], [bit |-> 4, name |-> "C", t |-> U16]>>])
    [] name = "CtxAdapt" -> Decoy([k |-> "adapter", c |-> Sel(0, c)])
    [] name = "CtxOptF" -> Decoy(Tmpl(<<F("Flags", U8), F("a", OptFlag("Flags", 1, Coll("prefix", U8, 0, Sel(2, c))))>>, FALSE))
    \* ill-formed programs: no value is in their domain; Enc must say so and Dec must stay total
    [] name = "CollP32" -> Coll("prefix", U32, 0, c)
    [] name = "MisOpt" -> OptFlag("x", 1, c)
    [] name = "MisTup" -> Tup(<<CtxSw(0, "x", <<K(0, c)>>, <<>>), OptFlag("x", 1, c)>>)
    [] name = "MisSel" -> Tmpl(<<F("sel", c), F("o", OptFlag("sel", 1, U8))>>, FALSE)
    [] name = "MisSel2" -> Tmpl(<<F("sel", c), F("b", CtxSw(0, "sel", <<K(0, U8)>>, <<>>))>>, FALSE)
    [] name = "MisName" -> Tmpl(<<F("sel", U8), F("o", OptFlag("nosuch", 1, c))>>, FALSE)
    [] name = "MisName2" -> Tmpl(<<F("sel", U8), F("b", CtxSw(0, "nosuch", <<K(0, c)>>, <<>>))>>, FALSE)
    [] name = "MisUp" -> Tmpl(<<F("sel", U8), F("b", CtxSw(3, "sel", <<K(0, c)>>, <<>>))>>, FALSE)
    [] name = "MisFlagS" -> [k |-> "flagswitch", f |-> S8, ch |-> <<[bit |-> 1, name |-> "A", t |-> c], [bit |-> 128, name |-> "H", t |-> U8]>>]
    [] name = "MisEnumW" -> [k |-> "enumswitch", e |-> U64, ch |-> <<K(0, c), K(1, U16)>>]
    [] name = "MisBitS" -> Tup(<<BitF(S8, <<[n |-> "a", bits |-> 8]>>, TRUE), BitF(U32, <<[n |-> "a", bits |-> 16], [n |-> "b", bits |-> 16]>>, TRUE), c>>)
AllConNames == {"CollP", "CollP16", "CollF", "CollG", "OptP", "IfP", "TBP", "TBPe", "TBF", "TBG", "TBGe", "TBT", "TBTe", "TBT2",
                "LenSw", "LenSwD", "EnumSw", "FlagSw", "TupA", "TupB", "Tup2", "TmplA", "TmplFlag", "TmplSkip",
                "TmplCtx", "TmplCtxUp", "Adapt"}

RECURSIVE Inner(_)
Inner(d) == IF d = 0 THEN {LeafOf(x) : x \in InnerLeaves}
            ELSE {LeafOf(x) : x \in InnerLeaves} \cup {Con(x, c) : x \in InnerCons, c \in Inner(d - 1)}
TopTrees == (IF "leaf" \in Tops THEN {LeafOf(x) : x \in TopLeaves} ELSE {})
            \cup (IF Depth = 0 THEN {}
                  ELSE {Con(x, c) : x \in Tops \ {"leaf"},
                                    c \in (IF Depth = 1 THEN {LeafOf(y) : y \in TopLeaves} ELSE Inner(Depth - 1))})

\* ------------------------------------------------------------ candidate values
Cap(s, n) == IF Len(s) <= n THEN s ELSE Take(s, n)
\* all ways to pick one element from each sequence of candidates (as sequences), capped
RECURSIVE Prod(_, _)
Prod(ss, cap) == IF ss = <<>> THEN << <<>> >>
                 ELSE LET rest == Prod(Tail(ss), cap)
                          all == Flat([x \in 1..Len(Head(ss)) |-> [y \in 1..Len(rest) |-> <<Head(ss)[x]>> \o rest[y]]])
                      IN Cap(all, cap)
\* interleave so that a cap keeps variety: every second, then the rest
Mix(s) == LET odd == SelectSeq([j \in 1..Len(s) |-> j], LAMBDA j : j % 2 = 1)
              even == SelectSeq([j \in 1..Len(s) |-> j], LAMBDA j : j % 2 = 0)
          IN [j \in 1..Len(odd) |-> s[odd[j]]] \o [j \in 1..Len(even) |-> s[even[j]]]

MaxNine(t) == IF t.s THEN Zeros(9 - t.w) \o <<127>> \o Rep(255, t.w - 1) ELSE Zeros(9 - t.w) \o Rep(255, t.w)
MinNine(t) == Rep(255, 9 - t.w) \o <<128>> \o Zeros(t.w - 1)
OverNine(t) == IF t.s THEN Zeros(9 - t.w) \o <<128>> \o Zeros(t.w - 1) ELSE Zeros(8 - t.w) \o <<1>> \o Zeros(t.w)
UnderNine(t) == Rep(255, 9 - t.w) \o <<127>> \o Rep(255, t.w - 1)
IntVals(t) == <<[i |-> 0], CanonInt(Zeros(9 - t.w) \o [j \in 1..t.w |-> j]), CanonInt(MaxNine(t))>>
              \o (IF t.s THEN <<CanonInt(MinNine(t)), [i |-> -2]>> ELSE <<>>)
              \o <<CanonInt(OverNine(t)), IF t.s THEN CanonInt(UnderNine(t)) ELSE [i |-> -1]>>
\* UTF-8 text: one character of 2, 3 and 4 bytes (e-acute, CJK "sun", mathematical fraktur u)
U2 == <<195, 169>>
U3 == <<230, 151, 165>>
U4 == <<240, 157, 148, 178>>
RepSeq(q, n) == Flat([j \in 1..n |-> q])
\* text for a field of n BYTES: multi-byte characters at the first and at the last position, values that fill the
\* field exactly, values one byte short (padding), and values whose CHARACTER count fits but whose byte count does not
TextVals(n) ==
  LET A(k) == Rep(97, k)
      T(q) == [s |-> q]
  IN (IF n >= 2 THEN <<T(A(n - 2) \o U2), T(U2 \o A(n - 2))>> ELSE <<>>)
     \o (IF n >= 3 THEN <<T(A(n - 3) \o U2), T(A(n - 3) \o U3), T(U3 \o A(n - 3))>> ELSE <<>>)
     \o (IF n >= 4 THEN <<T(A(n - 4) \o U3), T(U4 \o A(n - 4)), T(A(n - 4) \o U4)>> ELSE <<>>)
     \o (IF n >= 5 THEN <<T(A(n - 5) \o U4), T(A(n - 5) \o U2 \o U3)>> ELSE <<>>)
     \o <<T(RepSeq(U2, n \div 2 + 1)), T(RepSeq(U3, n \div 3 + 1)), T(RepSeq(U4, n \div 4 + 1)),
          T(A(n - 1) \o U2), T(A(n - 1) \o U4)>>
MaxLen(p) == IF p.w = 1 THEN (IF p.s THEN 127 ELSE 255) ELSE -1

BitVals(t) ==
  LET cur(j) == SumBits(Take(t.fs, j - 1))
      unit(j) == IF t.shift THEN 1 ELSE Pow2(cur(j))
      mk(f(_)) == [d |-> [j \in 1..Len(t.fs) |-> [n |-> t.fs[j].n, v |-> [i |-> f(j)]]]]
  IN <<mk(LAMBDA j : 0),
       mk(LAMBDA j : (Pow2(t.fs[j].bits) - 1) * unit(j)),
       mk(LAMBDA j : j * unit(j)),
       mk(LAMBDA j : IF j = 1 THEN Pow2(t.fs[j].bits) * unit(j) ELSE 0),
       mk(LAMBDA j : IF j = Len(t.fs) THEN Pow2(t.fs[j].bits) * unit(j) ELSE unit(j)),
       \* un-shifted members: bits below the member's position, and bits both below and above its mask
       \* (for shifted members these are an ordinary small value and a too-large one)
       mk(LAMBDA j : IF j = Len(t.fs) THEN unit(j) + 1 ELSE 0),
       mk(LAMBDA j : IF j = Len(t.fs) THEN (Pow2(t.fs[j].bits) - 1) * unit(j) + (unit(j) - 1) ELSE 0),
       mk(LAMBDA j : IF j = Len(t.fs) THEN Pow2(t.fs[j].bits) * unit(j) + unit(j) + 1 ELSE unit(j))>>

RECURSIVE V(_)
ChoiceVals(ch, mk(_, _)) == Flat([j \in 1..Len(ch) |-> LET vs == Cap(V(ch[j].t), CapIn) IN [x \in 1..Len(vs) |-> mk(ch[j], vs[x])]])
V(t) ==
  Cap(
  CASE t.k = "int" -> IntVals(t)
    [] t.k = "float" -> IF t.w = 4 THEN <<[f |-> <<63, 128, 0, 0>>], [f |-> <<192, 73, 15, 219>>], [f |-> Zeros(4)]>>
                        ELSE <<[f |-> <<63, 240, 0, 0, 0, 0, 0, 0>>], [f |-> <<192, 4, 0, 0, 0, 0, 0, 1>>]>>
    [] t.k = "uuid" -> <<[u |-> [j \in 1..16 |-> j]], [u |-> Zeros(16)]>>
    [] t.k = "coord" -> <<[l |-> [j \in 1..t.n |-> [f |-> <<63 + j, 128, 0, j>> \o Zeros(t.w - 4)]]],
                          [l |-> [j \in 1..t.n |-> [f |-> Zeros(t.w)]]]>>
    [] t.k = "null" -> <<None>>
    [] t.k = "llsd" -> <<[x |-> <<105, 0, 0, 0, 7>>], [x |-> <<91, 0, 0, 0, 2, 105, 0, 0, 0, 1, 115, 0, 0, 0, 1, 97, 93>>],
                         [x |-> <<48>>], [x |-> <<115, 0, 0, 0, 2, 104, 105>>],
                         [x |-> <<123, 0, 0, 0, 1, 107, 0, 0, 0, 1, 107, 49, 125>>], [x |-> <<105, 0, 0>>]>>
    [] t.k = "bytearray" ->
         <<[b |-> <<>>], [b |-> <<0>>], [b |-> <<1, 255, 0>>]>>
         \o (IF MaxLen(t.p) > 0 THEN <<[b |-> Rep(7, MaxLen(t.p))], [b |-> Rep(7, MaxLen(t.p) + 1)]>> ELSE <<>>)
    [] t.k = "bytesfixed" -> <<[b |-> [j \in 1..t.n |-> j]], [b |-> Zeros(t.n)], [b |-> Rep(9, t.n + 1)]>>
                             \o (IF t.n > 0 THEN <<[b |-> Rep(9, t.n - 1)]>> ELSE <<>>)
    [] t.k = "bytesgreedy" -> <<[b |-> <<5>>], [b |-> <<>>], [b |-> <<0, 255, 1>>]>>
    [] t.k = "bytesterm" -> <<[b |-> <<65, 66>>], [b |-> <<>>], [b |-> <<255>>], [b |-> <<65, t.terms[1], 66>>]>>
    [] t.k = "str" ->
         <<[s |-> <<104, 105>>], [s |-> <<>>], [s |-> <<97, 0, 98>>], [s |-> <<195, 169>>], [s |-> <<97, 0>>]>>
         \o (IF MaxLen(t.p) > 0
             THEN LET m == MaxLen(t.p) - (IF t.nt THEN 1 ELSE 0)
                  IN <<[s |-> Rep(97, m)], [s |-> Rep(97, m + 1)],
                       \* the limit counts BYTES: exactly m bytes in fewer characters, and fewer than m characters in more than m bytes
                       [s |-> Rep(97, m % 2) \o RepSeq(U2, m \div 2)], [s |-> RepSeq(U2, m \div 2 + 1)],
                       [s |-> Rep(97, m % 4) \o RepSeq(U4, m \div 4)], [s |-> RepSeq(U3, m \div 3 + 1)]>>
             ELSE <<>>)
         \o <<[s |-> <<104>> \o U3], [s |-> U4], [s |-> U2 \o <<0>> \o U4]>>
    [] t.k = "strfixed" -> <<[s |-> <<97>>], [s |-> <<>>], [s |-> Rep(98, t.n)], [s |-> Rep(99, t.n + 1)]>>
                           \o (IF t.n >= 3 THEN <<[s |-> <<97, 0, 98>>]>> ELSE <<>>)
                           \o TextVals(t.n)
    [] t.k = "cstr" -> <<[s |-> <<104, 105>>], [s |-> <<>>], [s |-> <<195, 169>>], [s |-> <<104, t.terms[1]>>],
                         [s |-> <<104>> \o U4], [s |-> U3 \o <<105>> \o U2], [s |-> U4 \o U3]>>
    [] t.k = "bitfield" -> BitVals(t)
    [] t.k = "tuple" ->
         LET ps == Prod([j \in 1..Len(t.cs) |-> Cap(V(t.cs[j]), CapIn)], 4 * CapOut)
         IN Mix([j \in 1..Len(ps) |-> [l |-> ps[j]]]) \o <<[l |-> ps[1] \o <<[i |-> 0]>>]>>
    [] t.k = "template" ->
         LET ps == Prod([j \in 1..Len(t.fs) |-> Cap(V(t.fs[j].t), CapIn)], 8 * CapOut)
             mk(p) == [d |-> LET keep == SelectSeq([j \in 1..Len(t.fs) |-> j],
                                                   LAMBDA j : ~(t.skip /\ Optional(t.fs[j].t) /\ IsNone(p[j])))
                             IN [x \in 1..Len(keep) |-> [n |-> t.fs[keep[x]].n, v |-> p[keep[x]]]]]
             \* keep the combinations that are in the domain first
             sts == Force([j \in 1..Len(ps) |-> E(t, mk(ps[j]), ">", <<>>).st])
             idx == [j \in 1..Len(ps) |-> j]
             good == SelectSeq(idx, LAMBDA j : sts[j] = "ok")
             other == SelectSeq(idx, LAMBDA j : sts[j] = "rej")
         IN IF good = <<>> /\ other = <<>> THEN <<mk(ps[1])>>
            ELSE Mix([j \in 1..Len(good) |-> mk(ps[good[j]])]) \o [j \in 1..Len(other) |-> mk(ps[other[j]])]
    [] t.k = "coll" ->
         LET cv == Cap(V(t.c), CapIn)
             a == cv[1]
             b == cv[IF Len(cv) >= 2 THEN 2 ELSE 1]
             c == cv[IF Len(cv) >= 3 THEN 3 ELSE 1]
             mk(s) == [l |-> s]
         IN IF t.m = "fixed"
            THEN <<mk(Rep(a, t.n)), mk([j \in 1..t.n |-> IF j % 2 = 1 THEN b ELSE c]), mk(Rep(a, t.n + 1)), mk(Rep(b, t.n - 1))>>
            ELSE <<mk(<<a, b>>), mk(<<>>), mk(<<a>>), mk(<<c, a, b>>), mk(<<b>>), mk(<<c>>)>>
                 \o (IF t.m = "prefix" /\ MaxLen(t.p) > 0 /\ t.c.k \in {"int", "null", "bytearray"}
                     THEN <<mk(Rep(a, MaxLen(t.p))), mk(Rep(a, MaxLen(t.p) + 1))>> ELSE <<>>)
                 \o [j \in 1..(IF Len(cv) > 3 THEN Len(cv) - 3 ELSE 0) |-> mk(<<cv[j + 3]>>)]
    [] t.k \in {"optprefix", "optflag", "ifpresent"} -> LET cv == Cap(V(t.c), CapIn) IN <<cv[1], None>> \o Tail(cv)
    [] t.k = "lenswitch" ->
         ChoiceVals(t.ch, LAMBDA c, x : LET r == E(c.t, x, ">", <<>>)
                                        IN [tag |-> [i |-> IF r.st = "ok" THEN Len(r.b) ELSE IF c.key >= 0 THEN c.key ELSE 1],
                                            val |-> x])
         \o <<[tag |-> [i |-> 1], val |-> None]>>
    [] t.k = "enumswitch" -> ChoiceVals(t.ch, LAMBDA c, x : [tag |-> [i |-> c.key], val |-> x])
                             \o <<[tag |-> [i |-> 77], val |-> None]>>
    [] t.k = "flagswitch" ->
         LET a == t.ch[1]
             b == t.ch[2]
             av == Cap(V(a.t), CapIn)
             bv == Cap(V(b.t), 2)
         IN <<[d |-> <<>>]>>
            \o [x \in 1..Len(av) |-> [d |-> <<[n |-> a.name, v |-> av[x]]>>]]
            \o [x \in 1..Len(bv) |-> [d |-> <<[n |-> b.name, v |-> bv[x]]>>]]
            \o [x \in 1..Len(av) |-> [d |-> <<[n |-> a.name, v |-> av[x]], [n |-> b.name, v |-> bv[1 + (x % Len(bv))]]>>]]
    [] t.k = "ctxswitch" ->
         Flat([j \in 1..Len(t.ch) |-> Cap(V(t.ch[j].t), CapIn)]) \o (IF t.dflt # <<>> THEN Cap(V(t.dflt[1]), CapIn) ELSE <<>>)
    [] t.k = "typedbytes" -> LET cv == Cap(V(t.c), CapIn + 2) IN <<cv[1]>> \o (IF t.ein THEN <<None>> ELSE <<>>) \o Tail(cv)
    [] t.k = "adapter" -> V(t.c)
  , IF t.k \in {"int", "bytearray", "str", "strfixed", "bytesfixed", "bitfield"} THEN 99 ELSE CapOut)

\* ---------------------------------------------------------------- the model
VARIABLE rows    \* the table of the tree: candidate value, status and bytes in both byte orders (computed once)
Tails == {<<>>, <<0>>, <<255, 1>>, <<0, 0, 7>>}
RowsOf(t) == LET vals == V(t)
                 all == Force([j \in 1..Len(vals) |->
                                 LET be == Enc(t, vals[j], ">")
                                     le == Enc(t, vals[j], "<")
                                 IN [v |-> vals[j], st |-> be.st, b |-> be.b, lst |-> le.st, lb |-> le.b]])
             IN SelectSeq(all, LAMBDA r : r.st # "bad")

\* the same values as written by a writer that ends terminated values with another of the legal terminators
AltTails == {<<>>, <<10, 0, 32, 9, 13, 59>>, <<59, 13, 9, 32, 0, 10>>, <<7, 32, 10>>}
AltsOf(t, rs) ==
  IF Rot(t, 1) = t THEN <<>>
  ELSE Flat([j \in 1..3 |->
         IF Rot(t, j) = t THEN <<>>
         ELSE LET got == Force([x \in 1..Len(rs) |-> [v |-> rs[x].v, rot |-> j, be |-> Enc(Rot(t, j), rs[x].v, ">"),
                                                       le |-> Enc(Rot(t, j), rs[x].v, "<")]])
                  okx == SelectSeq(got, LAMBDA g : g.be.st = "ok" /\ g.le.st = "ok")
              IN [x \in 1..Len(okx) |-> [v |-> okx[x].v, rot |-> j, b |-> okx[x].be.b, lb |-> okx[x].le.b]]])

Init == /\ tree \in TopTrees
        /\ rows = RowsOf(tree)
        /\ PrintT(ToJson([t |-> tree, sd |-> SD(tree), size |-> Size(tree), rows |-> rows,
                          alts |-> AltsOf(tree, SelectSeq(rows, LAMBDA r : r.st = "ok"))]))
Next == UNCHANGED <<tree, rows>>
Spec == Init /\ [][Next]_<<tree, rows>>

EncOf(r, e) == IF e = ">" THEN [st |-> r.st, b |-> r.b] ELSE [st |-> r.lst, b |-> r.lb]
Es == {"<", ">"}
\* read(write(v)) = v and exactly the bytes written are consumed
RoundTrip == \A j \in 1..Len(rows) : \A e \in Es :
               LET r == EncOf(rows[j], e) IN r.st = "ok" => Dec(tree, r.b, e) = Got(rows[j].v, <<>>)
\* self-delimiting specs compose: an encoding followed by arbitrary bytes decodes to the value and leaves them
Compose == SD(tree) => \A j \in 1..Len(rows) : \A e \in Es : \A tail \in Tails :
               LET r == EncOf(rows[j], e) IN r.st = "ok" => Dec(tree, r.b \o tail, e) = Got(rows[j].v, tail)
\* a terminated value may end in ANY of its terminators: what another writer of the same format wrote (terminator
\* lists rotated) decodes to the same value, stopping at the earliest terminator, and leaves the following bytes --
\* which contain the other terminators -- unread
AltCompose == LET alts == AltsOf(tree, SelectSeq(rows, LAMBDA r : r.st = "ok")) IN
              \A x \in 1..Len(alts) : \A e \in Es : \A tail \in (IF SD(tree) THEN AltTails ELSE {<<>>}) :
                 Dec(tree, (IF e = ">" THEN alts[x].b ELSE alts[x].lb) \o tail, e) = Got(alts[x].v, tail)
\* a reported fixed size is the size of every encoding
SizeSound == Size(tree) # -1 => \A j \in 1..Len(rows) : \A e \in Es :
               LET r == EncOf(rows[j], e) IN r.st = "ok" => Len(r.b) = Size(tree)
\* the decoder is total: on every truncation of an encoding it answers (a value or a failure), it never gets stuck
DecTotal == \A j \in 1..Len(rows) : \A e \in Es :
               LET r == EncOf(rows[j], e) IN (r.st = "ok" /\ Len(r.b) <= 12) =>
                  \A n \in 0..Len(r.b) : Dec(tree, Take(r.b, n), e).ok \in BOOLEAN
\* the encoder is total too: a value of any shape is classified (domain / refused / outside the domain)
Shapes == {[i |-> 0], [i |-> -1], [b |-> <<1>>], [s |-> <<65>>], None, [l |-> <<>>], [l |-> <<[i |-> 0], [i |-> 0]>>], [d |-> <<>>],
           [d |-> <<[n |-> "sel", v |-> [i |-> -1]], [n |-> "o", v |-> None], [n |-> "b", v |-> [i |-> 0]]>>],
           [d |-> <<[n |-> "a", v |-> [i |-> -1]], [n |-> "b", v |-> [i |-> 0]]>>], [d |-> <<[n |-> "a", v |-> [b |-> <<>>]]>>],
           [tag |-> [i |-> 77], val |-> None],
           [tag |-> [i |-> -1], val |-> None], [tag |-> None, val |-> None], [w |-> <<1, 0, 0, 0, 0, 0, 0, 0, 0>>], [f |-> <<0>>], [u |-> <<0>>]}
EncTotal == \A w \in Shapes : \A e \in Es : Enc(tree, w, e).st \in {"ok", "rej", "bad"}
\* ... and on arbitrary bytes, for every tree (also the ill-formed ones)
\* (bytes that read as a huge element count are offered only where no collection can take them)
Probes(t) == {<<>>, <<0>>, <<1, 1, 0, 5>>, <<2, 0, 1, 0, 0, 0, 0, 9>>, <<1, 2, 3, 0, 2, 1, 1, 1, 1, 0>>}
             \cup (IF t.k \in {"bytearray", "enumswitch", "flagswitch"} \/ (t.k = "tuple" /\ t.cs[1].k = "bitfield")
                      \/ (t.k = "coll" /\ t.m = "prefix" /\ t.p.w = 4)
                   THEN {<<255, 255, 255, 255, 255, 255, 255, 255, 255>>, <<128, 3, 65, 0, 66, 10, 1, 1, 1, 0>>} ELSE {})
             \cup (IF t.k = "template" THEN {<<255, 0, 0, 0, 0, 0, 0, 0, 0, 0>>} ELSE {})
DecProbe == \A p \in Probes(tree) : \A e \in Es : Dec(tree, p, e).ok \in BOOLEAN
\* the byte order changes bytes, never acceptance or length
EndianAgnostic == \A j \in 1..Len(rows) : rows[j].st = rows[j].lst /\ Len(rows[j].b) = Len(rows[j].lb)
=============================================================================
