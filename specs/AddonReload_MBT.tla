---- MODULE AddonReload_MBT ----
EXTENDS AddonReload, Json
CONSTANT Depth
St == [diskA |-> diskA, diskH |-> diskH, memA |-> memA, memH |-> memH, since |-> since, edits |-> edits]
P(act) == PrintT(ToJson([src |-> St, act |-> act, dst |-> St', obs |-> out']))
MInit == Init /\ PrintT(ToJson([init |-> St]))
MNext == /\ TLCGet("level") < Depth
         /\ \/ EditA(TRUE) /\ P([n |-> "EditA", broken |-> TRUE, v |-> 0])
            \/ EditA(FALSE) /\ P([n |-> "EditA", broken |-> FALSE, v |-> edits + 2])
            \/ EditH /\ P([n |-> "EditH", v |-> edits + 2])
            \/ \E dt \in {1, Throttle} : Advance(dt) /\ P([n |-> "Advance", dt |-> dt])
            \/ Message /\ P([n |-> "Message"])
MSpec == MInit /\ [][MNext]_vars
====
