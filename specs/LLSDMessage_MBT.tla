---- MODULE LLSDMessage_MBT ----
(* Bounded model of the carrier state machine + B1 export (one JSON line per edge).  *)
EXTENDS LLSDMessage, Json
B1 == {<<0>>, <<1>>, <<127>>, <<128>>, <<255>>}
B2 == {<<0, 0>>, <<0, 1>>, <<1, 0>>, <<127, 255>>, <<128, 0>>, <<255, 255>>, <<255, 0>>, <<0, 255>>}
B4 == {<<0, 0, 0, 0>>, <<0, 0, 0, 1>>, <<127, 255, 255, 255>>, <<128, 0, 0, 0>>, <<255, 255, 255, 255>>,
       <<1, 2, 3, 4>>, <<255, 255, 255, 0>>, <<0, 0, 1, 0>>}
B8 == {<<0, 0, 0, 0, 0, 0, 0, 0>>, <<0, 0, 0, 0, 0, 0, 0, 1>>, <<127, 255, 255, 255, 255, 255, 255, 255>>,
       <<128, 0, 0, 0, 0, 0, 0, 0>>, <<255, 255, 255, 255, 255, 255, 255, 255>>, <<1, 2, 3, 4, 5, 6, 7, 8>>,
       <<0, 0, 0, 1, 0, 0, 0, 0>>, <<0, 0, 0, 0, 255, 255, 255, 255>>}
\* doubles that are also float32 values: 0.0, 1.5, -0.0, -0.25, 0.5
R == {<<0, 0, 0, 0, 0, 0, 0, 0>>, <<63, 248, 0, 0, 0, 0, 0, 0>>, <<128, 0, 0, 0, 0, 0, 0, 0>>,
      <<191, 208, 0, 0, 0, 0, 0, 0>>, <<63, 224, 0, 0, 0, 0, 0, 0>>}
\* a double that is not a float32 value (0.1), for F64 / LLVector3d
R64 == R \cup {<<63, 185, 153, 153, 153, 153, 153, 154>>}
Half == <<63, 224, 0, 0, 0, 0, 0, 0>>
NHalf == <<191, 224, 0, 0, 0, 0, 0, 0>>
Zero == <<0, 0, 0, 0, 0, 0, 0, 0>>
Txt == {<<>>, <<97>>, <<195, 169, 32, 60, 38>>, <<97, 10, 98>>}
Raw == {<<>>, <<0>>, <<97, 0>>, <<255, 254, 10>>}
ByWidth(w) == IF w = 1 THEN B1 ELSE IF w = 2 THEN B2 ELSE IF w = 4 THEN B4 ELSE B8
MCDom(t) ==
    CASE t \in IntTypes -> {MV("int", p) : p \in ByWidth(IntWidth[t])}
      [] t = "BOOL" -> {MV("bool", <<0>>), MV("bool", <<1>>), MV("int", <<0>>), MV("int", <<1>>)}
      [] t = "F32" -> {MV("real", p) : p \in R}
      [] t = "F64" -> {MV("real", p) : p \in R64}
      [] t = "LLUUID" -> {MV("uuid", [i \in 1..16 |-> 0]), MV("uuid", [i \in 1..16 |-> 16 * i - 1])}
      [] t = "IPADDR" -> {MV("ip", p) : p \in B4}
      [] t = "Variable" -> {MV("str", p) : p \in Txt} \cup {MV("bytes", p) : p \in Raw}
      [] t = "Fixed" -> {MV("bytes", p) : p \in B4}
      [] t = "LLVector3" -> {MV("vec", <<a, b, Zero>>) : a \in R, b \in R}
      [] t = "LLVector3d" -> {MV("vec", <<a, Zero, b>>) : a \in R64, b \in R64}
      [] t = "LLVector4" -> {MV("vec", <<a, b, Zero, a>>) : a \in R, b \in R}
      [] t = "LLQuaternion" -> {MV("vec", <<Zero, Zero, Zero>>), MV("vec", <<Half, NHalf, Half>>), MV("vec", <<Zero, Half, Zero>>)}
MCHistTypes == {"U32", "U64", "IPADDR", "LLVector3", "LLQuaternion", "S32", "Variable"}
St == [ty |-> ty, orig |-> orig, phase |-> phase, carried |-> carried, xml |-> xml, result |-> result,
       prof |-> prof, hist |-> hist, memo |-> memo]
MInit == Init /\ PrintT(ToJson([init |-> St]))
MSerialize == Serialize /\ PrintT(ToJson([src |-> St, act |-> [n |-> "Serialize"], dst |-> St']))
MXmlHop == XmlHop /\ PrintT(ToJson([src |-> St, act |-> [n |-> "XmlHop"], dst |-> St']))
MDeserialize == Deserialize /\ PrintT(ToJson([src |-> St, act |-> [n |-> "Deserialize"], dst |-> St']))
MNextMessage(p) == NextMessage(p) /\ PrintT(ToJson([src |-> St, act |-> [n |-> "NextMessage", p |-> p], dst |-> St']))
MNext == MSerialize \/ MXmlHop \/ MDeserialize \/ \E p \in Profs : MNextMessage(p)
MSpec == MInit /\ [][MNext]_vars
====
