---------------------------- MODULE LLUDPFrameInst ----------------------------
(***************************************************************************)
(* C01 -- codec INSTANCES with history.  A serializer / deserializer object *)
(* lives as long as its circuit and is used for every message; some calls   *)
(* are (rightly) refused because the message does not conform.  The law:    *)
(* the datagram produced for a conformant message m depends on m only --    *)
(* it is LLUDPFrame!Datagram(T, m), what a fresh instance produces --        *)
(* whatever calls the instance has seen before.                             *)
(*                                                                         *)
(* Spec layer : Independent (below).                                        *)
(* Design layer: the instance may own scratch state (sbuf); it must be      *)
(*   observationally empty at the start of every call.  KeepsOnRefusal      *)
(*   = TRUE transcribes an instance that clears its scratch buffer only on  *)
(*   the success path; TLC then shows the two-call counterexample.          *)
(* Every history up to Depth over the call alphabet below is exported and   *)
(* executed on ONE real serializer and ONE real deserializer instance; the  *)
(* recorded trace is validated by LLUDPFrame_Trace (events Ser/Bad/Des).     *)
(***************************************************************************)
EXTENDS LLUDPMini, Json
CONSTANTS Depth, KeepsOnRefusal, MBT
VARIABLES sbuf,   \* scratch residue of the serializer instance
          hist,   \* labels of the calls so far
          out     \* observation of the last call
vars == <<sbuf, hist, out>>

I(neg, mag) == [k |-> "int", neg |-> neg, mag |-> mag]
Raw(s) == [k |-> "raw", b |-> s]
Mk(f, p, e, a, bl) == [flags |-> f, pid |-> p, extra |-> e, acks |-> a, blocks |-> bl]
\* conformant messages
Good == [G1 |-> [tid |-> 1, fill |-> 0, m |-> Mk(0, <<0, 1>>, <<>>, <<>>, << << <<I(0, <<1>>), Raw(<<65>>)>> >> >>)],
         G2 |-> [tid |-> 3, fill |-> 0, m |-> Mk(144, <<1, 2>>, <<0>>, << <<0, 7>> >>,
                                              << <<<<I(0, <<258>>)>>, <<I(0, <<0>>)>>>>, << <<Raw(<<0, 0, 7>>)>> >> >>)],
         G3 |-> [tid |-> 5, fill |-> 0, m |-> Mk(64, <<0, 3>>, <<>>, <<>>, <<>>)],
         G4 |-> [tid |-> 2, fill |-> 0, m |-> Mk(128, <<0, 4>>, <<>>, <<>>,
                                              << <<<<I(0, <<258>>), Raw(<<0, 255>>)>>, <<I(0, <<0>>), Raw(<<0, 0>>)>>>>, << <<I(1, <<1>>)>> >> >>)]]
\* messages outside the template language: with typed content where the value language can say it
\* (tid 0: no template at all), else by class name only -- the harness builds them
Bad == [B1 |-> [cls |-> "unset-var", tid |-> 1, fill |-> 0, m |-> Mk(0, <<0, 9>>, <<>>, <<>>, << << <<I(0, <<1>>), [k |-> "unset"]>> >> >>)],
        B2 |-> [cls |-> "int-out-of-range", tid |-> 1, fill |-> 0, m |-> Mk(0, <<0, 9>>, <<>>, <<>>, << << <<I(0, <<256>>), Raw(<<>>)>> >> >>)],
        B3 |-> [cls |-> "multiple-count", tid |-> 3, fill |-> 0, m |-> Mk(0, <<0, 9>>, <<>>, <<>>, << <<<<I(0, <<1>>)>>>>, <<>> >>)],
        B4 |-> [cls |-> "unknown-block", tid |-> 2],
        B5 |-> [cls |-> "block-after-missing-block", tid |-> 2],
        B6 |-> [cls |-> "unknown-message", tid |-> 0]]
ASSUME \A g \in DOMAIN Good : Conformant(U[Good[g].tid], Good[g].m)
ASSUME \A b \in {"B1", "B2", "B3"} : ~(Conformant(U[Bad[b].tid], Bad[b].m) /\ ~HasUnset(Bad[b].m))
\* datagrams handed to the deserializer instance: a good one and one whose body ends inside a block
Dgram == [D1 |-> Datagram(U[1], Good["G1"].m),
          D2 |-> Take(Datagram(U[3], Good["G2"].m), Len(Datagram(U[3], Good["G2"].m)) - 6),
          D3 |-> Datagram(U[2], Good["G4"].m)]
Labels == DOMAIN Good \cup DOMAIN Bad \cup DOMAIN Dgram

\* what an instance with residue buf emits for m
Emit(buf, T, m) == LET body == buf \o Body(T, m)
                   IN <<m.flags>> \o BE32(m.pid) \o <<Len(m.extra)>> \o (IF HasBit(m.flags, ZBit) THEN Encode(body) ELSE body)
                      \o (IF HasBit(m.flags, ABit) THEN AckTail(m.acks) ELSE <<>>)
Residue(b) == IF Bad[b].tid = 0 THEN <<>> ELSE MsgNum(U[Bad[b].tid])   \* the least a refused call has written

Init == sbuf = <<>> /\ hist = <<>> /\ out = [op |-> "none"]
Call(x) ==
    /\ Len(hist) < Depth
    /\ (Len(hist) = Depth - 1 => x \in DOMAIN Good \cup {"D1", "D3"})     \* a history ends in an observation
    /\ hist' = Append(hist, x)
    /\ (MBT /\ Len(hist') = Depth => PrintT(ToJson([hist |-> hist'])))
    /\ CASE x \in DOMAIN Good -> /\ out' = [op |-> "S", g |-> x, d |-> Emit(sbuf, U[Good[x].tid], Good[x].m)]
                                 /\ sbuf' = <<>>
         [] x \in DOMAIN Bad -> /\ out' = [op |-> "X", g |-> x]
                                /\ sbuf' = IF KeepsOnRefusal THEN sbuf \o Residue(x) ELSE <<>>
         [] OTHER -> out' = [op |-> "D", g |-> x] /\ UNCHANGED sbuf
Next == \E x \in Labels : Call(x)
Spec == Init /\ [][Next]_vars
ASSUME MBT => PrintT(ToJson([universe |-> U, good |-> Good, bad |-> Bad, dgram |-> Dgram]))

\* the law
Independent == out.op = "S" => out.d = Datagram(U[Good[out.g].tid], Good[out.g].m)
\* the design's own invariant: nothing is left behind by any call
Empty == sbuf = <<>>
=============================================================================
