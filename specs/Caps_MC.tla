---- MODULE Caps_MC ----
EXTENDS Caps
CONSTANT Depth
Bound == TLCGet("level") <= Depth
====
