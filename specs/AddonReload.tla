------------------------------ MODULE AddonReload ------------------------------
(***************************************************************************)
(* Hot reloading of addon scripts (proxy/addons.py: load_addon_from_path,   *)
(* _reload_addons, _check_hotreloads, hot_reload).  Growth beyond the      *)
(* listed properties; it sits on C07's path: every proxied message first   *)
(* gives the addon manager the chance to reload what changed on disk, and  *)
(* nothing that happens there may cost the message.                        *)
(*                                                                         *)
(* One addon script A imports a helper module H and registers it for hot   *)
(* reloading.  Both files can be edited (A also into something that does   *)
(* not load).  Reload checks are throttled: at most one per Throttle clock *)
(* units.                                                                  *)
(***************************************************************************)
EXTENDS Naturals, Sequences, FiniteSets, TLC

CONSTANTS MaxEdits,    \* edits per behaviour
          Throttle     \* minimum clock distance between two reload checks (code: 2 s)

VARIABLES diskA, diskH,   \* version of each file on disk; diskA = 0 means "A does not load" (syntax error)
          memA, memH,     \* version the running proxy has loaded; memA = 0 means A is not loaded
          since,          \* clock units since the last reload check (capped at Throttle)
          edits,
          out

vars == <<diskA, diskH, memA, memH, since, edits, out>>

\* the proxy starts with both files at version 1, loaded
Init == /\ diskA = 1 /\ diskH = 1 /\ memA = 1 /\ memH = 1 /\ since = 0 /\ edits = 0 /\ out = [ev |-> "init"]

EditA(broken) == /\ edits < MaxEdits
                 /\ diskA' = IF broken THEN 0 ELSE edits + 2
                 /\ edits' = edits + 1 /\ out' = [ev |-> "edit"]
                 /\ UNCHANGED <<diskH, memA, memH, since>>
EditH == /\ edits < MaxEdits
         /\ diskH' = edits + 2
         /\ edits' = edits + 1 /\ out' = [ev |-> "edit"]
         /\ UNCHANGED <<diskA, memA, memH, since>>
Cap(n) == IF n > Throttle THEN Throttle ELSE n
Advance(dt) == /\ since < Throttle
               /\ since' = Cap(since + dt) /\ out' = [ev |-> "advance"]
               /\ UNCHANGED <<diskA, diskH, memA, memH, edits>>

\* what a reload check does: A is (re)loaded iff its file or anything it registered for hot reloading
\* changed; loading A re-imports (and reloads) H; a file that does not load leaves A unloaded until fixed
Dirty == diskA # memA \/ diskH # memH
AfterA == IF ~Dirty THEN memA ELSE diskA
AfterH == IF ~Dirty \/ diskA = 0 THEN memH ELSE diskH
\* H edited while A stays broken: H is reloaded the next time A loads

\* a proxied message: reload check first (if the throttle allows), then the hooks of what is loaded now
Message == LET check == since >= Throttle
               a == IF check THEN AfterA ELSE memA
               h == IF check THEN AfterH ELSE memH
           IN /\ memA' = a /\ memH' = h
              /\ since' = IF check THEN 0 ELSE since
              /\ out' = [ev |-> "message", wire |-> 1, checked |-> check,
                         handledBy |-> IF a = 0 THEN <<>> ELSE <<a, h>>]
              /\ UNCHANGED <<diskA, diskH, edits>>

Next == EditA(TRUE) \/ EditA(FALSE) \/ EditH \/ (\E dt \in {1, Throttle} : Advance(dt)) \/ Message
Spec == Init /\ [][Next]_vars

\* whatever happened on disk, the message goes out exactly once
NeverCostsTheMessage == out.ev = "message" => out.wire = 1
\* the hooks that see a message come from one consistent load: the helper version A runs with is the
\* one A imported when it was loaded
ConsistentLoad == (out.ev = "message" /\ out.handledBy # <<>>) => out.handledBy = <<memA, memH>>
\* after a reload check nothing loadable is stale
FreshAfterCheck == (out.ev = "message" /\ out.checked /\ diskA # 0) => (memA = diskA /\ memH = diskH)
================================================================================
