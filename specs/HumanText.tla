------------------------------- MODULE HumanText -------------------------------
(***************************************************************************)
(* C11: the human-readable message text, at the level of LINES.            *)
(*                                                                         *)
(* Printer (HumanMessageSerializer.to_human_string) as a generator         *)
(* Format(m, beautify) of line tokens, parser (from_human_string) as a     *)
(* machine over line tokens.  A token is what the parser's own lexical     *)
(* rules see in one stripped, non-blank line:                              *)
(*   [k |-> "comment" | "block" | "assign" | "other",                      *)
(*    name |-> block / variable name, pk |-> "|" in the operator,          *)
(*    ev |-> "$" in the operator, bs |-> the line ends with a backslash,   *)
(*    val |-> class of the (whole, continuation-joined) value text of an   *)
(*            assignment: "lit" a Python literal, "special" one of the      *)
(*            parser's plain forms ([[REPLACEMENT]], <vector>, UUID-ish,    *)
(*            inf/nan), "litnf" a literal but for the names inf/nan,        *)
(*            "expr" an expression that is not a literal, "junk"            *)
(*            not an expression at all; "none" for other lines]             *)
(* Literal syntax inside a value (Python repr / ast.literal_eval) is not   *)
(* modelled: the number of physical lines of a value is a free parameter   *)
(* (k) and the value itself is only seen through the datagram bodies.      *)
(*                                                                         *)
(* Abstract message: [ncom |-> number of comment lines under the header,   *)
(*   blocks |-> << [name, inst |-> << <<var, ...>>, ... >>], ... >>]       *)
(*   var = [n |-> name, ser |-> a subfield serializer is registered,       *)
(*          pretty |-> "ok" | "unser" | "raise"  (what the serializer      *)
(*                     makes of this value), inline |-> ORIG_INLINE,       *)
(*          k |-> physical lines of the printed value,                     *)
(*          vk / pvk |-> value class of the printed plain / pretty value]   *)
(***************************************************************************)
EXTENDS Integers, Sequences, TLC

Tok(k, name, pk, ev, bs) == [k |-> k, name |-> name, pk |-> pk, ev |-> ev, bs |-> bs, val |-> "none"]
ATok(name, pk, ev, bs, val) == [k |-> "assign", name |-> name, pk |-> pk, ev |-> ev, bs |-> bs, val |-> val]
CommentTok == Tok("comment", "", FALSE, FALSE, FALSE)
HeaderTok == Tok("other", "", FALSE, FALSE, FALSE)

\* -------------------------------------------------------------- the printer
Mode(v, beautify) == IF beautify /\ v.ser /\ v.pretty = "ok" THEN (IF v.inline THEN "inline" ELSE "packed") ELSE "plain"
RECURSIVE ContLines(_)
\* the 2nd..k-th physical line of a value: all but the last end with the continuation backslash
ContLines(n) == IF n = 0 THEN <<>> ELSE <<Tok("other", "", FALSE, FALSE, n > 1)>> \o ContLines(n - 1)
VarLines(v, beautify) ==
    LET md == Mode(v, beautify) IN
    <<ATok(v.n, md # "plain", FALSE, v.k > 1, IF md = "plain" THEN v.vk ELSE v.pvk)>> \o ContLines(v.k - 1)
    \o (IF md = "packed" THEN <<CommentTok>> ELSE <<>>)        \* "#Var = <orig>" under a packed value
RECURSIVE InstLines(_, _)
InstLines(vs, beautify) == IF Len(vs) = 0 THEN <<>> ELSE VarLines(vs[1], beautify) \o InstLines(Tail(vs), beautify)
RECURSIVE BlockLines(_, _, _)
BlockLines(name, insts, beautify) ==
    IF Len(insts) = 0 THEN <<>>
    ELSE <<Tok("block", name, FALSE, FALSE, FALSE)>> \o InstLines(insts[1], beautify) \o BlockLines(name, Tail(insts), beautify)
RECURSIVE BlocksLines(_, _)
BlocksLines(bs, beautify) == IF Len(bs) = 0 THEN <<>>
                             ELSE BlockLines(bs[1].name, bs[1].inst, beautify) \o BlocksLines(Tail(bs), beautify)
Format(m, beautify) == <<HeaderTok>> \o [i \in 1..m.ncom |-> CommentTok] \o BlocksLines(m.blocks, beautify)

\* what a faithful reader must make of the text: the events in order (continuation lines are part of their assignment)
RECURSIVE ExpInst(_, _)
ExpInst(vs, beautify) ==
    IF Len(vs) = 0 THEN <<>>
    ELSE <<<<"assign", vs[1].n, Mode(vs[1], beautify) # "plain">>>>
         \o (IF Mode(vs[1], beautify) = "packed" THEN <<<<"comment">>>> ELSE <<>>) \o ExpInst(Tail(vs), beautify)
RECURSIVE ExpBlock(_, _, _)
ExpBlock(name, insts, beautify) ==
    IF Len(insts) = 0 THEN <<>> ELSE <<<<"block", name>>>> \o ExpInst(insts[1], beautify) \o ExpBlock(name, Tail(insts), beautify)
RECURSIVE ExpBlocks(_, _)
ExpBlocks(bs, beautify) == IF Len(bs) = 0 THEN <<>> ELSE ExpBlock(bs[1].name, bs[1].inst, beautify) \o ExpBlocks(Tail(bs), beautify)
Expect(m, beautify) == <<<<"header">>>> \o [i \in 1..m.ncom |-> <<"comment">>] \o ExpBlocks(m.blocks, beautify)

\* block structure of a message and of what a reader rebuilt: << <<name, instances>>, ... >>
RECURSIVE Shape(_)
Shape(bs) == IF Len(bs) = 0 THEN <<>> ELSE <<<<bs[1].name, Len(bs[1].inst)>>>> \o Shape(Tail(bs))
RECURSIVE Rebuilt(_, _)
\* from the events: consecutive "block" events of one name are the instances of one block list
Rebuilt(evs, acc) ==
    IF Len(evs) = 0 THEN acc
    ELSE IF evs[1][1] # "block" THEN Rebuilt(Tail(evs), acc)
    ELSE IF Len(acc) > 0 /\ acc[Len(acc)][1] = evs[1][2]
         THEN Rebuilt(Tail(evs), [acc EXCEPT ![Len(acc)] = <<evs[1][2], acc[Len(acc)][2] + 1>>])
         ELSE Rebuilt(Tail(evs), Append(acc, <<evs[1][2], 1>>))

\* --------------------------------------------------------------- the parser
\* st: [phase |-> "hdr" | "body", cur |-> a block is open, cont |-> inside a continued value,
\*      status |-> "run" | "rejected" (eval operator in safe mode) | "refused" (value is not a literal) | "crashed",
\*      evaluated |-> text was run as an expression, evs |-> events so far]
St0 == [phase |-> "hdr", cur |-> FALSE, cont |-> FALSE, status |-> "run", evaluated |-> FALSE, evs |-> <<>>]
Branches == {"cont", "comment", "header", "block", "reject", "eval", "assign", "refuse", "fallback", "garbage"}
\* Values of assignments without the eval operator go through the literal parser only: a value is taken iff
\* it is a literal, or -- under plain "=" -- one of the parser's special forms.  Everything else is REFUSED
\* (an exception), in safe mode and otherwise; it is never evaluated and never accepted.
\* ("litnf": a literal but for the names inf / nan, the repr of non-finite floats: constants, nothing to run; a reader
\* may take it -- it has to, for pretty-printed subfields holding an infinity to read back -- so it is never REQUIRED to
\* be refused)
Acceptable(tok) == tok.val \in {"lit", "litnf"} \/ (tok.val = "special" /\ ~tok.pk)
\* Fallback names a parser variant that, for packed values the literal parser rejects, falls back to
\* evaluating the text (a design the safe-mode law refutes; kept so that TLC shows the law bites).
CONSTANT Fallback
Branch(st, tok, safe) ==
    IF st.cont THEN "cont"                       \* lines.pop(0) inside the continuation loop: whatever the line looks like
    ELSE IF tok.k = "comment" THEN "comment"
    ELSE IF st.phase = "hdr" THEN "header"       \* first non-comment line
    ELSE IF tok.k = "block" THEN "block"
    ELSE IF tok.k = "assign" THEN (IF tok.ev THEN (IF safe THEN "reject" ELSE "eval")
                                   ELSE IF Acceptable(tok) THEN "assign"
                                   ELSE IF Fallback /\ tok.pk /\ tok.val = "expr" THEN "fallback" ELSE "refuse")
    ELSE "garbage"
Apply(st, tok, br) ==
    CASE br = "cont" -> [st EXCEPT !.cont = tok.bs]
      [] br = "comment" -> [st EXCEPT !.evs = Append(@, <<"comment">>)]
      [] br = "header" -> [st EXCEPT !.phase = "body", !.evs = Append(@, <<"header">>)]
      [] br = "block" -> [st EXCEPT !.cur = TRUE, !.evs = Append(@, <<"block", tok.name>>)]
      \* raise ValueError("Can't use eval operator in safe mode")
      [] br = "reject" -> [st EXCEPT !.status = "rejected"]
      \* subfield_eval(...), then the assignment (which needs an open block)
      [] br = "eval" -> [st EXCEPT !.evaluated = TRUE, !.cont = tok.bs,
                                  !.status = IF st.cur THEN "run" ELSE "crashed",
                                  !.evs = Append(@, <<"assign", tok.name, tok.pk>>)]
      [] br = "assign" -> [st EXCEPT !.cont = tok.bs, !.status = IF st.cur THEN "run" ELSE "crashed",
                                    !.evs = Append(@, <<"assign", tok.name, tok.pk>>)]
      \* ast.literal_eval raises: the text is neither taken nor run
      [] br = "refuse" -> [st EXCEPT !.status = "refused"]
      [] br = "fallback" -> [st EXCEPT !.evaluated = TRUE, !.cont = tok.bs, !.status = IF st.cur THEN "run" ELSE "crashed",
                                      !.evs = Append(@, <<"assign", tok.name, tok.pk>>)]
      [] br = "garbage" -> [st EXCEPT !.status = "crashed"]
RECURSIVE RunAll(_, _, _)
RunAll(st, toks, safe) == IF Len(toks) = 0 \/ st.status # "run" THEN st
                          ELSE RunAll(Apply(st, toks[1], Branch(st, toks[1], safe)), Tail(toks), safe)
Parse(toks, safe) == RunAll(St0, toks, safe)

\* the reader understood the text exactly as the printer meant it
Faithful(toks, m, beautify) ==
    LET st == Parse(toks, TRUE) IN
    st.status = "run" /\ ~st.cont /\ ~st.evaluated /\ st.evs = Expect(m, beautify)

\* ------------------------------------------------------- the bounded model
CONSTANTS Msgs,        \* abstract messages whose printed form is parsed ("law" runs)
          Alphabet,    \* line tokens for text-level fuzz
          FuzzLen
VARIABLES kind,        \* "law" | "fuzz"
          msg, beautify, safe,
          toks,        \* the whole text, rest: what the parser has not read yet
          rest, st
vars == <<kind, msg, beautify, safe, toks, rest, st>>
NoMsg == [ncom |-> 0, blocks |-> <<>>]
RECURSIVE SeqsUpTo(_, _)
SeqsUpTo(S, n) == IF n = 0 THEN {<<>>} ELSE LET r == SeqsUpTo(S, n - 1) IN r \cup {Append(s, a) : s \in {x \in r : Len(x) = n - 1}, a \in S}

Init == \/ /\ kind = "law" /\ msg \in Msgs /\ beautify \in BOOLEAN /\ safe = TRUE
           /\ toks = Format(msg, beautify) /\ rest = toks /\ st = St0
        \/ /\ kind = "fuzz" /\ msg = NoMsg /\ beautify = FALSE /\ safe \in BOOLEAN
           /\ toks \in SeqsUpTo(Alphabet, FuzzLen) /\ rest = toks /\ st = St0
Do(br) == /\ st.status = "run" /\ Len(rest) > 0
          /\ Branch(st, rest[1], safe) = br
          /\ st' = Apply(st, rest[1], br)
          /\ rest' = Tail(rest)
          /\ UNCHANGED <<kind, msg, beautify, safe, toks>>
Next == \E br \in Branches : Do(br)
Spec == Init /\ [][Next]_vars

Finished == Len(rest) = 0 \/ st.status # "run"
\* safe mode never evaluates, whatever the text
SafeNeverEvaluates == safe => ~st.evaluated
\* and it refuses exactly when an eval operator is reached outside a continued value
RejectsOnlyEval == st.status = "rejected" => safe
\* text is only ever run through the eval operator with safe mode off: never through "=" or "=|"
OnlyEvalOperatorEvaluates == st.evaluated => (~safe /\ \E i \in 1..Len(toks) : toks[i].k = "assign" /\ toks[i].ev)
\* the step machine and its closed form agree (the closed form is what trace validation uses)
StepIsRunAll == Finished => st = Parse(toks, safe)
\* printed text is read back as it was meant: every variable once, from the right kind of line, comments inert
ReadsBack == (kind = "law" /\ Finished) => (st.status = "run" /\ ~st.cont /\ ~st.evaluated /\ st.evs = Expect(msg, beautify))
\* ... and the block structure survives, INCLUDING blocks with zero instances
StructurePreserved == (kind = "law" /\ Finished) => Rebuilt(st.evs, <<>>) = Shape(msg.blocks)
=============================================================================
