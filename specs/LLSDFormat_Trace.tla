---- MODULE LLSDFormat_Trace ----
(* Binding B3, code -> spec, of C12's codec clause.  One event per (value, serialised form) *)
(* recorded from the real formatters and parsers:                                           *)
(*  {"ev":"Form","form":"bin"|"binh"|"zip"|"not"|"xml"|"xmlp","v":value,"st":"ok"|"raise",  *)
(*   "sniff":expected format for llsd.parse() or "none","head":[first bytes],"sst":..,"rs":   *)
(*   value handed back by llsd.parse(),                                                      *)
(*   "out":[bytes],"pst":"ok"|"raise","r":re-parsed value,"dt":[[d8,civil]..],              *)
(*   "rt":[[text,b8]..]}                                                                    *)
(* v and r are projections of Python objects (type tag + payload, maps sorted by key);      *)
(* out are the bytes the real formatter produced (for "zip": after inflating with Python's  *)
(* zlib).  TLC parses the bytes itself with the reference parsers of LLSDFormat and         *)
(* compares values structurally, type tags included.                                       *)
EXTENDS LLSDFormat, Json, IOUtils, TLCExt
TraceLog == ndJsonDeserialize(IOEnv.TRACE_FILE)
VARIABLES l, tid
Chk(name, cond) == IF cond THEN TRUE ELSE PrintT(ToJson([fail |-> name, line |-> l, tid |-> tid]))
Env(name, cond) == Assert(cond, <<"driver violated an environment assumption", name, l>>)
IsEvent(e) == l <= Len(TraceLog) /\ TraceLog[l].ev = e /\ l' = l + 1
Rec == TraceLog[l]
TInit == l = 1 /\ tid = -1
TReset == IsEvent("Reset") /\ tid' = Rec.tid

Binaryish == {"bin", "binh", "zip"}
TForm ==
    /\ IsEvent("Form") /\ UNCHANGED tid
    /\ Env("value is canonical LLSD", IsLLSD(Rec.v) /\ Same(Canon(Rec.v), Rec.v))
    /\ Env("known form", Rec.form \in Binaryish \cup {"not", "xml", "xmlp"})
    /\ Chk(Rec.form \o ".format-ok", Rec.st = "ok")
    /\ Chk(Rec.form \o ".parse-ok", Rec.st = "ok" => Rec.pst = "ok")
    \* the value that comes back is the value that went in: same structure, same LLSD types, same instants
    /\ Chk(Rec.form \o ".roundtrip", (Rec.st = "ok" /\ Rec.pst = "ok") => Same(Rec.r, Rec.v))
    \* the bytes are a document of the format and denote the value
    /\ Chk(Rec.form \o ".denotes", (Rec.st = "ok" /\ Rec.form \in Binaryish) => Same(DenotesBin(Rec.out, Rec.dt), Rec.v))
    \* with_header=True / False means what it says (the zipped form's payload is not constrained by the property)
    /\ Chk(Rec.form \o ".header", (Rec.st = "ok" /\ Rec.form \in {"bin", "binh"}) => ((Rec.form = "binh") <=> (BodyStart(Rec.out) > 1)))
    \* documents that announce their own format ("sniff" = "bin" | "xml" | "not"; "none" for bare / zipped binary) also go
    \* through the content-sniffing dispatcher llsd.parse(): it must pick that format (head = first bytes of the
    \* document) and hand back the same value
    /\ Chk(Rec.form \o ".sniff-kind", (Rec.st = "ok" /\ Rec.sniff # "none") => Sniff(Rec.head) = Rec.sniff)
    /\ Chk(Rec.form \o ".sniff-parse", (Rec.st = "ok" /\ Rec.sniff # "none") => (Rec.sst = "ok" /\ Same(Rec.rs, Rec.v)))
    /\ Chk(Rec.form \o ".sniff-denotes", (Rec.st = "ok" /\ Rec.sniff \in {"bin", "not"}) => Same(SniffParse(Rec.out, Rec.dt, Rec.rt), Rec.v))
    /\ Chk("not.denotes", (Rec.st = "ok" /\ Rec.form = "not") => Same(DenotesNot(Rec.out, Rec.rt), Rec.v))
    /\ Chk("not.no-raw-newline", (Rec.st = "ok" /\ Rec.form = "not") => NoRawNewline(Rec.out))

\* {"ev":"Long","what":..,"n":bytes of the long string,"st","pst","same":parse_notation(out) == value (recorded),
\*  "outlen":len(out),"out_rl":[[byte,count]..] the notation output in run-length form,
\*  "top":the value is the bare string,"binhead":[first 5 bytes of the headerless binary form],"binlen":its length}
\* long string values (around and far beyond 1024 bytes): the output law is evaluated by TLC on the run-length form
TLong == /\ IsEvent("Long") /\ UNCHANGED tid
         /\ Env("run-length form covers the whole output", LenRL(Rec.out_rl) = Rec.outlen)
         /\ Chk("long.format-ok", Rec.st = "ok")
         /\ Chk("long.parse-ok", Rec.st = "ok" => Rec.pst = "ok")
         /\ Chk("long.roundtrip", (Rec.st = "ok" /\ Rec.pst = "ok") => Rec.same)
         /\ Chk("long.no-raw-newline", Rec.st = "ok" => NoRawNewlineRL(Rec.out_rl))
         /\ Chk("long.output-not-shorter-than-value", Rec.st = "ok" => Rec.outlen >= Rec.n)
         /\ Chk("long.binary-framing", Rec.top => (Rec.binlen = Rec.n + 5 /\ Rec.binhead = <<115>> \o BE32(Rec.n)))
TNext == TReset \/ TForm \/ TLong
TraceSpec == TInit /\ [][TNext]_<<l, tid>>
TraceAccepted == PrintT("TRACE_REACHED " \o ToString(TLCGet("stats").diameter - 1) \o " OF " \o ToString(Len(TraceLog)))
====
