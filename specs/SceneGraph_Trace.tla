---- MODULE SceneGraph_Trace ----
(* Binding B2: validates recorded executions of the real object managers (long random histories  *)
(* over a larger universe than the exhaustive model) against the Spec layer.  One file holds many *)
(* traces, each introduced by a Reset record.  Every event is                                      *)
(*   {"ev": <action>, <arguments>, "obs": <what the real code showed after the call>}              *)
(* Events without "obs" are blocks of a multi-block message: the code is observed after the last   *)
(* block only, and the outputs of the blocks (kill events, request outcomes) are accumulated.      *)
(* The Spec action is applied with the logged arguments and the logged observation is compared,    *)
(* clause by clause, with the views DERIVED from the Spec's object map.  Failed clauses are named  *)
(* (fail records) and the trace continues from the Spec's own state; an event whose environment    *)
(* guard is false is a driver bug (Assert), not a violation.                                       *)
EXTENDS SceneGraph, Integers, Json, IOUtils, TLCExt
TraceLog == ndJsonDeserialize(IOEnv.TRACE_FILE)
VARIABLES l, tid,
          acc     \* outputs of the blocks of the current message that were not observed yet
tvars == <<svars, l, tid, acc>>

\* named check: the logged value must equal the value the specification derives
Chk(name, got, exp, tags) == IF got = exp THEN TRUE
                             ELSE PrintT(ToJson([fail |-> name, line |-> l, tid |-> tid, i |-> TraceLog[l].i,
                                                 exp |-> exp, tags |-> tags]))
\* triage labels of every labelled event are printed, so that a failing case can name what preceded it
Note(tags) == IF tags = {} THEN TRUE ELSE PrintT(ToJson([note |-> tags, tid |-> tid, i |-> TraceLog[l].i]))
Env(name, cond) == Assert(cond, <<"driver violated environment assumption", name, l>>)
IsEvent(e) == l <= Len(TraceLog) /\ TraceLog[l].ev = e /\ l' = l + 1
Rec == TraceLog[l]
SetOf(s) == {s[i] : i \in DOMAIN s}

\* logged observation against the Spec's views of the state AFTER the step
Merge(x, y) == [killed |-> x.killed \cup y.killed, resolved |-> x.resolved \cup y.resolved,
                cancelled |-> x.cancelled \cup y.cancelled]
ObsOK(o, ou, tags) ==
    LET E == SObs(obj', tracked')
    IN /\ Note(tags)
       /\ Chk("raised", o.raised, "", tags)
       /\ Chk("idx.session", SetOf(o.sess), E.sess, tags)
       /\ Chk("idx.region.local", SetOf(o.regl), E.reg, tags)
       \* a region's lookup by full ID is judged while the region is tracked
       /\ Chk("idx.region.full", {x \in SetOf(o.regf) : x[1] \in tracked'}, E.reg, tags)
       /\ Chk("links", {<<x[1], x[2], SetOf(x[3])>> : x \in SetOf(o.links)}, E.links, tags)
       /\ Chk("childids", o.childids, "", tags)
       /\ Chk("events.killed", SetOf(o.killed), ou.killed, tags)
       /\ Chk("futures.pending", SetOf(o.pending), pending', tags)
       /\ Chk("futures.resolved", SetOf(o.resolved), ou.resolved, tags)
       /\ Chk("futures.cancelled", SetOf(o.cancelled), ou.cancelled, tags)
\* after the Spec action: judge the observation if the event carries one, else accumulate the outputs
After(tags) == IF "obs" \in DOMAIN Rec
               THEN ObsOK(Rec.obs, Merge(acc, out'), tags) /\ acc' = NoOut
               ELSE Note(tags) /\ acc' = Merge(acc, out')

TInit == Init /\ l = 1 /\ tid = -1 /\ acc = NoOut
TReset == /\ IsEvent("Reset")
          /\ obj' = [f \in FullIDs |-> Absent] /\ tracked' = InitTracked /\ pending' = {} /\ out' = NoOut
          /\ tid' = Rec.tid /\ acc' = NoOut
TAnnounce == /\ IsEvent("Announce")
             /\ Env("Announce", Rec.fid \in FullIDs /\ Rec.loc \in Locals /\ Rec.par \in Locals \cup {0}
                                /\ AnnounceOK(Rec.kind, Rec.fid, Rec.loc, Rec.par, Rec.reg))
             /\ Announce(Rec.kind, Rec.fid, Rec.loc, Rec.par, Rec.reg)
             /\ After(Tags("Announce", Rec.kind, Rec.fid, Rec.reg, Rec.loc)) /\ UNCHANGED tid
TTouch == /\ IsEvent("Touch")
          /\ Env("Touch", Rec.loc \in Locals /\ TouchOK(Rec.kind, Rec.reg, Rec.loc))
          /\ Touch(Rec.kind, Rec.reg, Rec.loc)
          /\ After(Tags("Touch", Rec.kind, "-", Rec.reg, Rec.loc)) /\ UNCHANGED tid
TProps == /\ IsEvent("Props")
          /\ Env("Props", Rec.fid \in FullIDs)
          /\ Props(Rec.fid)
          /\ After(Tags("Props", "-", Rec.fid, "-", 0)) /\ UNCHANGED tid
TKill == /\ IsEvent("Kill")
         /\ Env("Kill", Rec.reg \in tracked /\ Rec.loc \in Locals)
         /\ Kill(Rec.reg, Rec.loc)
         /\ After(Tags("Kill", "-", "-", Rec.reg, Rec.loc)) /\ UNCHANGED tid
TTrack == /\ IsEvent("Track")
          /\ Env("Track", TrackOK(Rec.reg))
          /\ Track(Rec.reg)
          /\ After(Tags("Track", "-", "-", Rec.reg, 0)) /\ UNCHANGED tid
TTeardown == /\ IsEvent("Teardown")
             /\ Env("Teardown", Rec.reg \in Trackable)
             /\ Teardown(Rec.reg)
             /\ After(Tags("Teardown", "-", "-", Rec.reg, 0)) /\ UNCHANGED tid
TRequest == /\ IsEvent("Request")
            /\ Env("Request", Rec.loc \in Locals /\ RequestOK(Rec.reg, Rec.loc, Rec.ty))
            /\ Request(Rec.reg, Rec.loc, Rec.ty)
            /\ After({}) /\ UNCHANGED tid
TNext == TReset \/ TAnnounce \/ TTouch \/ TProps \/ TKill \/ TTrack \/ TTeardown \/ TRequest
TraceSpec == TInit /\ [][TNext]_tvars
TraceAccepted == PrintT("TRACE_REACHED " \o ToString(TLCGet("stats").diameter - 1) \o " OF " \o ToString(Len(TraceLog)))
====
