---- MODULE SceneGraph_Trace ----
(* Binding B2: validates recorded executions of the real object managers (long random histories  *)
(* over a larger universe than the exhaustive model) against the Spec layer.  One file holds many *)
(* traces, each introduced by a Reset record.  Every event is                                      *)
(*   {"ev": <action>, <arguments>, "obs": <what the real code showed after the call>}              *)
(* The Spec action is applied with the logged arguments and the logged observation is compared,    *)
(* clause by clause, with the views DERIVED from the Spec's object map.  Failed clauses are named  *)
(* (fail records) and the trace continues from the Spec's own state; an event whose environment    *)
(* guard is false is a driver bug (Assert), not a violation.                                       *)
EXTENDS SceneGraph, Integers, Json, IOUtils, TLCExt
TraceLog == ndJsonDeserialize(IOEnv.TRACE_FILE)
VARIABLES l, tid
tvars == <<svars, l, tid>>

\* the object the event addresses by full ID, as the Spec sees it BEFORE the step (a label for triage)
Target == IF "fid" \notin DOMAIN TraceLog[l] THEN "-"
          ELSE IF obj[TraceLog[l].fid].local = 0 THEN "unknown-fullid"
          ELSE IF obj[TraceLog[l].fid].region \in tracked THEN "tracked-region" ELSE "regionless"
\* named check: the logged value must equal the value the specification derives
Chk(name, got, exp) == IF got = exp THEN TRUE
                       ELSE PrintT(ToJson([fail |-> name, line |-> l, tid |-> tid, i |-> TraceLog[l].i,
                                           exp |-> exp, tgt |-> Target]))
Env(name, cond) == Assert(cond, <<"driver violated environment assumption", name, l>>)
IsEvent(e) == l <= Len(TraceLog) /\ TraceLog[l].ev = e /\ l' = l + 1
Rec == TraceLog[l]
SetOf(s) == {s[i] : i \in DOMAIN s}

\* logged observation against the Spec's views of the state AFTER the step
ObsOK(o) ==
    LET E == SObs(obj', tracked')
    IN /\ Chk("raised", o.raised, "")
       /\ Chk("idx.session", SetOf(o.sess), E.sess)
       /\ Chk("idx.region.local", SetOf(o.regl), E.reg)
       /\ Chk("idx.region.full", SetOf(o.regf), E.reg)
       /\ Chk("links", {<<x[1], x[2], SetOf(x[3])>> : x \in SetOf(o.links)}, E.links)
       /\ Chk("childids", o.childids, "")
       /\ Chk("events.killed", SetOf(o.killed), out'.killed)
       /\ Chk("futures.pending", SetOf(o.pending), pending')
       /\ Chk("futures.resolved", SetOf(o.resolved), out'.resolved)
       /\ Chk("futures.cancelled", SetOf(o.cancelled), out'.cancelled)

TInit == Init /\ l = 1 /\ tid = -1
TReset == /\ IsEvent("Reset")
          /\ obj' = [f \in FullIDs |-> Absent] /\ tracked' = InitTracked /\ pending' = {} /\ out' = NoOut
          /\ tid' = Rec.tid
TAnnounce == /\ IsEvent("Announce")
             /\ Env("Announce", Rec.fid \in FullIDs /\ Rec.loc \in Locals /\ Rec.par \in Locals \cup {0}
                                /\ AnnounceOK(Rec.kind, Rec.fid, Rec.loc, Rec.par, Rec.reg))
             /\ Announce(Rec.kind, Rec.fid, Rec.loc, Rec.par, Rec.reg)
             /\ ObsOK(Rec.obs) /\ UNCHANGED tid
TTouch == /\ IsEvent("Touch")
          /\ Env("Touch", Rec.loc \in Locals /\ TouchOK(Rec.kind, Rec.reg, Rec.loc))
          /\ Touch(Rec.kind, Rec.reg, Rec.loc)
          /\ ObsOK(Rec.obs) /\ UNCHANGED tid
TProps == /\ IsEvent("Props")
          /\ Env("Props", Rec.fid \in FullIDs)
          /\ Props(Rec.fid)
          /\ ObsOK(Rec.obs) /\ UNCHANGED tid
TKill == /\ IsEvent("Kill")
         /\ Env("Kill", Rec.reg \in tracked /\ Rec.loc \in Locals)
         /\ Kill(Rec.reg, Rec.loc)
         /\ ObsOK(Rec.obs) /\ UNCHANGED tid
TTrack == /\ IsEvent("Track")
          /\ Env("Track", Rec.reg \in Trackable \ tracked)
          /\ Track(Rec.reg)
          /\ ObsOK(Rec.obs) /\ UNCHANGED tid
TTeardown == /\ IsEvent("Teardown")
             /\ Env("Teardown", Rec.reg \in tracked)
             /\ Teardown(Rec.reg)
             /\ ObsOK(Rec.obs) /\ UNCHANGED tid
TRequest == /\ IsEvent("Request")
            /\ Env("Request", Rec.loc \in Locals /\ RequestOK(Rec.reg, Rec.loc, Rec.ty))
            /\ Request(Rec.reg, Rec.loc, Rec.ty)
            /\ ObsOK(Rec.obs) /\ UNCHANGED tid
TNext == TReset \/ TAnnounce \/ TTouch \/ TProps \/ TKill \/ TTrack \/ TTeardown \/ TRequest
TraceSpec == TInit /\ [][TNext]_tvars
TraceAccepted == PrintT("TRACE_REACHED " \o ToString(TLCGet("stats").diameter - 1) \o " OF " \o ToString(Len(TraceLog)))
====
