---- MODULE TaskScheduler_MBT ----
EXTENDS TaskScheduler, Json
CONSTANT Depth
P(act) == PrintT(ToJson([src |-> tasks, act |-> act, dst |-> tasks', obs |-> [o |-> out', s |-> Obs']]))
MInit == Init /\ PrintT(ToJson([init |-> tasks]))
MNext == /\ TLCGet("level") < Depth
         /\ \/ \E s \in Sessions \cup {0}, a \in Addons, rs, ss, as \in BOOLEAN :
                  Schedule(s, a, rs, ss, as) /\ P([n |-> "Schedule", s |-> s, a |-> a, rs |-> rs, ss |-> ss, as |-> as])
            \/ \E i \in 1..MaxTasks : Finish(i) /\ P([n |-> "Finish", i |-> i])
            \/ \E s \in Sessions : SessionClosed(s) /\ P([n |-> "SessionClosed", s |-> s])
            \/ \E s \in Sessions : RegionChanged(s) /\ P([n |-> "RegionChanged", s |-> s])
            \/ \E a \in Addons : AddonUnloaded(a) /\ P([n |-> "AddonUnloaded", a |-> a])
            \/ Shutdown /\ P([n |-> "Shutdown"])
MSpec == MInit /\ [][MNext]_vars
====
