---------------------------- MODULE Combinators_Inst ----------------------------
(* A spec INSTANCE has no history.  The machine performs, on one instance, any sequence of               *)
(*   Q   ask the instance for its size            QI  ask every spec nested in it (innermost first)     *)
(*   W   write a domain value                     R   read that value's encoding back                   *)
(* up to a depth bound.  Its specification is stateless: the answer to an action is a function of the   *)
(* action alone -- Size(t) for Q, Size of each part for QI, Enc(t, v) for W, Dec(t, Enc(t, v)) for R -- *)
(* so `answers` only ever holds one answer per kind of action (Pure), whatever was done before.  Every  *)
(* history TLC enumerates is replayed on a fresh real instance of every tree of the tables; each answer *)
(* is compared with the table (bytes, value, size) and all size answers of one object with each other.  *)
EXTENDS Naturals, Sequences, TLC, Json
CONSTANT Depth
VARIABLES hist, answers
Acts == {"Q", "QI", "W", "R"}
\* the stateless specification: what an action answers (symbolically; the table of the tree has the values)
Answer(a) == CASE a = "Q" -> "Size(t)" [] a = "QI" -> "Size(part) for every part"
               [] a = "W" -> "Enc(t, v)" [] a = "R" -> "Dec(t, Enc(t, v)) = (v, <<>>)"
Init == hist = <<>> /\ answers = <<>> /\ PrintT(ToJson([hist |-> hist]))
Do(a) == /\ Len(hist) < Depth
         /\ hist' = Append(hist, a)
         /\ answers' = Append(answers, Answer(a))
         /\ PrintT(ToJson([hist |-> hist']))
Next == \E a \in Acts : Do(a)
Spec == Init /\ [][Next]_<<hist, answers>>
\* an instance is a pure function of its spec: equal questions get equal answers at any point of any history
Pure == \A x, y \in 1..Len(hist) : hist[x] = hist[y] => answers[x] = answers[y]
=============================================================================
