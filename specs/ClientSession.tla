---------------------------- MODULE ClientSession ----------------------------
(***************************************************************************)
(* The client endpoint's region / session life cycle                       *)
(* (hippolyzer/lib/client/hippo_client.py: HippoClientSession              *)
(* register_region / unregister_region / open_circuit /                    *)
(* _handle_register_region_message, HippoClientRegion connect / disconnect *)
(* / complete_agent_movement / _poll_event_queue, HippoClient teleport /   *)
(* logout / _attempt_resends; hippolyzer/lib/client/state.py:              *)
(* BaseClientSession register_region / region_by_handle /                  *)
(* region_by_circuit_addr / main_region).  Growth beyond the listed        *)
(* properties; hosted by C19.                                              *)
(*                                                                         *)
(* The session starts as HippoClient.login(connect=False) leaves it: one   *)
(* region (simulator 1) from the login reply, its circuit opened, nothing  *)
(* sent yet.  Simulator a has region handle a; its seed capability has a   *)
(* generation number.  Every action is one critical section of the code:  *)
(* a public call up to its first await, or the arrival of one datagram /   *)
(* event-queue event / clock tick together with everything the event loop  *)
(* runs until it is idle again.                                            *)
(*                                                                         *)
(* Time: one Tick is one resend period (Circuit.resend_every = 3 s, six    *)
(* rounds of HippoClient._attempt_resends).  A reliable message is         *)
(* transmitted Budget times (ReliableResendInfo.tries_left) and then given *)
(* up; teleport() waits TpTicks periods (30 s) for the new region.  A lost *)
(* datagram is a Tick without the acknowledgement.                         *)
(*                                                                         *)
(* Environment assumptions (guards of environment actions):                *)
(*  - a simulator talks to the client from UseCircuitCode until the client *)
(*    disconnects it ("Simulator has gone away", disconnect()'s docstring) *)
(*  - RegionHandshake arrives while the client waits for it (after         *)
(*    UseCircuitCode was acknowledged); TeleportFinish / CrossedRegion /   *)
(*    EstablishAgentCommunication / TeleportFailed arrive on the event     *)
(*    queue of a connected region (message.xml bans them from UDP)         *)
(*  - no second connect() on a region object while one is under way, and   *)
(*    none at all on a region that was disconnected while its connect()    *)
(*    waited for RegionHandshake ("stale": the old waiter is still         *)
(*    subscribed and would answer the next RegionHandshake a second time)  *)
(*  - every seed capability URL belongs to one simulator address           *)
(* Modelled as the code behaves, although a user might expect otherwise    *)
(* (reported, not judged here): futures dropped by Circuit.disconnect()    *)
(* are never resolved ("hung"); EstablishAgentCommunication for a new      *)
(* neighbour registers it and opens a circuit but does not connect, for a  *)
(* region whose circuit is alive it reconnects; teleport() waits for the   *)
(* region with the handle it asked for, not the announced one, cancels     *)
(* that region's `connected` future on timeout, and a later completion of  *)
(* connect() then raises InvalidStateError.                                *)
(***************************************************************************)
EXTENDS Naturals, Sequences, FiniteSets, TLC

CONSTANTS Sims,       \* simulator addresses that may become regions (1 is the login region)
          Stranger,   \* an address that never has a region
          Seeds,      \* seed capability generations a simulator may announce
          MaxN,       \* single clock ticks explored per outstanding message / waiting teleport
          MaxCalls,   \* connect() calls by the user
          MaxAnn,     \* region announcements by simulators
          Budget,     \* transmissions of one reliable message (code: 10)
          TpTicks,    \* resend periods teleport() waits for the new region (code: 30 s / 3 s)
          Bugs,       \* defects of the pinned tree the model mirrors (see UccNoResend below)
          Acts,       \* which actions the bounded model explores (restricting the user / the environment is always sound)
          Start       \* "fresh" / "connected" / "both": see Init

UCC == "UseCircuitCode"
CAM == "CompleteAgentMovement"
RHR == "RegionHandshakeReply"
THR == "AgentThrottle"
UPD == "AgentUpdate"
TLR == "TeleportLocationRequest"

\* which message the connect() coroutine is waiting to have acknowledged in each step
StepMsg == [ucc |-> UCC, cam |-> CAM, rhr |-> RHR, thr |-> THR, upd |-> UPD]
InProgress == {"ucc", "cam", "rh", "rhr", "thr", "upd"}

VARIABLES regs,      \* session.regions in list order; see NewRegion
          main,      \* address of session.main_region, 0 = None
          tp,        \* the future returned by teleport() and the coroutine behind it
          calls,     \* one entry per connect() the user called: [a, st]
          env,       \* [seedOk, loggedOut, expired, anns]
          out        \* what the last step showed: event, datagrams sent, HTTP requests started, exception raised

vars == <<regs, main, tp, calls, env, out>>

(***************************************************************************)
(* A region:                                                               *)
(*  a, h, seed   circuit address, handle (0 = None), seed generation       *)
(*  circ         "closed" (a Circuit that is not alive: just opened, or    *)
(*               disconnected) / "alive"                                   *)
(*  cg           how many Circuit objects this region has had: open_circuit *)
(*               replaces one that is not alive, and with it the memory of *)
(*               reliable packets already seen -- a simulator that comes   *)
(*               back after a restart numbers its packets from 1 again     *)
(*  caps         the seed capability has been fetched (EventQueueGet known)*)
(*  named        RegionHandshake has been processed (region.name set)      *)
(*  eq           the event queue is being polled                           *)
(*  conn         region.connected: "p" pending, "d" done, "x" cancelled,   *)
(*               "f:<Exception>"                                           *)
(*  st           the connect() coroutine on this region object: "idle"     *)
(*               (none), "ucc"/"cam"/"rhr"/"thr"/"upd" (waiting for the ack*)
(*               of that message), "rh" (waiting for RegionHandshake),     *)
(*               "hung" (waits for a future nobody will ever resolve),     *)
(*               "stale" (still waits for RegionHandshake on a region that *)
(*               was disconnected meanwhile)                               *)
(*  mn, rh, cl   of that coroutine: main_region argument, RegionHandshake  *)
(*               already seen, index into calls (0 = started by the client)*)
(*  un           circuit.unacked_reliable in insertion order: [m, n] with  *)
(*               n = retransmissions so far                                *)
(***************************************************************************)
NewRegion(a, h, s) == [a |-> a, h |-> h, seed |-> s, circ |-> "closed", cg |-> 1, caps |-> FALSE, named |-> FALSE, eq |-> FALSE,
                       conn |-> "p", st |-> "idle", mn |-> FALSE, rh |-> FALSE, cl |-> 0, un |-> <<>>]
TpNone == [st |-> "none", h |-> 0, q |-> "", r |-> 0, age |-> 0]
Quiet == [ev |-> "init", tx |-> <<>>, http |-> <<>>, raised |-> ""]

Connected(a) == [NewRegion(a, a, 1) EXCEPT !.circ = "alive", !.caps = TRUE, !.named = TRUE, !.eq = TRUE, !.conn = "d"]
\* "fresh": as login(connect=False) leaves the session; "connected": after the login handshake with simulator 1;
\* "both": after a TeleportFinish to simulator 2 and the handshake there (simulator 1 has not closed its circuit yet)
Init == /\ regs = CASE Start = "fresh" -> <<NewRegion(1, 1, 1)>>
                  [] Start = "connected" -> <<Connected(1)>>
                  [] Start = "both" -> <<Connected(1), Connected(2)>>
        /\ main = CASE Start = "fresh" -> 0 [] Start = "connected" -> 1 [] Start = "both" -> 2
        /\ tp = TpNone
        /\ calls = IF Start = "fresh" THEN <<>> ELSE <<[a |-> 1, st |-> "d"]>>
        /\ env = [seedOk |-> TRUE, loggedOut |-> FALSE, expired |-> FALSE, anns |-> IF Start = "both" THEN 1 ELSE 0]
        /\ out = Quiet

(******************************* helpers ***********************************)
Min(S) == CHOOSE x \in S : \A y \in S : x <= y
Idx(rs, a) == LET S == {i \in DOMAIN rs : rs[i].a = a} IN IF S = {} THEN 0 ELSE Min(S)
\* BaseClientSession.region_by_handle / region_by_circuit_addr: first match in list order
ByHandle(rs, h) == LET S == {i \in DOMAIN rs : rs[i].h = h} IN IF S = {} THEN 0 ELSE rs[Min(S)].a
ByAddr(rs, x) == IF Idx(rs, x) = 0 THEN 0 ELSE x
RemoveAt(s, i) == SubSeq(s, 1, i - 1) \o SubSeq(s, i + 1, Len(s))
HasMsg(r, m) == \E j \in DOMAIN r.un : r.un[j].m = m
SetCall(cs, k, v) == IF k = 0 THEN cs ELSE [cs EXCEPT ![k].st = v]

\* The world a step works on: the state plus what the step has shown so far
World == [regs |-> regs, main |-> main, tp |-> tp, calls |-> calls, env |-> env, tx |-> <<>>, http |-> <<>>, raised |-> ""]
Tx(W, a, m, rel, resent) == [W EXCEPT !.tx = Append(@, <<a, m, rel, resent>>)]
Http(W, kind, a) == [W EXCEPT !.http = Append(@, <<kind, a>>)]
\* circuit.send_reliable(message)
Send(W, i, m) == Tx([W EXCEPT !.regs[i].un = Append(@, [m |-> m, n |-> 0])], W.regs[i].a, m, TRUE, FALSE)

\* teleport(): whoever waits on region r's `connected` future sees it resolve
Settle(W) == IF W.tp.st = "conn" /\ W.tp.r # 0
             THEN LET c == W.regs[Idx(W.regs, W.tp.r)].conn
                  IN CASE c = "p" -> W
                       [] c = "d" -> [W EXCEPT !.tp.st = "d"]
                       [] c = "x" -> [W EXCEPT !.tp.st = "hung"]     \* CancelledError is not an Exception: the coroutine dies, the future stays pending
                       [] OTHER -> [W EXCEPT !.tp.st = c]
             ELSE W

\* Circuit.disconnect() drops the pending sends without resolving their futures
DropSends(W, i) == IF HasMsg(W.regs[i], TLR) /\ W.tp.st = "req" THEN [W EXCEPT !.tp.st = "hung", !.regs[i].un = <<>>]
                   ELSE [W EXCEPT !.regs[i].un = <<>>]

\* HippoClientRegion.disconnect()
Disc(W, i) == LET r == W.regs[i]
                  st2 == IF r.st \in {"ucc", "cam", "rhr", "thr", "upd"} THEN "hung" ELSE IF r.st = "rh" THEN "stale" ELSE r.st
              IN [DropSends(W, i) EXCEPT !.regs[i].eq = FALSE, !.regs[i].circ = "closed", !.regs[i].conn = "p", !.regs[i].st = st2,
                                         !.regs[i].mn = FALSE, !.regs[i].rh = FALSE, !.regs[i].cl = 0]

\* HippoClientRegion.connect(main_region = mn) up to its first await
StartConn(W, i, mn, cl) ==
    LET W1 == IF W.regs[i].circ = "alive" THEN Disc(W, i) ELSE W
    IN Send([W1 EXCEPT !.regs[i].conn = "p", !.regs[i].st = "ucc", !.regs[i].mn = mn, !.regs[i].rh = FALSE, !.regs[i].cl = cl], i, UCC)

\* connect() raising e
FailConn(W, i, e) == LET r == W.regs[i]
                     IN [W EXCEPT !.regs[i].st = "idle", !.regs[i].conn = IF @ = "p" THEN "f:" \o e ELSE @,
                                  !.regs[i].mn = FALSE, !.regs[i].rh = FALSE, !.regs[i].cl = 0,
                                  !.calls = SetCall(@, r.cl, "f:" \o e)]

\* RegionHandshake reaches the coroutine: RegionHandshakeReply
GotRH(W, i) == Send([W EXCEPT !.regs[i].st = "rhr", !.regs[i].named = TRUE, !.regs[i].rh = FALSE], i, RHR)

\* last stretch of connect(): fetch the seed capability, start polling the event queue, resolve `connected`
Finish(W, i) == LET r == W.regs[i]
                    W1 == Http(W, "seed", r.a)
                    ok == r.conn = "p"
                IN IF ~W.env.seedOk THEN FailConn(W1, i, "FakeHTTPError")
                   ELSE Http([W1 EXCEPT !.regs[i].caps = TRUE, !.regs[i].eq = TRUE, !.regs[i].st = "idle",
                                         !.regs[i].mn = FALSE, !.regs[i].rh = FALSE, !.regs[i].cl = 0,
                                         !.regs[i].conn = IF ok THEN "d" ELSE @,      \* set_result on a cancelled future raises
                                         !.calls = SetCall(@, r.cl, IF ok THEN "d" ELSE "f:InvalidStateError")], "eq", r.a)

\* the teleport coroutine takes a "we are done" message off its queue
TpProcess(W, msg) == CASE msg = "Failed" -> [W EXCEPT !.tp.st = "f:RuntimeError"]
                       [] msg = "Local" -> [W EXCEPT !.tp.st = "d"]
                       [] OTHER -> LET a == ByHandle(W.regs, W.tp.h)     \* the region asked for, not the one announced
                                   IN IF a = 0 THEN [W EXCEPT !.tp.st = "f:AttributeError"]
                                      ELSE Settle([W EXCEPT !.tp.st = "conn", !.tp.r = a, !.tp.age = 0])
\* ... or the message arrives before the request has been acknowledged (queued; only the first one is looked at)
TpDeliver(W, msg) == IF W.tp.st = "req" THEN (IF W.tp.q = "" THEN [W EXCEPT !.tp.q = msg] ELSE W)
                     ELSE IF W.tp.st = "wait" THEN TpProcess(W, msg) ELSE W
TpAcked(W) == IF W.tp.st # "req" THEN W
              ELSE IF W.tp.q = "" THEN [W EXCEPT !.tp.st = "wait"]
              ELSE TpProcess([W EXCEPT !.tp.q = ""], W.tp.q)

\* an acknowledgement for message m of region i reaches whoever waits for it
OnAck(W, i, m) ==
    LET r == W.regs[i]
        W0 == [W EXCEPT !.regs[i].un = SelectSeq(@, LAMBDA x : x.m # m)]
    IN CASE m = TLR -> TpAcked(W0)
         [] m = UCC /\ r.st = "ucc" ->
               LET W1 == [W0 EXCEPT !.regs[i].circ = "alive", !.regs[i].caps = FALSE]
               IN IF r.mn THEN Send([W1 EXCEPT !.regs[i].st = "cam"], i, CAM) ELSE [W1 EXCEPT !.regs[i].st = "rh"]
         [] m = CAM /\ r.st = "cam" ->
               LET W1 == [W0 EXCEPT !.main = r.a]
               IN IF r.rh THEN GotRH(W1, i) ELSE [W1 EXCEPT !.regs[i].st = "rh"]
         [] m = RHR /\ r.st = "rhr" -> Send([W0 EXCEPT !.regs[i].st = "thr"], i, THR)
         [] m = THR /\ r.st = "thr" -> Send([W0 EXCEPT !.regs[i].st = "upd"], i, UPD)
         [] m = UPD /\ r.st = "upd" -> Finish(W0, i)
         [] OTHER -> W0

\* HippoClientSession.unregister_region
Unregister(W, i) == LET a == W.regs[i].a
                        W1 == Disc(W, i)
                    IN [W1 EXCEPT !.regs = RemoveAt(@, i), !.main = IF @ = a THEN 0 ELSE @, !.tp.r = IF @ = a THEN 0 ELSE @]

(***************************** the clock ***********************************)
\* Does HippoClient._attempt_resends look at this region?  It skips circuits that are not alive, and a circuit only
\* becomes alive once UseCircuitCode has been acknowledged: UseCircuitCode itself is never retransmitted (UccNoResend).
Resends(r) == IF "UccNoResend" \in Bugs THEN r.circ = "alive" ELSE TRUE

ResendRegion(W, i) ==
    LET r == W.regs[i]
        keep == SelectSeq(r.un, LAMBDA x : x.n + 1 < Budget)
        gone == SelectSeq(r.un, LAMBDA x : x.n + 1 >= Budget)
        W1 == [W EXCEPT !.regs[i].un = [j \in DOMAIN keep |-> [keep[j] EXCEPT !.n = @ + 1]],
                        !.tx = @ \o [j \in DOMAIN keep |-> <<r.a, keep[j].m, TRUE, TRUE>>]]
        W2 == IF (\E j \in DOMAIN gone : gone[j].m = TLR) /\ W1.tp.st = "req" THEN [W1 EXCEPT !.tp.st = "f:TimeoutError"] ELSE W1
    IN IF ~Resends(r) THEN W
       ELSE IF r.st \in DOMAIN StepMsg /\ (\E j \in DOMAIN gone : gone[j].m = StepMsg[r.st]) THEN FailConn(W2, i, "TimeoutError")
       ELSE W2
RECURSIVE TickRegs(_, _)
TickRegs(W, i) == IF i > Len(W.regs) THEN W ELSE TickRegs(ResendRegion(W, i), i + 1)

\* asyncio.wait_for(region.connected, 30) in teleport(): on timeout the awaited future is cancelled
TpAge(W) == IF W.tp.st # "conn" THEN W
            ELSE IF W.tp.age + 1 < TpTicks THEN [W EXCEPT !.tp.age = @ + 1]
            ELSE LET i == Idx(W.regs, W.tp.r)
                     W1 == [W EXCEPT !.tp.st = "f:TimeoutError"]
                 IN IF i # 0 /\ W.regs[i].conn = "p" THEN [W1 EXCEPT !.regs[i].conn = "x"] ELSE W1
TickOnce(W) == Settle(IF W.env.loggedOut THEN TpAge(W) ELSE TickRegs(TpAge(W), 1))
RECURSIVE TickN(_, _)
TickN(W, k) == IF k = 0 THEN W ELSE TickN(TickOnce(W), k - 1)
ExpireTicks == IF Budget > TpTicks THEN Budget ELSE TpTicks

(****************************** actions ************************************)
Commit(W0, ev) == LET W == Settle(W0)
                  IN /\ regs' = W.regs /\ main' = W.main /\ tp' = W.tp /\ calls' = W.calls /\ env' = W.env
                     /\ out' = [ev |-> ev, tx |-> W.tx, http |-> W.http, raised |-> W.raised]
Live == ~env.loggedOut
Reg(a) == regs[Idx(regs, a)]
Known(a) == Idx(regs, a) # 0

\* --- calls of the user ---------------------------------------------------
\* task = create_task(region.connect(main_region = mn)).  Not while an earlier connect() of the same region object is
\* still under way (two interleaved handshakes on one circuit are outside the model).
Connect(a, mn) == /\ "connect" \in Acts /\ Live /\ Known(a) /\ Reg(a).st \in {"idle", "hung"} /\ Len(calls) < MaxCalls
                  /\ Commit(StartConn([World EXCEPT !.calls = Append(@, [a |-> a, st |-> "p"])], Idx(regs, a), mn, Len(calls) + 1), "connect")
\* region.disconnect(): "Simulator has gone away"
Disconnect(a) == /\ "disconnect" \in Acts /\ Live /\ Known(a)
                 /\ Commit(Disc(World, Idx(regs, a)), "disconnect")
\* client.teleport(handle h)
Teleport(h) == /\ "teleport" \in Acts /\ Live /\ tp.st = "none"
               /\ IF main = 0 THEN Commit([World EXCEPT !.raised = "AttributeError"], "teleport")      \* main_circuit is None
                  ELSE Commit(Send([World EXCEPT !.tp = [TpNone EXCEPT !.st = "req", !.h = h]], Idx(regs, main), TLR), "teleport")
\* client.logout()
RECURSIVE DiscAll(_, _)
DiscAll(W, i) == IF i > Len(W.regs) THEN W ELSE DiscAll(Disc(W, i), i + 1)
Logout == /\ "logout" \in Acts /\ Live
          /\ LET W1 == IF main # 0 /\ Reg(main).circ = "alive" THEN Tx(World, main, "LogoutRequest", FALSE, FALSE) ELSE World
             IN Commit([DiscAll(W1, 1) EXCEPT !.env.loggedOut = TRUE], "logout")

\* --- datagrams from simulators ---------------------------------------------
\* a simulator talks to the client while it has reason to believe in the circuit: from UseCircuitCode until the client
\* disconnects ("simulator has gone away")
Up(a) == Known(a) /\ (Reg(a).circ = "alive" \/ HasMsg(Reg(a), UCC))
\* PacketAck for the outstanding message m
Ack(a, m) == /\ "ack" \in Acts /\ Live /\ Up(a) /\ HasMsg(Reg(a), m)
             /\ Commit(OnAck(World, Idx(regs, a), m), "ack")
\* RegionHandshake (reliable), once the circuit is established and the client waits for it
Handshake(a) == /\ "handshake" \in Acts /\ Live /\ Known(a) /\ Reg(a).circ = "alive" /\ Reg(a).st \in {"cam", "rh"}
                /\ LET i == Idx(regs, a)
                       W == Tx(World, a, "PacketAck", FALSE, FALSE)
                   IN Commit(IF Reg(a).st = "cam" THEN [W EXCEPT !.regs[i].rh = TRUE] ELSE GotRH(W, i), "handshake")
\* AgentMovementComplete (reliable): nothing waits for it
Moved(a) == /\ "moved" \in Acts /\ Live /\ Known(a) /\ Reg(a).circ = "alive"
            /\ Commit(Tx(World, a, "PacketAck", FALSE, FALSE), "moved")
\* DisableSimulator / CloseCircuit (reliable)
Disable(a) == /\ "disable" \in Acts /\ Live /\ Up(a)
              /\ Commit(Unregister(Tx(World, a, "PacketAck", FALSE, FALSE), Idx(regs, a)), "disable")
\* TeleportLocal (reliable) from the main region
TeleportLocal(a) == /\ "tplocal" \in Acts /\ Live /\ a = main /\ Known(a) /\ Reg(a).circ = "alive" /\ tp.st \in {"req", "wait"}
                    /\ Commit(TpDeliver(Tx(World, a, "PacketAck", FALSE, FALSE), "Local"), "tplocal")
\* a datagram from an address that has no region
Stray(x) == /\ "stray" \in Acts /\ Live /\ ~Known(x)
            /\ Commit(World, "stray")

\* --- events on the event queue of region `via` ------------------------------
Polling(via) == Known(via) /\ Reg(via).eq
Repoll(W, via) == IF Idx(W.regs, via) # 0 /\ W.regs[Idx(W.regs, via)].eq THEN Http(W, "eq", via) ELSE W
\* TeleportFinish / CrossedRegion (the agent moves to a) and EstablishAgentCommunication (a is a neighbour):
\* HippoClientSession._handle_register_region_message
Announce(via, kind, a, s) ==
    /\ kind \in Acts /\ Live /\ Polling(via) /\ env.anns < MaxAnn
    /\ Known(a) => Reg(a).st \in {"idle", "hung"}
    /\ LET moving == kind \in {"TeleportFinish", "CrossedRegion"}
           W0 == [World EXCEPT !.env.anns = @ + 1]
           \* register_region: a known address is updated, never duplicated
           W1 == IF Known(a) THEN [W0 EXCEPT !.regs[Idx(regs, a)].seed = s, !.regs[Idx(regs, a)].h = IF moving THEN a ELSE @]
                 ELSE [W0 EXCEPT !.regs = Append(@, NewRegion(a, IF moving THEN a ELSE 0, s))]
           i == Idx(W1.regs, a)
           alive == W1.regs[i].circ = "alive"
           \* open_circuit: a circuit that is not alive is replaced by a new one
           W2 == IF alive THEN W1 ELSE [DropSends(W1, i) EXCEPT !.regs[i].cg = IF Known(a) THEN @ + 1 ELSE @]
           \* need_connect = circuit alive or moving_to_region
           W3 == IF alive \/ moving THEN StartConn(W2, i, moving, 0) ELSE W2
           W4 == IF kind = "TeleportFinish" THEN TpDeliver(W3, "Finish") ELSE W3
       IN Commit(Repoll(W4, via), "announce")
\* EnableSimulator: deliberately not acted upon
EnableSim(via, a) == /\ "EnableSimulator" \in Acts /\ Live /\ Polling(via)
                     /\ Commit(Repoll(World, via), "enablesim")
TeleportFailed(via) == /\ "tpfailed" \in Acts /\ Live /\ Polling(via) /\ tp.st \in {"req", "wait"}
                       /\ Commit(Repoll(TpDeliver(World, "Failed"), via), "tpfailed")

\* --- environment ---------------------------------------------------------------
\* from now on the seed capability answers 500
SeedBreaks == /\ "seedbreaks" \in Acts /\ Live /\ env.seedOk
              /\ Commit([World EXCEPT !.env.seedOk = FALSE], "seedbreaks")
\* one resend period passes
Tick == /\ "tick" \in Acts
        /\ \A i \in DOMAIN regs : \A j \in DOMAIN regs[i].un : regs[i].un[j].n < MaxN
        /\ tp.st = "conn" => tp.age < MaxN
        /\ Commit(TickOnce(World), "tick")
\* ... or so many that every timeout has elapsed
Expire == /\ "expire" \in Acts /\ ~env.expired
          /\ Commit(TickN([World EXCEPT !.env.expired = TRUE], ExpireTicks), "expire")

Kinds == {"TeleportFinish", "CrossedRegion", "EstablishAgentCommunication"}
Next == \/ \E a \in Sims, mn \in BOOLEAN : Connect(a, mn)
        \/ \E a \in Sims : Disconnect(a) \/ Handshake(a) \/ Moved(a) \/ Disable(a) \/ TeleportLocal(a)
        \/ \E a \in Sims, m \in {UCC, CAM, RHR, THR, UPD, TLR} : Ack(a, m)
        \/ \E h \in Sims : Teleport(h)
        \/ Logout
        \/ \E x \in Sims \cup {Stranger} : Stray(x)
        \/ \E via \in Sims, k \in Kinds, a \in Sims, s \in Seeds : Announce(via, k, a, s)
        \/ \E via \in Sims, a \in Sims : EnableSim(via, a)
        \/ \E via \in Sims : TeleportFailed(via)
        \/ SeedBreaks \/ Tick \/ Expire
Spec == Init /\ [][Next]_vars

(***************************** properties **********************************)
Handshakes == {CAM, RHR, THR, UPD}
TxSet == {out.tx[j] : j \in DOMAIN out.tx}

TypeOK == /\ \A i \in DOMAIN regs : /\ regs[i].a \in Sims /\ regs[i].h \in Sims \cup {0} /\ regs[i].seed \in Seeds
                                    /\ regs[i].circ \in {"closed", "alive"}
                                    /\ regs[i].st \in InProgress \cup {"idle", "hung", "stale"}
          /\ main \in Sims \cup {0}
\* a region announced twice is not duplicated
NoDuplicateRegion == \A i, j \in DOMAIN regs : regs[i].a = regs[j].a => i = j
\* the main region is one of the registered regions, and the client has told it so (CompleteAgentMovement acknowledged
\* at some point: its circuit has been alive)
MainIsKnown == main # 0 => Known(main)
\* one handshake per region at a time, and what is outstanding is exactly the message of the current step
OneStepOutstanding == \A i \in DOMAIN regs :
    LET hs == SelectSeq(regs[i].un, LAMBDA x : x.m # TLR)
    IN IF regs[i].st \in DOMAIN StepMsg THEN Len(hs) = 1 /\ hs[1].m = StepMsg[regs[i].st] ELSE hs = <<>>
\* a circuit that is not alive carries nothing but an unanswered UseCircuitCode (and a teleport request made on a dead main circuit)
DeadIsQuiet == \A i \in DOMAIN regs : regs[i].circ = "closed" => /\ ~regs[i].eq
                                                                 /\ \A j \in DOMAIN regs[i].un : regs[i].un[j].m \in {UCC, TLR}
\* the event queue is polled exactly for regions whose handshake has completed
PollsOnlyConnected == \A i \in DOMAIN regs : regs[i].eq => regs[i].circ = "alive" /\ regs[i].caps
\* whatever this step sent went to a registered region (acknowledgements aside, which answer the sender), handshake messages
\* only over a live circuit, and retransmissions only where the resend loop looks
SendsGoSomewhere == out.ev # "expire" => \A t \in TxSet :
    /\ t[2] \in Handshakes /\ ~t[4] => Known(t[1]) /\ Reg(t[1]).circ = "alive" /\ Reg(t[1]).st \in DOMAIN StepMsg /\ StepMsg[Reg(t[1]).st] = t[2]
    /\ t[4] => Known(t[1]) /\ HasMsg(Reg(t[1]), t[2])
    /\ t[2] = UCC /\ ~t[4] => Known(t[1]) /\ Reg(t[1]).st = "ucc" /\ Reg(t[1]).circ = "closed"
\* a datagram from an address without a region changes nothing and is not answered
StrayIsInert == [][out'.ev = "stray" => regs' = regs /\ main' = main /\ tp' = tp /\ out'.tx = <<>>]_vars
\* the handshake is walked in order, one message per step
HandshakeInOrder == [][\A i \in DOMAIN regs' : \A j \in DOMAIN regs : regs'[i].a = regs[j].a /\ regs'[i].st # regs[j].st =>
                          <<regs[j].st, regs'[i].st>> \in
                              ({"idle", "hung", "stale", "rh", "ucc", "cam", "rhr", "thr", "upd"} \X {"ucc"})       \* (re)connect
                              \cup {<<"ucc", "cam">>, <<"ucc", "rh">>, <<"cam", "rh">>, <<"cam", "rhr">>, <<"rh", "rhr">>, <<"rhr", "thr">>,
                                    <<"thr", "upd">>, <<"upd", "idle">>}
                              \cup ({"ucc", "cam", "rhr", "thr", "upd"} \X {"hung", "idle"}) \cup {<<"rh", "stale">>}]_vars
\* the main region changes only when a CompleteAgentMovement is acknowledged (to that region) or the main region is dropped
MainSwitches == [][main' # main => ((out'.ev = "ack" /\ main' # 0 /\ Idx(regs', main') # 0 /\ regs'[Idx(regs', main')].mn)
                                    \/ (out'.ev = "disable" /\ main' = 0))]_vars
\* a teleport that reports success was local, or the region the user asked for (by handle) is registered and connected
TeleportLands == [][(tp.st # "d" /\ tp'.st = "d") =>
                       \/ out'.ev = "tplocal" \/ (out'.ev = "ack" /\ tp.q = "Local")
                       \/ (ByHandle(regs', tp'.h) # 0 /\ regs'[Idx(regs', ByHandle(regs', tp'.h))].conn = "d")]_vars
\* once every timeout has elapsed nothing the environment has answered is still pending: what is left waits for a message
\* the simulator never sent (RegionHandshake, the teleport outcome), hangs on a future dropped by disconnect() ("hung",
\* modelled as the code behaves), or is the UseCircuitCode that is never retransmitted (Bugs)
NothingPendingAfterTimeouts ==
    out.ev = "expire" => /\ \A i \in DOMAIN regs : /\ (regs[i].st \notin {"cam", "rhr", "thr", "upd"} \/ ~Resends(regs[i]))
                                                   /\ (regs[i].st = "ucc" => "UccNoResend" \in Bugs)
                         /\ tp.st # "conn"
                         /\ (tp.st = "req" => \E i \in DOMAIN regs : HasMsg(regs[i], TLR) /\ ~Resends(regs[i]))

(************************** what the harness compares ************************)
RegView(r) == [a |-> r.a, h |-> r.h, seed |-> r.seed, circ |-> r.circ, caps |-> r.caps, named |-> r.named, conn |-> r.conn]
TpView == IF tp.st \in {"req", "wait", "conn", "hung"} THEN "p" ELSE tp.st
Obs == [regs |-> [i \in DOMAIN regs |-> RegView(regs[i])],
        main |-> main,
        cmain |-> IF env.loggedOut THEN 0 ELSE main,
        byHandle |-> [h \in 1..2 |-> ByHandle(regs, h)],
        byAddr |-> [x \in 1..3 |-> ByAddr(regs, x)],
        calls |-> [k \in DOMAIN calls |-> <<calls[k].a, calls[k].st>>],
        tp |-> TpView,
        polls |-> [a \in 1..2 |-> IF Known(a) /\ Reg(a).eq THEN 1 ELSE 0],
        closed |-> IF env.loggedOut THEN 1 ELSE 0]
=============================================================================
