------------------------------ MODULE UdpProxy ------------------------------
(***************************************************************************)
(* C06 -- transparent UDP proxying (hippolyzer/lib/proxy/socks_proxy.py,   *)
(* lludp_proxy.py, transport.py, sessions.py, client/state.py).            *)
(*                                                                         *)
(* Part 1 (format): the SOCKS5 UDP request header as operators over byte   *)
(* sequences; SocksWrap is what the proxy must put in front of a datagram  *)
(* it hands to the viewer, SocksStrip is what it must take off a datagram  *)
(* the viewer hands to it.  FramingLaw (checked by TLC in UdpProxy_MC)     *)
(* says the two are inverse and that everything else is refused.           *)
(*                                                                         *)
(* Part 2 (state machine, property level): NA SOCKS UDP associations, NS   *)
(* sessions created by login, NH simulators.  An event is one datagram     *)
(* arriving at one association's socket, from the viewer (Client) or from  *)
(* a far host (Host); `out` is the exact list of datagrams the event must  *)
(* make the proxy hand to its transport.  Only what the property's         *)
(* observable interface shows is state: session life cycle, registered     *)
(* regions, which association holds which session, circuit per region.    *)
(* Announcements name a region handle as well as an address; the handle    *)
(* never takes part in routing (see Announce).                             *)
(* The far->near map of the code is deliberately absent: an open circuit   *)
(* implies a learned far address, every other consequence of learning is   *)
(* a discard.                                                              *)
(***************************************************************************)
EXTENDS Integers, Sequences, FiniteSets, TLC

(******************************* Part 1 ************************************)
U16BE(n) == <<n \div 256, n % 256>>
\* ATYP 1: ip is a sequence of 4 bytes
SocksWrap(ip, port, d) == <<0, 0, 0, 1>> \o ip \o U16BE(port) \o d
\* ATYP 3: name is a sequence of at most 255 bytes
SocksWrapDom(name, port, d) == <<0, 0, 0, 3, Len(name)>> \o name \o U16BE(port) \o d

BadSocks == [ok |-> FALSE, atyp |-> 0, addr |-> <<>>, port |-> 0, data |-> <<>>]
SocksStrip(b) ==
    IF Len(b) < 4 THEN BadSocks
    ELSE IF b[1] # 0 \/ b[2] # 0 \/ b[3] # 0 THEN BadSocks          \* RSV, FRAG
    ELSE IF b[4] = 1 THEN
        IF Len(b) < 10 THEN BadSocks
        ELSE [ok |-> TRUE, atyp |-> 1, addr |-> SubSeq(b, 5, 8), port |-> b[9] * 256 + b[10],
              data |-> SubSeq(b, 11, Len(b))]
    ELSE IF b[4] = 3 THEN
        IF Len(b) < 5 THEN BadSocks
        ELSE IF Len(b) < 7 + b[5] THEN BadSocks
        ELSE [ok |-> TRUE, atyp |-> 3, addr |-> SubSeq(b, 6, 5 + b[5]),
              port |-> b[6 + b[5]] * 256 + b[7 + b[5]], data |-> SubSeq(b, 8 + b[5], Len(b))]
    ELSE BadSocks

(******************************* Part 2 ************************************)
CONSTANTS NA,     \* associations (one viewer each)
          NS,     \* sessions that can log in
          NH,     \* simulators
          Dyn,    \* TRUE: regions can be announced after login
          NG,     \* region handles 1..NG (an announcement names a handle, or none: 0)
          Tcp,    \* TRUE: the SOCKS control connections of the viewers are part of the model (Associate,
                  \* CloseControl); FALSE: every viewer's association exists from the start and stays
          Flt,    \* TRUE: the bounded model explores send faults (see Faults)
          GMode   \* which announcements the bounded model explores: "addr" every address has its own
                  \* handle (handle = address number, no region ever moves); "any" every handle 1..NG at
                  \* every address; "any0" also announcements without a handle

Assoc == 1..NA
Sess == 1..NS
Sims == 1..NH
Unk == 0                         \* a far host that is no region of any session
NoSess == 0
LoginSim(s) == ((s - 1) % NH) + 1
Handles == 0..NG                 \* 0: the announcement carried no handle
LoginHandle(s) == IF GMode = "addr" THEN LoginSim(s) ELSE 1
AnnHandles(h) == IF GMode = "addr" THEN {h} ELSE IF GMode = "any0" THEN Handles ELSE 1..NG

VARIABLES ctl,    \* [Assoc -> {"none","open","closed"}]  SOCKS control (TCP) connection of the viewer: the UDP
                  \* association of viewer a exists exactly while ctl[a] = "open"
          st,     \* [Sess -> {"absent","pending","claimed","gone"}]
          regs,   \* [Sess -> SUBSET Sims]          registered regions (circuit addresses)
          sess,   \* [Assoc -> Sess \cup {NoSess}]  session held by the association
          circ,   \* [Sess -> [Sims -> {"none","open","dead"}]]
          hnd,    \* [Sess -> [Sims -> Handles]]  handle last announced for a registered address
                  \* (what region an address IS plays no part in routing: never compared with the code,
                  \* it only tells the announcement histories apart and enables the choice in Announce)
          ev,     \* the last event (ghost)
          out     \* what the last event must hand to the transport (ghost)

pvars == <<ctl, st, regs, sess, circ>>
MView == <<ctl, st, regs, sess, circ, hnd>>
vars == <<ctl, st, regs, sess, circ, hnd, ev, out>>

\* A datagram handed to the transport of association via: to > 0 simulator `to`, raw; to < 0 the
\* viewer of association -to, prefixed with the SOCKS header naming simulator hdr.
\* may = TRUE: the property does not say whether the datagram is delivered (circuit no longer
\* open, body undecodable but header fine, outbound message on the UDP ban list): either exactly
\* `sends` or nothing.
NoOut == [sends |-> <<>>, may |-> FALSE]
ToSim(a, h) == [via |-> a, to |-> h, hdr |-> 0]
ToViewer(a, h) == [via |-> a, to |-> 0 - a, hdr |-> h]

SocksBad == {"badrsv", "badfrag", "badatyp", "shortsocks"}   \* not a SOCKS5 UDP request
LludpBad == {"short", "unkmsg"}                              \* cannot be decoded at all
Kill == {"killc", "killd"}                                   \* CloseCircuit, DisableSimulator
\* "msg": any valid message; "rmsg": a valid message of a type the proxy itself reacts to on the forwarding
\* path (RegionHandshake, AgentMovementComplete, AgentDataUpdate, PacketAck, pings, chat, object and
\* inventory updates, ...).  The property does not tell them apart: whatever the proxy does with such a
\* message for itself, it is forwarded exactly once, intact, like any other.  Two of them are kinds of
\* their own from the simulator, so that every circuit in every state sees them in either order:
\* "rhs" RegionHandshake (first or resent), "amc" AgentMovementComplete.
Plain == {"msg", "rmsg", "rhs", "amc"}
CKinds == {"msg", "rmsg", "ucc", "banned", "badbody", "dom"} \cup Kill \cup SocksBad \cup LludpBad
HKinds == {"msg", "rmsg", "rhs", "amc", "ucc", "spoof", "banned", "badbody"} \cup Kill \cup LludpBad

\* ch: a choice the property leaves to the implementation, bound to what is observed:
\*   killc / killd: whether CloseCircuit / DisableSimulator makes the proxy regard the circuit as no longer open
\*   ucc : whether a UseCircuitCode naming a pending session claims it although the addressed
\*         far host is no registered region of that session (no circuit can be opened then)
\* ft: a send fault of the environment.  The operating system refuses the ONE datagram this event makes
\* the proxy hand to its transport (message too long for a UDP payload once the SOCKS header is on,
\* unreachable network, ...); that datagram is lost.  "err": the transport reports it the way asyncio does,
\* by calling the protocol's error_received(OSError) from inside sendto(); "raise": sendto() raises.
\* The event is otherwise EXACTLY the event without the fault -- same hand-over to the transport, same
\* state change -- and nothing about any other datagram, circuit, session or association changes
\* (the actions below never look at ft; all laws apply to faulted events unchanged).
Faults == IF Flt THEN {"none", "err", "raise"} ELSE {"none"}
Ev(n, a, h, k, s, ch, ft) == [n |-> n, a |-> a, h |-> h, k |-> k, s |-> s, ch |-> ch, ft |-> ft]

Init == /\ ctl = [a \in Assoc |-> IF Tcp THEN "none" ELSE "open"]
        /\ st = [s \in Sess |-> "absent"]
        /\ regs = [s \in Sess |-> {}]
        /\ sess = [a \in Assoc |-> NoSess]
        /\ circ = [s \in Sess |-> [h \in Sims |-> "none"]]
        /\ hnd = [s \in Sess |-> [h \in Sims |-> 0]]
        /\ ev = Ev("Init", 0, 0, "", 0, FALSE, "none")
        /\ out = NoOut

(* environment: the login HTTP response was intercepted / a region was announced (EnableSimulator, *)
(* TeleportFinish, CrossedRegion, EstablishAgentCommunication on the event queue)                 *)
Login(s) == /\ st[s] = "absent"
            /\ st' = [st EXCEPT ![s] = "pending"]
            /\ regs' = [regs EXCEPT ![s] = {LoginSim(s)}]
            /\ hnd' = [hnd EXCEPT ![s][LoginSim(s)] = LoginHandle(s)]
            /\ ev' = Ev("Login", 0, 0, "", s, FALSE, "none") /\ out' = NoOut
            /\ UNCHANGED <<ctl, sess, circ>>
(* the viewer of association a opens its SOCKS control connection and asks for a UDP association;   *)
(* later that connection ends (EOF / reset).  The association, and the session it holds, belong to  *)
(* that connection and end with it -- and nothing else does: every other viewer's association,      *)
(* session and circuits are exactly what they were (CloseRule, OpenStaysDeliverable).               *)
Associate(a) == /\ Tcp /\ ctl[a] = "none"
                /\ ctl' = [ctl EXCEPT ![a] = "open"]
                /\ ev' = Ev("Assoc", a, 0, "", 0, FALSE, "none") /\ out' = NoOut
                /\ UNCHANGED <<st, regs, sess, circ, hnd>>
CloseControl(a) ==
    /\ Tcp /\ ctl[a] = "open"
    /\ ctl' = [ctl EXCEPT ![a] = "closed"]
    /\ sess' = [sess EXCEPT ![a] = NoSess]
    /\ LET s == sess[a] IN
         IF s = NoSess THEN UNCHANGED <<st, regs, circ, hnd>>
         ELSE /\ st' = [st EXCEPT ![s] = "gone"]
              /\ regs' = [regs EXCEPT ![s] = {}]
              /\ circ' = [circ EXCEPT ![s] = [h \in Sims |-> "none"]]
              /\ hnd' = [hnd EXCEPT ![s] = [h \in Sims |-> 0]]
    /\ ev' = Ev("Close", a, 0, "", 0, FALSE, "none") /\ out' = NoOut
\* Region handle g (0: none) is announced at simulator address h.  Routing is by address: h becomes
\* (or stays) a registered region and NOTHING else changes -- whether g is new, is h's handle already,
\* or is the handle of a region registered at ANOTHER address (the region "moved") whose circuit may be
\* open or dead.  In that last case the property leaves one choice open (ch, bound to what is observed):
\* the implementation may forget the region(s) it knew under g at the other address(es), which then
\* have no circuit any more.  It may NOT carry their circuit over to h: a circuit is to one address.
\* The event record carries g in field a.
Moved(s, g, h) == IF g = 0 THEN {} ELSE {x \in regs[s] \ {h} : hnd[s][x] = g}
Announce(s, g, h, ch) ==
    /\ Dyn /\ st[s] \in {"pending", "claimed"}
    /\ ch => (h \notin regs[s] /\ Moved(s, g, h) # {})
    /\ LET old == IF ch THEN Moved(s, g, h) ELSE {}
       IN /\ regs' = [regs EXCEPT ![s] = (@ \ old) \cup {h}]
          /\ circ' = [circ EXCEPT ![s] = [x \in Sims |-> IF x \in old THEN "none" ELSE @[x]]]
          /\ hnd' = [hnd EXCEPT ![s] = [x \in Sims |-> IF x = h THEN (IF g = 0 THEN @[x] ELSE g)
                                                      ELSE IF x \in old THEN 0 ELSE @[x]]]
    /\ ev' = Ev("Reg", g, h, "", s, ch, "none") /\ out' = NoOut
    /\ UNCHANGED <<ctl, st, sess>>

Discard == out' = NoOut /\ UNCHANGED <<pvars, hnd>>

HasCircuit(a, h) == sess[a] # NoSess /\ h \in Sims /\ circ[sess[a]][h] # "none"
IsOpen(a, h) == sess[a] # NoSess /\ h \in Sims /\ circ[sess[a]][h] = "open"
CanClaim(a, s) == sess[a] = NoSess /\ s # NoSess /\ st[s] = "pending"

\* a decodable (at least by its header) datagram travelling on circuit (sess[a], h)
OnCircuit(a, h, k, dirn, ch) ==
    LET cs == sess[a] IN
    IF HasCircuit(a, h)
    THEN /\ out' = [sends |-> <<IF dirn = "C" THEN ToSim(a, h) ELSE ToViewer(a, h)>>,
                    may |-> (circ[cs][h] = "dead" \/ k = "badbody" \/ (k = "banned" /\ dirn = "C"))]
         /\ circ' = IF k \in Kill /\ ch THEN [circ EXCEPT ![cs][h] = "dead"] ELSE circ
         /\ UNCHANGED <<ctl, st, regs, sess, hnd>>
    ELSE Discard

\* UseCircuitCode from the viewer, naming session s (NoSess: an ID no login produced)
UseCircuit(a, h, s, ch) ==
    LET cs == IF sess[a] # NoSess THEN sess[a]
              ELSE IF CanClaim(a, s) /\ (h \in regs[s] \/ ch) THEN s ELSE NoSess
    IN IF cs = NoSess THEN Discard
       ELSE /\ sess' = [sess EXCEPT ![a] = cs]
            /\ st' = [st EXCEPT ![cs] = "claimed"]
            /\ UNCHANGED <<ctl, regs, hnd>>
            /\ IF h \in regs[cs]
               THEN /\ circ' = [circ EXCEPT ![cs][h] = "open"]
                    /\ out' = [sends |-> <<ToSim(a, h)>>, may |-> FALSE]
               ELSE /\ UNCHANGED circ /\ out' = NoOut

\* a datagram from the viewer of association a, SOCKS-addressed to far host h
\* A UseCircuitCode on an association that already holds a session is an ordinary message whatever
\* session it names -- its own (a resend), another live one, a pending login's, an unknown one: it opens
\* (or re-opens) the circuit to h in the HELD session if h is a region of it and is forwarded; it claims
\* nothing and ends nothing (what the pinned code does also for a pending login's ID: that login stays
\* pending, to be claimed by the association that has no session yet).
Client(a, h, k, s, ch, ft) ==
    /\ ctl[a] = "open"                                  \* a closed socket receives nothing
    /\ ev' = Ev("C", a, h, k, s, ch, ft)
    /\ ft # "none" => k \in {"msg", "ucc"}
    /\ k # "ucc" => s = NoSess
    /\ ch => \/ (k \in Kill /\ IsOpen(a, h))
             \/ (k = "ucc" /\ CanClaim(a, s) /\ h \notin regs[s])
    /\ IF k \in SocksBad \cup LludpBad \cup {"dom"} THEN Discard
       ELSE IF k = "ucc" THEN UseCircuit(a, h, s, ch)
       ELSE OnCircuit(a, h, k, "C", ch)
    /\ ft # "none" => out'.sends # <<>>                  \* only a datagram that is sent can be refused

\* a datagram from far host h arriving at the socket of association a.
\* "ucc": a UseCircuitCode naming session s coming FROM a far host is an ordinary message, it
\* claims nothing.  "spoof": a stranger (not on the viewer's IP) sends what a viewer would send,
\* a well-formed SOCKS5 UDP request for a simulator carrying a valid message.
Host(a, h, k, s, ch, ft) ==
    /\ ctl[a] = "open"
    /\ ev' = Ev("H", a, h, k, s, ch, ft)
    /\ ft # "none" => k \in {"msg", "ucc"}
    /\ k # "ucc" => s = NoSess
    /\ k = "spoof" => h = Unk
    /\ ch => (k \in Kill /\ IsOpen(a, h))
    /\ IF k \in LludpBad \cup {"banned", "spoof"} THEN Discard
       ELSE OnCircuit(a, h, k, "H", ch)
    /\ ft # "none" => out'.sends # <<>>

Far == Sims \cup {Unk}
\* a viewer can also mis-address a datagram to a viewer's own address (0 - b: viewer of association b)
CFar == Far \cup {0 - b : b \in Assoc}
Next == \/ \E s \in Sess : Login(s)
        \/ \E a \in Assoc : Associate(a) \/ CloseControl(a)
        \/ \E s \in Sess, h \in Sims, ch \in BOOLEAN : \E g \in AnnHandles(h) : Announce(s, g, h, ch)
        \/ \E a \in Assoc, h \in CFar, k \in CKinds \ {"ucc"}, ch \in BOOLEAN, ft \in Faults : Client(a, h, k, NoSess, ch, ft)
        \/ \E a \in Assoc, h \in CFar, s \in Sess \cup {NoSess}, ch \in BOOLEAN, ft \in Faults : Client(a, h, "ucc", s, ch, ft)
        \/ \E a \in Assoc, h \in Far, k \in HKinds \ {"ucc"}, ch \in BOOLEAN, ft \in Faults : Host(a, h, k, NoSess, ch, ft)
        \/ \E a \in Assoc, h \in Far, s \in Sess \cup {NoSess}, ft \in Faults : Host(a, h, "ucc", s, FALSE, ft)
Spec == Init /\ [][Next]_vars

(****************************** the property *******************************)
TypeOK == /\ ctl \in [Assoc -> {"none", "open", "closed"}]
          /\ st \in [Sess -> {"absent", "pending", "claimed", "gone"}]
          /\ regs \in [Sess -> SUBSET Sims]
          /\ sess \in [Assoc -> Sess \cup {NoSess}]
          /\ circ \in [Sess -> [Sims -> {"none", "open", "dead"}]]
          /\ hnd \in [Sess -> [Sims -> Handles]]

\* a session is held by exactly one association from its claim on, by none before
ClaimConsistent == /\ \A a \in Assoc : ctl[a] # "open" => sess[a] = NoSess
                   /\ \A s \in Sess : (st[s] = "claimed") <=> (\E a \in Assoc : sess[a] = s)
                   /\ \A a, b \in Assoc : (a # b /\ sess[a] = sess[b]) => sess[a] = NoSess
\* circuits exist only towards registered regions of claimed sessions
CircuitsAnchored == \A s \in Sess, h \in Sims : circ[s][h] # "none" => (st[s] = "claimed" /\ h \in regs[s])

IsDgram == ev.n \in {"C", "H"}
\* right peer, at most once: whatever is handed to the transport goes to the far host the viewer
\* named, or to the viewer of the association the far host wrote to with that host's address.
RightPeer == (IsDgram /\ out.sends # <<>>) =>
                /\ sess[ev.a] # NoSess /\ ev.h \in Sims /\ circ[sess[ev.a]][ev.h] # "none"
                /\ out.sends = <<IF ev.n = "C" THEN ToSim(ev.a, ev.h) ELSE ToViewer(ev.a, ev.h)>>
NothingFromThinAir == ~IsDgram => out = NoOut
AtMostOnce == out.may \in BOOLEAN /\ Len(out.sends) <= 1
\* ev and out are ghosts outside the VIEW of the exhaustive run (a state is expanded once per value
\* of the public variables); what is said about them is therefore checked on every TRANSITION.
GhostOK == RightPeer /\ NothingFromThinAir /\ AtMostOnce
GhostsRight == [][GhostOK']_vars

\* exactly once on an open circuit (pre-state), UseCircuitCode judged on the post-state
OpenBefore == ev'.h \in Sims /\ sess[ev'.a] # NoSess /\ circ[sess[ev'.a]][ev'.h] = "open"
DeliveredOnce == [][(ev'.n \in {"C", "H"} /\ (ev'.k \in Plain \cup Kill \/ (ev'.n = "H" /\ ev'.k = "ucc")) /\ OpenBefore)
                      => (out'.may = FALSE /\ Len(out'.sends) = 1)]_vars
UseCircuitRule == [][(ev'.n = "C" /\ ev'.k = "ucc") =>
                      /\ (out'.sends # <<>>) <=> (sess'[ev'.a] # NoSess /\ ev'.h \in regs[sess'[ev'.a]]
                                                   /\ circ'[sess'[ev'.a]][ev'.h] = "open")
                      /\ out'.may = FALSE
                      /\ (sess[ev'.a] = NoSess /\ sess'[ev'.a] # NoSess)
                            => (sess'[ev'.a] = ev'.s /\ st[ev'.s] = "pending")
                      /\ regs' = regs]_vars
\* the discard classes of the statement: no output, nothing changes
Inert == out' = NoOut /\ UNCHANGED pvars
IsViewerUCC == ev'.n = "C" /\ ev'.k = "ucc"
DiscardClass == \/ ev'.k \in SocksBad \cup LludpBad \cup {"dom"}
                \/ (ev'.n = "H" /\ ev'.k \in {"banned", "spoof"})
                \/ (~IsViewerUCC /\ (ev'.h \notin Sims \/ sess[ev'.a] = NoSess))
                \/ (~IsViewerUCC /\ ev'.h \in Sims /\ sess[ev'.a] # NoSess /\ circ[sess[ev'.a]][ev'.h] = "none")
DiscardsInert == [][(ev'.n \in {"C", "H"} /\ DiscardClass) => Inert]_vars
\* a datagram on one association never touches a session held by another one, and apart from
\* UseCircuitCode (claim, open) and CloseCircuit/DisableSimulator (dead) no datagram changes state;
\* a datagram that is delivered exactly once leaves an open circuit open unless it is one of those two
NoCrossTalk == [][ev'.n \in {"C", "H"} =>
                    \A s \in Sess : s # sess'[ev'.a] => (st'[s] = st[s] /\ circ'[s] = circ[s] /\ regs'[s] = regs[s])]_vars
OnlyNamedChanges == [][(ev'.n \in {"C", "H"} /\ ~IsViewerUCC /\ ~(ev'.k \in Kill /\ ev'.ch)) => UNCHANGED pvars]_vars
\* "discarded without disturbing the delivery of any other datagram": whatever arrives -- and however
\* many datagrams for however many other far hosts were discarded -- a circuit that is open stays open
\* unless CloseCircuit / DisableSimulator ends it, so that (DeliveredOnce) the next datagram of its
\* simulator or for its simulator is delivered exactly once.  The specification has no memory of far
\* hosts that own no circuit (no far->near map), so no history of discards can make it say otherwise;
\* B2 "address churn" runs hold the real code to exactly this.
Exempt(a, h) == \/ (ev'.n \in {"C", "H"} /\ ev'.k \in Kill /\ ev'.ch /\ ev'.a = a /\ ev'.h = h)
                \/ (ev'.n = "Reg" /\ ev'.ch /\ sess[a] = ev'.s /\ h # ev'.h /\ hnd[ev'.s][h] = ev'.a)
                \/ (ev'.n = "Close" /\ ev'.a = a)
OpenStaysDeliverable == [][\A a \in Assoc, h \in Sims : (IsOpen(a, h) /\ ~Exempt(a, h)) => IsOpen(a, h)']_vars
\* a refused send concerns one datagram that WAS handed to the transport, and nobody's association
SendFaultRule == [][ev'.ft # "none" => (Len(out'.sends) = 1 /\ ctl' = ctl
                                          /\ \A b \in Assoc : sess[b] # NoSess => sess'[b] = sess[b])]_vars
\* the end of one viewer's control connection ends that viewer's association and session, nobody else's
CloseRule == [][ev'.n = "Close" =>
                  /\ ctl'[ev'.a] = "closed" /\ sess'[ev'.a] = NoSess /\ out' = NoOut
                  /\ \A b \in Assoc \ {ev'.a} : ctl'[b] = ctl[b] /\ sess'[b] = sess[b]
                  /\ \A s \in Sess \ {sess[ev'.a]} : st'[s] = st[s] /\ regs'[s] = regs[s] /\ circ'[s] = circ[s]
                  /\ sess[ev'.a] # NoSess => st'[sess[ev'.a]] = "gone"]_vars
\* an announcement registers its address and touches no circuit, whatever handle it names; the one
\* exception (ch) only ever REMOVES regions known under the same handle at other addresses, circuit included
AnnounceRule == [][ev'.n = "Reg" =>
                     /\ ev'.h \in regs'[ev'.s] /\ UNCHANGED <<st, sess>>
                     /\ \A s \in Sess \ {ev'.s} : regs'[s] = regs[s] /\ circ'[s] = circ[s]
                     /\ ~ev'.ch => (regs'[ev'.s] = regs[ev'.s] \cup {ev'.h} /\ circ' = circ)
                     /\ \A x \in Sims : \/ circ'[ev'.s][x] = circ[ev'.s][x]
                                          \/ (ev'.ch /\ x # ev'.h /\ hnd[ev'.s][x] = ev'.a /\ circ'[ev'.s][x] = "none"
                                               /\ x \notin regs'[ev'.s])]_vars
\* a claim happens only through a viewer's UseCircuitCode naming a pending session; with a registered
\* region as destination it is not optional
ClaimRule == [][(ev'.n = "C" /\ ev'.k = "ucc" /\ CanClaim(ev'.a, ev'.s) /\ ev'.h \in regs[ev'.s])
                  => (sess'[ev'.a] = ev'.s /\ circ'[ev'.s][ev'.h] = "open" /\ Len(out'.sends) = 1)]_vars
=============================================================================
