---- MODULE ParcelOverlay_MBT ----
EXTENDS ParcelOverlay, Json
CONSTANT Depth

(* Grids the bounded models use (cfg files cannot hold tuples).  Border values: 1 = west line, 2 = south line.  *)
(* 2 x 2, one cell per chunk.  Cells: 0 = SW, 1 = SE, 2 = NW, 3 = NE.                                          *)
G2One   == <<3, 2, 1, 0>>     \* one parcel (lines on the region's own south and west edge only)
G2Bare  == <<0, 0, 0, 0>>     \* one parcel, no lines at all
G2NS    == <<3, 2, 3, 2>>     \* south half | north half
G2WE    == <<3, 3, 1, 1>>     \* west half | east half
G2Ell   == <<3, 2, 3, 1>>     \* NW cell alone, the rest an L
G2Three == <<3, 3, 3, 2>>     \* SW | SE | north half
G2Four  == <<3, 3, 3, 3>>     \* every cell alone
L2a == <<G2One, G2NS>>
L2b == <<G2One, G2NS, G2Three>>
L2c == <<G2Bare, G2WE, G2Ell, G2Four>>
L2d == <<G2WE, G2Ell>>
(* 4 x 4, one row per chunk *)
G4One  == <<3, 2, 2, 2,  1, 0, 0, 0,  1, 0, 0, 0,  1, 0, 0, 0>>
G4Ring == <<3, 2, 2, 2,  1, 0, 3, 1,  1, 0, 1, 1,  1, 0, 2, 0>>   \* an island {6, 10} off the diagonal (nothing here is symmetric in x and y)
G4Isle == <<3, 2, 2, 2,  1, 3, 2, 1,  1, 1, 0, 1,  1, 2, 2, 0>>   \* a 2 x 2 island in the middle
G4Spir == <<3, 2, 2, 2,  1, 2, 2, 1,  1, 1, 2, 1,  1, 0, 1, 0>>   \* winding corridors
G4Quad == <<3, 2, 3, 2,  1, 0, 1, 0,  3, 2, 3, 2,  1, 0, 1, 0>>   \* four quarters
L4a == <<G4One, G4Ring>>
L4b == <<G4One, G4Ring, G4Spir, G4Quad, G4Isle>>
B2a == {{3}}
B2b == {{}, {1, 3}, {2}}
B4a == {{15}}
B4b == {{}, {6, 10}, {15}}
B4c == {{6, 10}, {15}}

St == [kind |-> kind, pend |-> pend, ov |-> ov, idx |-> idx, parcels |-> parcels, dirty |-> dirty, downloaded |-> downloaded,
       nextSeq |-> nextSeq, calls |-> calls, outst |-> outst, nprops |-> nprops]
P(act) == PrintT(ToJson([src |-> St, act |-> act, dst |-> St', obs |-> [o |-> out', s |-> Obs']]))
MInit == Init /\ PrintT(ToJson([init |-> St]))
MNext == /\ TLCGet("level") < Depth
         /\ \/ \E i \in 0 .. NumChunks - 1 : \E d \in ChunkData(i) : Chunk(i, d) /\ P([n |-> "Chunk", i |-> i, d |-> d])
            \/ \E c \in Probes : ReqProps(c) /\ P([n |-> "ReqProps", c |-> c])
            \/ \E c \in Probes, r \in BOOLEAN : GetAt(c, r) /\ P([n |-> "GetAt", c |-> c, req |-> r])
            \/ ReqAll /\ P([n |-> "ReqAll"])
            \/ ReqDirty /\ P([n |-> "ReqDirty"])
            \/ \E s \in 1 .. nextSeq, bm \in BitmapsFor : Props(s, bm) /\ P([n |-> "Props", s |-> s, bm |-> bm, lid |-> nprops + 1])
            \/ Timeout /\ P([n |-> "Timeout"])
MSpec == MInit /\ [][MNext]_vars
\* the same bounded model without the export (model checking only)
BSpec == Init /\ [][TLCGet("level") < Depth /\ Next]_vars
====
