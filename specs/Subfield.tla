---- MODULE Subfield ----
(***************************************************************************************)
(* C09 -- registered subfield ("pretty") serializers are lossless against the wire.     *)
(*                                                                                     *)
(* Part A: enum / flag adapters on BIT SETS.  A wire integer of width w is the set of   *)
(* the bit positions (0..w-1) of its two's-complement pattern, so that 64-bit values    *)
(* need no wide arithmetic.  The member tables of the real enum / flag classes are read  *)
(* by reflection (harness/c09.py) and arrive through the JSON file named by the         *)
(* environment variable SUBFIELD_ADAPTERS:                                              *)
(*    [id, kind ("flag" | "enum"), w, signed, members: <<[name, bits, wire]>>]           *)
(* `wire` is FALSE for a member whose value the variable's wire type cannot hold.        *)
(* The plain-data ("pod") form of a flag value is a set of member names plus left-over   *)
(* bits; WHICH names the code picks is left open (Denote gives any choice its meaning);  *)
(* the plain-data form of an enum value is one member name, or the serializer declines.  *)
(*                                                                                     *)
(* Part B: the five-stage contract  raw0 -dec-> v0 -enc-> raw1 -dec-> v1 -enc-> raw2     *)
(* over recorded byte strings and canonical value tokens (Subfield_Trace).               *)
(*                                                                                     *)
(* Part C: one message variable inside a Block: raw value + decoded-value cache          *)
(* (Block.__setitem__ / deserialize_var / serialize_var / invalidate_caches).            *)
(***************************************************************************************)
EXTENDS Integers, Sequences, FiniteSets, Json, IOUtils, TLC

Adapters == JsonDeserialize(IOEnv.SUBFIELD_ADAPTERS)

ToSet(s) == {s[i] : i \in DOMAIN s}

-----------------------------------------------------------------------------------------
(* Part A: adapters on bit sets *)
WireBits(a)     == 0..(a.w - 1)
MBits(a, i)     == ToSet(a.members[i].bits)
MemberNames(a)  == {a.members[i].name : i \in DOMAIN a.members}
BitsOfName(a, n) == MBits(a, CHOOSE i \in DOMAIN a.members : a.members[i].name = n)

\* meaning of a plain-data flag value: the named members OR-ed with the left-over bits
Denote(a, names, rest) == UNION ({BitsOfName(a, n) : n \in names} \cup {rest})

\* canonical members: on the wire, non-empty, first of their aliases
Canonical(a, i) == /\ a.members[i].wire /\ MBits(a, i) # {}
                   /\ \A j \in DOMAIN a.members : (j < i /\ a.members[j].wire) => MBits(a, j) # MBits(a, i)
\* The canonical plain-data form of a flag value x.  Members are taken greedily in table
\* order as long as they are contained in x and do not overlap a member taken before, so
\* that composite (multi-bit) members never smuggle in bits that x does not have.
CanonSet(a) == {i \in DOMAIN a.members : Canonical(a, i)}
RECURSIVE Take(_, _, _, _, _)
Take(a, cs, x, i, taken) ==
    IF i > Len(a.members) THEN taken
    ELSE IF i \in cs /\ MBits(a, i) \subseteq x
            /\ \A j \in taken : MBits(a, j) \cap MBits(a, i) = {}
         THEN Take(a, cs, x, i + 1, taken \cup {i})
         ELSE Take(a, cs, x, i + 1, taken)
\* cs is CanonSet(a), computed once per adapter by the machine below
Included(a, cs, x) == Take(a, cs, x, 1, {})
NamesOf(a, inc)    == {a.members[i].name : i \in inc}
RestOf(a, inc, x)  == x \ UNION {MBits(a, i) : i \in inc}

\* the plain-data form of an enum value: the first member that is exactly x, or "" (declined)
EnumIdx(a, x)  == {i \in DOMAIN a.members : a.members[i].wire /\ MBits(a, i) = x}
EnumName(a, x) == IF EnumIdx(a, x) = {} THEN ""
                  ELSE a.members[CHOOSE i \in EnumIdx(a, x) : \A j \in EnumIdx(a, x) : i <= j].name

\* wire integers explored per adapter: every value of an 8/16-bit type; a bit-pattern
\* family for wider types (c09.py adds random masks on the code->spec side)
Family(a) ==
    IF a.w <= 16 THEN SUBSET WireBits(a)
    ELSE LET B   == WireBits(a)
             top == {a.w - 1}
             M   == {MBits(a, i) : i \in {j \in DOMAIN a.members : a.members[j].wire}}
         IN {{}, B, UNION M, B \ UNION M, (UNION M) \cup top}
            \cup {{b} : b \in B} \cup {B \ {b} : b \in B} \cup {{b} \cup top : b \in B}
            \cup M \cup {m \cup top : m \in M} \cup {m1 \cup m2 : m1 \in M, m2 \in M}
            \cup {m \ {b} : m \in M, b \in B}

-----------------------------------------------------------------------------------------
(* Part C: a variable in a Block.  Values are identified with the wire integer they     *)
(* denote (Dec / Enc of an adapter serializer are bijections on what they accept; Part A  *)
(* and B check that), so the cache is coherent iff the cached value denotes `raw`.       *)
CONSTANT Raws                      \* small set of wire integers used by the Block machine

VARIABLES ai, cs, x,               \* Part A: adapter index, its canonical members, wire integer as a bit set
          raw, cached, cval        \* Part C: stored wire value, cache present?, cached value
vars == <<ai, cs, x, raw, cached, cval>>

(* Part A machine: every (adapter, wire integer) is a state *)
AInit == /\ ai \in DOMAIN Adapters /\ cs = CanonSet(Adapters[ai]) /\ x \in Family(Adapters[ai])
         /\ raw = 0 /\ cached = FALSE /\ cval = 0
ANext == UNCHANGED vars
ASpec == AInit /\ [][ANext]_vars
A == Adapters[ai]

Inc == Included(A, cs, x)
ATypeOK == x \subseteq WireBits(A) /\ A.kind \in {"flag", "enum"} /\ cs \subseteq DOMAIN A.members
\* a flag value survives its canonical plain-data form, which never overlaps itself
FlagLossless == A.kind = "flag" =>
                  LET inc == Inc IN
                  /\ Denote(A, NamesOf(A, inc), RestOf(A, inc, x)) = x
                  /\ \A i \in inc : MBits(A, i) \cap RestOf(A, inc, x) = {}
                  /\ \A i \in inc, j \in inc : i # j => MBits(A, i) \cap MBits(A, j) = {}
\* unknown bits are kept: whatever no member explains is in the left-over
FlagKeepsUnknown == A.kind = "flag" =>
                      (x \ UNION {MBits(A, i) : i \in DOMAIN A.members}) \subseteq RestOf(A, Inc, x)
\* an enum value either has a name that means exactly x, or is declined (stays an integer)
EnumLossless == A.kind = "enum" =>
                  /\ EnumName(A, x) # "" => BitsOfName(A, EnumName(A, x)) = x
                  /\ EnumName(A, x) = "" => \A i \in DOMAIN A.members : ~(A.members[i].wire /\ MBits(A, i) = x)

ARow == IF A.kind = "flag"
        THEN LET inc == Inc IN [a |-> ai, x |-> x, names |-> NamesOf(A, inc), rest |-> RestOf(A, inc, x), ename |-> ""]
        ELSE [a |-> ai, x |-> x, names |-> {}, rest |-> {}, ename |-> EnumName(A, x)]

(* Part C machine *)
BInit == /\ ai = 1 /\ cs = {} /\ x = {}
         /\ raw \in Raws /\ cached = FALSE /\ cval = 0
\* block[var] = r : the raw value changes (even to the same value), the cache must go
SetRaw(r)    == raw' = r /\ cached' = FALSE /\ cval' = 0 /\ UNCHANGED <<ai, cs, x>>
\* block.deserialize_var(var): answers from the cache if there is one
Deser        == /\ cached' = TRUE /\ cval' = (IF cached THEN cval ELSE raw)
                /\ UNCHANGED <<ai, cs, x, raw>>
\* block.serialize_var(var, v) and block[var] = Pretty(v)
SerVar(v)    == raw' = v /\ cached' = TRUE /\ cval' = v /\ UNCHANGED <<ai, cs, x>>
\* block.invalidate_caches()
Invalidate   == cached' = FALSE /\ cval' = 0 /\ UNCHANGED <<ai, cs, x, raw>>
BNext == Deser \/ Invalidate \/ \E r \in Raws : SetRaw(r) \/ SerVar(r)
BSpec == BInit /\ [][BNext]_vars

\* what deserialize_var answers in this state
Answer == IF cached THEN cval ELSE raw
CacheCoherent == Answer = raw
BTypeOK == raw \in Raws /\ cached \in BOOLEAN /\ (cached => cval \in Raws)
BSt == [raw |-> raw, cached |-> cached, cval |-> cval]
====
