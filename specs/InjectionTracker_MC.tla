---- MODULE InjectionTracker_MC ----
EXTENDS InjectionTracker
CONSTANT Depth
Bound == TLCGet("level") <= Depth
====
