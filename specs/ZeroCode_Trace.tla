---- MODULE ZeroCode_Trace ----
(* B3 code->spec: recorded calls of the real functions; TLC recomputes the format. *)
EXTENDS ZeroCode, Integers, Json, IOUtils, TLCExt
TraceLog == ndJsonDeserialize(IOEnv.TRACE_FILE)
CONSTANT Cap
VARIABLES l, tid
Chk(name, cond) == IF cond THEN TRUE ELSE PrintT(ToJson([fail |-> name, line |-> l, tid |-> tid]))
IsEvent(e) == l <= Len(TraceLog) /\ TraceLog[l].ev = e /\ l' = l + 1
Rec == TraceLog[l]
TInit == l = 1 /\ tid = -1
TReset == IsEvent("Reset") /\ tid' = Rec.tid
\* {"ev":"Enc","inp":[..],"out":[..]}
TEnc == /\ IsEvent("Enc") /\ UNCHANGED tid
        /\ Chk("Enc.out=Encode(inp)", Rec.out = Encode(Rec.inp))
        /\ Chk("Enc.canonical", IsCanonical(Rec.out))
\* {"ev":"EncRL","rl":[[b,n]..],"out":[..]}: long inputs in run-length form
TEncRL == /\ IsEvent("EncRL") /\ UNCHANGED tid
          /\ Chk("EncRL.out=EncodeRL(rl)", Rec.out = EncodeRL(NormRL(Rec.rl)))
\* {"ev":"Dec","enc":[..],"res":"ok"|"refuse","rl":[[b,n]..]}
TDec == /\ IsEvent("Dec") /\ UNCHANGED tid
        /\ Chk("Dec.must-decode", MustDecode(Rec.enc, Cap) => Rec.res = "ok")
        /\ Chk("Dec.must-refuse", MustRefuse(Rec.enc, Cap) => Rec.res = "refuse")
        /\ Chk("Dec.rl=DecodeRL(enc)", Rec.res = "ok" => Rec.rl = DecodeRL(Rec.enc))
TNext == TReset \/ TEnc \/ TEncRL \/ TDec
TraceSpec == TInit /\ [][TNext]_<<l, tid>>
TraceAccepted == PrintT("TRACE_REACHED " \o ToString(TLCGet("stats").diameter - 1) \o " OF " \o ToString(Len(TraceLog)))
====
