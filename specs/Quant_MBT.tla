---- MODULE Quant_MBT ----
(* B3 spec->code table: one printed row per state (instance, raw) of Quant. *)
EXTENDS Quant
MInit == Init /\ PrintT(ToJson([init |-> inst, row |-> RowOf(I, raw)]))
MStep == Step /\ PrintT(ToJson([row |-> RowOf(I, raw')]))
MSpec == MInit /\ [][MStep]_vars
\* composite table: one printed row per (composite, raw tuple)
MCInit == CInit /\ PrintT(ToJson([crow |-> CRow]))
MCSpec == MCInit /\ [][CNext]_vars
\* parametric table: one printed row per (family, range, lattice raw)
MPInit == PInit /\ PrintT(ToJson([prow |-> PRow]))
MPSpec == MPInit /\ [][PNext]_vars
\* history: one printed record per step of every schedule
MHStep == HStep /\ PrintT(ToJson([hstep |-> [s |-> Scheds[hs].id, pos |-> hp', step |-> HSteps[hp'], before |-> hp,
             otherWidthBefore |-> \E j \in 1..hp : BoundsOf(HSteps[j]) = BoundsOf(HSteps[hp']) /\ WidthOf(HSteps[j]) # WidthOf(HSteps[hp']),
             sameFamilyBefore |-> \E j \in 1..hp : HSteps[j].k = "param" /\ HSteps[hp'].k = "param" /\ HSteps[j].a = HSteps[hp'].a]]))
MHSpec == HInit /\ [][MHStep]_vars
====
