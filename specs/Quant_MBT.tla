---- MODULE Quant_MBT ----
(* B3 spec->code table: one printed row per state (instance, raw) of Quant. *)
EXTENDS Quant
MInit == Init /\ PrintT(ToJson([init |-> inst, row |-> RowOf(I, raw)]))
MStep == Step /\ PrintT(ToJson([row |-> RowOf(I, raw')]))
MSpec == MInit /\ [][MStep]_vars
\* composite table: one printed row per (composite, raw tuple)
MCInit == CInit /\ PrintT(ToJson([crow |-> CRow]))
MCSpec == MCInit /\ [][CNext]_vars
\* parametric table: one printed row per (family, range, lattice raw)
MPInit == PInit /\ PrintT(ToJson([prow |-> PRow]))
MPSpec == MPInit /\ [][PNext]_vars
====
