---- MODULE ProxiedCircuit_MBT ----
(* Export wrapper (binding B1).  Exhaustive mode: MSpec prints every edge of the bounded model.   *)
(* Simulation mode: SSpec carries the labelled history and prints it once per behaviour (through  *)
(* the invariant PrintHist, which TLC evaluates on the states of the sampled behaviour only).      *)
EXTENDS ProxiedCircuit, Json
CONSTANTS Depth, SampleOneIn
DispsCore == {"fwd", "drop", "take"}
DispsAll == {"fwd", "drop", "take", "droptake", "fwdtake", "claim"}
DispsTakes == {"fwd", "take", "droptake", "fwdtake", "claim"}
VARIABLE hist
St == [epSent |-> epSent, epRel |-> epRel, epDropped |-> epDropped, inj |-> inj, base |-> base,
       delivered |-> delivered, pending |-> pending, done |-> done, quiet |-> quiet]
Full == [st |-> St, g |-> [fwdMap |-> fwdMap, ackedWire |-> ackedWire, shown |-> shown]]
ObsNext == [out |-> out', pending |-> pending', done |-> done']
Labelled(E(_)) ==
    /\ TLCGet("level") < Depth
    /\ \/ \E d \in D, k \in MinEp..MaxEp, rel \in BOOLEAN, kind \in {"msg", "pa"}, disp \in Disps :
             \E A \in AckChoices(d, MaxAcks) :
                \E n \in 0..Len(A) :
                    /\ EndpointSend(d, k, rel, kind, SubSeq(A, 1, n), SubSeq(A, n + 1, Len(A)), disp)
                    /\ E([n |-> "Send", d |-> d, k |-> k, rel |-> rel, kind |-> kind, disp |-> disp,
                          a1 |-> SubSeq(A, 1, n), a2 |-> SubSeq(A, n + 1, Len(A)), resend |-> k \in epSent[d]])
       \/ \E d \in D, rel \in BOOLEAN : Inject(d, rel) /\ E([n |-> "Inject", d |-> d, rel |-> rel])
       \/ \E d \in D, k \in MinEp..MaxEp, o \in MinEp..(MaxEp + 1) : StartPing(d, k, o) /\ E([n |-> "Ping", d |-> d, k |-> k, oldest |-> o])
       \/ \E dt \in {1, Interval} : Tick(dt) /\ E([n |-> "Tick", dt |-> dt])

P(act) == /\ PrintT(ToJson([src |-> Full, act |-> act, dst |-> Full', obs |-> ObsNext]))
          /\ UNCHANGED hist
MInit == Init /\ hist = <<>> /\ PrintT(ToJson([init |-> Full]))
MSpec == MInit /\ [][Labelled(P)]_<<vars, hist>>

H(act) == hist' = Append(hist, [act |-> act, obs |-> ObsNext])
SInit == Init /\ hist = <<>>
SSpec == SInit /\ [][Labelled(H)]_<<vars, hist>>
PrintHist == (TLCGet("level") = Depth /\ RandomElement(1..SampleOneIn) = 1) => PrintT(ToJson([behaviour |-> hist]))
====
