---- MODULE AssetLayout_Trace ----
(* Binding B2 for generated animations (both versions) and meshes.  Records:                             *)
(*  Anim {ver:[maj,min], emote:len, joints:[{name:len, rot:n, pos:n}..], ncons, size, bytes:[.. or empty], *)
(*        prio, loop, hand, jprio:[..]  scalar fields of the generated model (full wire domain),         *)
(*        rt_model, rt_bytes}   model A1 = from_bytes(bytes), bytes = to_bytes(generated model);          *)
(*        rt_model = (from_bytes(bytes) == A1), rt_bytes = (to_bytes(from_bytes(bytes)) == bytes),       *)
(*        rt_exact = the exactly representable part of the generated model equals that part of A1     *)
(*  Mesh {segs:[{name, offset, size}..], body, rt_model, rt_bytes}  header of the serialised asset       *)
EXTENDS AssetLayout, Json, IOUtils, TLCExt
TraceLog == ndJsonDeserialize(IOEnv.TRACE_FILE)
VARIABLES l, tid
Chk(name, cond) == IF cond THEN TRUE ELSE PrintT(ToJson([fail |-> name, line |-> l, tid |-> tid]))
Env(name, cond) == Assert(cond, <<"driver violated environment assumption", name, l>>)
IsEvent(e) == l <= Len(TraceLog) /\ TraceLog[l].ev = e /\ l' = l + 1
Rec == TraceLog[l]
Range(s) == {s[i] : i \in DOMAIN s}
\* (the life-cycle variables of AssetLayout are bound by AssetLayout_MBT, not by these records)
TInit == MInit0 /\ l = 1 /\ tid = -1
TReset == IsEvent("Reset") /\ tid' = Rec.tid /\ UNCHANGED mvars
\* (a read past the end yields <<>>, so a wrong layout fails the clause instead of stopping TLC)
At(bytes, off, w) == IF off >= 0 /\ off + w <= Len(bytes) THEN SubSeq(bytes, off + 1, off + w) ELSE <<>>
TAnim == /\ IsEvent("Anim") /\ UNCHANGED <<tid, mvars>>
         /\ Env("supported version", <<Rec.ver[1], Rec.ver[2]>> \in Versions)
         /\ LET ver == <<Rec.ver[1], Rec.ver[2]>> IN
            /\ Chk("anim: size for this shape and version", Rec.size = AnimSize(ver, Rec.emote, Rec.joints, Rec.ncons))
            /\ Rec.bytes # <<>> =>
                 /\ Chk("anim: version header", At(Rec.bytes, 0, 4) = LE(ver[1], 2) \o LE(ver[2], 2))
                 /\ Chk("anim: joint count position", At(Rec.bytes, JointCountAt(Rec.emote), 4) = LE(Len(Rec.joints), 4))
                 /\ Chk("anim: constraint count position",
                        At(Rec.bytes, ConstraintCountAt(ver, Rec.emote, Rec.joints), 4) = LE(Rec.ncons, 4))
                 /\ Chk("anim: base priority on the wire", At(Rec.bytes, PriorityAt, 4) = S32LE(Rec.prio))
                 /\ Chk("anim: loop flag on the wire", At(Rec.bytes, LoopAt(Rec.emote), 4) = S32LE(Rec.loop))
                 /\ Chk("anim: hand pose on the wire", At(Rec.bytes, HandPoseAt(Rec.emote), 4) = U32LE(Rec.hand))
                 /\ \A k \in 1..Len(Rec.joints) :
                       Chk("anim: joint priority on the wire",
                           At(Rec.bytes, JointPriorityAt(ver, Rec.emote, Rec.joints, k), 4) = S32LE(Rec.jprio[k]))
                 /\ Chk("anim: emote name terminator", At(Rec.bytes, 12 + Rec.emote, 1) = <<0>>)
            /\ Chk("anim: laws", VersionLaw(Rec.emote, Rec.joints, Rec.ncons))
         /\ Chk("anim: parse(serialise(model)) differs from the model", Rec.rt_model)
         /\ Chk("anim: exactly representable values do not survive", Rec.rt_exact)
         /\ Chk("anim: re-serialisation differs", Rec.rt_bytes)
TMesh == /\ IsEvent("Mesh") /\ UNCHANGED <<tid, mvars>>
         /\ Chk("mesh: segments placed back to back in canonical order", Placed(Range(Rec.segs), Rec.body))
         /\ Chk("mesh: parse(serialise(model)) differs from the model", Rec.rt_model)
         /\ Chk("mesh: exactly representable values / shapes do not survive", Rec.rt_exact)
         /\ Chk("mesh: re-serialisation differs", Rec.rt_bytes)
TNext == TReset \/ TAnim \/ TMesh
TraceSpec == TInit /\ [][TNext]_<<l, tid, mvars>>
TraceAccepted == PrintT("TRACE_REACHED " \o ToString(TLCGet("stats").diameter - 1) \o " OF " \o ToString(Len(TraceLog)))
====
