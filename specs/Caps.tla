------------------------------- MODULE Caps -------------------------------
(***************************************************************************)
(* C16 -- capability URLs are attributed to the right cap, region, session *)
(* (hippolyzer/lib/proxy/region.py, sessions.py, http_event_manager.py).   *)
(*                                                                         *)
(* Property-level model.  A URL is a sequence of segments, "extends" is    *)
(* the prefix order on sequences (the harness concatenates the segments,   *)
(* so it is also the prefix order of the concrete strings).  Every region  *)
(* (region 3, in session 2, is in the SAME simulator as region 1: same       *)
(* circuit address, another seed)                                           *)
(* owns a family of URLs  a < ax (prefix-related), b, c, tx and one-shot    *)
(* URLs t (< tx) and at (> a); asset URL g is on a CDN host shared by all   *)
(* regions, rg / rh are on the simulator's host (other port / seed's port). *)
(* Wrapper and proxy-only URLs are chosen by the proxy: they are symbols   *)
(* ("?W..", "?P..") that the harness binds to the observed URL.            *)
(*                                                                         *)
(* caps[r][n] is the list of live grants of name n in region r, newest     *)
(* first.  Resolution of a request URL is by the LONGEST granted URL it    *)
(* extends.  Ghost variables (hist, firstP, treg, tres) record history so  *)
(* that the clauses of the property are invariants TLC checks.             *)
(***************************************************************************)
EXTENDS Naturals, Sequences, FiniteSets, TLC

CONSTANTS NR,        \* regions 1..NR; 1 and 2 belong to session 1, the others to session 2
          MaxSeed,   \* seed exchanges explored in one behaviour
          MaxTemp,   \* live one-shot caps per region
          Grants,    \* which grant templates the simulators use (subset of 1..10)
          PO,        \* proxy-only cap names addons register (subset of {"ProxyP", "ProxyQ"})
          Wants,     \* which request lists the viewer uses (subset of 1..7)
          Long,      \* extra URLs L1..L<Long> per region for LONG histories under one name (0: none)
          Globals,   \* session-global caps from the login data: "none" (keys absent), "urls", "empty" (empty strings)
          TN         \* names one-shot caps are registered under (subset of {"UpTemp", "CapB"}: a name of
                     \* their own, or next to the grants of an ordinary cap)

VARIABLES caps, pend, nseed,            \* state
          hist, firstP, treg, tres      \* ghosts (functions of the history)
vars == <<caps, pend, nseed, hist, firstP, treg, tres>>

Regions == 1..NR
SessOf(r) == IF r <= 2 THEN 1 ELSE 2

Asset == {"GetMesh", "ViewerAsset"}
WName(n) == n \o "ProxyWrapper"
PONameSet == {"ProxyP", "ProxyQ"}
Names == {"Seed", "CapA", "CapB", "UpTemp"} \cup PONameSet \cup Asset \cup {WName(n) : n \in Asset}

(***************************** URLs ****************************************)
U(r, k) == <<"r" \o ToString(r) \o k>>
SeedUrl(r) == U(r, "s")
UrlA(r) == U(r, "a")
UrlAx(r) == U(r, "a") \o <<"x">>
UrlB(r) == U(r, "b")
UrlC(r) == U(r, "c")
AssetG == <<"g">>
AssetR(r) == U(r, "g")                      \* region-specific asset URL: the simulator's host, another port
AssetS(r) == U(r, "h")                      \* region-specific asset URL on the Seed cap's own host:port
(* one-shot URLs: t stands alone but is EXTENDED BY the grantable URL tx; at EXTENDS the grantable *)
(* URL a (an uploader URL underneath the URL of the cap that created it)                         *)
UrlT(r) == U(r, "t")
UrlTx(r) == U(r, "t") \o <<"x">>
UrlAt(r) == U(r, "a") \o <<"t">>
TempUrls(r) == {UrlT(r), UrlAt(r)}
(* Long histories: the k-th long URL is handed out by the k-th LongGrant / LongTemp of the region *)
LongUrl(r, k) == U(r, "L" \o ToString(k))
LongUrls(r) == {LongUrl(r, k) : k \in 1..Long}
AllTempUrls(r) == TempUrls(r) \cup LongUrls(r)
(* Session-global caps (AppearanceService, MapImageService of the login response): looked at before  *)
(* any region; an absent or EMPTY global cap matches nothing.                                         *)
Sessions == {IF r <= 2 THEN 1 ELSE 2 : r \in 1..NR}
GlobalCaps(s) == IF Globals = "urls"
                 THEN {<<"AppearanceService", <<"ga" \o ToString(s)>>>>, <<"MapImageService", <<"gm" \o ToString(s)>>>>}
                 ELSE {}
GlobalUrls == {g[2] : g \in UNION {GlobalCaps(s) : s \in Sessions}}
ProxyUrl(r, n) == <<"?P" \o ToString(r) \o n>>
WrapUrl(r, n, k) == <<"?W" \o ToString(r) \o n \o ToString(k)>>
Ext(u) == u \o <<"e">>                      \* a request below a granted URL
NoUrl == <<>>
IsPre(p, u) == Len(p) <= Len(u) /\ SubSeq(u, 1, Len(p)) = p

(* What a simulator may grant in one seed response (name -> URL). *)
T(r, i) ==
    CASE i = 1 -> ("CapA" :> UrlA(r))
      [] i = 2 -> ("CapA" :> UrlAx(r))
      [] i = 3 -> ("CapB" :> UrlAx(r))
      [] i = 4 -> ("CapA" :> UrlA(r)) @@ ("CapB" :> UrlB(r))
      [] i = 5 -> ("GetMesh" :> AssetG)
      [] i = 6 -> ("GetMesh" :> AssetG) @@ ("ViewerAsset" :> AssetG) @@ ("CapB" :> UrlB(r))
      [] i = 7 -> ("ViewerAsset" :> AssetR(r))
      [] i = 8 -> ("CapA" :> UrlC(r))          \* with 1 / 2, used repeatedly: re-grants of an EARLIER URL
                                               \* of the same name (a c a, a c a c, a ax a ..)
      [] i = 9 -> ("CapB" :> UrlTx(r))         \* a granted URL that extends a one-shot URL
      [] i = 10 -> ("GetMesh" :> AssetS(r)) @@ ("ViewerAsset" :> AssetR(r)) @@ ("CapA" :> UrlA(r))
                                               \* asset caps served by the simulator itself (CDN host: 5, 6)

(***************************** queries *************************************)
EntriesOf(c) == UNION {{[r |-> rn[1], n |-> rn[2], t |-> c[rn[1]][rn[2]][i].t, u |-> c[rn[1]][rn[2]][i].u] :
                            i \in 1..Len(c[rn[1]][rn[2]])} : rn \in Regions \X Names}
None4 == <<"-", "-", 0, 0>>
Tup(e) == <<e.n, e.t, e.r, SessOf(e.r)>>
SetMax(S) == CHOOSE x \in S : \A y \in S : y <= x
(* The granted entries (out of the set E) with the longest URL that q extends. *)
BestIn(E, q) == LET M == {e \in E : IsPre(e.u, q)} IN
                IF M = {} THEN {} ELSE LET L == SetMax({Len(e.u) : e \in M}) IN {e \in M : Len(e.u) = L}
(* Acceptable answers for request URL q.  A plain (non-wrapper) asset-server cap cannot  *)
(* be told apart between regions; the property leaves open whether it is attributed, so  *)
(* both the attributed and the unattributed answer are acceptable (never a WRONG region).*)
AccIn(E, q) == LET B == BestIn(E, q) IN
               IF B = {} THEN {None4}
               ELSE {Tup(e) : e \in B} \cup {<<e.n, e.t, 0, 0>> : e \in {e \in B : e.n \in Asset /\ e.t # "W"}}
AccOf(c, q) == AccIn(EntriesOf(c), q)
GlobalAcc(q) == {<<g[1], "N", 0, 0>> : g \in {g \in UNION {GlobalCaps(s) : s \in Sessions} : IsPre(g[2], q)}}
AccAll(E, q) == IF GlobalAcc(q) # {} THEN GlobalAcc(q) ELSE AccIn(E, q)
Acc(q) == AccOf(caps, q)
Best(q) == BestIn(EntriesOf(caps), q)
IsTempReq(q) == \E e \in Best(q) : e.t = "T"
ByName(r, n) == IF caps[r][n] = <<>> THEN NoUrl ELSE Head(caps[r][n]).u
TempNames == {"UpTemp", "CapB"}
LiveIn(r, n, u) == Cardinality({i \in 1..Len(caps[r][n]) : caps[r][n][i].u = u /\ caps[r][n][i].t = "T"})
Live(r, u) == LiveIn(r, "UpTemp", u) + LiveIn(r, "CapB", u)
LiveTemps(r) == Cardinality({<<n, i>> \in TempNames \X (1..16) : i <= Len(caps[r][n]) /\ caps[r][n][i].t = "T"})
TempNameOf(r, u) == IF LiveIn(r, "CapB", u) > 0 THEN "CapB" ELSE "UpTemp"
PONames(r) == {n \in Names : caps[r][n] # <<>> /\ Head(caps[r][n]).t = "P"}

(***************************** actions *************************************)
NoPend == [on |-> FALSE, up |-> {}, need |-> {}]
Init == /\ caps = [r \in Regions |-> [n \in Names |->
                     IF n = "Seed" THEN <<[t |-> "N", u |-> SeedUrl(r)]>> ELSE <<>>]]
        /\ pend = [r \in Regions |-> NoPend]
        /\ nseed = 0
        /\ hist = [r \in Regions |-> [n \in Names |-> IF n = "Seed" THEN <<[u |-> SeedUrl(r), live |-> TRUE]>> ELSE <<>>]]
        /\ firstP = [r \in Regions |-> [n \in PONameSet |-> NoUrl]]
        /\ treg = [u \in UNION {AllTempUrls(r) : r \in Regions} |-> 0]
        /\ tres = [u \in UNION {AllTempUrls(r) : r \in Regions} |-> 0]

(* The viewer's seed request reaches the proxy: an ordered list of names, the proxy-only ones in    *)
(* every adjacency / relative order with the ordinary ones.                                          *)
WL(w) == CASE w = 1 -> <<"CapA", "CapB", "GetMesh", "ViewerAsset">>
           [] w = 2 -> <<"CapA", "ProxyP", "CapB", "GetMesh", "ViewerAsset">>
           [] w = 3 -> <<"ProxyP", "ProxyQ", "CapA", "CapB", "GetMesh", "ViewerAsset">>
           [] w = 4 -> <<"CapA", "CapB", "GetMesh", "ViewerAsset", "ProxyQ", "ProxyP">>
           [] w = 5 -> <<"ProxyQ", "CapA", "CapB", "GetMesh", "ProxyP", "ViewerAsset">>
           [] w = 6 -> <<"CapA", "CapB", "ProxyQ", "ProxyP", "GetMesh", "ViewerAsset">>
           [] w = 7 -> <<"CapA", "ProxyQ", "CapB", "GetMesh", "ViewerAsset">>
SeqRange(q) == {q[i] : i \in DOMAIN q}
Wanted(w) == SeqRange(WL(w))
Needed(r, w) == Wanted(w) \cap PONames(r)
UpstreamList(r, w) == SelectSeq(WL(w), LAMBDA n : n \notin PONames(r))   \* OUTPUT: what the simulator is asked
Upstream(r, w) == SeqRange(UpstreamList(r, w))
SeedReq(r, w) ==
    /\ w \in Wants /\ ~pend[r].on /\ nseed < MaxSeed
    /\ pend' = [pend EXCEPT ![r] = [on |-> TRUE, up |-> Upstream(r, w), need |-> Needed(r, w)]]
    /\ nseed' = nseed + 1
    /\ UNCHANGED <<caps, hist, firstP, treg, tres>>

(* Environment assumptions on what simulators grant: only names that were asked for; a   *)
(* URL belongs to one name (asset names may share one) and, g apart, to one region.      *)
GrantOKIn(E, r, g) ==
    /\ DOMAIN g \subseteq pend[r].up
    /\ \A e \in E : \A n \in DOMAIN g :
          e.u = g[n] => /\ (IF e.n = n THEN TRUE ELSE {e.n, n} \subseteq Asset)   \* (no \/ inside an action:
                        /\ (IF e.r = r THEN TRUE ELSE g[n] = AssetG)              \*  TLC would branch on it)
    /\ \A n \in Names : Len(caps[r][n]) < 6
GrantOK(r, g) == GrantOKIn(EntriesOf(caps), r, g)
CapsAfterSeed(r, g) ==
    [caps EXCEPT ![r] = [n \in Names |->
        IF n \in DOMAIN g THEN <<[t |-> "N", u |-> g[n]]>> \o caps[r][n]
        ELSE IF \E a \in Asset \cap DOMAIN g : n = WName(a)
             THEN LET a == CHOOSE a \in Asset \cap DOMAIN g : n = WName(a)
                  IN <<[t |-> "W", u |-> WrapUrl(r, a, Len(caps[r][n]) + 1)]>> \o caps[r][n]
        ELSE caps[r][n]]]
(* OUTPUT: the seed response as rewritten for the viewer *)
Viewer(r, g) == [n \in DOMAIN g \cup pend[r].need |->
                    IF n \in DOMAIN g \cap Asset THEN WrapUrl(r, n, Len(caps[r][WName(n)]) + 1)
                    ELSE IF n \in DOMAIN g THEN g[n]
                    ELSE ByName(r, n)]
SeedResp(r, i) ==
    /\ pend[r].on /\ i \in Grants
    /\ LET g == T(r, i) IN
         /\ GrantOK(r, g)
         /\ caps' = CapsAfterSeed(r, g)
         /\ hist' = [hist EXCEPT ![r] = [n \in Names |->
                          IF CapsAfterSeed(r, g)[r][n] # caps[r][n]
                          THEN Append(hist[r][n], [u |-> Head(CapsAfterSeed(r, g)[r][n]).u, live |-> TRUE]) ELSE hist[r][n]]]
    /\ pend' = [pend EXCEPT ![r] = NoPend]
    /\ UNCHANGED <<nseed, firstP, treg, tres>>

(* region.register_cap(name, url, TEMPORARY), e.g. uploader URLs: several may be live under one name, *)
(* also next to ordinary grants of that name; a URL is only ever used under one name                 *)
RegisterTemp(r, u, n) ==
    /\ u \in TempUrls(r) /\ n \in TN /\ LiveTemps(r) < MaxTemp /\ Len(caps[r][n]) < 6
    /\ \A m \in TempNames \ {n} : LiveIn(r, m, u) = 0
    /\ caps' = [caps EXCEPT ![r][n] = <<[t |-> "T", u |-> u]>> \o @]
    /\ hist' = [hist EXCEPT ![r][n] = Append(@, [u |-> u, live |-> TRUE])]
    /\ treg' = [treg EXCEPT ![u] = @ + 1]
    /\ UNCHANGED <<pend, nseed, firstP, tres>>

(* Long histories under one name: region.update_caps({"CapA": next}) / register_cap("UpTemp", next, TEMPORARY) *)
NLong(r) == Cardinality({e \in EntriesOf(caps) : e.r = r /\ e.u \in LongUrls(r)})
LongGrant(r) ==
    /\ NLong(r) < Long
    /\ caps' = [caps EXCEPT ![r]["CapA"] = <<[t |-> "N", u |-> LongUrl(r, NLong(r) + 1)]>> \o @]
    /\ hist' = [hist EXCEPT ![r]["CapA"] = Append(@, [u |-> LongUrl(r, NLong(r) + 1), live |-> TRUE])]
    /\ UNCHANGED <<pend, nseed, firstP, treg, tres>>
LongTemp(r) ==
    /\ NLong(r) < Long
    /\ caps' = [caps EXCEPT ![r]["UpTemp"] = <<[t |-> "T", u |-> LongUrl(r, NLong(r) + 1)]>> \o @]
    /\ hist' = [hist EXCEPT ![r]["UpTemp"] = Append(@, [u |-> LongUrl(r, NLong(r) + 1), live |-> TRUE])]
    /\ treg' = [treg EXCEPT ![LongUrl(r, NLong(r) + 1)] = @ + 1]
    /\ UNCHANGED <<pend, nseed, firstP, tres>>

(* region.register_proxy_cap: a second registration yields the same URL *)
OutRegisterProxy(r, n) == IF caps[r][n] # <<>> THEN Head(caps[r][n]).u ELSE ProxyUrl(r, n)
RegisterProxy(r, n) ==
    /\ n \in PO
    /\ IF caps[r][n] # <<>>
       THEN UNCHANGED <<caps, hist, firstP>>
       ELSE /\ caps' = [caps EXCEPT ![r][n] = <<[t |-> "P", u |-> ProxyUrl(r, n)]>>]
            /\ hist' = [hist EXCEPT ![r][n] = Append(@, [u |-> ProxyUrl(r, n), live |-> TRUE])]
            /\ firstP' = [firstP EXCEPT ![r][n] = ProxyUrl(r, n)]
    /\ UNCHANGED <<pend, nseed, treg, tres>>

(* a request that resolves to a one-shot cap consumes it *)
RECURSIVE RemoveFirst(_, _)
RemoveFirst(s, x) == IF s = <<>> THEN <<>>
                     ELSE IF Head(s) = x THEN Tail(s) ELSE <<Head(s)>> \o RemoveFirst(Tail(s), x)
(* ghost: the most recent live registration of URL u is used up *)
KillNewest(h, u) == LET ix == {i \in DOMAIN h : h[i].live /\ h[i].u = u}
                        k == CHOOSE i \in ix : \A j \in ix : j <= i
                    IN [h EXCEPT ![k].live = FALSE]
TempReqs == UNION {{u, Ext(u)} : u \in UNION {TempUrls(r) : r \in Regions}}
OutResolve(q) == Acc(q)
ResolveTemp(q) ==
    /\ q \in TempReqs /\ IsTempReq(q)
    /\ LET e == CHOOSE e \in Best(q) : e.t = "T" IN
         /\ caps' = [caps EXCEPT ![e.r][e.n] = RemoveFirst(@, [t |-> "T", u |-> e.u])]
         /\ tres' = [tres EXCEPT ![e.u] = @ + 1]
         /\ hist' = [hist EXCEPT ![e.r][e.n] = KillNewest(@, e.u)]
    /\ UNCHANGED <<pend, nseed, firstP, treg>>

Next == \/ \E r \in Regions : \/ \E w \in 1..7 : SeedReq(r, w)
                              \/ \E i \in 1..10 : SeedResp(r, i)
                              \/ \E u \in TempUrls(r) : \E n \in TempNames : RegisterTemp(r, u, n)
                              \/ \E n \in PONameSet : RegisterProxy(r, n)
                              \/ LongGrant(r) \/ LongTemp(r)
        \/ \E q \in TempReqs : ResolveTemp(q)
Spec == Init /\ [][Next]_vars

(***************************** the property ********************************)
(* A request for, or below, a granted URL resolves to exactly that cap / region / session *)
Attributed ==
    LET E == EntriesOf(caps) IN
    \A e \in E : \A q \in {e.u, Ext(e.u)} :
        LET A == AccIn(E, q) IN
        IF e.n \in Asset
        THEN Tup(e) \in A /\ \A a \in A : a[1] \in Asset /\ a[2] = "N"
        ELSE A = {Tup(e)}
(* ... and nothing else resolves *)
OnlyGranted ==
    LET E == EntriesOf(caps) IN
    \A r \in Regions : \A u \in {UrlA(r), UrlAx(r), UrlB(r), UrlC(r), UrlTx(r), AssetR(r), AssetS(r), AssetG} \cup AllTempUrls(r) :
        (\A e \in E : ~IsPre(e.u, u)) => AccIn(E, u) = {None4} /\ AccIn(E, Ext(u)) = {None4}
(* lookup by name yields the most recently granted / registered URL that has not been used up:   *)
(* judged against the registration history (hist), not against the list the model keeps         *)
NewestSurvivor(h) == LET ix == {i \in DOMAIN h : h[i].live} IN
                     IF ix = {} THEN NoUrl ELSE h[CHOOSE i \in ix : \A j \in ix : j <= i].u
Newest == \A r \in Regions : \A n \in Names : ByName(r, n) = NewestSurvivor(hist[r][n])
(* a one-shot cap resolves exactly once per registration: while it is live a request for / below its *)
(* URL is attributed to it (also when the URL extends a granted cap's URL), afterwards never again   *)
TempOnce ==
    LET E == EntriesOf(caps) IN
    \A r \in Regions : \A u \in AllTempUrls(r) :
        /\ tres[u] <= treg[u] /\ Live(r, u) + tres[u] = treg[u]
        /\ \A q \in {u, Ext(u)} : IF Live(r, u) > 0 THEN AccIn(E, q) = {<<TempNameOf(r, u), "T", r, SessOf(r)>>}
                                   ELSE \A a \in AccIn(E, q) : a[2] # "T"
(* proxy-only caps never go upstream, everything else the viewer asked for does (in its order) *)
SeedReqOK ==
    \A r \in Regions : \A w \in Wants :
        /\ Upstream(r, w) \cap PONames(r) = {}
        /\ Wanted(w) \subseteq Upstream(r, w) \cup PONames(r)
        /\ Upstream(r, w) \subseteq Wanted(w)
        /\ Needed(r, w) = {n \in PONameSet : n \in Wanted(w) /\ firstP[r][n] # NoUrl}
(* the viewer is shown every granted cap, wrapper URLs for the asset caps (which resolve *)
(* to the wrapper cap of THIS region) and the proxy-only caps it asked for               *)
SeedRespOK ==
    LET E == EntriesOf(caps) IN
    \A r \in {r \in Regions : pend[r].on} : \A i \in Grants :
        GrantOKIn(E, r, T(r, i)) =>
            LET g == T(r, i)  v == Viewer(r, g)  EA == EntriesOf(CapsAfterSeed(r, g)) IN
              /\ DOMAIN v = DOMAIN g \cup pend[r].need
              /\ \A n \in DOMAIN g \ Asset : v[n] = g[n]
              /\ \A n \in DOMAIN g \cap Asset :
                    /\ v[n] # g[n]
                    /\ \A q \in {v[n], Ext(v[n])} : AccIn(EA, q) = {<<WName(n), "W", r, SessOf(r)>>}
              /\ \A n \in pend[r].need : v[n] = firstP[r][n] /\ v[n] # NoUrl
(* session-global caps shadow no region cap, and an absent / empty one matches nothing *)
GlobalsApart == /\ \A e \in EntriesOf(caps) : GlobalAcc(e.u) = {} /\ GlobalAcc(Ext(e.u)) = {}
                /\ Globals # "urls" => \A r \in Regions : GlobalAcc(SeedUrl(r)) = {} /\ GlobalAcc(<<"zz">>) = {}
(* registering a proxy-only cap again yields the URL of the first registration *)
ProxyStable == \A r \in Regions : \A n \in PONameSet : firstP[r][n] # NoUrl => OutRegisterProxy(r, n) = firstP[r][n]

(***************************** observation (binding) ***********************)
StaticUrls == UNION {{SeedUrl(r), UrlA(r), UrlAx(r), UrlB(r), UrlC(r), UrlTx(r), AssetR(r), AssetS(r)} \cup AllTempUrls(r) : r \in Regions}
                 \cup {AssetG}
ReqsIn(E) == LET base == StaticUrls \cup GlobalUrls \cup {e.u : e \in E}
             IN base \cup {Ext(u) : u \in base} \cup {<<"zz">>}
ObsRes == LET E == EntriesOf(caps) IN
          {[q |-> q, acc |-> AccAll(E, q), b |-> {e.u : e \in BestIn(E, q)}] :
              q \in {q \in ReqsIn(E) : \A e \in BestIn(E, q) : e.t # "T"}}
Obs == [res    |-> ObsRes,
        byname |-> {<<r, n, ByName(r, n), IF caps[r][n] = <<>> THEN "-" ELSE Head(caps[r][n]).t>> : <<r, n>> \in Regions \X Names},
        \* ProxyStable as a probe in EVERY state (also right after a seed round trip): registering the
        \* proxy-only cap again must hand out the URL of the first registration
        proxy  |-> {<<rn[1], rn[2], OutRegisterProxy(rn[1], rn[2])>> :
                        rn \in {rn \in Regions \X PONameSet : caps[rn[1]][rn[2]] # <<>>}},
        \* one-shot caps are drained: k live registrations answer exactly k times, then the request is
        \* attributed to whatever is left (`after`: e.g. the granted cap whose URL the one-shot URL extends)
        temps  |-> LET E == EntriesOf(caps) IN
                   {<<ru[1], ru[2], Live(ru[1], ru[2]), AccIn({e \in E : ~(e.t = "T" /\ e.u = ru[2])}, ru[2]),
                      <<TempNameOf(ru[1], ru[2]), "T", ru[1], SessOf(ru[1])>>>> :
                        ru \in {ru \in Regions \X UNION {AllTempUrls(r) : r \in Regions} : ru[2] \in AllTempUrls(ru[1])}}]
=============================================================================
