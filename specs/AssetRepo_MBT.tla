---- MODULE AssetRepo_MBT ----
EXTENDS AssetRepo, Json
CONSTANT Depth
P(act) == PrintT(ToJson([src |-> assets, act |-> act, dst |-> assets', obs |-> [o |-> out', s |-> Obs']]))
MInit == Init /\ PrintT(ToJson([init |-> assets]))
MNext == /\ TLCGet("level") < Depth
         /\ \/ \E o \in BOOLEAN : Create(o) /\ P([n |-> "Create", oneShot |-> o])
            \/ \E dt \in {1, Grace} : Advance(dt) /\ P([n |-> "Advance", dt |-> dt])
            \/ \E i \in 0..MaxAssets, c, g \in BOOLEAN : Request(i, c, g) /\ P([n |-> "Request", i |-> i, cap |-> c, good |-> g])
MSpec == MInit /\ [][MNext]_vars
====
