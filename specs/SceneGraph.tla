----------------------------- MODULE SceneGraph -----------------------------
(***************************************************************************)
(* C14 -- the tracked world (scene graph) of a session.                     *)
(*   hippolyzer/lib/client/object_manager.py: ClientWorldObjectManager      *)
(*   (session-wide FullID index) + RegionObjectsState (per-region LocalID   *)
(*   index, parent/child/orphan links, request futures).                    *)
(*                                                                         *)
(* This module is the SPEC layer: what the property means, with no          *)
(* reference to the code's bookkeeping.  The world is ONE map               *)
(*      obj : FullID -> [local, parent, region]   (local = 0: not tracked)  *)
(* and every index / link the property talks of is DERIVED from it:         *)
(*   by full ID, by (region, local ID), children, parent link, orphans.     *)
(* SceneGraph_MC.tla transcribes the code's algorithm (Algo layer) and TLC  *)
(* checks it against these derived views; the real code is bound to the     *)
(* operator SObs below and to the step outputs `out` (B1 edge replay by     *)
(* SceneGraph_MBT, B2 recorded traces by SceneGraph_Trace).                 *)
(*                                                                         *)
(* Choices the property leaves open, taken as the code documents them:      *)
(*  - a cascading kill spares avatars (they stay, orphaned);                *)
(*  - an object announced for a region that is not tracked (a handle the    *)
(*    session has no region for, or a region of the session before its      *)
(*    handshake / after its teardown) stays in the session-wide index only  *)
(*    ("regionless"), attributed to that region; a NEW object announced for *)
(*    such a region is ignored;                                             *)
(*  - when a region of the session is unloaded, tracked or not, everything  *)
(*    attributed to it is gone from every index;                            *)
(*  - an update resolves the pending request of its own type only.          *)
(*                                                                         *)
(* Environment assumptions of the property are GUARDS (UniqueSlots,         *)
(* NoCycle): the simulator never gives one local ID to two live objects of  *)
(* a region, parent links form no cycle.                                   *)
(***************************************************************************)
EXTENDS Naturals, Sequences, FiniteSets, TLC

CONSTANTS FullIDs,      \* full IDs (strings)
          Avatars,      \* the full IDs whose PCode is AVATAR (spared by cascading kills)
          Locals,       \* local IDs (positive naturals); 0 = "no parent" / "not tracked"
          Trackable,    \* regions of the session (strings); tracked after their handshake
          Unknown,      \* region handles the session has no region for (never tracked)
          InitTracked,  \* regions tracked initially
          MaxPending    \* bound on simultaneously pending requests (model size only)

VARIABLES obj,          \* FullID -> [local, parent, region]
          tracked,      \* regions whose objects are currently tracked
          pending,      \* pending object requests <<region, local, type>>
          out           \* outputs of the last step (hidden from the exhaustive search by VIEW)

svars == <<obj, tracked, pending, out>>
View == <<obj, tracked, pending>>

Regions == Trackable \cup Unknown
ReqTypes == {"UPDATE", "PROPERTIES"}
AnnounceKinds == {"full", "compressed", "cachedHit"}
Absent == [local |-> 0, parent |-> 0, region |-> "-"]
NoOut == [killed |-> {}, resolved |-> {}, cancelled |-> {}]

(***************************** derived views *******************************)
LiveIn(o) == {f \in FullIDs : o[f].local # 0}
AtSlot(o, r, l) == {f \in FullIDs : l # 0 /\ o[f].local = l /\ o[f].region = r}
InRegion(o, r) == {f \in FullIDs : o[f].local # 0 /\ o[f].region = r}
\* objects that take part in parent/child linkage: those of tracked regions
Linked(o, t) == {f \in FullIDs : o[f].local # 0 /\ o[f].region \in t}

\* the object an object names as its parent (a set with 0 or 1 element)
ParentObj(o, f) == IF o[f].parent = 0 THEN {} ELSE AtSlot(o, o[f].region, o[f].parent)
NamesAsParent(o, r, l) == {c \in FullIDs : o[c].local # 0 /\ o[c].region = r /\ o[c].parent = l}

ParentLink(o, t, f) == IF f \in Linked(o, t) THEN ParentObj(o, f) ELSE {}
Children(o, t, f) == IF f \in Linked(o, t) THEN NamesAsParent(o, o[f].region, o[f].local) ELSE {}
Orphans(o, t) == {c \in Linked(o, t) : o[c].parent # 0 /\ ParentObj(o, c) = {}}

(************************ environment assumptions **************************)
UniqueSlots(o) == \A f, g \in LiveIn(o) :
                     f # g => ~(o[f].region = o[g].region /\ o[f].local = o[g].local)

RECURSIVE AncN(_, _, _)
AncN(o, S, n) == IF n = 0 THEN S
                 ELSE AncN(o, S \cup UNION {ParentObj(o, g) : g \in S}, n - 1)
Ancestors(o, f) == AncN(o, ParentObj(o, f), Cardinality(FullIDs))
NoCycle(o) == \A f \in LiveIn(o) : f \notin Ancestors(o, f)

(****************************** kill closure *******************************)
\* KillObject(l) in region r removes the object at l and, transitively, every
\* non-avatar object naming a removed local ID as parent -- also when nothing is
\* tracked at l itself (its orphans die with it).  Avatars are spared (they stay,
\* still naming the dead parent: orphans).
RECURSIVE DeadSet(_, _, _, _)
DeadSet(o, r, l, n) ==
    AtSlot(o, r, l) \cup
    (IF n = 0 THEN {}
     ELSE UNION {DeadSet(o, r, o[c].local, n - 1) : c \in NamesAsParent(o, r, l) \ Avatars})
Victims(o, r, l) == DeadSet(o, r, l, Cardinality(FullIDs))

SlotKeys(P, r, l) == {k \in P : k[1] = r /\ k[2] = l}

(******************************** actions **********************************)
Init == /\ obj = [f \in FullIDs |-> Absent]
        /\ tracked = InitTracked
        /\ pending = {}
        /\ out = NoOut

\* ObjectUpdate / ObjectUpdateCompressed / ObjectUpdateCached answered from the viewer
\* object cache: all three announce the complete identity of one object.
\*  - known full ID: the object moves to (r, l) with parent p, wherever it was;
\*    into an untracked region it stays in the session index only ("regionless")
\*  - unknown full ID: tracked if r is tracked, ignored otherwise
\* A request for the old slot is cancelled (the object left it), an UPDATE request
\* for the new slot is resolved with the object.
AnnounceOK(kind, f, l, p, r) ==
    /\ kind \in AnnounceKinds
    /\ r \in Regions
    /\ kind = "cachedHit" => r \in tracked   \* cached updates for untracked regions are dropped whole
    /\ l # p
    /\ LET o2 == [obj EXCEPT ![f] = [local |-> l, parent |-> p, region |-> r]]
       IN UniqueSlots(o2) /\ NoCycle(o2)
Announce(kind, f, l, p, r) ==
    /\ AnnounceOK(kind, f, l, p, r)
    /\ LET o2 == [obj EXCEPT ![f] = [local |-> l, parent |-> p, region |-> r]]
           old == obj[f]
           ignored == old.local = 0 /\ r \notin tracked
           leaving == IF old.local # 0 /\ old.region \in tracked /\ <<old.region, old.local>> # <<r, l>>
                      THEN SlotKeys(pending, old.region, old.local) ELSE {}
           arriving == IF r \in tracked THEN pending \cap {<<r, l, "UPDATE">>} ELSE {}
       IN /\ obj' = IF ignored THEN obj ELSE o2
          /\ pending' = pending \ (leaving \cup arriving)
          /\ out' = [killed |-> {}, cancelled |-> leaving,
                     resolved |-> {<<k[1], k[2], k[3], f>> : k \in arriving}]
    /\ UNCHANGED tracked

\* Updates that identify the object by (region, local ID) only and carry no linkage:
\* ImprovedTerseObjectUpdate ("terse"), ObjectUpdateCached with the CRC we already hold
\* ("cachedSame"), ObjectUpdateCached for something neither tracked nor cached ("cachedMiss").
TouchKinds == {"terse", "cachedSame", "cachedMiss"}
TouchOK(kind, r, l) ==
    /\ kind \in TouchKinds
    /\ r \in Regions
    /\ kind = "cachedSame" => r \in tracked /\ AtSlot(obj, r, l) # {}
Touch(kind, r, l) ==
    /\ TouchOK(kind, r, l)
    /\ LET hit == IF r \in tracked /\ kind # "cachedMiss" THEN AtSlot(obj, r, l) ELSE {}
           arriving == IF hit # {} THEN pending \cap {<<r, l, "UPDATE">>} ELSE {}
       IN /\ pending' = pending \ arriving
          /\ out' = [killed |-> {}, cancelled |-> {},
                     resolved |-> {<<k[1], k[2], k[3], f>> : k \in arriving, f \in hit}]
    /\ UNCHANGED <<obj, tracked>>

\* ObjectProperties reply: addressed by full ID
Props(f) ==
    /\ LET hit == {f} \cap Linked(obj, tracked)
           arriving == IF hit # {} THEN pending \cap {<<obj[f].region, obj[f].local, "PROPERTIES">>} ELSE {}
       IN /\ pending' = pending \ arriving
          /\ out' = [killed |-> {}, cancelled |-> {},
                     resolved |-> {<<k[1], k[2], k[3], f>> : k \in arriving}]
    /\ UNCHANGED <<obj, tracked>>

\* KillObject from region r's simulator
Kill(r, l) ==
    /\ r \in tracked
    /\ LET dead == Victims(obj, r, l)
           slots == {l} \cup {obj[f].local : f \in dead}
           gone == {k \in pending : k[1] = r /\ k[2] \in slots}
       IN /\ obj' = [f \in FullIDs |-> IF f \in dead THEN Absent ELSE obj[f]]
          /\ pending' = pending \ gone
          /\ out' = [killed |-> dead, resolved |-> {}, cancelled |-> gone]
    /\ UNCHANGED tracked

\* RegionHandshake: start tracking the region's objects.  Objects a straggler update attributed to
\* the region before its handshake (regionless so far) are its objects from now on: obj is
\* unchanged, but they are Linked now, so the derived views index them by local ID and link /
\* orphan them exactly as a fresh announcement would.
TrackOK(r) == r \in Trackable \ tracked
Track(r) ==
    /\ TrackOK(r)
    /\ tracked' = tracked \cup {r}
    /\ out' = NoOut
    /\ UNCHANGED <<obj, pending>>

\* a region of the session goes away (mark_dead / disconnect), whether its objects were tracked
\* or not: everything attributed to it is unloaded from every index, its requests are cancelled
Teardown(r) ==
    /\ r \in Trackable
    /\ obj' = [f \in FullIDs |-> IF f \in InRegion(obj, r) THEN Absent ELSE obj[f]]
    /\ tracked' = tracked \ {r}
    /\ LET gone == {k \in pending : k[1] = r}
       IN /\ pending' = pending \ gone
          /\ out' = [killed |-> {}, resolved |-> {}, cancelled |-> gone]

\* request_objects (UPDATE) / request_object_properties (PROPERTIES) for a local ID
RequestOK(r, l, ty) ==
    /\ r \in tracked /\ ty \in ReqTypes
    /\ <<r, l, ty>> \notin pending
    /\ Cardinality(pending) < MaxPending
Request(r, l, ty) ==
    /\ RequestOK(r, l, ty)
    /\ pending' = pending \cup {<<r, l, ty>>}
    /\ out' = NoOut
    /\ UNCHANGED <<obj, tracked>>

Next == \/ \E k \in AnnounceKinds, f \in FullIDs, l \in Locals, p \in Locals \cup {0}, r \in Regions :
              Announce(k, f, l, p, r)
        \/ \E k \in TouchKinds, r \in Regions, l \in Locals : Touch(k, r, l)
        \/ \E f \in FullIDs : Props(f)
        \/ \E r \in Trackable, l \in Locals : Kill(r, l)
        \/ \E r \in Trackable : Track(r) \/ Teardown(r)
        \/ \E r \in Trackable, l \in Locals, ty \in ReqTypes : Request(r, l, ty)

Spec == Init /\ [][Next]_svars

(************************* properties of the Spec layer ********************)
TypeOK == /\ \A f \in FullIDs : obj[f] = Absent \/
                (obj[f].local \in Locals /\ obj[f].parent \in Locals \cup {0} /\ obj[f].region \in Regions)
          /\ tracked \subseteq Trackable
          /\ pending \subseteq (Trackable \X Locals \X ReqTypes)
\* the guards keep the environment assumptions
EnvKept == UniqueSlots(obj) /\ NoCycle(obj)
\* every object is attributed to a region
RegionsKnown == \A f \in LiveIn(obj) : obj[f].region \in Regions
\* unloading a region leaves nothing attributed to it, and touches nothing else
UnloadComplete == [][\A r \in Trackable : Teardown(r) =>
                        /\ InRegion(obj', r) = {}
                        /\ \A f \in FullIDs : obj[f].region # r => obj'[f] = obj[f]]_svars
\* both directions of the parent/child relation, stated on the derived views
LinksBothWays == \A f, c \in FullIDs :
                    (c \in Children(obj, tracked, f)) <=> (f \in ParentLink(obj, tracked, c))
\* an orphan is exactly a linked object naming a parent nobody holds
OrphansExact == \A c \in Linked(obj, tracked) :
                    (c \in Orphans(obj, tracked)) <=> (obj[c].parent # 0 /\ ParentLink(obj, tracked, c) = {})
\* a request is pending only for a region that can still answer it
PendingAnswerable == \A k \in pending : k[1] \in tracked
\* what a kill announces as killed is gone, and nothing non-avatar survives under a killed slot
KillComplete == \A f \in out.killed : obj[f] = Absent
KillCascades == [][\A r \in Trackable, l \in Locals :
                     (Kill(r, l)) => (AtSlot(obj', r, l) = {} /\ NamesAsParent(obj', r, l) \subseteq Avatars)]_svars
\* steps never resolve and cancel the same request, and both leave the pending set
OutDisjoint == /\ {<<x[1], x[2], x[3]>> : x \in out.resolved} \cap out.cancelled = {}
               /\ ({<<x[1], x[2], x[3]>> : x \in out.resolved} \cup out.cancelled) \cap pending = {}

(***************************** triage labels ******************************)
\* Situation labels of an action in the current state.  They take no part in any verdict: the
\* harness attaches them to a failing case ("tags" of the failing step, "after" = labels of the
\* steps before it) so that known_findings.json can match exactly one defect class.
Tags(n, kind, f, r, loc) ==
    (IF n \in {"Announce", "Props"} /\ obj[f].local # 0 /\ obj[f].region \notin tracked
     THEN {"target-regionless"} ELSE {})
    \cup (IF n = "Announce" /\ kind = "cachedHit" /\ obj[f].local # 0
          THEN {"cachedHit-known-fullid"} ELSE {})
    \cup (IF n = "Kill" /\ AtSlot(obj, r, loc) = {} /\ NamesAsParent(obj, r, loc) \cap Avatars # {}
          THEN {"kill-untracked-parent-of-avatar"} ELSE {})
    \cup (IF n = "Track" /\ InRegion(obj, r) # {} THEN {"track-adopts-stragglers"} ELSE {})
    \cup (IF n = "Teardown" /\ r \notin tracked /\ InRegion(obj, r) # {}
          THEN {"unloads-untracked-region"} ELSE {})
    \cup (IF out'.cancelled # {} THEN {"cancels-requests"} ELSE {})

(********************* observation (binding to the code) *******************)
ParentName(o, t, f) == IF ParentLink(o, t, f) = {} THEN "-" ELSE CHOOSE g \in ParentLink(o, t, f) : TRUE
\* what the public lookups of a correct implementation show in world (o, t):
\*   sess  - session-wide index by full ID:  <<full, region, local, parent>>
\*   reg   - per-region index (by local ID and, equally, by full ID):  <<region, local, full>>
\*   links - <<full, full ID of Object.Parent or "-", set of full IDs of Object.Children>>
SObs(o, t) ==
    [ sess |-> {<<f, o[f].region, o[f].local, o[f].parent>> : f \in LiveIn(o)},
      reg |-> {<<o[f].region, o[f].local, f>> : f \in Linked(o, t)},
      links |-> {<<f, ParentName(o, t, f), Children(o, t, f)>> : f \in Linked(o, t)} ]
=============================================================================
