------------------------------ MODULE FilterLog ------------------------------
(***************************************************************************)
(* C18 -- message log: filters mean what they say and the view equals the  *)
(* filtered log.                                                           *)
(*   hippolyzer/lib/proxy/message_filter.py  (grammar, node classes)       *)
(*   hippolyzer/lib/proxy/message_logger.py  (_val_matches, matches,       *)
(*                                            FilteringMessageLogger)      *)
(*                                                                         *)
(* Part 1 (constant level): typed field values, the comparison operators   *)
(*   as a three-valued verdict per field ("T", "F", "X" = the comparison   *)
(*   cannot be applied to that field's type), atoms = selector + operator  *)
(*   + literal, an atom is true iff SOME selected field has verdict "T";   *)
(*   expression trees, their denotation, the transcription of the node     *)
(*   classes in both evaluation modes, the token grammar (Parse) and two   *)
(*   renderings RenderMin, RenderFull.                                     *)
(* Part 2 (state machine): the log.  Spec layer = ghost `ret` (retained    *)
(*   entries) and SpecView; Algo layer = raw window + view list as the     *)
(*   code maintains them.  TLC checks Algo against Spec.                   *)
(* Conformance of the real code is judged against Denote / Parse /         *)
(* SpecView only.                                                          *)
(***************************************************************************)
EXTENDS Integers, Sequences, FiniteSets, TLC

CONSTANTS W,          \* retention window (maxlen of the raw deque)
          MaxLog,     \* bound on the number of retained-or-not logged entries
          Depth,      \* bound on behaviour length (CONSTRAINT Bound)
          TreeDepth,  \* depth of the exhaustively enumerated expression trees
          TreeKind,   \* which atom / entry family the tree probes use
          TokLen      \* all token strings up to this length are parsed

RangeOf(s) == {s[i] : i \in DOMAIN s}

(***************************** typed values ********************************)
IntV(n) == [ty |-> "int", v |-> n]
StrV(s) == [ty |-> "str", v |-> s]        \* s: sequence of code points
BytV(s) == [ty |-> "bytes", v |-> s]
VecV(c) == [ty |-> "vec", v |-> c]        \* 3 components
QuatV(c) == [ty |-> "quat", v |-> c]      \* 4 components (occurs as an unpacked subfield only)
PackedV == [ty |-> "packed", v |-> 0]     \* the raw bytes of a field that has a subfield serializer (opaque here)
NoneV   == [ty |-> "none", v |-> 0]
NoLit   == [ty |-> "na", v |-> 0]         \* literal slot of an atom without operator
BadEnum == [ty |-> "badenum", v |-> 0]    \* compare value `Enum.MEMBER` naming a member that does not exist: it compiles,
                                          \* and EVALUATING the comparison on any field raises ("R")

SameV(a, b) == a.ty = b.ty /\ a.v = b.v
IsText(ty) == ty \in {"str", "bytes"}
IsOrdered(ty) == ty \in {"int", "str", "bytes", "vec"}
B(b) == IF b THEN "T" ELSE "F"

HasPrefix(p, s) == Len(p) <= Len(s) /\ SubSeq(s, 1, Len(p)) = p
HasSuffix(p, s) == Len(p) <= Len(s) /\ SubSeq(s, Len(s) - Len(p) + 1, Len(s)) = p
HasInfix(p, s) == \E i \in 0..(Len(s) - Len(p)) : SubSeq(s, i + 1, i + Len(p)) = p

RECURSIVE LexLt(_, _)
LexLt(a, b) == IF b = <<>> THEN FALSE
               ELSE IF a = <<>> THEN TRUE
               ELSE IF a[1] # b[1] THEN a[1] < b[1]
               ELSE LexLt(Tail(a), Tail(b))

RECURSIVE BitAnd(_, _)
BitAnd(a, b) == IF a = 0 \/ b = 0 THEN 0
                ELSE (IF a % 2 = 1 /\ b % 2 = 1 THEN 1 ELSE 0) + 2 * BitAnd(a \div 2, b \div 2)

\* same type, ordered type
Lt(a, b) == CASE a.ty = "int" -> a.v < b.v
              [] IsText(a.ty) -> LexLt(a.v, b.v)
              [] a.ty = "vec" -> \A i \in 1..3 : a.v[i] < b.v[i]     \* "on all axes"
Le(a, b) == CASE a.ty = "int" -> a.v <= b.v
              [] IsText(a.ty) -> ~LexLt(b.v, a.v)
              [] a.ty = "vec" -> \A i \in 1..3 : a.v[i] <= b.v[i]

Ops == {"==", "!=", "^=", "$=", "~=", "<", "<=", ">", ">=", "&"}

\* Verdict of `field <op> literal` for ONE field value.
Cmp(o, a, l) ==
    IF l.ty = "badenum" THEN "R" ELSE
    CASE o = "==" -> B(SameV(a, l))
      [] o = "!=" -> B(~SameV(a, l))
      [] o = "^=" -> IF a.ty = l.ty /\ IsText(a.ty) THEN B(HasPrefix(l.v, a.v)) ELSE "X"
      [] o = "$=" -> IF a.ty = l.ty /\ IsText(a.ty) THEN B(HasSuffix(l.v, a.v)) ELSE "X"
      [] o = "~=" -> IF a.ty = l.ty /\ IsText(a.ty) THEN B(HasInfix(l.v, a.v)) ELSE "X"
      [] o = "<"  -> IF a.ty = l.ty /\ IsOrdered(a.ty) THEN B(Lt(a, l)) ELSE "X"
      [] o = "<=" -> IF a.ty = l.ty /\ IsOrdered(a.ty) THEN B(Le(a, l)) ELSE "X"
      [] o = ">"  -> IF a.ty = l.ty /\ IsOrdered(a.ty) THEN B(Lt(l, a)) ELSE "X"
      [] o = ">=" -> IF a.ty = l.ty /\ IsOrdered(a.ty) THEN B(Le(l, a)) ELSE "X"
      [] o = "&"  -> IF a.ty = "int" /\ l.ty = "int" THEN B(BitAnd(a.v, l.v) # 0) ELSE "X"

\* Domain rule of the generators (not a check): Python container semantics that the
\* property does not speak about are kept out (membership of an int in bytes / of anything
\* in a vector; zip-truncating comparison of a vector with a text value).
InDomain(o, a, l) == l.ty = "badenum" \/
                     /\ ~(o = "~=" /\ (a.ty \in {"vec", "quat"} \/ (a.ty = "bytes" /\ l.ty = "int")))
                     /\ ~(o \in {"<", "<=", ">", ">="} /\ a.ty = "vec" /\ IsText(l.ty))
                     /\ ~(o \in {"<", "<=", ">", ">="} /\ a.ty = "quat" /\ (IsText(l.ty) \/ l.ty = "vec"))
                     /\ a.ty # "packed"
                     /\ l.ty # "na"

Truthy(a) == CASE a.ty = "int" -> a.v # 0
               [] IsText(a.ty) -> a.v # <<>>
               [] a.ty = "none" -> FALSE
               [] OTHER -> TRUE

(******************************* entries ***********************************)
\* entry == [kind |-> "LLUDP"|"EQ"|"HTTP", name |-> str, meta |-> <<[key, val]..>>,
\*           blocks |-> <<[blk |-> str, vars |-> <<[var |-> str, val |-> V, subs |-> <<[sub |-> name, val |-> V]..>>]..>>]..>>]
\* `subs` are the named subfields a field unpacks to when it has a subfield serializer (empty otherwise);
\* subfield names and the fourth selector component are code-point sequences, 42 = '*' matches any run.
\* Only LLUDP entries have selectable fields.
Pat(p, s) == p = "*" \/ p = s                  \* the two pattern forms of the model
RootMatches(p, e) == Pat(p, e.name) \/ Pat(p, e.kind)
MetaVal(e, k) == IF \E i \in DOMAIN e.meta : e.meta[i].key = k
                 THEN e.meta[CHOOSE i \in DOMAIN e.meta : e.meta[i].key = k].val
                 ELSE NoneV

Atom(s, o, l) == [sel |-> s, op |-> o, lit |-> l]
IsBare(a) == a.op = ""

\* values of the fields a three-part selector selects
Selected(a, e) ==
    IF e.kind = "LLUDP" /\ RootMatches(a.sel[1], e)
    THEN UNION { { e.blocks[i].vars[j].val :
                     j \in {j \in DOMAIN e.blocks[i].vars : Pat(a.sel[3], e.blocks[i].vars[j].var)} } :
                 i \in {i \in DOMAIN e.blocks : Pat(a.sel[2], e.blocks[i].blk)} }
    ELSE {}
RECURSIVE Glob(_, _)
Glob(p, n) == IF p = <<>> THEN n = <<>>
              ELSE IF p[1] = 42 THEN Glob(Tail(p), n) \/ (n # <<>> /\ Glob(p, Tail(n)))
              ELSE n # <<>> /\ n[1] = p[1] /\ Glob(Tail(p), Tail(n))
\* values of the SUBFIELDS a four-part selector selects: the unpacked subfields, named like the fourth
\* component, of every selected field
SubSelected(a, e) ==
    IF e.kind = "LLUDP" /\ RootMatches(a.sel[1], e)
    THEN UNION { UNION { { e.blocks[i].vars[j].subs[k].val :
                             k \in {k \in DOMAIN e.blocks[i].vars[j].subs : Glob(a.sel[4], e.blocks[i].vars[j].subs[k].sub)} } :
                         j \in {j \in DOMAIN e.blocks[i].vars : Pat(a.sel[3], e.blocks[i].vars[j].var)} } :
                 i \in {i \in DOMAIN e.blocks : Pat(a.sel[2], e.blocks[i].blk)} }
    ELSE {}
SubVerdicts(a, e) == { IF IsBare(a) THEN "T" ELSE Cmp(a.op, f, a.lit) : f \in SubSelected(a, e) }
\* a bare three-part selector asks for the presence of a field
FieldVerdicts(a, e) == { IF IsBare(a) THEN "T" ELSE Cmp(a.op, f, a.lit) : f \in Selected(a, e) }
MetaVerdict(a, e) == IF IsBare(a) THEN B(Truthy(MetaVal(e, a.sel[2])))
                     ELSE Cmp(a.op, MetaVal(e, a.sel[2]), a.lit)

AtomVerdicts(a, e) ==
    CASE Len(a.sel) = 1 -> {B(IsBare(a) /\ RootMatches(a.sel[1], e))}
      [] Len(a.sel) = 2 /\ a.sel[1] = "Meta" -> {MetaVerdict(a, e)}
      [] Len(a.sel) = 3 /\ a.sel[1] # "Meta" -> FieldVerdicts(a, e)
      [] Len(a.sel) = 4 /\ a.sel[1] # "Meta" -> SubVerdicts(a, e)
      [] OTHER -> {}
\* THE atom semantics of the property: true iff some selected field satisfies it;
\* an inapplicable comparison ("X") is simply not a "T".
AtomTrue(a, e) == "T" \in AtomVerdicts(a, e)
AtomHasX(a, e) == "X" \in AtomVerdicts(a, e)
\* evaluating the atom on the entry raises (a compare value that cannot be resolved, met by at least one selected field)
AtomRaises(a, e) == "R" \in AtomVerdicts(a, e)

(***************************** expression trees ****************************)
Leaf(a) == <<"atom", a>>
Not(x) == <<"not", x>>
And(l, r) == <<"and", l, r>>
Or(l, r) == <<"or", l, r>>

RECURSIVE Trees(_, _)
Trees(d, A) == IF d = 0 THEN {Leaf(a) : a \in A}
               ELSE LET S == Trees(d - 1, A)
                    IN {Leaf(a) : a \in A} \cup {Not(x) : x \in S}
                       \cup {And(l, r) : l \in S, r \in S} \cup {Or(l, r) : l \in S, r \in S}

RECURSIVE Denote(_, _)
Denote(t, e) == CASE t[1] = "atom" -> AtomTrue(t[2], e)
                  [] t[1] = "not" -> ~Denote(t[2], e)
                  [] t[1] = "and" -> Denote(t[2], e) /\ Denote(t[3], e)
                  [] t[1] = "or" -> Denote(t[2], e) \/ Denote(t[3], e)

\* Transcription of UnaryNotFilterNode / OrFilterNode / AndFilterNode.match(msg, short_circuit)
RECURSIVE Eval(_, _, _)
Eval(t, e, sc) ==
    CASE t[1] = "atom" -> AtomTrue(t[2], e)
      [] t[1] = "not" -> ~Eval(t[2], e, sc)
      [] t[1] = "or" ->
            LET lm == Eval(t[2], e, sc) IN
            IF lm /\ sc THEN TRUE
            ELSE LET rm == Eval(t[3], e, sc) IN
                 IF rm /\ sc THEN TRUE
                 ELSE IF lm \/ rm THEN TRUE ELSE FALSE
      [] t[1] = "and" ->
            LET lm == Eval(t[2], e, sc) IN
            IF ~lm THEN FALSE
            ELSE LET rm == Eval(t[3], e, sc) IN IF ~rm THEN FALSE ELSE TRUE

\* expected truth value of every node, prefix order (root first)
RECURSIVE NodeVals(_, _)
NodeVals(t, e) == <<Denote(t, e)>> \o
    (CASE t[1] = "atom" -> <<>>
       [] t[1] = "not" -> NodeVals(t[2], e)
       [] OTHER -> NodeVals(t[2], e) \o NodeVals(t[3], e))
\* some atom of the tree meets a field it cannot be applied to
RECURSIVE TreeHasX(_, _)
TreeHasX(t, e) == CASE t[1] = "atom" -> AtomHasX(t[2], e)
                    [] t[1] = "not" -> TreeHasX(t[2], e)
                    [] OTHER -> TreeHasX(t[2], e) \/ TreeHasX(t[3], e)
RECURSIVE TreeRaises(_, _)
TreeRaises(t, e) == CASE t[1] = "atom" -> AtomRaises(t[2], e)
                      [] t[1] = "not" -> TreeRaises(t[2], e)
                      [] OTHER -> TreeRaises(t[2], e) \/ TreeRaises(t[3], e)
RECURSIVE TreeHasBadEnum(_)
TreeHasBadEnum(t) == CASE t[1] = "atom" -> t[2].lit.ty = "badenum"
                       [] t[1] = "not" -> TreeHasBadEnum(t[2])
                       [] OTHER -> TreeHasBadEnum(t[2]) \/ TreeHasBadEnum(t[3])
RECURSIVE Shape(_)
Shape(t) == CASE t[1] = "atom" -> <<"a">>
              [] t[1] = "not" -> <<"!">> \o Shape(t[2])
              [] t[1] = "and" -> <<"&&">> \o Shape(t[2]) \o Shape(t[3])
              [] t[1] = "or" -> <<"||">> \o Shape(t[2]) \o Shape(t[3])
RECURSIVE LeavesOf(_)
LeavesOf(t) == CASE t[1] = "atom" -> <<t[2]>>
                 [] t[1] = "not" -> LeavesOf(t[2])
                 [] OTHER -> LeavesOf(t[2]) \o LeavesOf(t[3])

(***************************** token grammar *******************************)
\* tokens: <<"(">> <<")">> <<"!">> <<"&&">> <<"||">> <<"atom", a>>
\*   expression := term ( ("||" | "&&") expression )?        right-recursive, no precedence
\*   term       := comparison-atom | unary
\*   unary      := "!"? ( bare-atom | "(" expression ")" )
TAtom(a) == <<"atom", a>>
Err == <<"err">>
RECURSIVE PExpr(_), PTerm(_), PParen(_)
PParen(ts) ==      \* ts[1] is "("
    LET r == PExpr(Tail(ts)) IN
    IF r[1] = "ok" /\ r[3] # <<>> /\ r[3][1][1] = ")" THEN <<"ok", r[2], Tail(r[3])>> ELSE Err
PTerm(ts) ==
    IF ts = <<>> THEN Err
    ELSE CASE ts[1][1] = "atom" -> <<"ok", Leaf(ts[1][2]), Tail(ts)>>
           [] ts[1][1] = "(" -> PParen(ts)
           [] ts[1][1] = "!" ->
                IF Len(ts) < 2 THEN Err
                ELSE IF ts[2][1] = "atom"
                     THEN IF IsBare(ts[2][2]) THEN <<"ok", Not(Leaf(ts[2][2])), Tail(Tail(ts))>> ELSE Err
                     ELSE IF ts[2][1] = "("
                          THEN LET r == PParen(Tail(ts)) IN
                               IF r[1] = "ok" THEN <<"ok", Not(r[2]), r[3]>> ELSE Err
                          ELSE Err
           [] OTHER -> Err
PExpr(ts) ==
    LET l == PTerm(ts) IN
    IF l[1] # "ok" THEN Err
    ELSE IF l[3] # <<>> /\ l[3][1][1] \in {"&&", "||"}
         THEN LET r == PExpr(Tail(l[3])) IN
              IF r[1] # "ok" THEN Err
              ELSE <<"ok", IF l[3][1][1] = "&&" THEN And(l[2], r[2]) ELSE Or(l[2], r[2]), r[3]>>
         ELSE l
\* compile_filter's two shorthands: the empty text is `*`, a lone `!` is `!*`
StarAtom == Atom(<<"*">>, "", NoLit)
Parse(ts) == IF ts = <<>> THEN <<"ok", Leaf(StarAtom)>>
             ELSE IF ts = <<<<"!">>>> THEN <<"ok", Not(Leaf(StarAtom))>>
             ELSE LET r == PExpr(ts) IN IF r[1] = "ok" /\ r[3] = <<>> THEN <<"ok", r[2]>> ELSE Err

RECURSIVE RenderFull(_), RenderMin(_)
\* every operand parenthesised
RenderFull(t) ==
    CASE t[1] = "atom" -> <<TAtom(t[2])>>
      [] t[1] = "not" -> <<<<"!">>, <<"(">>>> \o RenderFull(t[2]) \o <<<<")">>>>
      [] OTHER -> <<<<"(">>>> \o RenderFull(t[2]) \o <<<<")">>, <<IF t[1] = "and" THEN "&&" ELSE "||">>, <<"(">>>>
                  \o RenderFull(t[3]) \o <<<<")">>>>
\* only the parentheses the grammar needs: the right operand of && / || extends to the
\* end of the (sub)expression, whatever operators it contains
RenderMin(t) ==
    CASE t[1] = "atom" -> <<TAtom(t[2])>>
      [] t[1] = "not" -> IF t[2][1] = "atom" /\ IsBare(t[2][2]) THEN <<<<"!">>, TAtom(t[2][2])>>
                         ELSE <<<<"!">>, <<"(">>>> \o RenderMin(t[2]) \o <<<<")">>>>
      [] OTHER -> (IF t[2][1] \in {"and", "or"} THEN <<<<"(">>>> \o RenderMin(t[2]) \o <<<<")">>>> ELSE RenderMin(t[2]))
                  \o <<<<IF t[1] = "and" THEN "&&" ELSE "||">>>> \o RenderMin(t[3])

\* A filter is a token sequence; the default filter of a fresh logger is `*`.
AllFilter == <<TAtom(StarAtom)>>
WellFormed(f) == Parse(f)[1] = "ok"
\* Filters whose evaluation can raise: in the history model such a filter is a single atom (so that whether it
\* raises does not depend on the evaluation order) -- a generator rule, see RaisingShapeOK.
Raises(f, e) == TreeRaises(Parse(f)[2], e)
RaisingShapeOK(f) == WellFormed(f) => (TreeHasBadEnum(Parse(f)[2]) => Parse(f)[2][1] = "atom")
\* an entry the filter cannot be evaluated on is not shown
Matches(f, e) == ~Raises(f, e) /\ Denote(Parse(f)[2], e)

(************************ finite families for the tables *******************)
S_a == <<97>>
S_b == <<98>>
S_ab == <<97, 98>>
S_ba == <<98, 97>>
CmpVals == {IntV(0), IntV(1), IntV(2), IntV(3), IntV(6), StrV(<<>>), StrV(S_a), StrV(S_ab), StrV(S_ba), StrV(S_b),
            BytV(S_a), BytV(S_ab), BytV(<<>>), NoneV, VecV(<<1, 2, 3>>), VecV(<<2, 2, 2>>), VecV(<<0, 0, 0>>)}
CmpLits == {IntV(0), IntV(1), IntV(2), IntV(4), StrV(<<>>), StrV(S_a), StrV(S_ab), StrV(S_b), BytV(S_a), BytV(S_b),
            NoneV, VecV(<<1, 2, 3>>), VecV(<<2, 2, 2>>), VecV(<<1, 3, 1>>)}
Blk(b, vs) == [blk |-> b, vars |-> vs]
Var(n, a) == [var |-> n, val |-> a, subs |-> <<>>]
SubVar(n, ss) == [var |-> n, val |-> PackedV, subs |-> ss]
Sub(n, a) == [sub |-> n, val |-> a]
Ent(k, n, m, bs) == [kind |-> k, name |-> n, meta |-> m, blocks |-> bs]
MetaKV(k, a) == [key |-> k, val |-> a]

\* (a) one field, every operator x value x literal
CmpAtoms == {Atom(<<"Foo", "Bar", "A">>, o, l) : o \in Ops, l \in CmpLits}
CmpEntries == {Ent("LLUDP", "Foo", <<>>, <<Blk("Bar", <<Var("A", a)>>)>>) : a \in CmpVals}
\* the same through Meta, on the three kinds (vectors do not occur in metadata)
MetaCmpAtoms == {Atom(<<"Meta", "Q">>, o, l) : o \in Ops, l \in {l \in CmpLits : l.ty # "vec"}}
                \cup {Atom(<<"Meta", "Q">>, "", NoLit), Atom(<<"Meta", "Nope">>, "", NoLit)}
MetaCmpEntries == {Ent(k, "Foo", <<MetaKV("Q", a)>>, <<>>) : k \in {"LLUDP", "EQ", "HTTP"},
                                                             a \in {a \in CmpVals : a.ty \in {"int", "str", "none"}}}
\* (b) selection: which fields a selector ranges over; slot values: absent / T / F / X for `< 2`
SlotVals == {NoLit, IntV(1), IntV(3), StrV(S_a)}
VarsOf(s) == SelectSeq(s, LAMBDA p : p.val.ty # "na")
SelEntries == {Ent("LLUDP", "Foo", <<>>,
                   <<Blk("Bar", VarsOf(<<Var("A", a1), Var("B", a2)>>)), Blk("Baz", VarsOf(<<Var("A", a3)>>)),
                     Blk("Baz", VarsOf(<<Var("A", a4)>>))>>) : a1 \in SlotVals, a2 \in SlotVals, a3 \in SlotVals, a4 \in SlotVals}
              \cup {Ent(k, "Foo", <<>>, <<Blk("Bar", <<Var("A", IntV(1))>>)>>) : k \in {"EQ", "HTTP"}}
SelSelectors == {<<"Foo", "Bar", "A">>, <<"Foo", "*", "A">>, <<"Foo", "Bar", "*">>, <<"Foo", "Baz", "A">>, <<"*", "*", "*">>,
                 <<"LLUDP", "*", "B">>, <<"Zed", "*", "*">>, <<"Foo", "Qux", "A">>, <<"Foo", "Bar">>, <<"Foo">>, <<"*">>,
                 <<"EQ">>, <<"HTTP">>, <<"Zed">>}
SelAtoms == {Atom(s, "<", IntV(2)) : s \in SelSelectors} \cup {Atom(s, "", NoLit) : s \in SelSelectors}

\* (b') subfield selection.  Names as code points.
N_Position == <<80,111,115,105,116,105,111,110>>
N_Velocity == <<86,101,108,111,99,105,116,121>>
N_Acceleration == <<65,99,99,101,108,101,114,97,116,105,111,110>>
N_Rotation == <<82,111,116,97,116,105,111,110>>
N_AngularVelocity == <<65,110,103,117,108,97,114,86,101,108,111,99,105,116,121>>
N_ID == <<73,68>>
N_State == <<83,116,97,116,101>>
N_FootCollisionPlane == <<70,111,111,116,67,111,108,108,105,115,105,111,110,80,108,97,110,101>>
G_star == <<42>>
G_starVelocity == <<42>> \o N_Velocity                \* *Velocity : Velocity, AngularVelocity
G_c == <<42, 99, 42>>                                  \* *c*       : Velocity, Acceleration, AngularVelocity
G_Astar == <<65, 42>>                                  \* A*        : Acceleration, AngularVelocity
G_x == <<42, 120, 42>>                                 \* *x*       : nothing
G_e == <<42, 101, 42>>                                 \* *e*       : State, FootCollisionPlane, Velocity, Acceleration, AngularVelocity
G_starD == <<42, 68>>                                  \* *D        : ID
G_Sstar == <<83, 42>>                                  \* S*        : State
Vc0 == VecV(<<0, 0, 0>>)
Vc1 == VecV(<<1, 1, 1>>)
Vc3 == VecV(<<3, 3, 3>>)
Vc128 == VecV(<<128, 128, 128>>)
QId == QuatV(<<0, 0, 0, 1>>)
\* family A: ObjectUpdate.ObjectData.ObjectData (full-precision form): five subfields, unpacked in this order
OUData(p, vv, ac, av) == SubVar("ObjectData", <<Sub(N_Position, p), Sub(N_Velocity, vv), Sub(N_Acceleration, ac),
                                                 Sub(N_Rotation, QId), Sub(N_AngularVelocity, av)>>)
SubEntriesA == {Ent("LLUDP", "ObjectUpdate", <<>>, <<Blk("ObjectData", <<OUData(p, vv, ac, av)>>)>>) :
                    p \in {Vc0, Vc1, Vc3}, vv \in {Vc0, Vc1, Vc3}, ac \in {Vc0, Vc1, Vc3}, av \in {Vc0, Vc1, Vc3}}
               \cup {Ent("LLUDP", "ObjectUpdate", <<>>, <<Blk("ObjectData", <<OUData(Vc3, Vc3, Vc3, Vc3)>>),
                                                          Blk("ObjectData", <<OUData(Vc3, vv, ac, Vc3)>>)>>) :   \* a later block instance
                    vv \in {Vc0, Vc3}, ac \in {Vc1, Vc3}}
\* a field that has a subfield serializer but does not unpack to named subfields (TextureEntry): nothing to select
SubEntriesTE == {Ent("LLUDP", "ObjectUpdate", <<>>, <<Blk("ObjectData", <<OUData(Vc3, vv, Vc3, Vc3), SubVar("TextureEntry", <<>>)>>)>>) :
                    vv \in {Vc0, Vc3}}
SubAtomsTE == {Atom(<<"ObjectUpdate", "ObjectData", "TextureEntry", g>>, c[1], c[2]) :
                    g \in {G_star, N_Velocity}, c \in {<<"", NoLit>>, <<"==", Vc0>>, <<"&", IntV(1)>>}}
              \cup {Atom(<<"ObjectUpdate", "ObjectData", "*", g>>, c[1], c[2]) :
                    g \in {G_star, N_Velocity, G_c}, c \in {<<"", NoLit>>, <<"==", Vc0>>, <<"&", IntV(1)>>}}
SubSelA(g) == <<"ObjectUpdate", "ObjectData", "ObjectData", g>>
SubPatsA == {N_Position, N_Velocity, N_AngularVelocity, N_Rotation, G_starVelocity, G_c, G_Astar, G_star, G_x}
SubCmpsA == {<<"==", Vc0>>, <<"!=", Vc0>>, <<"<", VecV(<<2, 2, 2>>)>>, <<">=", Vc1>>, <<"==", Vc3>>, <<"&", IntV(1)>>, <<"==", IntV(1)>>}
SubAtomsA == {Atom(SubSelA(g), c[1], c[2]) : g \in SubPatsA, c \in SubCmpsA}
             \cup {Atom(SubSelA(g), "", NoLit) : g \in SubPatsA}
             \cup {Atom(<<s[1], s[2], s[3], g>>, "==", Vc3) :
                       s \in {<<"ObjectUpdate", "*", "*">>, <<"*", "*", "*">>, <<"LLUDP", "ObjectData", "*">>, <<"Zed", "*", "*">>,
                              <<"ObjectUpdate", "ObjectData", "Nope">>}, g \in {G_c, N_Acceleration}}
\* family B: ImprovedTerseObjectUpdate.ObjectData.Data: subfields of different types (int, None, vector, quaternion)
TerseData(id, st, p, vv) == SubVar("Data", <<Sub(N_ID, IntV(id)), Sub(N_State, IntV(st)), Sub(N_FootCollisionPlane, NoneV),
                                            Sub(N_Position, p), Sub(N_Velocity, vv), Sub(N_Acceleration, Vc0),
                                            Sub(N_Rotation, QId), Sub(N_AngularVelocity, Vc0)>>)
SubEntriesB == {Ent("LLUDP", "ImprovedTerseObjectUpdate", <<>>, <<Blk("ObjectData", <<TerseData(id, st, p, vv)>>)>>) :
                    id \in {1, 4}, st \in {1, 4}, p \in {Vc1, Vc3}, vv \in {Vc0, Vc128}}
SubSelB(g) == <<"ImprovedTerseObjectUpdate", "ObjectData", "Data", g>>
SubPatsB == {N_ID, N_State, N_Velocity, N_FootCollisionPlane, G_e, G_starD, G_Sstar, G_star, G_starVelocity}
SubCmpsB == {<<"<", VecV(<<2, 2, 2>>)>>, <<"&", IntV(1)>>, <<"<", IntV(2)>>, <<"==", Vc0>>, <<"==", IntV(1)>>, <<"^=", StrV(S_a)>>,
             <<"==", NoneV>>, <<">", IntV(2)>>}
SubAtomsB == {Atom(SubSelB(g), c[1], c[2]) : g \in SubPatsB, c \in SubCmpsB} \cup {Atom(SubSelB(g), "", NoLit) : g \in SubPatsB}

\* (c) boolean structure: three atoms whose verdict is T / F / X independently
TreeAtoms(k) == CASE k = "LLUDP" -> {Atom(<<"Foo", "Bar", "A">>, "<", IntV(2)), Atom(<<"Foo", "*", "B">>, "~=", StrV(S_a)),
                                    Atom(<<"Meta", "Q">>, "&", IntV(1))}
                  [] k = "EQ2" -> {Atom(<<"Meta", "Q">>, "&", IntV(1)), Atom(<<"Foo">>, "", NoLit)}     \* two atoms: deeper trees
                  [] OTHER -> {Atom(<<"Meta", "Q">>, "&", IntV(1)), Atom(<<"Meta", "R">>, "^=", StrV(S_a)), Atom(<<"Foo">>, "", NoLit)}
TreeEntries(k) ==
    IF k = "LLUDP"
    THEN {Ent("LLUDP", "Foo", <<MetaKV("Q", q)>>, <<Blk("Bar", <<Var("A", a)>>), Blk("Baz", <<Var("B", b)>>)>>) :
            a \in {IntV(1), IntV(3), StrV(S_a)}, b \in {StrV(S_ba), StrV(S_b), IntV(1)}, q \in {IntV(1), IntV(2), StrV(S_a)}}
    ELSE {Ent(IF k = "EQ2" THEN "EQ" ELSE k, n, <<MetaKV("Q", q), MetaKV("R", r)>>, <<>>) :
            n \in {"Foo", "Zed"}, q \in {IntV(1), IntV(2), StrV(S_a)},
            r \in IF k = "EQ2" THEN {StrV(S_ab)} ELSE {StrV(S_ab), StrV(S_b), IntV(1)}}

\* (d) grammar: every token string up to TokLen over this alphabet
GramToks == {TAtom(Atom(<<"Foo">>, "", NoLit)), TAtom(Atom(<<"Meta", "Q">>, "==", IntV(1))),
             <<"!">>, <<"&&">>, <<"||">>, <<"(">>, <<")">>}
TokStrings(n) == UNION {[1..k -> GramToks] : k \in 0..n}

(****************************** the log machine ****************************)
VARIABLES arr,      \* ghost: every entry that was logged while not paused, in arrival order; ids are indices
          raw,      \* Algo: the deque of retained ids, oldest first
          view,     \* Algo: the filtered list
          flt,      \* current filter (token sequence)
          paused,
          ret,      \* Spec (ghost): retained ids = inside the window, or aged out of it while visible and visible ever since
          probe     \* used by the table specs only
vars == <<arr, raw, view, flt, paused, ret, probe>>

LogEntries ==
    <<Ent("LLUDP", "Foo", <<MetaKV("Q", IntV(1))>>, <<Blk("Bar", <<Var("A", IntV(1))>>)>>),      \* Q&1: T  Foo: T  A<2: T
      Ent("EQ", "Zed", <<MetaKV("Q", StrV(S_a))>>, <<>>),                                        \* Q&1: X  Foo: F  A<2: -
      Ent("HTTP", "Foo", <<MetaKV("Q", IntV(2))>>, <<>>),                                        \* Q&1: F  Foo: T
      Ent("LLUDP", "Foo", <<MetaKV("Q", IntV(3))>>, <<Blk("Bar", <<Var("A", StrV(S_a))>>)>>)>>   \* Q&1: T  Foo: T  A<2: X
A_q == Atom(<<"Meta", "Q">>, "&", IntV(1))
A_foo == Atom(<<"Foo">>, "", NoLit)
A_zed == Atom(<<"Zed">>, "", NoLit)
A_fld == Atom(<<"Foo", "Bar", "A">>, "<", IntV(2))
LogFilters ==
    <<AllFilter,
      <<TAtom(A_q)>>,
      <<<<"!">>, TAtom(A_foo)>>,
      <<TAtom(A_q), <<"||">>, TAtom(A_zed)>>,                     \* X || T on the EQ entry
      <<TAtom(A_fld), <<"||">>, <<"!">>, <<"(">>, TAtom(A_q), <<")">>>>,
      <<TAtom(A_foo), <<"&&">>, <<"!">>, <<"(">>, TAtom(A_q), <<")">>>>,
      <<<<"(">>, TAtom(A_foo)>>,                                  \* ill-formed
      <<TAtom(Atom(<<"Foo", "Bar", "A">>, "==", BadEnum))>>,      \* raises on the LLUDP entries (1 and 4), matches nothing
      <<TAtom(Atom(<<"Meta", "Q">>, "==", BadEnum))>>>>           \* raises on every entry
NEnt == 4
NFlt == 9
CONSTANTS UseEnt, UseFlt      \* subsets of 1..NEnt / 1..NFlt explored by a configuration

InitLog == /\ arr = <<>> /\ raw = <<>> /\ view = <<>> /\ flt = AllFilter
           /\ paused = FALSE /\ ret = {} /\ probe = <<>>

\* log_lludp_message / log_eq_event / log_http_response -> add_log_entry.
\* THE LAW for filters that cannot be evaluated: an entry logged while not paused is ALWAYS retained (arrival
\* order, window eviction as usual); if evaluating the current filter on it raises, the call reports "not shown",
\* raises nothing itself, the entry is retained but not visible, and a later SetFilter(f') shows it iff f' matches it.
LogResult(e) == ~paused /\ Matches(flt, e)       \* the call's return value
Log(e) ==
    /\ IF paused
       THEN UNCHANGED <<arr, raw, view, ret>>
       ELSE LET n == Len(arr) + 1
                full == Len(raw) = W
                gone == IF full THEN {raw[1]} ELSE {}
            IN /\ arr' = Append(arr, e)
               /\ raw' = IF full THEN Append(Tail(raw), n) ELSE Append(raw, n)
               /\ view' = IF Matches(flt, e) THEN Append(view, n) ELSE view
               /\ ret' = (ret \cup {n}) \ {o \in gone : ~Matches(flt, arr[o])}
    /\ UNCHANGED <<flt, paused, probe>>

\* set_filter(text): an ill-formed text is refused and changes nothing
SetFilter(f) ==
    /\ IF WellFormed(f)
       THEN /\ flt' = f
            /\ view' = SelectSeq(view, LAMBDA i : i \notin RangeOf(raw) /\ Matches(f, arr[i]))
                       \o SelectSeq(raw, LAMBDA i : Matches(f, arr[i]))
            /\ ret' = {i \in ret : i \in RangeOf(raw) \/ Matches(f, arr[i])}
       ELSE UNCHANGED <<flt, view, ret>>
    /\ UNCHANGED <<arr, raw, paused, probe>>

\* set_filter does not swallow: it is only legal (an environment assumption, guard of the action) to install a
\* filter that can be evaluated on everything retained (the window and the aged-out entries still shown).
SetFilterLegal(f) == WellFormed(f) => \A i \in ret : ~Raises(f, arr[i])

\* Environment: after a message was handed to the logger its sender mutates the Message object, or re-uses it
\* for the next send.  THE LAW: the log holds the message AS LOGGED -- nothing of the state changes, so every later
\* view (in particular after SetFilter) is computed from the content at log time, for entries that matched and for
\* entries that did not.  (The replay driver does this after EVERY log call behind the WrappingMessageLogger;
\* being the identity it is not exported as an edge.)
Mutate(i) == i \in 1..Len(arr) /\ UNCHANGED vars

SetPaused(b) == paused' = b /\ UNCHANGED <<arr, raw, view, flt, ret, probe>>

Clear == /\ raw' = <<>> /\ view' = <<>> /\ ret' = {}
         /\ UNCHANGED <<arr, flt, paused, probe>>

NextLog == \/ \E i \in UseEnt : Len(arr) < MaxLog /\ Log(LogEntries[i])
           \/ \E i \in UseFlt : LogFilters[i] # flt /\ SetFilterLegal(LogFilters[i]) /\ SetFilter(LogFilters[i])
           \/ \E b \in BOOLEAN : b # paused /\ SetPaused(b)
           \/ (raw # <<>> \/ view # <<>>) /\ Clear
           \/ \E i \in 1..Len(arr) : Mutate(i)
SpecLog == InitLog /\ [][NextLog]_vars
Bound == TLCGet("level") <= Depth

\* ---- Spec layer: what the property says the visible log is
\* (as an operator of explicit arguments: TLC evaluates primed *expressions* without caching,
\*  so wrappers apply it to arr', ret', flt' instead of priming SpecView)
SpecViewOf(ar, rt, f) == SelectSeq([i \in 1..Len(ar) |-> i], LAMBDA i : i \in rt /\ Matches(f, ar[i]))
SpecView == SpecViewOf(arr, ret, flt)
\* diagnostic only: the filter in force contains a comparison that is inapplicable to some logged entry
XInForce(ar, f) == \E i \in DOMAIN ar : TreeHasX(Parse(f)[2], ar[i])

ViewIsSpec == view = SpecView
NoDuplicates == \A i, j \in DOMAIN view : i # j => view[i] # view[j]
ArrivalOrder == \A i, j \in DOMAIN view : i < j => view[i] < view[j]
WindowVisible == \A i \in RangeOf(raw) : Matches(flt, arr[i]) => i \in RangeOf(view)
ViewMatches == \A i \in RangeOf(view) : Matches(flt, arr[i])
RetainedSound == /\ RangeOf(raw) \subseteq ret
                 /\ \A i \in ret \ RangeOf(raw) : i \in RangeOf(view) /\ (raw # <<>> => i < raw[1])
RawIsWindow == /\ Len(raw) <= W
               /\ \A i \in 1..(Len(raw) - 1) : raw[i + 1] = raw[i] + 1
               /\ raw # <<>> => raw[Len(raw)] = Len(arr)
FilterWellFormed == WellFormed(flt)
\* every entry logged while not paused is retained when it arrives, whatever the filter does with it
LogAlwaysRetains == [][(~paused /\ Len(arr') = Len(arr) + 1) =>
                          /\ Len(arr') \in ret' /\ raw'[Len(raw')] = Len(arr')
                          /\ (Raises(flt, arr'[Len(arr')]) => view' = view)]_vars
\* entries the current filter cannot be evaluated on are retained but never shown
UnevaluableHidden == \A i \in RangeOf(view) : ~Raises(flt, arr[i])
\* an entry can only leave the visible log through re-filtering, clearing, (never through logging)
LogOnlyAppends == [][(flt' = flt /\ Len(arr') > Len(arr)) =>
                       /\ Len(view') >= Len(view) /\ SubSeq(view', 1, Len(view)) = view
                       /\ Len(view') <= Len(view) + 1]_vars

(****************************** the table specs ****************************)
\* One initial state per probe; no transitions.  Invariants are laws of Part 1.
TreeProbes == {<<"tree", t>> : t \in Trees(TreeDepth, TreeAtoms(TreeKind))}
AtomDomainOK(a, e) == IsBare(a) \/ CASE Len(a.sel) = 3 -> \A f \in Selected(a, e) : InDomain(a.op, f, a.lit)
                                          [] Len(a.sel) = 4 -> \A f \in SubSelected(a, e) : InDomain(a.op, f, a.lit)
                                          [] Len(a.sel) = 2 -> InDomain(a.op, MetaVal(e, a.sel[2]), a.lit)
                                          [] OTHER -> TRUE
RECURSIVE TreeDomainOK(_, _)
TreeDomainOK(t, e) == CASE t[1] = "atom" -> AtomDomainOK(t[2], e)
                        [] t[1] = "not" -> TreeDomainOK(t[2], e)
                        [] OTHER -> TreeDomainOK(t[2], e) /\ TreeDomainOK(t[3], e)
AtomProbes == {p \in {<<"atom", a, e>> : a \in CmpAtoms, e \in CmpEntries} : AtomDomainOK(p[2], p[3])}
              \cup {p \in {<<"atom", a, e>> : a \in MetaCmpAtoms, e \in MetaCmpEntries} : AtomDomainOK(p[2], p[3])}
              \cup {<<"atom", a, e>> : a \in SelAtoms, e \in SelEntries}
              \cup {p \in {<<"atom", a, e>> : a \in SubAtomsA, e \in SubEntriesA} : AtomDomainOK(p[2], p[3])}
              \cup {p \in {<<"atom", a, e>> : a \in SubAtomsB, e \in SubEntriesB} : AtomDomainOK(p[2], p[3])}
              \cup {<<"atom", a, e>> : a \in SubAtomsTE, e \in SubEntriesTE}
TokProbes == {<<"toks", ts>> : ts \in TokStrings(TokLen)}
CONSTANT ProbeKinds
InitProbe == /\ arr = <<>> /\ raw = <<>> /\ view = <<>> /\ flt = AllFilter /\ paused = FALSE /\ ret = {}
             /\ probe \in (IF "tree" \in ProbeKinds THEN TreeProbes ELSE {})
                          \cup (IF "atom" \in ProbeKinds THEN AtomProbes \cup {<<"subcover">>} ELSE {})
                          \cup (IF "toks" \in ProbeKinds THEN TokProbes ELSE {})
SpecProbe == InitProbe /\ [][UNCHANGED vars]_vars

IsP(k) == probe # <<>> /\ probe[1] = k
\* both evaluation modes of the node classes compute the denotation, on every entry of the family
EvalIsDenote == IsP("tree") => \A e \in TreeEntries(TreeKind) : \A sc \in BOOLEAN : Eval(probe[2], e, sc) = Denote(probe[2], e)
\* the grammar reads both renderings back as the same tree
ParseRender == IsP("tree") => /\ Parse(RenderMin(probe[2])) = <<"ok", probe[2]>>
                              /\ Parse(RenderFull(probe[2])) = <<"ok", probe[2]>>
\* the entry family realises every combination of T / F / X (inapplicable) of the atoms
V3(a, e) == IF AtomTrue(a, e) THEN "T" ELSE IF AtomHasX(a, e) THEN "X" ELSE "F"
ValuationsComplete == (IsP("tree") /\ probe[2][1] = "atom") =>      \* (a fact about the family: evaluated on the leaf probes only)
    Cardinality({[a \in TreeAtoms(TreeKind) |-> V3(a, e)] : e \in TreeEntries(TreeKind)}) = (CASE TreeKind = "LLUDP" -> 27 [] TreeKind = "EQ2" -> 6 [] OTHER -> 18)
\* a parsed token string renders back to something that parses to the same tree
ParseStable == IsP("toks") => LET p == Parse(probe[2]) IN
                   p[1] = "ok" => /\ Parse(RenderMin(p[2])) = p
                                  /\ Parse(RenderFull(p[2])) = p
                                  /\ (Len(probe[2]) > 1 => Len(RenderMin(p[2])) <= Len(probe[2]))
\* laws of the comparison verdicts
CmpLaws == IsP("atom") /\ Len(probe[2].sel) = 3 /\ ~IsBare(probe[2]) =>
    \A f \in Selected(probe[2], probe[3]) :
        LET l == probe[2].lit
            c(o) == Cmp(o, f, l)
        IN /\ c("==") # "X" /\ c("!=") # "X" /\ (c("==") = "T") # (c("!=") = "T")
           /\ ((f.ty # l.ty) => \A o \in Ops \ {"==", "!="} : c(o) = "X")
           /\ (f.ty = l.ty /\ f.ty \in {"int", "str", "bytes"}) =>
                 /\ (c("<=") = "T") = (c("<") = "T" \/ c("==") = "T")
                 /\ (c(">") = "T") = (c("<=") = "F")
                 /\ (c(">=") = "T") = (c("<") = "F")
           /\ (f.ty = l.ty /\ IsText(f.ty)) =>
                 /\ ((c("^=") = "T" \/ c("$=") = "T") => c("~=") = "T")
                 /\ ((c("==") = "T") => (c("^=") = "T" /\ c("$=") = "T"))
           /\ (f.ty = l.ty /\ f.ty = "vec") => /\ ((c("<") = "T") => (c("<=") = "T" /\ c(">=") = "F"))
                                              /\ ((c("==") = "T") => (c("<=") = "T" /\ c(">=") = "T"))
\* the subfield families contain, for globs, "the first selected subfield is F or X and a later one T" and the reverse
SubSeq4(a, e) == \* verdicts of the selected subfields of the FIRST selected field, in unpacking order
    LET v == e.blocks[1].vars[1] IN
    [k \in 1..Len(SelectSeq(v.subs, LAMBDA z : Glob(a.sel[4], z.sub))) |->
        Cmp(a.op, SelectSeq(v.subs, LAMBDA z : Glob(a.sel[4], z.sub))[k].val, a.lit)]
SubOrderCases ==
    LET P == {p \in AtomProbes : Len(p[2].sel) = 4 /\ ~IsBare(p[2]) /\ p[2].sel[2] = "ObjectData" /\ p[2].sel[3] \in {"ObjectData", "Data"}}
        Sq == {SubSeq4(p[2], p[3]) : p \in P}
    IN /\ \E q \in Sq : Len(q) >= 3 /\ q[1] = "F" /\ \E k \in 2..Len(q) : q[k] = "T"
       /\ \E q \in Sq : Len(q) >= 3 /\ q[1] = "X" /\ \E k \in 2..Len(q) : q[k] = "T"
       /\ \E q \in Sq : Len(q) >= 3 /\ q[1] = "T" /\ \E k \in 2..Len(q) : q[k] = "F"
       /\ \E q \in Sq : Len(q) >= 3 /\ q[1] = "T" /\ \E k \in 2..Len(q) : q[k] = "X"
\* (a fact about the families: evaluated on one probe only)
SubFamiliesCover == IsP("subcover") => SubOrderCases
\* an atom is true only if some selected field satisfies it
AtomNeedsWitness == IsP("atom") => (AtomTrue(probe[2], probe[3]) => AtomVerdicts(probe[2], probe[3]) # {})
=============================================================================
