---- MODULE InjectionTracker_MBT ----
(* Export wrapper (binding B1): prints the labelled transition system of the bounded  *)
(* model, one JSON line per edge, with the Spec-layer observation of the target state. *)
EXTENDS InjectionTracker, Json
CONSTANT Depth
Bound == TLCGet("level") <= Depth
St == [base |-> base, inj |-> inj, injBase |-> injBase, allInj |-> allInj, sent |-> sent, fwd |-> fwd]
MInit == Init /\ PrintT(ToJson([init |-> St, obs |-> Obs]))
MSend(k) == Send(k) /\ PrintT(ToJson([src |-> St, act |-> [n |-> "Send", k |-> k], dst |-> St', obs |-> Obs']))
MInject == Inject /\ PrintT(ToJson([src |-> St, act |-> [n |-> "Inject"], dst |-> St', obs |-> Obs']))
MNext == MInject \/ \E k \in MinEp..MaxEp : MSend(k)
MSpec == MInit /\ [][MNext]_vars
====
