---- MODULE ZeroCode_Runs ----
(* Every zero-run length 0..MaxRun in every left/right context, in run-length form: the  *)
(* closed-form encoder is checked against the reference decoder and each row is printed  *)
(* for replay into the real functions.                                                   *)
EXTENDS ZeroCode, Json
CONSTANTS MaxRun
Ctx == {<<>>, <<0>>, <<1>>, <<255>>}
VARIABLE row
Rows == {[l |-> a, n |-> n, r |-> b] : a \in Ctx, b \in Ctx, n \in 0..MaxRun}
InRL(x) == NormRL((IF x.l = <<>> THEN <<>> ELSE <<<<x.l[1], 1>>>>) \o <<<<0, x.n>>>> \o (IF x.r = <<>> THEN <<>> ELSE <<<<x.r[1], 1>>>>))
Init == row \in Rows /\ PrintT(ToJson([row |-> "run", l |-> row.l, n |-> row.n, r |-> row.r, enc |-> EncodeRL(InRL(row))]))
Next == UNCHANGED row
Spec == Init /\ [][Next]_row
RunRoundTrip == DecodeRL(EncodeRL(InRL(row))) = InRL(row)
RunCanonical == IsCanonical(EncodeRL(InRL(row)))
RunBounded == Len(EncodeRL(InRL(row))) <= 2 * (row.n \div 255 + 1) + 4
====
