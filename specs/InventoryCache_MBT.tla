---- MODULE InventoryCache_MBT ----
EXTENDS InventoryCache, Json
CONSTANTS Depth,    \* message deliveries per behaviour (reading the cache does not count)
          Thin      \* 0: the whole alphabet; 1: one representative of combinations that only multiply; 2: one name per kind too

N1 == CHOOSE n \in Names : TRUE
V1 == CHOOSE v \in Versions : TRUE
\* a message for somebody else: one representative per kind
Canon(m) == /\ m.c.id \in {"none", FolderSeq[NF]} /\ m.c.p \in {"none", Root} /\ m.c.n \in {"", N1}
            /\ m.i.id \in {"none", "i1"} /\ m.i.p \in {"none", Root} /\ m.i.n \in {"", N1}
            /\ Cardinality(m.rc) <= 1 /\ Cardinality(m.ri) <= 1 /\ m.rc \subseteq {FolderSeq[NF]} /\ m.ri \subseteq {"i1"}
            /\ (m.t = "Bulk" => m.c.id = "none")
\* folder + item in one message: the item goes into that folder under the same name
Together(m) == (m.c.id # "none" /\ m.i.id # "none") => (m.i.p = m.c.id /\ m.i.n = m.c.n)
Keep(m) == \/ Thin = 0
           \/ /\ (m.to = "other" => Canon(m))
              /\ Together(m)
              /\ (m.t \in {"AisCat", "AisEmb"} => m.c.v = V1)
              /\ (m.t = "AisEmb" => m.c.n = N1 /\ m.i.id # "none")
              /\ (m.t = "AisRem" => Cardinality(m.rc) <= 1 /\ (Thin >= 2 => Root \notin m.rc))
              /\ (m.t \in {"RemFolder", "RemFolderDirect"} => Cardinality(m.rc) = 1 \/ m.rc = Folders \ {Root})
              /\ (Thin >= 2 =>
                     /\ (m.t \in {"Create", "AisItem", "AisCat"} => m.c.n \in {"", N1} /\ m.i.n \in {"", N1})
                     /\ (m.t = "Bulk" => (m.i.id = "none" \/ m.c.id = "none" \/ m.c.n = N1))
                     /\ (m.t = "AisCat" => m.i.id \in {"none", "i1"})
                     /\ (m.t = "AisRem" => Cardinality(m.ri) <= 1))
Alphabet == {m \in Msgs : Keep(m)}

St == [variant |-> variant, nodes |-> nodes, dirty |-> dirty, loaded |-> loaded, cached |-> cached, deferred |-> deferred]
P(act) == PrintT(ToJson([src |-> St, act |-> act, dst |-> St', obs |-> [o |-> [errs |-> out'.errs], s |-> Obs']]))
\* the environment the driver has to set up: login skeleton and the two cache files
Env == [folders |-> Folders, items |-> Items,
        skeleton |-> [f \in Folders |-> [p |-> SkelParent(f), n |-> "s", v |-> SkelVer(f)]],
        cacheNew |-> CacheNew, cacheOld |-> CacheOld]
MInit == Init /\ PrintT(ToJson([init |-> St])) /\ PrintT(ToJson([env |-> Env]))
Used == TLCGet("level") - 1 - (IF cached /\ variant # "nocache" THEN 1 ELSE 0)
Name(m) == CASE m.t = "Bulk" -> "BulkUpdate" [] m.t = "Create" -> "UpdateCreate" [] m.t = "RemItem" -> "RemoveItem"
             [] m.t \in {"RemFolder", "RemFolderDirect"} -> "RemoveFolder" [] m.t = "Move" -> "MoveItem" [] OTHER -> "AisResponse"
MNext == \/ /\ Used < Depth
            /\ \E m \in Alphabet : Deliver(m) /\ P([n |-> Name(m), m |-> m])
         \/ /\ Used < Depth \/ (Used = Depth /\ deferred # <<>>)     \* a full batch of deferred calls is still applied
            /\ CacheLoaded /\ P([n |-> "CacheLoaded"])
MSpec == MInit /\ [][MNext]_vars
====
