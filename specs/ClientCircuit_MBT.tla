---- MODULE ClientCircuit_MBT ----
(* Binding B1: prints every edge of the bounded model with the observation a correct       *)
(* endpoint must show after it.  `form` says how the acknowledgements travel (appended to a *)
(* data packet / PacketAck body / both); the specification does not care, the code must not. *)
EXTENDS ClientCircuit_MC, Json
CONSTANTS Forms, WithCarry
Pairs(f) == {<<k, f[k]>> : k \in DOMAIN f}
\* the state is only an identity for the harness (it rebuilds the graph); what it compares is Obs
\* (records are printed field by field in an order that depends on how they were built: subscribers go in as tuples)
SubsT == [lv \in Levels |-> [i \in 1..Len(subs[lv]) |-> <<subs[lv][i].k, subs[lv][i].live, subs[lv][i].q>>]]
St == ToString(<<seen, evN, rR, aR, dR, rU, dU, pend, done, failed, relIssued, ackedSince, xmits, ids, lastId,
                 alive, abandoned, epoch, floor, pongs, openSeen, SubsT>>)
Obs == [out |-> out, alive |-> alive, forgotten |-> {p \in DOMAIN rR : Get(evN, p) > 0} \cup openSeen, subs |-> subs, pending |-> PendIds \cup abandoned, done |-> done, failed |-> failed,
        ackedR |-> Pairs(aR), delivR |-> Pairs(dR), delivU |-> Pairs(dU), ids |-> ids]
\* a data message (matches the extra subscribers) carries its acks appended; a PacketAck message does not match
FormsFor(acks, match) == IF match THEN {"app"} ELSE
                         IF Cardinality(acks) < 2 THEN Forms \ {"app", "mix"} ELSE Forms \ {"app"}
Carries == IF ~WithCarry THEN {-1} ELSE {-1, 0, lastId, lastId + 1, lastId + 3} \cup PendIds
MInit == MCInit /\ PrintT(ToJson([init |-> St, obs |-> Obs]))
P(act) == PrintT(ToJson([src |-> St, act |-> act, dst |-> St', obs |-> Obs']))
MNext == \/ \E p \in RelPids, acks \in AckSets : RecvRel(p, acks) /\ \A f \in FormsFor(acks, TRUE) :
              P([n |-> "Recv", p |-> p, rel |-> TRUE, acks |-> acks, form |-> f])
         \/ \E p \in UnrelPids, acks \in AckSets, match \in BOOLEAN : RecvUnrel(p, acks, match) /\ \A f \in FormsFor(acks, match) :
              P([n |-> "Recv", p |-> p, rel |-> FALSE, acks |-> acks, form |-> f])
         \/ \E l \in Levels, k \in SubKinds : DoSubscribe(l, k) /\ P([n |-> "Subscribe", l |-> l, k |-> k])
         \/ \E l \in Levels, i \in 1..MaxSubs : Drain(l, i) /\ P([n |-> "Drain", l |-> l, i |-> i])
         \/ Stray /\ P([n |-> "Stray", acks |-> PendIds])
         \/ \E o \in Oldest : DoPing(o) /\ P([n |-> "Ping", oldest |-> o])
         \/ Lifecycle /\ GoAlive /\ P([n |-> "GoAlive"])
         \/ Lifecycle /\ Disconnect /\ P([n |-> "Disconnect"])
         \* carry: the message object handed to send() already has a packet ID (a relayed / rebuilt / re-sent message):
         \* none, an ID issued before (e.g. of a still unacked reliable send), the next one, a higher one.  The law does not
         \* care -- a fresh, larger ID is issued and every reliable send has its own completion -- so all variants share dst.
         \/ DoSendRel /\ \A c \in Carries : P([n |-> "SendRel", carry |-> c])
         \/ DoSendUnrel /\ \A c \in Carries : P([n |-> "SendUnrel", carry |-> c])
         \/ \E d \in Ticks : Tick(d) /\ P([n |-> "Tick", d |-> d])
         \/ \E d \in LoopTicks : LoopTick(d) /\ P([n |-> "LoopTick", d |-> d])
MSpec == MInit /\ [][MNext]_vars
====
