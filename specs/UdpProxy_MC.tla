---- MODULE UdpProxy_MC ----
(* Exhaustive check of the bounded model + the SOCKS5 UDP framing law over a small alphabet. *)
EXTENDS UdpProxy

RECURSIVE SeqsUpTo(_, _)
SeqsUpTo(A, n) == IF n = 0 THEN {<<>>}
                  ELSE LET S == SeqsUpTo(A, n - 1) IN S \cup {Append(s, x) : s \in {t \in S : Len(t) = n - 1}, x \in A}
Alpha == {0, 1, 3, 255}
Ips == {<<0, 0, 0, 0>>, <<127, 0, 0, 1>>, <<10, 0, 255, 1>>, <<255, 255, 255, 255>>}
Ports == {0, 1, 255, 256, 13000, 65535}
Names == SeqsUpTo({0, 46, 97}, 3)
Datas == SeqsUpTo(Alpha, 3)
Prefixes(b) == {SubSeq(b, 1, n) : n \in 0..(Len(b) - 1)}

\* what one side adds is exactly what the other side strips
WrapStrip == \A ip \in Ips, p \in Ports, d \in Datas :
                SocksStrip(SocksWrap(ip, p, d)) = [ok |-> TRUE, atyp |-> 1, addr |-> ip, port |-> p, data |-> d]
WrapStripDom == \A nm \in Names, p \in Ports, d \in Datas :
                SocksStrip(SocksWrapDom(nm, p, d)) = [ok |-> TRUE, atyp |-> 3, addr |-> nm, port |-> p, data |-> d]
\* a truncated header is refused, never read as a shorter one
TruncatedRefused == /\ \A ip \in Ips, p \in Ports : \A b \in Prefixes(SocksWrap(ip, p, <<>>)) : ~SocksStrip(b).ok
                    /\ \A nm \in Names, p \in Ports : \A b \in Prefixes(SocksWrapDom(nm, p, <<>>)) : ~SocksStrip(b).ok
\* RSV / FRAG / ATYP other than the two supported forms are refused
Hdr4 == {<<a, b, c, d>> : a \in {0, 1}, b \in {0, 255}, c \in {0, 1, 128}, d \in {0, 1, 2, 3, 4, 255}}
OthersRefused == \A h \in Hdr4, t \in SeqsUpTo(Alpha, 4) :
                    SocksStrip(h \o <<1, 2, 3, 4, 5, 6>> \o t).ok <=> (h[1] = 0 /\ h[2] = 0 /\ h[3] = 0 /\ h[4] \in {1, 3})
\* stripping never invents or loses payload bytes
StripIsSuffix == \A h \in {<<0, 0, 0, 1>>, <<0, 0, 0, 3>>}, t \in SeqsUpTo(Alpha, 5), u \in SeqsUpTo({7, 0}, 3) :
                    LET b == h \o t \o <<9, 9, 9, 9, 9, 9>> \o u
                        r == SocksStrip(b)
                    IN r.ok => /\ Len(r.data) <= Len(b)
                               /\ r.data = SubSeq(b, Len(b) - Len(r.data) + 1, Len(b))
                               /\ (r.atyp = 1 => Len(b) - Len(r.data) = 10)
                               /\ (r.atyp = 3 => Len(b) - Len(r.data) = 7 + Len(r.addr))
FramingLaw == WrapStrip /\ WrapStripDom /\ TruncatedRefused /\ OthersRefused /\ StripIsSuffix
ASSUME FramingLaw
====
