---- MODULE HumanText_MBT ----
(* Bounded instances for HumanText: abstract messages for the read-back law and the line  *)
(* alphabet for the text-level fuzz of the safe-mode clause.                              *)
EXTENDS HumanText
CONSTANTS Big,          \* larger bounds (thorough)
          AllowEmpty    \* include blocks with zero instances (Variable blocks may be empty on the wire)
Var(n, ser, pretty, inline, k) == [n |-> n, ser |-> ser, pretty |-> pretty, inline |-> inline, k |-> k, vk |-> "lit", pvk |-> "lit"]
Special(v) == [v EXCEPT !.vk = "special"]
\* first variable of an instance: every printing case, 1..3 physical lines
V1 == {Var("x", FALSE, "ok", FALSE, 1), Var("x", FALSE, "ok", FALSE, 3), Special(Var("x", FALSE, "ok", FALSE, 1)),
       Special(Var("x", TRUE, "ok", TRUE, 1)),
       Var("x", TRUE, "ok", TRUE, 1), Var("x", TRUE, "ok", TRUE, 2),
       Var("x", TRUE, "ok", FALSE, 1), Var("x", TRUE, "ok", FALSE, 2),
       Var("x", TRUE, "unser", FALSE, 1), Var("x", TRUE, "raise", TRUE, 1)}
V2 == {Var("y", FALSE, "ok", FALSE, 2), Var("y", TRUE, "ok", FALSE, 3), Var("y", TRUE, "ok", TRUE, 1)}
Insts == {<<a>> : a \in V1} \cup {<<a, b>> : a \in V1, b \in V2}
InstsB == IF Big THEN Insts ELSE {<<a>> : a \in V2}
MinInst == IF AllowEmpty THEN 0 ELSE 1
ListsA == (IF AllowEmpty THEN {<<>>} ELSE {}) \cup {<<i>> : i \in Insts} \cup {<<i, j>> : i \in Insts, j \in InstsB}
ListsB == (IF AllowEmpty THEN {<<>>} ELSE {}) \cup {<<i>> : i \in InstsB}
MCMsgs == {[ncom |-> c, blocks |-> <<[name |-> "A", inst |-> a]>>] : c \in {0, 1}, a \in ListsA}
          \cup {[ncom |-> 1, blocks |-> <<[name |-> "A", inst |-> a], [name |-> "B", inst |-> b]>>] : a \in ListsA, b \in ListsB}
MCAlphabet == {CommentTok, Tok("block", "A", FALSE, FALSE, FALSE), Tok("other", "", FALSE, FALSE, FALSE), Tok("other", "", FALSE, FALSE, TRUE),
               ATok("x", FALSE, FALSE, FALSE, "lit"), ATok("x", FALSE, FALSE, TRUE, "lit"), ATok("x", TRUE, FALSE, FALSE, "lit"),
               ATok("x", FALSE, FALSE, FALSE, "special"), ATok("x", TRUE, FALSE, FALSE, "special"),
               ATok("x", FALSE, FALSE, FALSE, "expr"), ATok("x", TRUE, FALSE, FALSE, "expr"), ATok("x", TRUE, FALSE, TRUE, "junk"),
               ATok("x", FALSE, TRUE, FALSE, "expr"), ATok("x", FALSE, TRUE, TRUE, "expr"), ATok("x", TRUE, TRUE, FALSE, "lit")}
====
