------------------------- MODULE InjectionTracker -------------------------
(***************************************************************************)
(* Packet-ID translation around proxy-injected packets, ONE direction of   *)
(* one circuit (hippolyzer/lib/proxy/circuit.py: InjectionTracker).        *)
(*                                                                         *)
(* Two layers in one module:                                               *)
(*   Spec layer (ghost): allInj, sent, fwd -- what the property talks of.  *)
(*   Algo layer: base, inj, injBase -- transcription of the code's fields  *)
(*               _packet_id_base, injections (deque maxlen W),             *)
(*               _injection_base and of its two loops.                     *)
(* TLC checks the Algo layer against the Spec layer; conformance of the    *)
(* real code is judged against the Spec-layer operators only (Obs).        *)
(***************************************************************************)
EXTENDS Naturals, Sequences, FiniteSets, TLC

CONSTANTS W,          \* tracker window (maxlen of the deque)
          MinEp,      \* first endpoint packet ID: 1 (viewer, simulator) or 0 (hippolyzer's own client endpoint)
          MaxEp,      \* largest endpoint packet ID the environment uses
          MaxInj,     \* total injections explored
          Reorder,    \* endpoint may run this far ahead of its frontier
          BuggyInverse \* TRUE: transcribe the pinned tree's `break` (defect D1)

VARIABLES base, inj, injBase,      \* Algo
          allInj, sent, fwd        \* Spec (ghost)

vars == <<base, inj, injBase, allInj, sent, fwd>>

Range(s) == {s[i] : i \in DOMAIN s}
Max(S) == IF S = {} THEN 0 ELSE CHOOSE x \in S : \A y \in S : y <= x

(*************************** Spec layer ************************************)
\* Injections that fell out of the window, and the newest of them.
Evicted == allInj \ Range(inj)
Horizon == Max(Evicted)
\* Horizon 0 = nothing has aged out (injected IDs start at 1)
Above(w) == Horizon = 0 \/ w > Horizon
LowW == IF Horizon = 0 THEN MinEp ELSE Horizon + 1

\* The k-th wire ID (k >= 1) that is not an injected one.
RECURSIVE NthFree(_, _, _)
NthFree(k, I, w) == IF w \in I THEN NthFree(k, I, w + 1)
                    ELSE IF k = 1 THEN w ELSE NthFree(k - 1, I, w + 1)
\* wire ID 0 can only be the endpoint's own ID 0
Ideal(k) == IF k = 0 THEN 0 ELSE NthFree(k, allInj, 1)
\* The endpoint ID of non-injected wire ID w.
IdealOrig(w) == w - Cardinality({i \in allInj : i < w})

Frontier == Max(sent)

(*************************** Algo layer ************************************)
RECURSIVE EffLoop(_, _)
EffLoop(new, i) ==
    IF i > Len(inj) THEN new
    ELSE IF new < inj[i] /\ new \notin Range(inj) THEN new      \* break
    ELSE EffLoop(new + 1, i + 1)
Eff(k) == EffLoop(k + injBase, 1)

RECURSIVE OrigLoop(_, _)
OrigLoop(new, i) ==            \* i runs Len(inj) .. 1  (reversed(self.injections))
    IF i = 0 THEN new
    ELSE IF inj[i] > new
         THEN (IF BuggyInverse THEN new ELSE OrigLoop(new, i - 1))   \* break / continue
         ELSE OrigLoop(new - 1, i - 1)
Orig(w) == OrigLoop(w, Len(inj)) - injBase

WasInjected(w) == w \in Range(inj)

(*************************** Actions ***************************************)
Init == /\ base = 0 /\ inj = <<>> /\ injBase = 0
        /\ allInj = {} /\ sent = {} /\ fwd = {}

\* Environment assumption (DESIGN 3.3): the endpoint's IDs stay within a window of its
\* frontier, and never reach back behind an injection that has aged out.
CanSend(k) == /\ k \in MinEp..MaxEp
              /\ k <= Frontier + 1 + Reorder
              /\ Above(Ideal(k))

\* prepare_message on a forwarded packet: get_effective_id + track_seen
Send(k) ==
    /\ CanSend(k)
    /\ LET w == Eff(k) IN
         /\ base' = IF w > base THEN w ELSE base
         /\ fwd' = IF k \in sent THEN fwd ELSE fwd \cup {<<k, w>>}
    /\ sent' = sent \cup {k}
    /\ UNCHANGED <<inj, injBase, allInj>>

\* gen_injectable_id
Inject ==
    /\ Cardinality(allInj) < MaxInj
    /\ LET new == base + 1 IN
         /\ injBase' = IF Len(inj) = W THEN injBase + 1 ELSE injBase
         /\ inj' = IF Len(inj) = W THEN Append(Tail(inj), new) ELSE Append(inj, new)
         /\ base' = new
         /\ allInj' = allInj \cup {new}
    /\ UNCHANGED <<sent, fwd>>

Next == Inject \/ \E k \in MinEp..MaxEp : Send(k)

SpecT == Init /\ [][Next]_vars

(*************************** Properties ************************************)
FwdOf(k) == (CHOOSE p \in fwd : p[1] = k)[2]
Live == {k \in sent : Above(FwdOf(k))}

\* The code's forward walk computes the ideal translation for every ID the environment may send
AlgoIsIdeal == \A k \in MinEp..MaxEp : Above(Ideal(k)) => Eff(k) = Ideal(k)
\* ... and an ID translated again later gets the same wire ID
Stable == \A k \in Live : Eff(k) = FwdOf(k)
OrderPreserving == \A a, b \in sent : a < b => FwdOf(a) < FwdOf(b)
AvoidsInjected == \A k \in sent : FwdOf(k) \notin allInj
\* wire -> endpoint, for every non-injected wire ID newer than any aged-out injection
Inverse == \A k \in Live : Orig(FwdOf(k)) = k
InverseAll == \A w \in LowW..(base + 2) : w \notin allInj => Orig(w) = IdealOrig(w)
InjectedKnown == \A w \in LowW..(base + 2) : WasInjected(w) <=> w \in allInj
\* an injected ID is above every wire ID in use when it is allocated
InjectFresh == [][Inject => \A k \in sent : FwdOf(k) < base']_vars
BaseIsHighest == base = Max(allInj \cup {FwdOf(k) : k \in sent})

(*************************** Observation (binding) *************************)
\* What a correct implementation must answer in the current state; Spec-layer only.
ObsEff == {<<k, Ideal(k)>> : k \in {k \in MinEp..MaxEp : CanSend(k) \/ k \in Live}}
ObsOrig == {<<w, IdealOrig(w)>> : w \in {w \in LowW..(base + 2) : w \notin allInj}}
ObsInj == {<<w, w \in allInj>> : w \in LowW..(base + 2)}
Obs == [eff |-> ObsEff, orig |-> ObsOrig, inj |-> ObsInj, nextInj |-> base + 1]
=============================================================================
