---- MODULE Socks5Tcp_MBT ----
EXTENDS Socks5Tcp, Json
GreetingsDef == {<<5, 1, 0>>, <<5, 2, 2, 0>>, <<5, 1, 2>>, <<4, 1, 0>>, <<5, 0>>}
CommandsDef == {<<5, 3, 0, 1, 10, 0, 0, 1, 0, 80>>,          \* UDP ASSOCIATE, IPv4
             <<5, 3, 0, 3, 2, 120, 121, 1, 187>>,         \* UDP ASSOCIATE, domain "xy"
             <<5, 3, 0, 3, 0, 0, 0>>,                     \* UDP ASSOCIATE, empty domain
             <<4, 3, 0, 1, 10, 0, 0, 1, 0, 80>>,          \* bad version
             <<5, 3, 0, 4, 1, 2, 3, 4, 5, 6, 7, 8, 9, 10, 11, 12, 13, 14, 15, 16, 0, 80>>,   \* IPv6: unsupported
             <<5, 1, 0, 1, 10, 0, 0, 1, 0, 80>>}          \* CONNECT: refused
BoundAddrDef == <<0, 0, 0, 0, 16, 146>>
MInit == Init /\ PrintT(ToJson([init |-> [todo |-> todo, st |-> St]]))
MFeed == Feed /\ PrintT(ToJson([src |-> [todo |-> todo, st |-> St], act |-> [n |-> "Feed", b |-> Head(todo)],
                                dst |-> [todo |-> todo', st |-> St'], obs |-> Obs']))
MEof == Eof /\ PrintT(ToJson([src |-> [todo |-> todo, st |-> St], act |-> [n |-> "Eof"],
                              dst |-> [todo |-> todo', st |-> St'], obs |-> Obs']))
MSpec == MInit /\ [][MFeed \/ MEof]_vars
====
