---------------------------- MODULE AddonDispatch ----------------------------
(***************************************************************************)
(* One proxied LLUDP message travelling through every hook point of the    *)
(* proxy (lludp_proxy.py handle_proxied_packet, addons.py AddonManager,    *)
(* message.py ownership flags, circuit.py prepare/drop) for EVERY          *)
(* assignment of behaviours to the hooks of up to N addons and to the      *)
(* session- and region-level subscribers.                                  *)
(*                                                                         *)
(* The configuration is chosen in the initial state; the pipeline is then  *)
(* deterministic.  Ownership of the original message:                      *)
(*   fresh -> queued (somebody took it) -> dropped                         *)
(*   fresh -> sent | dropped        (exactly one finalisation, ever)       *)
(***************************************************************************)
EXTENDS Naturals, Sequences, FiniteSets, TLC

CONSTANTS N,        \* number of addons
          PktB,     \* behaviours of the packet-level hook (handle_proxied_packet)
          UdpB,     \* behaviours of the message-level hook (handle_lludp_message)
          SubB,     \* behaviours of the session / region subscribers
          RlvB,     \* behaviours of the RLV command hook (handle_rlv_command)
          Kinds     \* "plain" | "cmdchat" (viewer chat on the proxy's command channel) | "rlv" (owner-say "@cmd=param")
                    \* | "badbody" (valid header, body that cannot be parsed: travels like a plain message, untouched)

VARIABLES cfg,      \* [dir, rel, kind, pkt, udp, sess, reg]
          pc,       \* <<"pkt", i>> | <<"sess">> | <<"reg">> | <<"udp", i>> | <<"tail">> | <<"done">>
          own,      \* "fresh" | "queued" | "sent" | "dropped"
          wire,     \* emissions of the ORIGINAL message
          mutated,  \* the original's content was changed by an addon before it left
          copies,   \* copies (from take()) put on the wire
          dropAcks, \* PacketAcks sent back to the sender because a reliable original was dropped
          invoked,  \* hooks that ran: <<point, i>>
          refused,  \* illegal re-send / re-drop attempts that were refused with an error
          handled,  \* a message-level hook (or the proxy's command channel) claimed the message
          logged    \* the proxy's own bookkeeping (message log) ran for the message

vars == <<cfg, pc, own, wire, mutated, copies, dropAcks, invoked, refused, handled, logged>>

Configs == [dir : {"OUT", "IN"}, rel : BOOLEAN, kind : Kinds,
            pkt : [1..N -> PktB], udp : [1..N -> UdpB], rlv : [1..N -> RlvB], sess : SubB, reg : SubB]

Init == /\ cfg \in {c \in Configs : /\ (c.kind = "cmdchat" => c.dir = "OUT")
                                   /\ (c.kind = "rlv" => c.dir = "IN")
                                   /\ (c.kind # "rlv" => \A i \in 1..N : c.rlv[i] = "falsy")}
        /\ pc = <<"pkt", 1>> /\ own = "fresh" /\ wire = 0 /\ mutated = FALSE /\ copies = 0
        /\ dropAcks = 0 /\ invoked = {} /\ refused = 0 /\ handled = FALSE /\ logged = FALSE

(************************ ownership operations *****************************)
\* each yields <<own', wire', dropAcks', refused'>> from the current values
SendOrig(o, w, a, r) == IF o = "fresh" THEN <<"sent", w + 1, a, r>> ELSE <<o, w, a, r + 1>>
DropOrig(o, w, a, r) == IF o \in {"fresh", "queued"}
                        THEN <<"dropped", w, a + (IF cfg.rel THEN 1 ELSE 0), r>>
                        ELSE <<o, w, a, r + 1>>
Take(o, w, a, r) == <<IF o = "fresh" THEN "queued" ELSE o, w, a, r>>
Id(o, w, a, r) == <<o, w, a, r>>

\* a behaviour = sequence of operations on the original + copies sent + return value + raises
Ops(b) ==
    CASE b = "falsy"      -> [ops |-> <<>>,               cp |-> 0, ret |-> FALSE]
      [] b = "truthy"     -> [ops |-> <<>>,               cp |-> 0, ret |-> TRUE]
      [] b = "raise"      -> [ops |-> <<>>,               cp |-> 0, ret |-> FALSE]
      [] b = "take"       -> [ops |-> <<"take">>,         cp |-> 0, ret |-> FALSE]
      [] b = "takesend"   -> [ops |-> <<"take">>,         cp |-> 1, ret |-> FALSE]
      [] b = "taketruthy" -> [ops |-> <<"take">>,         cp |-> 0, ret |-> TRUE]
      [] b = "drop"       -> [ops |-> <<"drop">>,         cp |-> 0, ret |-> TRUE]
      [] b = "dropfalsy"  -> [ops |-> <<"drop">>,         cp |-> 0, ret |-> FALSE]
      [] b = "send"       -> [ops |-> <<"send">>,         cp |-> 0, ret |-> FALSE]
      [] b = "sendtruthy" -> [ops |-> <<"send">>,         cp |-> 0, ret |-> TRUE]
      [] b = "dropraise"  -> [ops |-> <<"drop">>,         cp |-> 0, ret |-> FALSE]
      [] b = "sendraise"  -> [ops |-> <<"send">>,         cp |-> 0, ret |-> FALSE]
      [] b = "sendsend"   -> [ops |-> <<"send", "send">>, cp |-> 0, ret |-> FALSE]
      [] b = "senddrop"   -> [ops |-> <<"send", "drop">>, cp |-> 0, ret |-> FALSE]
      [] b = "dropsend"   -> [ops |-> <<"drop", "send">>, cp |-> 0, ret |-> TRUE]
      [] b = "dropdrop"   -> [ops |-> <<"drop", "drop">>, cp |-> 0, ret |-> TRUE]
      [] b = "takedrop"   -> [ops |-> <<"take", "drop">>, cp |-> 0, ret |-> TRUE]
      [] b = "takesendorig" -> [ops |-> <<"take", "send">>, cp |-> 0, ret |-> FALSE]
      [] b = "mutate"     -> [ops |-> <<>>,               cp |-> 0, ret |-> FALSE]
      [] b = "none"       -> [ops |-> <<>>,               cp |-> 0, ret |-> FALSE]
      \* a subscriber whose predicate raises: its handler never runs, nothing else is disturbed
      [] b = "predraise"  -> [ops |-> <<>>,               cp |-> 0, ret |-> FALSE]

RECURSIVE Apply(_, _)
Apply(ops, t) == IF ops = <<>> THEN t
                 ELSE LET o == Head(ops)
                          t2 == CASE o = "send" -> SendOrig(t[1], t[2], t[3], t[4])
                                  [] o = "drop" -> DropOrig(t[1], t[2], t[3], t[4])
                                  [] o = "take" -> Take(t[1], t[2], t[3], t[4])
                      IN Apply(Tail(ops), t2)

\* run behaviour b at some hook point; everything it may change
Run(b) == LET x == Ops(b)
              t == Apply(x.ops, <<own, wire, dropAcks, refused>>)
          IN /\ own' = t[1] /\ wire' = t[2] /\ dropAcks' = t[3] /\ refused' = t[4]
             /\ copies' = copies + x.cp
             /\ mutated' = (mutated \/ (b = "mutate" /\ own = "fresh"))

AfterPkt(i) == IF i < N THEN <<"pkt", i + 1>> ELSE <<"sess">>
AfterUdp(i) == IF i < N THEN <<"udp", i + 1>> ELSE <<"tail">>

(***************************** pipeline ************************************)
\* AddonManager.handle_proxied_packet: packet-level hooks, before parsing
PktHook(i) ==
    /\ pc = <<"pkt", i>>
    /\ invoked' = invoked \cup {<<"pkt", i>>}
    /\ pc' = IF cfg.pkt[i] = "truthy" THEN <<"done">> ELSE AfterPkt(i)
    /\ UNCHANGED <<cfg, own, wire, mutated, copies, dropAcks, refused, handled, logged>>

\* session.message_handler.handle / region.message_handler.handle
SessSub ==
    /\ pc = <<"sess">>
    /\ Run(cfg.sess)
    /\ invoked' = IF cfg.sess \in {"none", "predraise"} THEN invoked ELSE invoked \cup {<<"sess", 0>>}
    /\ pc' = <<"reg">>
    /\ UNCHANGED <<cfg, handled, logged>>
RegSub ==
    /\ pc = <<"reg">>
    /\ Run(cfg.reg)
    /\ invoked' = IF cfg.reg \in {"none", "predraise"} THEN invoked ELSE invoked \cup {<<"reg", 0>>}
    /\ pc' = IF cfg.kind = "cmdchat" THEN <<"cmd">> ELSE IF cfg.kind = "rlv" THEN <<"rlv", 1>> ELSE <<"udp", 1>>
    /\ UNCHANGED <<cfg, handled, logged>>

\* the proxy's own command channel claims the chat line: dropped, never shown to addons
Command ==
    /\ pc = <<"cmd">>
    /\ Run("drop")
    /\ handled' = TRUE
    /\ pc' = <<"tail">>
    /\ UNCHANGED <<cfg, invoked, logged>>

\* An RLV command in owner chat is offered to the addons' handle_rlv_command hooks; the first addon that
\* handles it makes the proxy drop the chat line (all its commands were handled) and claims the message;
\* otherwise the message goes on to the message-level hooks like any other.
RlvHook(i) ==
    /\ pc = <<"rlv", i>>
    /\ invoked' = invoked \cup {<<"rlv", i>>}
    /\ IF cfg.rlv[i] = "truthy"
       THEN IF own \in {"fresh", "queued"}
            THEN Run("drop") /\ handled' = TRUE /\ pc' = <<"tail">>
            \* a subscriber already sent or dropped the chat line: the proxy's own drop is refused (an error it
            \* logs and survives), the command does not count as handled, the message-level hooks still run
            ELSE /\ pc' = <<"udp", 1>>
                 /\ UNCHANGED <<own, wire, dropAcks, refused, copies, mutated, handled>>
       ELSE /\ pc' = IF i < N THEN <<"rlv", i + 1>> ELSE <<"udp", 1>>
            /\ UNCHANGED <<own, wire, dropAcks, refused, copies, mutated, handled>>
    /\ UNCHANGED <<cfg, logged>>

\* AddonManager.handle_lludp_message: message-level hooks; the first truthy return stops the chain
UdpHook(i) ==
    /\ pc = <<"udp", i>>
    /\ Run(cfg.udp[i])
    /\ invoked' = invoked \cup {<<"udp", i>>}
    /\ handled' = Ops(cfg.udp[i]).ret
    /\ pc' = IF Ops(cfg.udp[i]).ret THEN <<"tail">> ELSE AfterUdp(i)
    /\ UNCHANGED <<cfg, logged>>

\* tail of handle_proxied_packet: a queued original is dropped, the message is logged,
\* and it is forwarded iff nobody claimed or finalised it
Tail_ ==
    /\ pc = <<"tail">>
    /\ LET t1 == IF own = "queued" THEN DropOrig(own, wire, dropAcks, refused) ELSE <<own, wire, dropAcks, refused>>
           t2 == IF ~handled /\ t1[1] = "fresh" THEN SendOrig(t1[1], t1[2], t1[3], t1[4]) ELSE t1
       IN own' = t2[1] /\ wire' = t2[2] /\ dropAcks' = t2[3] /\ refused' = t2[4]
    /\ logged' = TRUE
    /\ pc' = <<"done">>
    /\ UNCHANGED <<cfg, mutated, copies, invoked, handled>>

Next == \/ \E i \in 1..N : PktHook(i) \/ UdpHook(i) \/ RlvHook(i)
        \/ SessSub \/ RegSub \/ Command \/ Tail_
Spec == Init /\ [][Next]_vars

(***************************** properties **********************************)
Done == pc = <<"done">>
PktClaimed == \E i \in 1..N : <<"pkt", i>> \in invoked /\ cfg.pkt[i] = "truthy"
Behaviours == {cfg.sess, cfg.reg} \cup {cfg.udp[i] : i \in {i \in 1..N : <<"udp", i>> \in invoked}}
Claimed == \/ PktClaimed \/ handled \/ cfg.kind = "cmdchat"
           \/ (cfg.kind = "rlv" /\ \E i \in 1..N : <<"rlv", i>> \in invoked /\ cfg.rlv[i] = "truthy")
           \/ \E b \in Behaviours : \E j \in DOMAIN Ops(b).ops : Ops(b).ops[j] \in {"take", "drop", "send"}

AtMostOnce == wire <= 1
ExactlyOnceUnlessClaimed == (Done /\ ~Claimed) => wire = 1
\* an explicitly sent original is on the wire exactly once even though it was "claimed"
SentMeansOnWire == (own = "sent") <=> (wire = 1)
NoResurrection == /\ own = "dropped" => wire = 0
                  /\ dropAcks <= 1 /\ (dropAcks = 1 => (cfg.rel /\ own = "dropped"))
\* a raising hook changes nothing but is itself recorded; hooks behind it still run:
\* every packet hook up to the first truthy one ran, every message hook up to the first truthy one ran
Isolation == Done =>
    /\ \A i \in 1..N : (\A j \in 1..(i - 1) : cfg.pkt[j] # "truthy") => <<"pkt", i>> \in invoked
    /\ (~PktClaimed /\ cfg.kind = "rlv") =>
          \A i \in 1..N : (\A j \in 1..(i - 1) : cfg.rlv[j] # "truthy") => <<"rlv", i>> \in invoked
    /\ (~PktClaimed /\ cfg.kind \in {"plain", "badbody"}) =>
          \A i \in 1..N : (\A j \in 1..(i - 1) : ~Ops(cfg.udp[j]).ret) => <<"udp", i>> \in invoked
Bookkeeping == (Done /\ ~PktClaimed) => logged
NothingPending == Done => own # "queued"

Obs == [wire |-> wire, mutated |-> (mutated /\ wire = 1), copies |-> copies, dropAcks |-> dropAcks,
        invoked |-> invoked, refused |-> refused, logged |-> logged, own |-> own]
=============================================================================
