--------------------------- MODULE ProxiedCircuit ---------------------------
(***************************************************************************)
(* Both directions of one proxied LLUDP circuit                            *)
(* (proxy/circuit.py ProxiedCircuit, base/message/circuit.py Circuit,      *)
(*  proxy/lludp_proxy.py handle_proxied_packet).                           *)
(*                                                                         *)
(* Direction "OUT" = viewer -> simulator, "IN" = simulator -> viewer.      *)
(* A packet travelling in direction d carries acknowledgements for wire    *)
(* IDs of direction Opp(d); they are shown to the sender of Opp(d).        *)
(* Packet-ID translation is the Spec layer of InjectionTracker.tla         *)
(* (Ideal / IdealOrig over the set of injected wire IDs); the tracker      *)
(* window is not modelled here (C04 covers eviction).                      *)
(***************************************************************************)
EXTENDS Naturals, Sequences, FiniteSets, TLC

CONSTANTS MinEp,      \* first endpoint packet ID: 1 (the viewers) or 0 (hippolyzer's own client endpoint)
          MaxEp,      \* endpoint packet IDs MinEp..MaxEp per direction
          MaxInj,     \* injected wire IDs per direction (proxy packets + drop acks)
          MaxAcks,    \* acks carried by one packet (appended + PacketAck blocks)
          Tries,      \* ReliableResendInfo.tries_left (code default 10)
          Interval,   \* Circuit.resend_every in clock units
          Reorder,
          EpOn,       \* FALSE: the endpoints stay silent (only proxy packets and the clock: retry-budget configurations)
          Disps,      \* dispositions an addon may choose: subset of {"fwd","drop","take","droptake","fwdtake","claim"}
          W           \* window of the per-direction injection trackers (0 = never evicts within the model)

D == {"OUT", "IN"}
Opp(d) == IF d = "OUT" THEN "IN" ELSE "OUT"

VARIABLES epSent,     \* [D -> SUBSET Nat]  endpoint IDs the proxy has processed
          epRel,      \* [D -> SUBSET Nat]  ... of which sent reliably
          epDropped,  \* [D -> SUBSET Nat]  ... of which the proxy dropped (at least once)
          inj,        \* [D -> SUBSET Nat]  wire IDs the proxy injected
          base,       \* [D -> Nat]         highest wire ID seen
          fwdMap,     \* [D -> SUBSET (Nat \X Nat)] first translation of each forwarded ID (ghost)
          delivered,  \* [D -> SUBSET Nat]  wire IDs handed to the receiver of direction d
          ackedWire,  \* [D -> SUBSET Nat]  ground truth: wire IDs of d its receiver acknowledged (ghost)
          shown,      \* [D -> SUBSET Nat]  endpoint IDs shown as acknowledged to the sender of d (ghost)
          pending,    \* set of [d, w, tries, age]: reliable proxy packets awaiting an ack
          done,       \* set of [d, w, how]: completed futures, how \in {"acked","failed"}
          quiet,      \* clock units since the circuit last carried a datagram (capped at Interval): the
                      \* resend clock of a new proxy packet starts at ITS send time, however quiet the
                      \* circuit was before
          out         \* datagrams the last event handed to the transport

vars == <<epSent, epRel, epDropped, inj, base, fwdMap, delivered, ackedWire, shown, pending, done, quiet, out>>

Max(S) == IF S = {} THEN 0 ELSE CHOOSE x \in S : \A y \in S : y <= x
Range(s) == {s[i] : i \in DOMAIN s}
RECURSIVE NthFree(_, _, _)
NthFree(k, I, w) == IF w \in I THEN NthFree(k, I, w + 1)
                    ELSE IF k = 1 THEN w ELSE NthFree(k - 1, I, w + 1)
\* wire ID 0 can only be the endpoint's own ID 0: the proxy allocates its IDs above the highest seen, from 1
Ideal(d, k) == IF k = 0 THEN 0 ELSE NthFree(k, inj[d], 1)
IdealOrig(d, w) == w - Cardinality({i \in inj[d] : i < w})

\* The trackers remember only the last W injected IDs of a direction.  Translation is claimed for IDs
\* newer than the newest injection that aged out (C04); the environment stays above that horizon.
NthSmallest(S, n) == CHOOSE x \in S : Cardinality({y \in S : y <= x}) = n
HorizonOf(I) == IF W = 0 \/ Cardinality(I) <= W THEN 0 ELSE NthSmallest(I, Cardinality(I) - W)
Horizon(d) == HorizonOf(inj[d])
\* horizon 0 = nothing has aged out yet (injected IDs start at 1)
Above(w, h) == h = 0 \/ w > h

\* acks carried in a packet travelling d: drop those for injected IDs, translate the rest back
Translate(d, as) == LET r == Opp(d)
                        keep == SelectSeq(as, LAMBDA a : a \notin inj[r])
                    IN [i \in DOMAIN keep |-> IdealOrig(r, keep[i])]

\* ascending sequences of distinct elements of S, length <= n
SeqOfSet(S) == LET RECURSIVE F(_)
                   F(T) == IF T = {} THEN <<>> ELSE LET m == CHOOSE x \in T : \A y \in T : x <= y
                                                    IN <<m>> \o F(T \ {m})
               IN F(S)
AckChoices(d, n) == {SeqOfSet(T) : T \in {T \in SUBSET {a \in delivered[Opp(d)] : Above(a, Horizon(Opp(d)))} : Cardinality(T) <= n}}

Rec(d, id, name, rel, resent, acks, pa) ==
    [dir |-> d, id |-> id, name |-> name, rel |-> rel, resent |-> resent, acks |-> acks, pa |-> pa, oldest |-> 0,
     anyid |-> FALSE]      \* TRUE: the packet ID is the proxy's choice, not constrained

Init == /\ epSent = [d \in D |-> {}] /\ epRel = [d \in D |-> {}] /\ epDropped = [d \in D |-> {}]
        /\ inj = [d \in D |-> {}] /\ base = [d \in D |-> 0] /\ fwdMap = [d \in D |-> {}]
        /\ delivered = [d \in D |-> {}] /\ ackedWire = [d \in D |-> {}] /\ shown = [d \in D |-> {}]
        /\ pending = {} /\ done = {} /\ quiet = 0 /\ out = <<>>

Frontier(d) == Max(epSent[d])

\* Circuit.collect_acks: acks in a packet travelling d complete proxy packets of direction Opp(d)
Collect(d, ids) ==
    LET hit == {p \in pending : p.d = Opp(d) /\ p.w \in ids} IN
    /\ pending' = pending \ hit
    /\ done' = done \cup {[d |-> p.d, w |-> p.w, how |-> "acked"] : p \in hit}

Dropping == {"drop", "take", "droptake"}       \* the original does not travel on
Taking == {"take", "droptake", "fwdtake"}      \* a copy made with Message.take travels as the proxy's own packet
\* the copy's packet ID: the next free ID of its direction when it is sent
CopyId(d, disp, w) == IF disp = "fwdtake" THEN (IF w > base[d] THEN w ELSE base[d]) + 1 ELSE base[d] + 1

(***************************************************************************)
(* An endpoint's packet passes the proxy.  kind "msg" = ordinary message,  *)
(* "pa" = PacketAck whose Packets blocks are A2.  A1 = appended acks.      *)
(* disp "fwd": the proxy forwards it; "drop": an addon drops it.           *)
(***************************************************************************)
EndpointSend(d, k, rel, kind, A1, A2, disp) ==
    LET r == Opp(d)
        resend == k \in epSent[d]
        w == Ideal(d, k)
        T1 == Translate(d, A1)
        T2 == Translate(d, A2)
        ackIds == Range(A1) \cup Range(A2)
    IN
    /\ EpOn
    /\ k \in MinEp..MaxEp
    /\ Above(w, Horizon(d))
    /\ (resend \/ (k \notin epSent[d] /\ k <= Frontier(d) + 1 + Reorder))
    /\ (resend => (rel <=> k \in epRel[d]))
    /\ (kind = "pa" => (~rel /\ A2 # <<>>))
    /\ (kind = "msg" => A2 = <<>>)
    /\ Len(A1) + Len(A2) <= MaxAcks
    /\ Range(A1) \cap Range(A2) = {}
    /\ disp \in Disps
    /\ (disp \in Dropping /\ rel) => Cardinality(inj[r]) < MaxInj
    \* dropping a reliable packet makes the proxy inject an ack in direction r first; the carried acks
    \* must still be above the horizon that injection leaves behind
    /\ (disp \in Dropping /\ rel) => \A a \in ackIds : Above(a, HorizonOf(inj[r] \cup {base[r] + 1}))
    /\ disp \in Taking => (kind = "msg" /\ Cardinality(inj[d]) < MaxInj)
    /\ epSent' = [epSent EXCEPT ![d] = @ \cup {k}]
    /\ epRel' = [epRel EXCEPT ![d] = IF rel THEN @ \cup {k} ELSE @]
    /\ ackedWire' = [ackedWire EXCEPT ![r] = @ \cup ackIds]
    /\ LET hit == {p \in pending : p.d = Opp(d) /\ p.w \in ackIds}
           mine == IF disp \in Taking /\ rel
                   THEN {[d |-> d, w |-> CopyId(d, disp, w), tries |-> Tries, age |-> 0]} ELSE {}
       IN /\ pending' = (pending \ hit) \cup mine
          /\ done' = done \cup {[d |-> p.d, w |-> p.w, how |-> "acked"] : p \in hit}
    /\ IF disp \in {"fwd", "fwdtake"}
       THEN LET suppressed == kind = "pa" /\ T1 = <<>> /\ T2 = <<>>
                \* disp "fwdtake": the addon sends the original on itself and then a copy of it (Message.take of
                \* an already finalized message): the copy is a packet of the proxy's own, as for "take"
                cpy == CopyId(d, disp, w)
                injD == IF disp = "fwdtake" THEN {cpy} ELSE {}
                copyOut == IF disp = "fwdtake" THEN <<Rec(d, cpy, "msg", rel, resend, <<>>, <<>>)>> ELSE <<>>
            IN
            /\ base' = [base EXCEPT ![d] = IF disp = "fwdtake" THEN cpy ELSE IF w > @ THEN w ELSE @]
            /\ fwdMap' = [fwdMap EXCEPT ![d] = IF \E p \in @ : p[1] = k THEN @ ELSE @ \cup {<<k, w>>}]
            /\ delivered' = [delivered EXCEPT ![d] = (IF suppressed THEN @ ELSE @ \cup {w}) \cup injD]
            /\ shown' = [shown EXCEPT ![r] = @ \cup Range(T1) \cup Range(T2)]
            /\ out' = (IF suppressed THEN <<>>
                       ELSE <<Rec(d, w, kind, rel, resend, T1, T2)>>) \o copyOut
            /\ inj' = [inj EXCEPT ![d] = @ \cup injD]
            /\ UNCHANGED epDropped
       ELSE IF disp = "claim"
       \* an addon claims the packet by a truthy return alone: it is neither forwarded nor dropped, nothing leaves
       \* the proxy and the sender is told nothing -- but the acknowledgements it carried have been seen (above)
       THEN /\ out' = <<>>
            /\ UNCHANGED <<base, fwdMap, delivered, shown, epDropped, inj>>
       ELSE LET new == base[r] + 1
                ackSender == IF rel THEN <<Rec(r, new, "pa", FALSE, FALSE, <<>>, <<k>>)>> ELSE <<>>
                \* the appended acks of the dropped packet travel on in a PacketAck of their own;
                \* its packet ID is the proxy's choice
                passOn == IF T1 # <<>> THEN <<[Rec(d, 0, "pa", FALSE, FALSE, <<>>, T1) EXCEPT !.anyid = TRUE]>> ELSE <<>>
                \* disp "take": an addon took the message (Message.take) and sends its copy on at once.  The
                \* copy is a packet of the proxy's own: fresh ID of direction d, no acks, and if the original
                \* was reliable it is the proxy that must now retransmit it until it is acknowledged.
                \* disp "droptake": the addon drops the original first and then sends a copy of it
                cpy == base[d] + 1
                copyOut == IF disp \in Taking THEN <<Rec(d, cpy, "msg", rel, resend, <<>>, <<>>)>> ELSE <<>>
                injD == IF disp \in Taking THEN {cpy} ELSE {}
                injR == IF rel THEN {new} ELSE {}
            IN
            /\ epDropped' = [epDropped EXCEPT ![d] = @ \cup {k}]
            /\ inj' = [x \in D |-> inj[x] \cup (IF x = d THEN injD ELSE {}) \cup (IF x = r THEN injR ELSE {})]
            /\ base' = [x \in D |-> IF x = d /\ disp \in Taking THEN cpy
                                    ELSE IF x = r /\ rel THEN new ELSE base[x]]
            /\ delivered' = [x \in D |-> delivered[x] \cup (IF x = d THEN injD ELSE {}) \cup (IF x = r THEN injR ELSE {})]
            /\ shown' = [shown EXCEPT ![d] = IF rel THEN @ \cup {k} ELSE @,
                                      ![r] = @ \cup Range(T1)]
            /\ out' = IF disp = "droptake" THEN ackSender \o passOn \o copyOut ELSE copyOut \o ackSender \o passOn
            /\ UNCHANGED fwdMap
    /\ quiet' = IF out' = <<>> THEN quiet ELSE 0

\* StartPingCheck carries the sender's oldest unacknowledged packet ID; the proxy rewrites it into
\* wire numbering and lowers it to its own oldest unacknowledged injection in that direction
\* (_rewrite_start_ping_check), otherwise the receiver would discard state the proxy still needs.
Min2(a, b) == IF a < b THEN a ELSE b
MinSet(S, dflt) == IF S = {} THEN dflt ELSE CHOOSE x \in S : \A y \in S : x <= y
StartPing(d, k, oldest) ==
    LET w == Ideal(d, k)
        mine == {p.w : p \in {q \in pending : q.d = d}}
        newOldest == Min2(Ideal(d, oldest), MinSet(mine, Ideal(d, oldest)))
    IN
    /\ EpOn
    /\ k \in MinEp..MaxEp /\ k \notin epSent[d] /\ k <= Frontier(d) + 1 + Reorder
    /\ Above(w, Horizon(d))
    \* a sender with nothing unacknowledged names the ID it will use NEXT (k + 1, not sent yet)
    /\ oldest \in MinEp..(k + 1) /\ Above(Ideal(d, oldest), Horizon(d))
    /\ epSent' = [epSent EXCEPT ![d] = @ \cup {k}]
    /\ base' = [base EXCEPT ![d] = IF w > @ THEN w ELSE @]
    /\ fwdMap' = [fwdMap EXCEPT ![d] = @ \cup {<<k, w>>}]
    /\ delivered' = [delivered EXCEPT ![d] = @ \cup {w}]
    /\ out' = <<[Rec(d, w, "spc", FALSE, FALSE, <<>>, <<>>) EXCEPT !.oldest = newOldest]>>
    /\ quiet' = 0
    /\ UNCHANGED <<epRel, epDropped, inj, ackedWire, shown, pending, done>>

\* Circuit.send of a proxy-originated message (packet_id None)
Inject(d, rel) ==
    LET new == base[d] + 1 IN
    /\ Cardinality(inj[d]) < MaxInj
    /\ inj' = [inj EXCEPT ![d] = @ \cup {new}]
    /\ base' = [base EXCEPT ![d] = new]
    /\ delivered' = [delivered EXCEPT ![d] = @ \cup {new}]
    /\ pending' = IF rel THEN pending \cup {[d |-> d, w |-> new, tries |-> Tries, age |-> 0]} ELSE pending
    /\ out' = <<Rec(d, new, "msg", rel, FALSE, <<>>, <<>>)>>
    /\ quiet' = 0
    /\ UNCHANGED <<epSent, epRel, epDropped, fwdMap, ackedWire, shown, done>>

Key(p) == p.w * 2 + (IF p.d = "OUT" THEN 0 ELSE 1)
RECURSIVE ResendRecs(_)
ResendRecs(S) == IF S = {} THEN <<>>
                 ELSE LET m == CHOOSE x \in S : \A y \in S : Key(x) <= Key(y)
                      IN <<Rec(m.d, m.w, "msg", TRUE, TRUE, <<>>, <<>>)>> \o ResendRecs(S \ {m})
\* the clock advances by dt, then Circuit.resend_unacked runs
Cap(n) == IF n > Interval THEN Interval ELSE n
Tick(dt) ==
    LET aged == {[p EXCEPT !.age = Cap(p.age + dt)] : p \in pending}
        due == {p \in aged : p.age >= Interval}
        giveUp == {p \in due : p.tries = 1}
        again == due \ giveUp
    IN
    /\ (pending # {} \/ quiet < Interval)      \* otherwise nothing can change any more
    /\ quiet' = IF again # {} THEN 0 ELSE Cap(quiet + dt)
    /\ pending' = (aged \ due) \cup {[p EXCEPT !.age = 0, !.tries = @ - 1] : p \in again}
    /\ done' = done \cup {[d |-> p.d, w |-> p.w, how |-> "failed"] : p \in giveUp}
    /\ out' = ResendRecs(again)
    /\ UNCHANGED <<epSent, epRel, epDropped, inj, base, fwdMap, delivered, ackedWire, shown>>

Next == \/ \E d \in D, k \in MinEp..MaxEp, rel \in BOOLEAN, kind \in {"msg", "pa"}, disp \in Disps :
             \E A \in AckChoices(d, MaxAcks) :
                \E n \in 0..Len(A) :      \* first n appended, the rest in PacketAck blocks
                    EndpointSend(d, k, rel, kind, SubSeq(A, 1, n), SubSeq(A, n + 1, Len(A)), disp)
        \/ \E d \in D, rel \in BOOLEAN : Inject(d, rel)
        \/ \E d \in D, k \in MinEp..MaxEp, o \in MinEp..(MaxEp + 1) : StartPing(d, k, o)
        \/ \E dt \in {1, Interval} : Tick(dt)

Spec == Init /\ [][Next]_vars

(*************************** Properties ************************************)
FwdOf(d, k) == (CHOOSE p \in fwdMap[d] : p[1] = k)[2]
\* An endpoint is only shown acks for IDs it sent itself, each standing for a packet the other
\* side really acknowledged (by the wire ID it was FIRST translated to) or that the proxy dropped
\* after it was sent reliably.
Truthful == \A d \in D : \A x \in shown[d] :
               /\ x \in epSent[d]
               /\ \/ (\E p \in fwdMap[d] : p[1] = x /\ p[2] \in ackedWire[d])
                  \/ (x \in epDropped[d] /\ x \in epRel[d])
\* acks of proxy-injected packets never reach an endpoint: nothing in `out` acknowledges an ID the
\* receiving endpoint did not send
NoInjectedAckLeaks == \A i \in DOMAIN out : \A x \in Range(out[i].acks) \cup Range(out[i].pa) :
                          x \in epSent[Opp(out[i].dir)]
\* every proxy packet leaves with a fresh ID of its own direction
InjectedIdsFresh == \A d \in D : inj[d] \cap {p[2] : p \in fwdMap[d]} = {}
\* a reliable proxy packet stays pending exactly until the first ack that names it
CompletionExact == /\ \A p \in pending : p.w \notin ackedWire[p.d] /\ p.w \in inj[p.d] /\ p.tries \in 1..Tries
                   /\ \A q \in done : q.how = "acked" => q.w \in ackedWire[q.d]
                   /\ \A q \in done : ~\E p \in pending : p.d = q.d /\ p.w = q.w
\* nothing is retransmitted after completion, and retransmissions keep their ID
ResendOnlyPending == \A i \in DOMAIN out : out[i].resent /\ out[i].rel /\ out[i].name = "msg" /\ out[i].id \in inj[out[i].dir]
                        => \E p \in pending : p.d = out[i].dir /\ p.w = out[i].id /\ p.age = 0
\* the rewritten OldestUnacked never exceeds a wire ID the proxy still waits for
OldestCoversPending == \A i \in DOMAIN out : out[i].name = "spc" =>
                          \A p \in pending : p.d = out[i].dir => out[i].oldest <= p.w
\* ExactlyOnce as an action property: what a forwarded packet shows is exactly its carried,
\* non-injected acks mapped through the *recorded* forward translation (independent of IdealOrig)
ViaFwd(d, as) == LET keep == SelectSeq(as, LAMBDA a : a \notin inj[d])
                 IN [i \in DOMAIN keep |-> (CHOOSE p \in fwdMap[d] : p[2] = keep[i])[1]]
=============================================================================
