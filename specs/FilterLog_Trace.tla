---- MODULE FilterLog_Trace ----
(* Binding B2: validates recorded executions of the real code against FilterLog.          *)
(*  Match / Parse events: compile_filter + .match on generated entries (fresh, thawed     *)
(*      after freeze, re-imported after export); TLC recomputes parse and denotation.     *)
(*  Log / SetFilter / Pause / Clear events: random walks over a real                      *)
(*      FilteringMessageLogger; TLC steps the log machine and compares list(logger)       *)
(*      with SpecView after every call.                                                   *)
(*  Same events: projections of a logged message before / after freeze-thaw and           *)
(*      export-import (canonical strings computed by the driver); TLC checks equality.    *)
(* Failed checks are named and the trace continues from the specification's own state.    *)
EXTENDS FilterLog, Json, IOUtils, TLCExt
TraceLog == ndJsonDeserialize(IOEnv.TRACE_FILE)
VARIABLES l, tid,
          unev     \* ghost: ids of entries that arrived while the filter in force could not be evaluated on them
tvars == <<vars, l, tid, unev>>

Rec == TraceLog[l]
Chk(name, cond) == IF cond THEN TRUE ELSE PrintT(ToJson([fail |-> name, line |-> l, tid |-> tid, i |-> Rec.i, k |-> 0]))
ChkK(name, cond, k) == IF cond THEN TRUE ELSE PrintT(ToJson([fail |-> name, line |-> l, tid |-> tid, i |-> Rec.i, k |-> k]))
Env(name, cond) == Assert(cond, <<"driver violated environment assumption", name, l>>)
IsEvent(e) == l <= Len(TraceLog) /\ TraceLog[l].ev = e /\ l' = l + 1

TInit == InitLog /\ l = 1 /\ tid = -1 /\ unev = {}
TReset == /\ IsEvent("Reset")
          /\ arr' = <<>> /\ raw' = <<>> /\ view' = <<>> /\ flt' = AllFilter /\ paused' = FALSE /\ ret' = {} /\ probe' = <<>>
          /\ tid' = Rec.tid /\ unev' = {}

ViewNow == SpecViewOf(arr', ret', flt')
\* clause names say whether an inapplicable comparison is in force (diagnosis of a mismatch, not a check)
VName(n) == IF unev' \cap ret' # {} THEN n \o "[entry-logged-while-filter-raised-is-retained]"
            ELSE IF XInForce(arr', flt') THEN n \o "[inapplicable-comparison-in-force]" ELSE n
\* a filter the walk uses must stay inside the generator domain on every entry it can meet
FilterDomainOK(f, es) == WellFormed(f) => (RaisingShapeOK(f) /\ \A j \in DOMAIN es : TreeDomainOK(Parse(f)[2], es[j]))

\* {"ev":"Log","e":entry,"ret":1|0|2 (2 = not observable),"raised":bool,"view":[ids]}
TLog == /\ IsEvent("Log")
        /\ Env("Log.domain", FilterDomainOK(flt, <<Rec.e>>))
        /\ Log(Rec.e)
        /\ unev' = IF ~paused /\ Raises(flt, Rec.e) THEN unev \cup {Len(arr) + 1} ELSE unev
        /\ Chk("Log.no-error", ~Rec.raised)
        /\ Chk(VName("Log.ret"), Rec.raised \/ Rec.ret = 2 \/ Rec.ret = (IF LogResult(Rec.e) THEN 1 ELSE 0))
        /\ Chk(VName("Log.view"), Rec.view = ViewNow)
        /\ UNCHANGED tid
\* {"ev":"SetFilter","toks":[..],"res":"ok"|"raise","view":[ids]}
TSetFilter == /\ IsEvent("SetFilter")
              /\ Env("SetFilter.domain", FilterDomainOK(Rec.toks, arr))
              /\ IF ~SetFilterLegal(Rec.toks)
                 THEN \* a filter that cannot be evaluated on a retained entry: set_filter does not swallow, the call
                      \* raises and leaves a half-built view; the driver ends the walk here (a Reset follows)
                      /\ Chk("SetFilter.raises-when-a-retained-entry-cannot-be-evaluated", Rec.res = "raise")
                      /\ UNCHANGED vars
                      /\ UNCHANGED unev
                 ELSE /\ SetFilter(Rec.toks)
                      /\ UNCHANGED unev
                      /\ Chk(IF WellFormed(Rec.toks) THEN VName("SetFilter.accepts-well-formed") ELSE "SetFilter.refuses-ill-formed",
                             (Rec.res = "ok") = WellFormed(Rec.toks))
                      /\ Chk(VName("SetFilter.view"), Rec.view = ViewNow)
              /\ UNCHANGED tid
\* {"ev":"Pause","on":bool,"view":[ids]}
TPause == /\ IsEvent("Pause")
          /\ SetPaused(Rec.on) /\ UNCHANGED unev
          /\ Chk(VName("Pause.view"), Rec.view = ViewNow)
          /\ UNCHANGED tid
\* {"ev":"Clear","view":[ids]}
TClear == /\ IsEvent("Clear")
          /\ Clear /\ UNCHANGED unev
          /\ Chk(VName("Clear.view"), Rec.view = ViewNow)
          /\ UNCHANGED tid

\* {"ev":"Match","e":entry,"toks":[..],"sc":bool,"stage":..,"res":"T"|"F"|"E","leaf":["T"|"F"|"E"..]}
\* res = verdict of the whole filter, leaf[k] = verdict of the k-th atom evaluated on its own; "E" = raised
TMatch == /\ IsEvent("Match")
          /\ IF ~WellFormed(Rec.toks) THEN TRUE      \* reported by the Parse event that precedes it
             ELSE LET t == Parse(Rec.toks)[2]
                      lv == LeavesOf(t)
                  IN /\ Env("Match.domain", TreeDomainOK(t, Rec.e))
                     /\ Env("Match.leaves", Len(Rec.leaf) = Len(lv))
                     /\ \A k \in DOMAIN lv :
                           ChkK(IF Rec.leaf[k] = "E"
                                THEN (IF AtomHasX(lv[k], Rec.e) THEN "Match.atom-raises-on-inapplicable-comparison" ELSE "Match.atom-raises")
                                ELSE "Match.atom-verdict",
                                Rec.leaf[k] # "E" /\ (Rec.leaf[k] = "T") = AtomTrue(lv[k], Rec.e), k)
                     /\ Chk(IF Rec.res = "E" THEN "Match.raises" ELSE "Match.verdict",
                            Rec.res # "E" /\ (Rec.res = "T") = Denote(t, Rec.e))
          /\ UNCHANGED <<vars, tid, unev>>
\* {"ev":"Parse","toks":[..],"ok":bool,"shape":[..]}
TParse == /\ IsEvent("Parse")
          /\ LET p == Parse(Rec.toks)
             IN /\ Chk("Parse.accepts", Rec.ok = (p[1] = "ok"))
                /\ Chk("Parse.grouping", (Rec.ok /\ p[1] = "ok") => Rec.shape = Shape(p[2]))
          /\ UNCHANGED <<vars, tid, unev>>
\* {"ev":"Same","what":"freeze"|"export","before":str,"after":str}
\* {"ev":"Same","what":..,"before":str,"after":str,"bk":["S"|"M"|"V"..],"bc":[n..],"ac":[n..]}
\* bk / bc / ac: per template block its kind and the number of entries of the message's block list before / after
\* (-1 = the message has no such list).  A Variable block with ZERO entries is a present, empty list and must stay one.
\* The clause name says where the zero-entry block sits (diagnosis of a failure, not a check).
EmptyCase(k, c) ==
    LET zeros == {j \in DOMAIN c : c[j] = 0}
        varbs == {j \in DOMAIN k : k[j] = "V"}
    IN IF zeros = {} THEN ""
       ELSE IF Len(c) = 1 THEN "[zero-entry-variable-block:only-block]"
       ELSE IF zeros = varbs /\ Cardinality(varbs) >= 2 THEN "[zero-entry-variable-block:all-variable-blocks-empty]"
       ELSE IF \E j \in zeros : \E m \in DOMAIN c : m > j /\ c[m] > 0 THEN "[zero-entry-variable-block:before-populated]"
       ELSE "[zero-entry-variable-block:trailing]"
TSame == /\ IsEvent("Same")
         /\ Chk("Same." \o Rec.what \o EmptyCase(Rec.bk, Rec.bc), Rec.before = Rec.after)
         /\ Chk("Same." \o Rec.what \o ".block-lists" \o EmptyCase(Rec.bk, Rec.bc), Rec.ac = Rec.bc)
         /\ UNCHANGED <<vars, tid, unev>>

TNext == TReset \/ TLog \/ TSetFilter \/ TPause \/ TClear \/ TMatch \/ TParse \/ TSame
TraceSpec == TInit /\ [][TNext]_tvars
TraceAccepted == PrintT("TRACE_REACHED " \o ToString(TLCGet("stats").diameter - 1) \o " OF " \o ToString(Len(TraceLog)))
====
