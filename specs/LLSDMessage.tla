------------------------------ MODULE LLSDMessage ------------------------------
(***************************************************************************)
(* C12, message clause: the LLSD (event-queue) form of a templated message. *)
(*                                                                         *)
(* A message variable value is [k |-> kind, p |-> payload]:                *)
(*   int  <<two's complement big-endian bytes, width of the template type>> *)
(*   bool <<0|1>>      (a BOOL variable may hold a Python bool or an int)  *)
(*   real <<8 bytes IEEE BE>>            uuid <<16 bytes>>                 *)
(*   ip   <<4 bytes, network order>>     bytes / str <<bytes>>             *)
(*   vec  <<real payloads>>: 3 (LLVector3, LLVector3d, LLQuaternion: the   *)
(*        wire carries x, y, z; w is derived) or 4 (LLVector4)             *)
(* LLSD has no unsigned / 64-bit integers, addresses or vectors: Carrier   *)
(* says which LLSD value stands for a variable of each template type       *)
(* (what the viewer's LLSD message reader expects), Restore is its inverse.*)
(* The little state machine sends one variable through                     *)
(* serialize -> (optionally XML) -> deserialize.                           *)
(***************************************************************************)
EXTENDS LLSDFormat

MV(k, p) == [k |-> k, p |-> p]
MErr == MV("err", <<>>)
SameMV(a, b) == a.k = b.k /\ a.p = b.p     \* payloads are only compared within one kind

IntWidth == [U8 |-> 1, U16 |-> 2, U32 |-> 4, U64 |-> 8, S8 |-> 1, S16 |-> 2, S32 |-> 4, S64 |-> 8, IPPORT |-> 2, BOOL |-> 1]
Signed == {"S8", "S16", "S32", "S64"}
IntTypes == {"U8", "U16", "U32", "U64", "S8", "S16", "S32", "S64", "IPPORT"}
\* integer types whose whole range fits an LLSD (S32) integer
Narrow == {"U8", "U16", "S8", "S16", "S32", "IPPORT"}
VecLen == [LLVector3 |-> 3, LLVector3d |-> 3, LLVector4 |-> 4, LLQuaternion |-> 3]
VecTypes == {"LLVector3", "LLVector3d", "LLVector4", "LLQuaternion"}
Types == IntTypes \cup VecTypes \cup {"BOOL", "F32", "F64", "LLUUID", "IPADDR", "Variable", "Fixed"}

\* does the value fit the template type at all (driver sanity)
Fits(ty, x) ==
    CASE ty \in IntTypes -> x.k = "int" /\ Len(x.p) = IntWidth[ty]
      [] ty = "BOOL" -> (x.k = "bool" /\ x.p \in {<<0>>, <<1>>}) \/ (x.k = "int" /\ Len(x.p) = 1)
      [] ty \in {"F32", "F64"} -> x.k = "real" /\ Len(x.p) = 8
      [] ty = "LLUUID" -> x.k = "uuid" /\ Len(x.p) = 16
      [] ty = "IPADDR" -> x.k = "ip" /\ Len(x.p) = 4
      [] ty \in {"Variable", "Fixed"} -> x.k \in {"bytes", "str"}
      [] ty \in VecTypes -> x.k = "vec" /\ Len(x.p) = VecLen[ty] /\ \A i \in 1..Len(x.p) : Len(x.p[i]) = 8
      [] OTHER -> FALSE

\* widen a big-endian integer of 1, 2 or 4 bytes to the 4 bytes of an LLSD integer
Widen(p, signed) == LET fill == IF signed /\ p[1] >= 128 THEN 255 ELSE 0 IN [i \in 1..(4 - Len(p)) |-> fill] \o p
\* the bytes of width w that widen to the LLSD integer c, if any
Narrowed(c, w, signed) == LET p == SubSeq(c, 5 - w, 4) IN IF Widen(p, signed) = c THEN <<"some", p>> ELSE <<"none">>

RECURSIVE Reals(_)
Reals(ps) == IF Len(ps) = 0 THEN <<>> ELSE <<V("real", ps[1])>> \o Reals(Tail(ps))
RECURSIVE Payloads(_)
Payloads(vs) == IF Len(vs) = 0 THEN <<>> ELSE <<vs[1].v>> \o Payloads(Tail(vs))

Carrier(ty, x) ==
    CASE ty \in Narrow -> V("int", Widen(x.p, ty \in Signed))
      [] ty \in {"U32", "U64", "S64", "IPADDR"} -> V("bin", x.p)          \* network byte order
      [] ty = "BOOL" -> IF x.k = "bool" THEN V("bool", x.p) ELSE V("int", Widen(x.p, FALSE))
      [] ty \in {"F32", "F64"} -> V("real", x.p)
      [] ty = "LLUUID" -> V("uuid", x.p)
      [] ty \in {"Variable", "Fixed"} -> IF x.k = "str" THEN V("str", x.p) ELSE V("bin", x.p)
      [] ty \in VecTypes -> V("arr", Reals(x.p))

Restore(ty, c) ==
    CASE ty \in Narrow -> IF c.t # "int" THEN MErr
                          ELSE LET r == Narrowed(c.v, IntWidth[ty], ty \in Signed) IN
                               IF r[1] = "some" THEN MV("int", r[2]) ELSE MErr
      [] ty \in {"U32", "U64", "S64"} -> IF c.t = "bin" /\ Len(c.v) = IntWidth[ty] THEN MV("int", c.v) ELSE MErr
      [] ty = "IPADDR" -> IF c.t = "bin" /\ Len(c.v) = 4 THEN MV("ip", c.v) ELSE MErr
      [] ty = "BOOL" -> IF c.t = "bool" THEN MV("bool", c.v)
                        ELSE IF c.t = "int" /\ Narrowed(c.v, 1, FALSE)[1] = "some" THEN MV("int", Narrowed(c.v, 1, FALSE)[2]) ELSE MErr
      [] ty \in {"F32", "F64"} -> IF c.t = "real" THEN MV("real", c.v) ELSE MErr
      [] ty = "LLUUID" -> IF c.t = "uuid" THEN MV("uuid", c.v) ELSE MErr
      [] ty \in {"Variable", "Fixed"} -> IF c.t = "str" THEN MV("str", c.v) ELSE IF c.t = "bin" THEN MV("bytes", c.v) ELSE MErr
      [] ty \in VecTypes -> IF c.t = "arr" /\ Len(c.v) = VecLen[ty] /\ \A i \in 1..Len(c.v) : c.v[i].t = "real"
                            THEN MV("vec", Payloads(c.v)) ELSE MErr

\* ------------------------------------------------------------ the state machine
CONSTANT Dom(_)        \* Dom(ty): the values of type ty explored by the bounded model
VARIABLES ty, orig, phase, carried, xml, result
vars == <<ty, orig, phase, carried, xml, result>>

Init == /\ ty \in Types /\ orig \in Dom(ty)
        /\ phase = "msg" /\ carried = Err /\ xml = FALSE /\ result = MErr
\* LLSDMessageSerializer.serialize(msg, as_dict=True)
Serialize == /\ phase = "msg" /\ phase' = "llsd"
             /\ carried' = Carrier(ty, orig)
             /\ UNCHANGED <<ty, orig, xml, result>>
\* format_xml / parse: XML carries every LLSD value unchanged
XmlHop == /\ phase = "llsd" /\ ~xml /\ xml' = TRUE
          /\ UNCHANGED <<ty, orig, phase, carried, result>>
\* LLSDMessageSerializer.deserialize
Deserialize == /\ phase = "llsd" /\ phase' = "back"
               /\ result' = Restore(ty, carried)
               /\ UNCHANGED <<ty, orig, carried, xml>>
Next == Serialize \/ XmlHop \/ Deserialize
Spec == Init /\ [][Next]_vars

\* ------------------------------------------------------------------- invariants
DomainOK == Fits(ty, orig)
\* what is put on the event queue is LLSD (in particular: integers are S32, nothing else is invented)
CarrierIsLLSD == phase # "msg" => IsLLSD(carried)
\* the message that comes back equals the original, through the in-memory and the XML form
RoundTrip == phase = "back" => SameMV(result, orig)
\* an LLSD integer carries exactly the number: the narrow types are value-preserving
NumberKept == (phase # "msg" /\ carried.t = "int" /\ ty \in Narrow) =>
                 LET w == Widen(orig.p, ty \in Signed) IN
                 IntVal(carried.v) = IntVal(w) /\ ((ty \notin Signed) => IntVal(carried.v) >= 0)
\* wide or unsigned-32 integers never travel as LLSD integers (they would not fit S32)
WideIsBinary == (phase # "msg" /\ ty \in {"U32", "U64", "S64", "IPADDR"}) => (carried.t = "bin" /\ Len(carried.v) \in {4, 8})
=============================================================================
