------------------------------ MODULE LLSDMessage ------------------------------
(***************************************************************************)
(* C12, message clause: the LLSD (event-queue) form of a templated message. *)
(*                                                                         *)
(* A message variable value is [k |-> kind, p |-> payload]:                *)
(*   int  <<two's complement big-endian bytes, width of the template type>> *)
(*   bool <<0|1>>      (a BOOL variable may hold a Python bool or an int)  *)
(*   real <<8 bytes IEEE BE>>            uuid <<16 bytes>>                 *)
(*   ip   <<4 bytes, network order>>     bytes / str <<bytes>>             *)
(*   vec  <<real payloads>>: 3 (LLVector3, LLVector3d, LLQuaternion: the   *)
(*        wire carries x, y, z; w is derived) or 4 (LLVector4)             *)
(* LLSD has no unsigned / 64-bit integers, addresses or vectors: Carrier   *)
(* says which LLSD value stands for a variable of each template type       *)
(* (what the viewer's LLSD message reader expects), Restore is its inverse.*)
(* The little state machine sends one variable through                     *)
(* serialize -> (optionally XML) -> deserialize.                           *)
(***************************************************************************)
EXTENDS LLSDFormat

MV(k, p) == [k |-> k, p |-> p]
MErr == MV("err", <<>>)
SameMV(a, b) == a.k = b.k /\ a.p = b.p     \* payloads are only compared within one kind

IntWidth == [U8 |-> 1, U16 |-> 2, U32 |-> 4, U64 |-> 8, S8 |-> 1, S16 |-> 2, S32 |-> 4, S64 |-> 8, IPPORT |-> 2, BOOL |-> 1]
Signed == {"S8", "S16", "S32", "S64"}
IntTypes == {"U8", "U16", "U32", "U64", "S8", "S16", "S32", "S64", "IPPORT"}
\* integer types whose whole range fits an LLSD (S32) integer
Narrow == {"U8", "U16", "S8", "S16", "S32", "IPPORT"}
VecLen == [LLVector3 |-> 3, LLVector3d |-> 3, LLVector4 |-> 4, LLQuaternion |-> 3]
VecTypes == {"LLVector3", "LLVector3d", "LLVector4", "LLQuaternion"}
Types == IntTypes \cup VecTypes \cup {"BOOL", "F32", "F64", "LLUUID", "IPADDR", "Variable", "Fixed"}

\* does the value fit the template type at all (driver sanity)
Fits(ty, x) ==
    CASE ty \in IntTypes -> x.k = "int" /\ Len(x.p) = IntWidth[ty]
      [] ty = "BOOL" -> (x.k = "bool" /\ x.p \in {<<0>>, <<1>>}) \/ (x.k = "int" /\ Len(x.p) = 1)
      [] ty \in {"F32", "F64"} -> x.k = "real" /\ Len(x.p) = 8
      [] ty = "LLUUID" -> x.k = "uuid" /\ Len(x.p) = 16
      [] ty = "IPADDR" -> x.k = "ip" /\ Len(x.p) = 4
      [] ty \in {"Variable", "Fixed"} -> x.k \in {"bytes", "str"}
      [] ty \in VecTypes -> x.k = "vec" /\ Len(x.p) = VecLen[ty] /\ \A i \in 1..Len(x.p) : Len(x.p[i]) = 8
      [] OTHER -> FALSE

\* widen a big-endian integer of 1, 2 or 4 bytes to the 4 bytes of an LLSD integer
Widen(p, signed) == LET fill == IF signed /\ p[1] >= 128 THEN 255 ELSE 0 IN [i \in 1..(4 - Len(p)) |-> fill] \o p
\* the bytes of width w that widen to the LLSD integer c, if any
Narrowed(c, w, signed) == LET p == SubSeq(c, 5 - w, 4) IN IF Widen(p, signed) = c THEN <<"some", p>> ELSE <<"none">>

RECURSIVE Reals(_)
Reals(ps) == IF Len(ps) = 0 THEN <<>> ELSE <<V("real", ps[1])>> \o Reals(Tail(ps))
RECURSIVE Payloads(_)
Payloads(vs) == IF Len(vs) = 0 THEN <<>> ELSE <<vs[1].v>> \o Payloads(Tail(vs))

Carrier(ty, x) ==
    CASE ty \in Narrow -> V("int", Widen(x.p, ty \in Signed))
      [] ty \in {"U32", "U64", "S64", "IPADDR"} -> V("bin", x.p)          \* network byte order
      [] ty = "BOOL" -> IF x.k = "bool" THEN V("bool", x.p) ELSE V("int", Widen(x.p, FALSE))
      [] ty \in {"F32", "F64"} -> V("real", x.p)
      [] ty = "LLUUID" -> V("uuid", x.p)
      [] ty \in {"Variable", "Fixed"} -> IF x.k = "str" THEN V("str", x.p) ELSE V("bin", x.p)
      [] ty \in VecTypes -> V("arr", Reals(x.p))

Restore(ty, c) ==
    CASE ty \in Narrow -> IF c.t # "int" THEN MErr
                          ELSE LET r == Narrowed(c.v, IntWidth[ty], ty \in Signed) IN
                               IF r[1] = "some" THEN MV("int", r[2]) ELSE MErr
      [] ty \in {"U32", "U64", "S64"} -> IF c.t = "bin" /\ Len(c.v) = IntWidth[ty] THEN MV("int", c.v) ELSE MErr
      [] ty = "IPADDR" -> IF c.t = "bin" /\ Len(c.v) = 4 THEN MV("ip", c.v) ELSE MErr
      [] ty = "BOOL" -> IF c.t = "bool" THEN MV("bool", c.v)
                        ELSE IF c.t = "int" /\ Narrowed(c.v, 1, FALSE)[1] = "some" THEN MV("int", Narrowed(c.v, 1, FALSE)[2]) ELSE MErr
      [] ty \in {"F32", "F64"} -> IF c.t = "real" THEN MV("real", c.v) ELSE MErr
      [] ty = "LLUUID" -> IF c.t = "uuid" THEN MV("uuid", c.v) ELSE MErr
      [] ty \in {"Variable", "Fixed"} -> IF c.t = "str" THEN MV("str", c.v) ELSE IF c.t = "bin" THEN MV("bytes", c.v) ELSE MErr
      [] ty \in VecTypes -> IF c.t = "arr" /\ Len(c.v) = VecLen[ty] /\ \A i \in 1..Len(c.v) : c.v[i].t = "real"
                            THEN MV("vec", Payloads(c.v)) ELSE MErr

\* ------------------------------------------------------------ the state machine
(* One LLSDMessageSerializer INSTANCE handling a sequence of messages of one type.  The         *)
(* instance is long-lived (the event-queue manager keeps one per region); the property speaks   *)
(* about every message, so what the instance does with a message must not depend on the         *)
(* messages it has handled before (HistoryIndependent).                                         *)
(* The watched variable lives in one block of the message; a message has a profile:             *)
(*   "full"  the block is there with an instance, "empty" the block list is there with no       *)
(*   instance, "cut" the block (and everything after it) is omitted.                            *)
(* Spec level: the instance has no memory that matters.  Algo level: Memo names what an         *)
(* implementation may remember per message type about "which variables need a carrier":         *)
(*   "none" nothing, "template" computed from the template on first use, "firstbody" computed   *)
(*   from the blocks present in the first message it sees (a design that is NOT history         *)
(*   independent; kept so that TLC shows the law bites).                                        *)
CONSTANT Dom(_),       \* Dom(ty): the values of type ty explored by the bounded model
         Memo,         \* "none" | "template" | "firstbody"
         MaxHist,      \* how many earlier messages one instance sees
         HistTypes     \* template types for which histories longer than one message are explored
VARIABLES ty, orig, phase, carried, xml, result,
          prof,        \* profile of the message being handled
          hist,        \* profiles of the messages this instance handled before, oldest first
          memo         \* "unset" | "yes" | "no": what the instance remembers about the watched block
vars == <<ty, orig, phase, carried, xml, result, prof, hist, memo>>
Profs == {"full", "empty", "cut"}
Absent == V("absent", <<>>)
Untouched == V("raw", <<>>)       \* the variable was left as it is in the message: not an LLSD carrier
MAbsent == MV("absent", <<>>)

\* does this instance treat the watched variable as one that needs a carrier, now
Treats == CASE Memo = "none" -> TRUE
            [] memo # "unset" -> memo = "yes"
            [] Memo = "template" -> TRUE
            [] OTHER -> prof # "cut"                \* "firstbody": only blocks present in this body
Remember == IF Memo = "none" \/ memo # "unset" THEN memo ELSE IF Treats THEN "yes" ELSE "no"

Init == /\ ty \in Types /\ orig \in Dom(ty)
        /\ phase = "msg" /\ carried = Err /\ xml = FALSE /\ result = MErr
        /\ prof \in Profs /\ hist = <<>> /\ memo = "unset"
\* LLSDMessageSerializer.serialize(msg, as_dict=True)
Serialize == /\ phase = "msg" /\ phase' = "llsd"
             /\ carried' = IF prof # "full" THEN Absent ELSE IF Treats THEN Carrier(ty, orig) ELSE Untouched
             /\ memo' = Remember
             /\ UNCHANGED <<ty, orig, xml, result, prof, hist>>
\* format_xml / parse: XML carries every LLSD value unchanged
XmlHop == /\ phase = "llsd" /\ ~xml /\ xml' = TRUE
          /\ UNCHANGED <<ty, orig, phase, carried, result, prof, hist, memo>>
\* LLSDMessageSerializer.deserialize
Deserialize == /\ phase = "llsd" /\ phase' = "back"
               /\ result' = IF prof # "full" THEN MAbsent
                            ELSE IF carried = Untouched THEN orig
                            ELSE IF Treats THEN Restore(ty, carried) ELSE MErr
               /\ memo' = Remember
               /\ UNCHANGED <<ty, orig, carried, xml, prof, hist>>
\* the same instance is handed the next message of this type
NextMessage(p) == /\ phase = "back" /\ Len(hist) < MaxHist /\ ty \in HistTypes
                  /\ hist' = Append(hist, prof) /\ prof' = p
                  /\ phase' = "msg" /\ carried' = Err /\ xml' = FALSE /\ result' = MErr
                  /\ UNCHANGED <<ty, orig, memo>>
Next == Serialize \/ XmlHop \/ Deserialize \/ \E p \in Profs : NextMessage(p)
Spec == Init /\ [][Next]_vars

\* ------------------------------------------------------------------- invariants
DomainOK == Fits(ty, orig)
Watched == phase # "msg" /\ prof = "full"
\* what is put on the event queue is LLSD (in particular: integers are S32, nothing else is invented)
CarrierIsLLSD == Watched => IsLLSD(carried)
\* the message that comes back equals the original, through the in-memory and the XML form
RoundTrip == (phase = "back" /\ prof = "full") => SameMV(result, orig)
\* an LLSD integer carries exactly the number: the narrow types are value-preserving
NumberKept == (Watched /\ carried.t = "int" /\ ty \in Narrow) =>
                 LET w == Widen(orig.p, ty \in Signed) IN
                 IntVal(carried.v) = IntVal(w) /\ ((ty \notin Signed) => IntVal(carried.v) >= 0)
\* wide or unsigned-32 integers never travel as LLSD integers (they would not fit S32)
WideIsBinary == (Watched /\ ty \in {"U32", "U64", "S64", "IPADDR"}) => (carried.t = "bin" /\ Len(carried.v) \in {4, 8})
\* THE HISTORY-INDEPENDENCE LAW: what the instance makes of a message is a function of that message
\* alone -- whatever it handled before (hist) and whatever it remembers (memo)
HistoryIndependent == /\ Watched => Same(carried, Carrier(ty, orig))
                      /\ (phase # "msg" /\ prof # "full") => carried = Absent
=============================================================================
