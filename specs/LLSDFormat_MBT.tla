---- MODULE LLSDFormat_MBT ----
(* Bounded model of C12's codec clause: every LLSD value up to depth 2 built from small   *)
(* leaf sets is one initial state.  TLC checks the format laws on each of them and prints *)
(* one table row per value (binding B3, spec -> code): the row's bytes are fed to the     *)
(* real parsers, the row's value to the real formatters.                                  *)
EXTENDS LLSDFormat, Json
CONSTANT Big,         \* FALSE: quick sets, TRUE: thorough sets
         Tiny,        \* only the leaves (used for the run that must refute SniffTrimBoth)
         SniffTrimBoth \* FALSE: the dispatcher skips leading white space only; TRUE: the variant that trims both ends
VARIABLE val

\* opaque leaves: IEEE bytes / texts written out as constants (struct.pack('!d'), repr)
RT == << <<<<48, 46, 48>>, <<0, 0, 0, 0, 0, 0, 0, 0>>>>,                          \* 0.0
         <<<<49, 46, 53>>, <<63, 248, 0, 0, 0, 0, 0, 0>>>>,                        \* 1.5
         <<<<45, 49, 101, 45, 48, 55>>, <<190, 122, 215, 242, 154, 188, 175, 72>>>>, \* -1e-07
         <<<<105, 110, 102>>, <<127, 240, 0, 0, 0, 0, 0, 0>>>>,                    \* inf
         <<<<45, 48, 46, 48>>, <<128, 0, 0, 0, 0, 0, 0, 0>>>> >>                   \* -0.0
\* binary dates: struct.pack('<d', epoch seconds) of the instant
DT == << <<<<0, 0, 0, 0, 0, 0, 0, 0>>, <<1970, 1, 1, 0, 0, 0, 0>>>>,
         <<<<0, 0, 0, 112, 34, 131, 215, 65>>, <<2020, 1, 1, 12, 0, 0, 0>>>>,
         <<<<20, 4, 192, 225, 110, 19, 216, 65>>, <<2021, 3, 14, 7, 30, 15, 249>>>>,
         \* instants BEFORE the epoch with a fractional second (negative, non-integral timestamps) and around them
         <<<<0, 0, 0, 0, 0, 0, 248, 191>>, <<1969, 12, 31, 23, 59, 58, 500000>>>>,             \* -1.5
         <<<<0, 0, 0, 0, 0, 0, 224, 191>>, <<1969, 12, 31, 23, 59, 59, 500000>>>>,             \* -0.5
         <<<<0, 0, 0, 0, 0, 0, 244, 191>>, <<1969, 12, 31, 23, 59, 58, 750000>>>>,             \* -1.25
         <<<<0, 0, 0, 0, 12, 24, 245, 192>>, <<1969, 12, 30, 23, 59, 59, 250000>>>>,           \* -86400.75
         <<<<141, 237, 181, 160, 247, 198, 176, 190>>, <<1969, 12, 31, 23, 59, 59, 999999>>>>, \* -0.000001
         <<<<0, 0, 0, 0, 0, 0, 240, 191>>, <<1969, 12, 31, 23, 59, 59, 0>>>>,                  \* -1.0
         <<<<0, 0, 0, 120, 67, 13, 107, 193>>, <<1969, 7, 20, 20, 17, 40, 250000>>>>,          \* -14182939.75
         <<<<4, 0, 192, 255, 255, 255, 223, 193>>, <<1901, 12, 13, 20, 45, 52, 999999>>>>,     \* -2147483647.000001
         <<<<90, 243, 3, 0, 0, 0, 224, 65>>, <<2038, 1, 19, 3, 14, 8, 123456>>>> >>            \* 2147483648.123456
\* TLC checks the constants itself: every double above decodes, in exact arithmetic, to the instant beside it;
\* 0.0078125 s = 7812.5 us is a tie and goes to the even microsecond
ASSUME \A k \in 1..Len(DT) : DateUs(DT[k][1]) = CivilUs(DT[k][2])
ASSUME DateUs(<<0, 0, 0, 0, 0, 0, 128, 63>>) = CivilUs(<<1970, 1, 1, 0, 0, 0, 7812>>)
ASSUME CivilUs(<<1969, 12, 31, 23, 59, 58, 500000>>) = <<1>> \o LOfNat(1500000) /\ CivilUs(<<1970, 1, 1, 0, 0, 0, 0>>) = <<0>>

Reals == {V("real", RT[k][2]) : k \in 1..Len(RT)}
Dates == {V("date", DT[k][2]) : k \in 1..Len(DT)}
\* (10 and 32: the last encoded byte is ASCII white space)
Ints == {V("int", b) : b \in {<<0, 0, 0, 10>>, <<0, 0, 0, 32>>, <<0, 0, 0, 0>>, <<0, 0, 0, 1>>, <<255, 255, 255, 255>>, <<127, 255, 255, 255>>,
                               <<128, 0, 0, 0>>, <<0, 0, 1, 44>>, <<255, 255, 255, 0>>}}
Uuids == {V("uuid", [k \in 1..16 |-> 0]), V("uuid", [k \in 1..16 |-> IF k = 1 THEN 171 ELSE 15 * k]),
          V("uuid", [k \in 1..16 |-> IF k = 16 THEN 10 ELSE 7 * k]), V("uuid", [k \in 1..16 |-> IF k = 16 THEN 32 ELSE k])}
\* "", a, newline, quote, double quote, backslash, backslash-n, a NL b, e-acute, x'\, NUL
StrBytes == {<<97, 32>>, <<97, 9>>, <<98, 10>>, <<32>>, <<>>, <<97>>, <<10>>, <<39>>, <<34>>, <<92>>, <<92, 110>>, <<97, 10, 98>>, <<195, 169>>, <<120, 39, 92>>, <<0>>}
Strs == {V("str", b) : b \in StrBytes}
Bins == {V("bin", b) : b \in {<<1, 10>>, <<2, 32>>, <<>>, <<0>>, <<10, 255>>, <<1, 2, 3>>, <<250, 251, 252, 253>>}}
Uris == {V("uri", b) : b \in {<<>>, <<104, 116, 116, 112, 58, 47, 47, 120>>, <<97, 34, 92>>}}
LeavesA == {V("undef", <<>>), V("bool", <<0>>), V("bool", <<1>>)} \cup Ints \cup Reals \cup Uuids \cup Strs \cup Bins \cup Uris \cup Dates
LeavesB == {V("undef", <<>>), V("bool", <<1>>), V("int", <<255, 255, 255, 255>>), V("str", <<97, 10, 98>>),
            V("uri", <<104, 116, 116, 112, 58, 47, 47, 120>>), V("date", DT[4][2])}
           \cup (IF Big THEN {V("real", RT[3][2]), V("bin", <<10, 255>>), V("uuid", [k \in 1..16 |-> 0]), V("str", <<39>>)} ELSE {})
Keys == {<<>>, <<97>>, <<98, 39>>} \cup (IF Big THEN {<<195, 169>>} ELSE {})

Arr01(S) == {V("arr", <<>>)} \cup {V("arr", <<a>>) : a \in S}
Arr2(S) == {V("arr", <<a, b>>) : a \in S, b \in S}
Map01(S) == {V("map", <<>>)} \cup {V("map", <<<<k, a>>>>) : k \in Keys, a \in S}
Map2(S) == {V("map", <<<<p[1], a>>, <<p[2], b>>>>) : p \in {q \in Keys \X Keys : LexLess(q[1], q[2])}, a \in S, b \in S}
D1 == LeavesA \cup Arr01(LeavesA) \cup Arr2(LeavesB) \cup Map01(LeavesA) \cup Map2(LeavesB)
NestB == LeavesB \cup Arr01(LeavesB) \cup Map01(LeavesB)
D2 == D1 \cup Arr01(D1) \cup Arr2(NestB) \cup Map01(D1) \cup Map2(NestB)

\* ---- an alternative rendering that uses the other syntactic choices of the language
RECURSIVE NotAlt(_, _), NotAltSeq(_, _), NotAltMap(_, _)
RawStr(bs) == <<40>> \o DecNat(Len(bs)) \o <<41, 34>> \o bs \o <<34>>
NotAlt(x, rt) ==
    CASE x.t = "bool" -> IF x.v = <<1>> THEN <<84>> ELSE <<70>>
      [] x.t = "str" -> IF Len(x.v) % 2 = 0 THEN <<115>> \o RawStr(x.v) ELSE <<34>> \o EscStr(x.v, 34) \o <<34>>
      [] x.t = "uri" -> <<108, 39>> \o EscStr(x.v, 39) \o <<39>>
      [] x.t = "bin" -> IF Len(x.v) % 2 = 0 THEN <<98, 49, 54, 34>> \o HexOf(x.v) \o <<34>> ELSE <<98>> \o RawStr(x.v)
      [] x.t = "arr" -> <<91, 32>> \o Join(NotAltSeq(x.v, rt), <<32, 44, 10>>) \o <<32, 93>>
      [] x.t = "map" -> <<123, 9>> \o Join(NotAltMap(x.v, rt), <<44, 32>>) \o <<125>>
      [] OTHER -> Not(x, rt)
NotAltSeq(s, rt) == IF Len(s) = 0 THEN <<>> ELSE <<NotAlt(s[1], rt)>> \o NotAltSeq(Tail(s), rt)
NotAltMap(s, rt) == IF Len(s) = 0 THEN <<>>
                    ELSE <<<<34>> \o EscStr(s[1][1], 34) \o <<34, 32, 58>> \o NotAlt(s[1][2], rt)>> \o NotAltMap(Tail(s), rt)

WireBytes == Bin(ToWire(val, DT))
Init == /\ val \in (IF Tiny THEN LeavesA ELSE D2)
        /\ PrintT(ToJson([row |-> "val", v |-> val, bin |-> WireBytes, notation |-> Not(val, RT), alt |-> NotAlt(val, RT)]))
Next == UNCHANGED val
Spec == Init /\ [][Next]_val

\* ---- the laws
WellFormed == IsLLSD(val) /\ Same(Canon(val), val)
BinRoundTrip == Same(DenotesBin(WireBytes, DT), val)
BinDocRoundTrip == /\ Same(DenotesBin(BinDoc(ToWire(val, DT)), DT), val)
                   /\ Same(DenotesBin(HdrCpp \o <<10>> \o WireBytes, DT), val)
\* self-delimiting: the value ends where the format says, junk behind it is not swallowed,
\* no proper prefix is a document
BinFraming == /\ LET r == PBin(WireBytes \o <<93, 7>>, 1) IN r.ok /\ r.i = Len(WireBytes) + 1
              /\ ParseBin(WireBytes \o <<33>>) = Err
              /\ \A k \in 0..(Len(WireBytes) - 1) : ParseBin(Sub(WireBytes, 1, k)) = Err
\* a value embedded in a larger buffer (after a prefix, followed by another document and trailing bytes) is read from
\* where it starts and the reader ends exactly behind it
BinEmbedded == \A pre \in {<<7>>, <<1, 2, 3, 4>>, [k \in 1..16 |-> 91]} :
                  LET buf == pre \o WireBytes \o WireBytes \o <<93, 7>>
                      r1 == PBin(buf, Len(pre) + 1) IN
                  /\ r1.ok /\ r1.i = Len(pre) + Len(WireBytes) + 1 /\ Same(Canon(FromWire(r1.v, DT)), val)
                  /\ LET r2 == PBin(buf, r1.i) IN r2.ok /\ r2.i = Len(pre) + 2 * Len(WireBytes) + 1 /\ Same(Canon(FromWire(r2.v, DT)), val)
NotRoundTrip == Same(DenotesNot(Not(val, RT), RT), val)
NotAltRoundTrip == Same(DenotesNot(NotAlt(val, RT), RT), val)
NotNoNewline == NoRawNewline(Not(val, RT))
\* the sniffing dispatcher picks the right format for every document of the table and, through it, the document
\* denotes the same value as through the format's own parser -- also with white space in front of it
SniffLaw == /\ SniffKind(Trimmed(BinDoc(ToWire(val, DT)), SniffTrimBoth)) = "bin"
            /\ Same(SniffParseWith(BinDoc(ToWire(val, DT)), DT, RT, SniffTrimBoth), val)
            /\ Same(SniffParseWith(<<10, 32>> \o BinDoc(ToWire(val, DT)), DT, RT, SniffTrimBoth), val)
            /\ SniffKind(Trimmed(Not(val, RT), SniffTrimBoth)) = "not"
            /\ Same(SniffParseWith(Not(val, RT), DT, RT, SniffTrimBoth), val)
            /\ Same(SniffParseWith(<<32, 9>> \o Not(val, RT), DT, RT, SniffTrimBoth), val)
\* the run-length form of a document says the same about raw newlines and about its length as the document itself
RLAgrees == LET d == Not(val, RT) w == WireBytes IN
            /\ NoRawNewlineRL(ToRL(d)) = NoRawNewline(d) /\ LenRL(ToRL(d)) = Len(d)
            /\ NoRawNewlineRL(ToRL(w)) = NoRawNewline(w) /\ LenRL(ToRL(w)) = Len(w)
\* vacuity guard for NotNoNewline: some value does contain a newline in a string
HasNewlineString == \E k \in 1..Len(WireBytes) : WireBytes[k] = 10
====
