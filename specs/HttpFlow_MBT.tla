---- MODULE HttpFlow_MBT ----
(* Export wrapper (binding B1): the labelled transition system of the bounded model, one  *)
(* JSON line per edge.  Metadata records are printed as tuples to keep the export small:  *)
(* <<cap kind, session, region, request_injected, response_injected, can_stream,          *)
(*   from_browser, url class, response class>>.                                           *)
EXTENDS HttpFlow, Json
CONSTANT Depth
Bound == TLCGet("level") <= Depth
E(m) == <<m.cap.k, m.cap.s, m.cap.r, m.rinj, m.pinj, m.stream, m.browser, m.url, m.resp>>
St == [tgt |-> <<tgt.k, tgt.s, tgt.r>>,
       px |-> <<px.phase, px.icpt, E(px.meta)>>,
       fromQ |-> [i \in 1..Len(fromQ) |-> <<fromQ[i].ev, E(fromQ[i].meta)>>],
       toQ |-> [i \in 1..Len(toQ) |-> <<toQ[i].kind, toQ[i].ev, E(toQ[i].meta)>>],
       mf |-> <<mf.ev, mf.taken, mf.resumed, E(mf.meta)>>,
       g |-> <<hb["request"], hb["response"], ap["request"], ap["response"], handled,
               fixed.browser, fixed.rinj, fixed.preempted, fixed.recap, calls, closed>>,
       oth |-> [i \in 1..Len(oth) |-> <<oth[i].r, oth[i].pos, oth[i].q, oth[i].back>>]]
P(act) == PrintT(ToJson([src |-> St, act |-> act, dst |-> St', obs |-> out']))
MInit == Init /\ PrintT(ToJson([init |-> St, obs |-> out]))
MNext == \/ \E b, h \in BOOLEAN : InterceptRequest(b, h) /\ P([n |-> "InterceptRequest", browser |-> b, hdr |-> h])
         \/ \E b \in BOOLEAN : InterceptResponse(b) /\ P([n |-> "InterceptResponse", bridge |-> b])
         \/ \E cfg \in Cfgs : Handle(cfg) /\ P([n |-> "Handle", cfg |-> cfg])
         \/ \E op \in {"take", "resume", "preempt"}, mod \in BOOLEAN :
                AddonCall(op, mod) /\ P([n |-> "AddonCall", op |-> op, mod |-> mod])
         \/ \E bad \in BadApply : Apply(bad) /\ P([n |-> "Apply", bad |-> bad])
         \/ \E s \in CloseSet : SessionCloses(s) /\ P([n |-> "SessionCloses", s |-> s])
         \* IdlePoll is a self-loop at every state: not printed; the harness performs one after
         \* every replayed edge (the real pump sees queue.Empty) before it compares
         \/ IdlePoll
         \/ \E r \in BOOLEAN : EnqueueOther(r) /\ P([n |-> "EnqueueOther", r |-> r])
MSpec == MInit /\ [][MNext]_vars
====
