------------------------------ MODULE NameCache ------------------------------
(***************************************************************************)
(* Growth beyond the listed properties: the avatar name cache               *)
(* (hippolyzer/lib/client/namecache.py NameCache / NameCacheEntry,          *)
(* hippolyzer/lib/proxy/namecache.py ProxyNameCache).                       *)
(*                                                                         *)
(* One entry per avatar id with three independently known fields: legacy    *)
(* first name, legacy last name, display name.  Knowledge arrives in        *)
(* pieces: UUIDNameReply messages (first + last for some ids), responses of *)
(* the GetDisplayNames capability (first + last + display name, the display *)
(* name counting as absent when it is only the default one or empty),       *)
(* NameValue pairs of avatar objects and addons (update() with any subset   *)
(* of the keys).  Clients hold on to entries (Avatar.Name resolves through  *)
(* the entry it was given), so an entry, once handed out, IS the entry for  *)
(* that id from then on.                                                    *)
(*                                                                         *)
(* Bugs: "NoneText" -- the pinned code formats fields it does not know      *)
(* into its texts (legacy name "<first> None" while the last name is        *)
(* unknown, "<display> (None)" while the legacy name is unknown).  With     *)
(* Bugs = {} an unknown part is left out.                                   *)
(***************************************************************************)
EXTENDS Naturals, Sequences, FiniteSets, TLC

CONSTANTS NIds,        \* avatar ids 1..NIds
          Names,       \* name tokens (strings)
          MaxBlocks,   \* blocks per UUIDNameReply / agents per display-names response
          Rich,        \* FALSE: small parameter alphabets
          Bugs

Ids == 1..NIds
NoVal == "-"           \* Python None
ASSUME NoVal \notin Names /\ "" \notin Names

VARIABLES cache,       \* id -> [k (entry exists), f, l, d]
          held         \* ids for which the client holds the entry object (from a lookup that returned one)
vars == <<cache, held>>

Absent == [k |-> FALSE, f |-> NoVal, l |-> NoVal, d |-> NoVal]
Blank == [k |-> TRUE, f |-> NoVal, l |-> NoVal, d |-> NoVal]
Init == cache = [i \in Ids |-> Absent] /\ held = {}

(***************************** the entry's texts ***************************)
Legacy(e) == IF e.f = NoVal THEN NoVal
             ELSE IF e.l = NoVal THEN (IF "NoneText" \in Bugs THEN e.f \o " None" ELSE NoVal)
             ELSE e.f \o " " \o e.l
\* documented order: the display name if there is one, else the legacy name, else nothing
Preferred(e) == IF e.d # NoVal THEN e.d ELSE Legacy(e)
Text(e, id) == IF e.d # NoVal
               THEN (IF Legacy(e) # NoVal THEN e.d \o " (" \o Legacy(e) \o ")"
                     ELSE IF "NoneText" \in Bugs THEN e.d \o " (None)" ELSE e.d)
               ELSE IF Legacy(e) # NoVal THEN Legacy(e)
               ELSE "(???) (#" \o ToString(id) \o ")"
View(id) == LET e == cache[id] IN
            [k |-> e.k, f |-> e.f, l |-> e.l, d |-> e.d, legacy |-> Legacy(e), preferred |-> Preferred(e), text |-> Text(e, id)]

(******************************* updates ***********************************)
\* vals: a function from some of the keys to values; keys it does not name are left alone; an empty (or null)
\* display name means "has none"
Has(vals, key) == key \in DOMAIN vals
Upd(e, vals) ==
    LET b == IF e.k THEN e ELSE Blank IN
    [k |-> TRUE,
     f |-> IF Has(vals, "FirstName") THEN vals["FirstName"] ELSE b.f,
     l |-> IF Has(vals, "LastName") THEN vals["LastName"] ELSE b.l,
     d |-> IF Has(vals, "DisplayName") THEN (IF vals["DisplayName"] \in {"", NoVal} THEN NoVal ELSE vals["DisplayName"]) ELSE b.d]
RECURSIVE ApplyAll(_, _)
ApplyAll(c, ups) == IF ups = <<>> THEN c
                    ELSE ApplyAll([c EXCEPT ![Head(ups).id] = Upd(@, Head(ups).vals)], Tail(ups))

\* NameCache.update(id, vals)
Update(id, vals) == cache' = [cache EXCEPT ![id] = Upd(@, vals)] /\ UNCHANGED held
\* a UUIDNameReply message arrives: blocks <<[id, f, l]>>
BlockVals(b) == [FirstName |-> b.f, LastName |-> b.l]
NameReply(blocks) == /\ cache' = ApplyAll(cache, [j \in 1..Len(blocks) |-> [id |-> blocks[j].id, vals |-> BlockVals(blocks[j])]])
                     /\ UNCHANGED held
\* the response of a GetDisplayNames request passes: agents <<[id, f, l, d, dflt]>>; ids the grid does not know
\* are listed in bad_ids (bad) and carry no information
AgentVals(a) == [FirstName |-> a.f, LastName |-> a.l, DisplayName |-> IF a.dflt THEN NoVal ELSE a.d]
DisplayNames(status, agents, bad) ==
    /\ cache' = IF status = 200 THEN ApplyAll(cache, [j \in 1..Len(agents) |-> [id |-> agents[j].id, vals |-> AgentVals(agents[j])]])
                ELSE cache
    /\ UNCHANGED held
\* NameCache.lookup(id, create_if_none)
LookupFound(id, create) == cache[id].k \/ create
Lookup(id, create) == /\ cache' = IF create /\ ~cache[id].k THEN [cache EXCEPT ![id] = Blank] ELSE cache
                      /\ held' = IF LookupFound(id, create) THEN held \cup {id} ELSE held

(************************** parameter alphabets ****************************)
NamePairs == IF Rich THEN Names \X Names ELSE {p \in Names \X Names : p[1] # p[2]}
Blocks == {[id |-> i, f |-> p[1], l |-> p[2]] : i \in Ids, p \in NamePairs}
Replies == UNION {[1..n -> Blocks] : n \in 1..MaxBlocks}
AnyName == CHOOSE n \in Names : TRUE
OtherName == CHOOSE n \in Names : n # AnyName
DisplayKinds == {<<AnyName, FALSE>>, <<"", FALSE>>, <<OtherName, TRUE>>} \cup (IF Rich THEN {<<OtherName, FALSE>>, <<"", TRUE>>} ELSE {})
AgentPairs == {<<OtherName, AnyName>>}
Agents == {[id |-> i, f |-> p[1], l |-> p[2], d |-> k[1], dflt |-> k[2]] : i \in Ids, p \in AgentPairs, k \in DisplayKinds}
\* small alphabet: two agents are either about different ids or about id 1 in two different ways
AgentLists == UNION {[1..n -> Agents] : n \in 0..(IF MaxBlocks < 1 THEN MaxBlocks ELSE 1)}
              \cup (IF MaxBlocks < 2 THEN {}
                    ELSE {x \in [1..2 -> Agents] : x[1].id < x[2].id \/ (x[1].id = 1 /\ x[2].id = 1 /\ x[1] # x[2])})
Responses == {[status |-> 200, agents |-> as, bad |-> {}] : as \in AgentLists}
             \cup {[status |-> 200, agents |-> as, bad |-> {i}] : as \in {x \in AgentLists : Len(x) <= 1}, i \in (IF Rich THEN Ids ELSE {NIds})}
             \cup {[status |-> 404, agents |-> <<a>>, bad |-> {}] : a \in {x \in Agents : ~x.dflt /\ x.d # ""}}
Fn(S, T) == [S -> T]
UpdVals ==
    IF Rich
    THEN {v \in UNION {Fn(ks, Names \cup {"", NoVal}) : ks \in SUBSET {"FirstName", "LastName", "DisplayName", "Title"}} :
             Has(v, "Title") => v["Title"] = AnyName}
    ELSE {[FirstName |-> AnyName, LastName |-> OtherName], [FirstName |-> OtherName], [LastName |-> AnyName],
          [DisplayName |-> AnyName], [DisplayName |-> OtherName], [DisplayName |-> ""], [DisplayName |-> NoVal], [Title |-> AnyName],
          [DisplayName |-> OtherName, FirstName |-> AnyName, LastName |-> AnyName, Title |-> AnyName]}
\* the environment never reports a legacy name it does not know
GoodVals == {v \in UpdVals : (Has(v, "FirstName") => v["FirstName"] \in Names) /\ (Has(v, "LastName") => v["LastName"] \in Names)
                             /\ (Has(v, "Title") => v["Title"] \in Names)}

Next == \/ \E i \in Ids, v \in GoodVals : Update(i, v)
        \/ \E bs \in Replies : NameReply(bs)
        \/ \E r \in Responses : DisplayNames(r.status, r.agents, r.bad)
        \/ \E i \in Ids, c \in BOOLEAN : Lookup(i, c)
Spec == Init /\ [][Next]_vars

(****************************** properties *********************************)
\* the client only ever holds entries that exist, and entries are never dropped
HeldExist == \A i \in held : cache[i].k
Permanent == [][\A i \in Ids : cache[i].k => cache'[i].k]_vars
\* a legacy name, once known, stays known: no later message erases a first or last name
LegacyNeverErased == [][\A i \in Ids : (cache[i].f # NoVal => cache'[i].f # NoVal) /\ (cache[i].l # NoVal => cache'[i].l # NoVal)]_vars
\* an update touches exactly the fields it names
UpdateFrame == [][\A i \in Ids, v \in GoodVals : Update(i, v) =>
                    /\ \A j \in Ids \ {i} : cache'[j] = cache[j]
                    /\ (~Has(v, "FirstName") => cache'[i].f = cache[i].f)
                    /\ (~Has(v, "LastName") => cache'[i].l = cache[i].l)
                    /\ (~Has(v, "DisplayName") => cache'[i].d = cache[i].d)]_vars
\* a UUIDNameReply says nothing about display names; it creates or changes entries only for the ids it lists
\* (written "consequent \/ ~action" so that TLC evaluates the cheap side first)
ReplyFrame == [][\A bs \in Replies :
                    \/ \A i \in Ids : /\ cache'[i].d = cache[i].d
                                      /\ (i \notin {bs[j].id : j \in 1..Len(bs)} => cache'[i] = cache[i])
                    \/ ~NameReply(bs)]_vars
\* a response that is not a success, or that lists an id only as bad, tells nothing about it
ResponseFrame == [][\A r \in Responses :
                       \/ \A i \in Ids : (r.status # 200 \/ i \notin {r.agents[j].id : j \in 1..Len(r.agents)}) => cache'[i] = cache[i]
                       \/ ~DisplayNames(r.status, r.agents, r.bad)]_vars
\* an id nobody told us about has no entry, unless the caller asks for one to be made
UnknownIsNone == [][\A i \in Ids : Lookup(i, FALSE) => (cache' = cache /\ (~cache[i].k => held' = held))]_vars
\* the fallback order of the texts
Fallback == \A i \in Ids : LET e == cache[i] IN
               /\ (e.d # NoVal => Preferred(e) = e.d)
               /\ (e.d = NoVal => Preferred(e) = Legacy(e))
               /\ (e.f = NoVal => Legacy(e) = NoVal)
               /\ (e.f # NoVal /\ e.l # NoVal => Legacy(e) = e.f \o " " \o e.l)
               /\ ("NoneText" \notin Bugs => (Legacy(e) # NoVal => e.f # NoVal /\ e.l # NoVal))

Obs == [i \in Ids |-> View(i)]
=============================================================================
