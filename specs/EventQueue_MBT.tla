---- MODULE EventQueue_MBT ----
(* Export wrapper (binding B1): one JSON line per edge (action, its OUTPUT = the body the   *)
(* viewer must be handed) and one line per explored state (stuttering step MObs) with the   *)
(* observation.  VIEW: the viewer's delivery log and the ghosts are left out of the graph.  *)
EXTENDS EventQueue, Json
CONSTANT Depth
Bound == TLCGet("level") <= Depth
St == [queue |-> queue, cache |-> cache, regs |-> regs, seen |-> seen, nev |-> nev, sid |-> sid, infl |-> infl,
       vack |-> vack, ninj |-> ninj, ndown |-> ndown]
View == St
MObs == PrintT(ToJson([st |-> St, obs |-> Obs])) /\ UNCHANGED vars
MInit == Init /\ PrintT(ToJson([init |-> St]))
MPollFwd == PollFwd /\ PrintT(ToJson(
    [src |-> St, act |-> [n |-> "Poll", ack |-> vack], out |-> OutPoll, dst |-> St']))
MPollCached(lost) == PollCached(lost) /\ PrintT(ToJson(
    [src |-> St, act |-> [n |-> "Poll", ack |-> vack, lost |-> lost], out |-> OutPoll, dst |-> St']))
MSimRespond(i, sw, lost) == SimRespond(i, sw, lost) /\ PrintT(ToJson(
    [src |-> St, act |-> [n |-> "SimRespond", id |-> sid + 1, batch |-> Batch(i), evs |-> Evs(Batch(i)),
                          swallow |-> {nev + j : j \in sw}, lost |-> lost],
     out |-> OutRespond(Batch(i), sw), dst |-> St']))
MSimFail(kind) == SimFail(kind) /\ PrintT(ToJson([src |-> St, act |-> [n |-> "SimFail", kind |-> kind], out |-> OutFail(kind), dst |-> St']))
MInject == Inject /\ PrintT(ToJson([src |-> St, act |-> [n |-> "Inject", e |-> 901 + ninj], out |-> [k |-> "none"], dst |-> St']))
MTeardown == Teardown /\ PrintT(ToJson([src |-> St, act |-> [n |-> "Teardown"], out |-> [k |-> "none"], dst |-> St']))
MNext == \/ MPollFwd \/ \E lost \in BOOLEAN : MPollCached(lost)
         \/ \E i \in 1..12 : \E sw \in SUBSET (1..3) : \E lost \in BOOLEAN : MSimRespond(i, sw, lost)
         \/ (\E kind \in FailKinds : MSimFail(kind)) \/ MInject \/ MTeardown \/ MObs
MSpec == MInit /\ [][MNext]_vars
====
