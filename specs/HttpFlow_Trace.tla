---- MODULE HttpFlow_Trace ----
(* Binding B2: validates recorded executions of the real code (several flows at once over *)
(* shared queues, generated URLs and bodies, three scripted addons).  One trace per flow.  *)
(* Besides the abstract state, every hand-back carries a digest of the complete request /  *)
(* response pair of the main-process object at the instant of the put (dq), which must be  *)
(* the digest of the proxy-side flow after the item has been applied.                      *)
EXTENDS HttpFlow, Integers, Json, IOUtils, TLCExt
TraceLog == ndJsonDeserialize(IOEnv.TRACE_FILE)
VARIABLES l, tid, dq
tvars == <<vars, l, tid, dq>>

Chk(name, cond) == IF cond THEN TRUE ELSE PrintT(ToJson([fail |-> name, line |-> l, tid |-> tid]))
Env(name, cond) == Assert(cond, <<"driver violated environment assumption", name, l>>)
IsEvent(e) == l <= Len(TraceLog) /\ TraceLog[l].ev = e /\ l' = l + 1
Rec == TraceLog[l]
E(m) == <<m.cap.k, m.cap.s, m.cap.r, m.rinj, m.pinj, m.stream, m.browser, m.url, m.resp>>
NewItems == SubSeq(toQ', Len(toQ) + 1, Len(toQ'))
\* Rec.puts = [[kind, same flow id?, E(main-side meta at the put), digest] ..]
PutsMatch == /\ Len(Rec.puts) = Len(NewItems)
             /\ \A i \in 1..Len(NewItems) : /\ Rec.puts[i][1] = NewItems[i].kind
                                            /\ Rec.puts[i][2] = TRUE
                                            /\ Rec.puts[i][3] = E(NewItems[i].meta)
NewDigests == [i \in 1..Len(NewItems) |-> IF i <= Len(Rec.puts) THEN Rec.puts[i][4] ELSE "?"]

TInit == Init /\ l = 1 /\ tid = -1 /\ dq = <<>>
\* {"ev":"Reset","tid":n} starts a trace; {"ev":"Target","tgt":[kind,s,r]} names the flow's URL
TTarget == /\ IsEvent("Target")
           /\ Env("fresh", px.phase = "start")
           /\ tgt' = [k |-> Rec.tgt[1], s |-> Rec.tgt[2], r |-> Rec.tgt[3]]
           /\ UNCHANGED <<px, fromQ, toQ, mf, hb, ap, handled, fixed, out, calls, tid, dq>>
TReset == /\ IsEvent("Reset")
          /\ UNCHANGED tgt
          /\ px' = [phase |-> "start", icpt |-> FALSE, meta |-> Meta0]
          /\ fromQ' = <<>> /\ toQ' = <<>> /\ mf' = NoFlow
          /\ hb' = [e \in Events |-> 0] /\ ap' = [e \in Events |-> 0] /\ handled' = {}
          /\ fixed' = [browser |-> FALSE, rinj |-> FALSE, preempted |-> FALSE]
          /\ out' = [n |-> "init", exc |-> FALSE, res |-> "ok"]
          /\ calls' = 0 /\ dq' = <<>> /\ tid' = Rec.tid
\* {"ev":"InterceptRequest","browser":b,"hdr":b,"q":[event type, E(meta of the queued state)]}
TIReq == /\ IsEvent("InterceptRequest")
         /\ Env("start", px.phase = "start")
         /\ InterceptRequest(Rec.browser, Rec.hdr)
         /\ Chk("InterceptRequest.queued", Rec.q = <<"request", E(fromQ'[Len(fromQ')].meta)>>)
         /\ UNCHANGED <<tid, dq>>
TIResp == /\ IsEvent("InterceptResponse")
          /\ Env("mid", px.phase = "mid" /\ ~px.icpt /\ toQ = <<>> /\ ~(px.meta.pinj /\ AssetKind(px.meta.cap.k))
                        /\ (Rec.bridge => ~px.meta.pinj))
          /\ InterceptResponse(Rec.bridge)
          /\ Chk("InterceptResponse.queued", Rec.q = <<"response", E(fromQ'[Len(fromQ')].meta)>>)
          /\ UNCHANGED <<tid, dq>>
\* {"ev":"Handle","cfg":{..},"puts":[..],"mf":[taken,resumed,E(meta)]}
THandle == /\ IsEvent("Handle")
           /\ Env("queued", fromQ # <<>>)
           /\ HandleBody(Rec.cfg)
           /\ Chk("Handle.handed-back", PutsMatch)
           /\ Chk("Handle.flow", Rec.mf = <<mf'.taken, mf'.resumed, E(mf'.meta)>>)
           /\ Chk("Handle.exactly-once", hb'[mf'.ev] = 1 \/ (hb'[mf'.ev] = 0 /\ Rec.mf[1] /\ ~Rec.mf[2]))
           /\ dq' = dq \o NewDigests
           /\ UNCHANGED tid
\* {"ev":"AddonCall","op":..,"mod":b,"res":"ok"|"assert","puts":[..],"mf":[..]}
TCall == /\ IsEvent("AddonCall")
         /\ Env("held", mf.ev # "none" /\ (Rec.mod => Rec.op = "resume" /\ mf.taken))
         /\ AddonCall(Rec.op, Rec.mod)
         /\ Chk("AddonCall.result", Rec.res = out'.res)
         /\ Chk("AddonCall.handed-back", PutsMatch)
         /\ Chk("AddonCall.flow", Rec.mf = <<mf'.taken, mf'.resumed, E(mf'.meta)>>)
         /\ dq' = dq \o NewDigests
         /\ UNCHANGED tid
\* {"ev":"Apply","bad":b,"item":[kind,E(meta)],"px":[intercepted,E(meta)],"pd":digest}
TApply == /\ IsEvent("Apply")
          /\ Env("item", toQ # <<>> /\ (Rec.bad => Head(toQ).kind = "callback"))
          /\ Apply(Rec.bad)
          /\ Chk("Apply.item", Rec.item = <<Head(toQ).kind, E(Head(toQ).meta)>>)
          /\ Chk("Apply.resumed", Rec.px[1] = px'.icpt)
          /\ (~Rec.bad => Chk("Apply.metadata-intact", Rec.px[2] = E(px'.meta)))
          /\ (~Rec.bad => Chk("Apply.state-intact", Len(dq) > 0 /\ Rec.pd = Head(dq)))
          /\ dq' = IF Len(dq) > 0 THEN Tail(dq) ELSE dq
          /\ UNCHANGED tid
TNext == TReset \/ TTarget \/ TIReq \/ TIResp \/ THandle \/ TCall \/ TApply
TraceSpec == TInit /\ [][TNext]_tvars
TraceAccepted == PrintT("TRACE_REACHED " \o ToString(TLCGet("stats").diameter - 1) \o " OF " \o ToString(Len(TraceLog)))
====
