---- MODULE HttpFlow_Trace ----
(* Binding B2: validates recorded executions of the real code (several flows at once over *)
(* shared queues, generated URLs and bodies, three scripted addons).  One trace per flow.  *)
(* Besides the abstract state, every hand-back carries a digest of the complete request /  *)
(* response pair of the main-process object at the instant of the put (dq), which must be  *)
(* the digest of the proxy-side flow after the item has been applied.                      *)
(* Once a check of a trace has failed the implementation and the model may have parted     *)
(* ways, so the rest of that trace is consumed unchecked (broken) -- the failure is what    *)
(* gets reported, not a follow-up environment mismatch.                                    *)
EXTENDS HttpFlow, Integers, Json, IOUtils, TLCExt
TraceLog == ndJsonDeserialize(IOEnv.TRACE_FILE)
VARIABLES l, tid, dq, broken
tvars == <<vars, l, tid, dq, broken>>

Chk(name, cond) == IF cond THEN TRUE ELSE PrintT(ToJson([fail |-> name, line |-> l, tid |-> tid]))
Env(name, cond) == Assert(cond, <<"driver violated environment assumption", name, l>>)
IsEvent(e) == l <= Len(TraceLog) /\ TraceLog[l].ev = e /\ l' = l + 1
Rec == TraceLog[l]
E(m) == <<m.cap.k, m.cap.s, m.cap.r, m.rinj, m.pinj, m.stream, m.browser, m.url, m.resp>>
NewItems == SubSeq(toQ', Len(toQ) + 1, Len(toQ'))
\* Rec.puts = [[kind, same flow id?, E(main-side meta at the put), digest] ..]
PutsMatch == /\ Len(Rec.puts) = Len(NewItems)
             /\ \A i \in 1..Len(NewItems) : /\ Rec.puts[i][1] = NewItems[i].kind
                                            /\ Rec.puts[i][2] = TRUE
                                            /\ Rec.puts[i][3] = E(NewItems[i].meta)
NewDigests == [i \in 1..Len(NewItems) |-> IF i <= Len(Rec.puts) THEN Rec.puts[i][4] ELSE "?"]

TInit == Init /\ l = 1 /\ tid = -1 /\ dq = <<>> /\ broken = FALSE
Skip == UNCHANGED <<vars, tid, dq, broken>>
\* {"ev":"Reset","tid":n} starts a trace; {"ev":"Target","tgt":[kind,s,r]} names the flow's URL
TTarget == /\ IsEvent("Target")
           /\ Env("fresh", px.phase = "start")
           /\ tgt' = [k |-> Rec.tgt[1], s |-> Rec.tgt[2], r |-> Rec.tgt[3]]
           /\ UNCHANGED <<px, fromQ, toQ, mf, hb, ap, handled, fixed, out, calls, closed, oth, tid, dq, broken>>
TReset == /\ IsEvent("Reset")
          /\ UNCHANGED tgt
          /\ px' = [phase |-> "start", icpt |-> FALSE, meta |-> Meta0]
          /\ fromQ' = <<>> /\ toQ' = <<>> /\ mf' = NoFlow
          /\ hb' = [e \in Events |-> 0] /\ ap' = [e \in Events |-> 0] /\ handled' = {}
          /\ fixed' = [browser |-> FALSE, rinj |-> FALSE, preempted |-> FALSE, recap |-> FALSE]
          /\ out' = [n |-> "init", exc |-> FALSE, res |-> "ok"]
          /\ calls' = 0 /\ closed' = {} /\ oth' = <<>> /\ dq' = <<>> /\ tid' = Rec.tid /\ broken' = FALSE
\* {"ev":"InterceptRequest","browser":b,"hdr":b,"q":[event type, E(meta of the queued state)]}
TIReq == /\ IsEvent("InterceptRequest")
         /\ IF broken THEN Skip ELSE
            /\ Env("start", px.phase = "start")
            /\ InterceptRequest(Rec.browser, Rec.hdr)
            /\ LET c == Rec.q = <<"request", E(fromQ'[Len(fromQ')].meta)>> IN
                 Chk("InterceptRequest.queued", c) /\ broken' = ~c
            /\ UNCHANGED <<tid, dq>>
TIResp == /\ IsEvent("InterceptResponse")
          /\ IF broken THEN Skip ELSE
             /\ Env("mid", px.phase = "mid" /\ ~px.icpt /\ toQ = <<>> /\ ~(px.meta.pinj /\ AssetKind(px.meta.cap.k))
                           /\ (Rec.bridge => ~px.meta.pinj))
             /\ InterceptResponse(Rec.bridge)
             /\ LET c == Rec.q = <<"response", E(fromQ'[Len(fromQ')].meta)>> IN
                  Chk("InterceptResponse.queued", c) /\ broken' = ~c
             /\ UNCHANGED <<tid, dq>>
\* {"ev":"Handle","cfg":{..},"puts":[..],"mf":[taken,resumed,E(meta)]}
THandle == /\ IsEvent("Handle")
           /\ IF broken THEN Skip ELSE
              /\ Env("queued", fromQ # <<>>)
              /\ HandleBody(Rec.cfg)
              /\ LET c1 == PutsMatch
                     c2 == Rec.mf = <<mf'.taken, mf'.resumed, E(mf'.meta)>>
                     c3 == Len(Rec.puts) = 1 \/ (Len(Rec.puts) = 0 /\ Len(Rec.mf) = 3 /\ Rec.mf[1] /\ ~Rec.mf[2])
                 IN /\ Chk("Handle.exactly-once", c3)
                    /\ Chk("Handle.handed-back", c1)
                    /\ Chk("Handle.flow", c2)
                    /\ broken' = ~(c1 /\ c2 /\ c3)
              /\ dq' = dq \o NewDigests
              /\ UNCHANGED tid
\* {"ev":"AddonCall","op":..,"mod":b,"res":"ok"|"assert","puts":[..],"mf":[..]}
TCall == /\ IsEvent("AddonCall")
         /\ IF broken THEN Skip ELSE
            /\ Env("held", mf.ev # "none" /\ (Rec.mod => Rec.op = "resume" /\ mf.taken))
            /\ AddonCall(Rec.op, Rec.mod)
            /\ LET c1 == Rec.res = out'.res
                   c2 == PutsMatch
                   c3 == Rec.mf = <<mf'.taken, mf'.resumed, E(mf'.meta)>>
               IN /\ Chk("AddonCall.result", c1)
                  /\ Chk("AddonCall.handed-back", c2)
                  /\ Chk("AddonCall.flow", c3)
                  /\ broken' = ~(c1 /\ c2 /\ c3)
            /\ dq' = dq \o NewDigests
            /\ UNCHANGED tid
\* {"ev":"Apply","bad":b,"item":[kind,E(meta)],"px":[intercepted,E(meta)],"pd":digest}
TApply == /\ IsEvent("Apply")
          /\ IF broken THEN Skip ELSE
             /\ Env("item", toQ # <<>> /\ (Rec.bad => Head(toQ).kind = "callback"))
             /\ Apply(Rec.bad)
             /\ LET c1 == Rec.item = <<Head(toQ).kind, E(Head(toQ).meta)>>
                    c2 == Rec.px[1] = px'.icpt
                    c3 == Rec.bad \/ Rec.px[2] = E(px'.meta)
                    c4 == Rec.bad \/ (Len(dq) > 0 /\ Rec.pd = Head(dq))
                IN /\ Chk("Apply.item", c1)
                   /\ Chk("Apply.resumed", c2)
                   /\ Chk("Apply.metadata-intact", c3)
                   /\ Chk("Apply.state-intact", c4)
                   /\ broken' = ~(c1 /\ c2 /\ c3 /\ c4)
             /\ dq' = IF Len(dq) > 0 THEN Tail(dq) ELSE dq
             /\ UNCHANGED tid
\* {"ev":"SessionCloses","s":n,"mf":[taken,resumed,E(meta)] or []}: at any time, for every flow of the world
TClose == /\ IsEvent("SessionCloses")
          /\ IF broken THEN Skip ELSE
             /\ Env("open", Rec.s \notin closed)
             /\ CloseBody(Rec.s)
             /\ LET c == mf.ev = "none" \/ Rec.mf = <<mf'.taken, mf'.resumed, E(mf'.meta)>> IN
                  Chk("SessionCloses.flow", c) /\ broken' = ~c
             /\ UNCHANGED <<tid, dq>>
\* {"ev":"IdlePoll","px":[intercepted,E(meta)]}: the real pump saw queue.Empty; logged for every started flow
TIdle == /\ IsEvent("IdlePoll")
         /\ IF broken THEN Skip ELSE
            /\ IdlePoll
            /\ LET c == Rec.px = <<px.icpt, E(px.meta)>> IN
                 Chk("IdlePoll.nothing-changes", c) /\ broken' = ~c
            /\ UNCHANGED <<tid, dq>>
TNext == TIdle \/ TReset \/ TTarget \/ TIReq \/ TIResp \/ THandle \/ TCall \/ TApply \/ TClose
TraceSpec == TInit /\ [][TNext]_tvars
TraceAccepted == PrintT("TRACE_REACHED " \o ToString(TLCGet("stats").diameter - 1) \o " OF " \o ToString(Len(TraceLog)))
====
