------------------------------ MODULE PassThrough ------------------------------
(***************************************************************************)
(* C02 -- life cycle of a RECEIVED message between arrival and re-encoding. *)
(*                                                                         *)
(*   raw     the body is kept as it arrived, nothing was parsed            *)
(*   parsed  the body was parsed into blocks (eagerly on arrival, or       *)
(*           lazily at the first inspection of the body)                   *)
(*   failed  an inspection of the body was attempted and the parse failed  *)
(*   refused eager parsing failed on arrival: there is no message          *)
(*                                                                         *)
(* Spec layer: Allowed(s, o) -- what the property demands of a re-encoding *)
(*   o in life-cycle state s -- is stated with the format operators of     *)
(*   LLUDPFrame only (Parse, CanonicalZ); which inspections happened       *)
(*   before is irrelevant to it.                                           *)
(* Design layer: DesignOut -- keep the raw body until a successful parse,  *)
(*   afterwards re-assemble from the parse INCLUDING unknown trailing      *)
(*   bytes; after a failed parse the raw body is still there.  TLC checks  *)
(*   the design against the Spec layer for every datagram of a bounded     *)
(*   universe and every order of inspections (PassThrough_MC).  The two    *)
(*   switches transcribe what the pinned code does instead; with either    *)
(*   set to TRUE TLC produces the counterexample (found defects D3 and     *)
(*   "trailing bytes dropped").                                            *)
(* Conformance of the real code is always judged against Allowed           *)
(* (PassThrough_Trace), never against DesignOut.                           *)
(***************************************************************************)
EXTENDS LLUDPFrame
CONSTANTS DropsRest, DropsRawOnFail
VARIABLES T,     \* template selected by the header
          d,     \* the datagram as it arrived
          mode,  \* "eager" | "deferred" body parsing
          st,    \* life-cycle state
          hist,  \* inspections / re-encodings so far (bounded models only)
          out    \* last observation
vars == <<T, d, mode, st, hist, out>>

P == Parse(T, d)
Live == st \in {"raw", "parsed", "failed"}

\* ----------------------------------------------------------------- Spec layer
SameMessage(o) == /\ HeaderFor(T, o)
                  /\ LET q == Parse(T, o) IN q.status = "ok" /\ DecodedMsg(q) = DecodedMsg(P)
Allowed(s, o) ==
    CASE s \in {"raw", "failed"} -> o = d                       \* never parsed / failed parse: byte-identical
      [] s = "parsed" -> /\ CanonicalZ(d) => o = d              \* canonical zero-coding: byte-identical
                         /\ P.status = "ok" => SameMessage(o)   \* always: decodes to the same message
\* which outcome of a parse attempt is acceptable ("empty" / "open" bodies are left open)
MayParse(t, dg) == Parse(t, dg).status # "fail"
MayFail(t, dg) == Parse(t, dg).status # "ok"
\* a datagram whose body parses is never refused; eager parsing never hands out an unparseable one
ReceiveOK(t, dg, md, acc) == (~acc => MayFail(t, dg)) /\ ((acc /\ md = "eager") => MayParse(t, dg))
BodyOK(res) == CASE st = "raw" -> (res = "ok" => MayParse(T, d)) /\ (res = "raise" => MayFail(T, d))
                 [] st = "parsed" -> res = "ok"
                 [] st = "failed" -> TRUE      \* what a second look at a broken body does is not constrained

\* ------------------------------------------------------------------- actions
Receive(t, dg, md, acc) ==
    /\ T' = t /\ d' = dg /\ mode' = md
    /\ st' = IF ~acc THEN "refused" ELSE IF md = "eager" THEN "parsed" ELSE "raw"
    /\ hist' = <<>> /\ out' = [op |-> "recv"]
HeaderView == LET h == Hdr(d) IN [flags |-> h.flags, pid |-> h.pid, acks |-> h.acks, idok |-> Ident(h).ok,
                                  extra |-> IF Ident(h).ok THEN Ident(h).extra ELSE <<>>]
InspectHeader == /\ Live /\ UNCHANGED <<T, d, mode, st>>
                 /\ out' = [op |-> "H", hd |-> HeaderView]
InspectBody(res) == /\ Live /\ UNCHANGED <<T, d, mode>>
                    /\ st' = IF st = "raw" THEN (IF res = "ok" THEN "parsed" ELSE "failed") ELSE st
                    /\ out' = [op |-> "B", res |-> res]
Reencode(res, o) == /\ Live /\ UNCHANGED <<T, d, mode, st>>
                    /\ out' = [op |-> "R", res |-> res, o |-> o]

\* --------------------------------------------------------------- Design layer
DesignOut ==
    CASE st = "raw" -> [res |-> "ok", o |-> d]
      [] st = "failed" -> IF DropsRawOnFail THEN [res |-> "raise", o |-> <<>>] ELSE [res |-> "ok", o |-> d]
      [] st = "parsed" -> [res |-> "ok",
                           o |-> IF P.status \in {"ok", "empty"}
                                 THEN (IF DropsRest THEN Datagram(T, DecodedMsg(P)) ELSE Reassemble(T, P))
                                 ELSE d]
\* the property, as an invariant of the design
Faithful == out.op = "R" => (out.res = "ok" /\ Allowed(st, out.o))
=============================================================================
