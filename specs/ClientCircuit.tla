--------------------------- MODULE ClientCircuit ---------------------------
(***************************************************************************)
(* C19 -- one circuit of a client endpoint (hippolyzer/lib/client/          *)
(* hippo_client.py: HippoClientProtocol.datagram_received; lib/base/        *)
(* message/circuit.py: Circuit.send/send_reliable/collect_acks/             *)
(* resend_unacked/send_acks/track_reliable/prepare_message).                *)
(*                                                                         *)
(* Receive side: every reliable packet is acknowledged every time it        *)
(* arrives; its message reaches every subscriber only the first time;       *)
(* unreliable packets always reach every subscriber.                        *)
(* Send side: a reliable send is pending until an acknowledgement carrying  *)
(* its packet ID arrives from the peer (appended ack or PacketAck body --    *)
(* the spec sees only the SET of acknowledged IDs, so both forms mean the    *)
(* same), or until its transmission budget is spent.  Packet IDs issued by   *)
(* the endpoint are strictly increasing; WHICH larger ID is taken is the     *)
(* implementation's choice (a parameter of the actions, bound to the         *)
(* observed ID in traces, to lastId+1 in the bounded model).                 *)
(*                                                                         *)
(* Subscribers: besides the permanent by-name and wildcard subscribers at     *)
(* session and region level, further subscribers of the same message name    *)
(* may be registered at either level at any time, after the permanent one:    *)
(* permanent ones, and three self-removing kinds (one_shot subscription,       *)
(* handler returning True, MessageHandler.wait_for()).  Every live subscriber  *)
(* receives every new matching message exactly once WHATEVER the others do     *)
(* during the dispatch; a self-removing one receives exactly the first         *)
(* matching message after its registration.  (Called/IterateLive transcribe    *)
(* the dispatch loop of Event.notify; DispatchReachesAll is the law.)          *)
(*                                                                         *)
(* De-duplication memory: the endpoint remembers the last Window distinct    *)
(* reliable packet IDs (seen: a queue, oldest first; a new ID pushes the       *)
(* oldest out when it is full).  A duplicate of a remembered ID is never       *)
(* dispatched again.  What happens to a duplicate of an ID that has been       *)
(* pushed out is LEFT OPEN (parameter redeliver of Recv, bound to what was     *)
(* observed): it may be dispatched again -- it then re-enters the memory as    *)
(* the newest -- or an endpoint with a longer memory may suppress it.          *)
(*                                                                         *)
(* Ping: the peer's StartPingCheck announces `oldest`, the oldest reliable      *)
(* packet ID it still may retransmit (a truthful peer: one whose ack it has      *)
(* not seen, or its next unsent ID; the environment may also say anything).      *)
(* The endpoint answers every ping with one CompletePingCheck.  The announce-     *)
(* ment RELEASES the endpoint from remembering IDs below it (floor = the          *)
(* highest announcement): a duplicate of such an ID contradicts the peer's own    *)
(* word and what happens to it is left open, like a duplicate of an ID pushed     *)
(* out of the memory.  For every other remembered ID -- in particular for         *)
(* `oldest` itself, the one the peer IS still retransmitting -- dispatch-once     *)
(* stands unchanged.                                                              *)
(*                                                                         *)
(* Life of the circuit: `alive` is "pending" when the endpoint has created    *)
(* the circuit but the handshake is not finished (HippoClientSession.           *)
(* open_circuit: is_alive = False), "alive" after it (connect() sets it once    *)
(* UseCircuitCode is acked; a bare Circuit starts like this), "dead" after      *)
(* disconnect().  Reception -- acknowledging, de-duplicating, dispatching --    *)
(* and sending do NOT depend on pending/alive: every reliable packet that       *)
(* arrives is acknowledged each time from the first datagram on.  For a dead    *)
(* circuit the property says nothing; the spec transcribes the unchanged code   *)
(* as an ASSUMPTION: pending sends are orphaned (never complete, never fail,     *)
(* never resent), packet IDs start over, reception goes on as before; no send    *)
(* or clock step is driven on a dead circuit.                                    *)
(*                                                                         *)
(* Layers: pend/seen are the mechanism (unacked table with tries/age,        *)
(* dedupe memory); rR..dU, ackedSince, xmits, relIssued, ids are ghost       *)
(* history variables in which the invariants restate the property.           *)
(***************************************************************************)
EXTENDS Integers, Sequences, FiniteSets, TLC

CONSTANTS Budget,      \* transmissions allowed for one reliable send (code: tries_left = 10)
          Every,       \* resend period in clock units (code: resend_every = 3.0 s; unit = ms)
          Window,      \* size of the de-duplication memory (code: Circuit.seen_reliable.maxlen = 1000)
          IterateLive  \* FALSE: dispatch walks a snapshot of the subscriber list (the code); TRUE: the live list

VARIABLES seen,        \* de-duplication memory: the last <= Window distinct inbound reliable packet IDs, oldest first
          evN,         \* ghost, per inbound reliable pid: how often it was pushed out of the memory
          rR, aR, dR,  \* ghost, per inbound reliable pid: receipts, acks emitted, deliveries per subscriber
          rU, dU,      \* ghost, per inbound unreliable pid: receipts, deliveries per subscriber
          pend,        \* set of [id, tries, age]: reliable sends awaiting an acknowledgement
          done,        \* ids of reliable sends completed by an acknowledgement
          failed,      \* ids of reliable sends failed by exhaustion of the budget
          relIssued,   \* ghost: ids of all reliable sends
          ackedSince,  \* ghost: ids of reliable sends for which an ack arrived while they were pending
          xmits,       \* ghost: set of <<id, number of transmissions>>
          ids,         \* ghost: sequence of every packet ID issued, in order of issue
          lastId,      \* highest packet ID issued (-1: none)
          alive,       \* "pending" | "alive" | "dead"
          abandoned,   \* ids of reliable sends orphaned by disconnect(): their futures stay pending for ever
          epoch,       \* ghost: Len(ids) at the disconnect (packet IDs start over there), 0 before
          floor,       \* highest `oldest` announced by a StartPingCheck (0: none): IDs below it are released
          pongs,       \* ghost: number of pings answered
          openSeen,    \* ghost: inbound reliable pids that had a receipt whose dispatch was left open
          subs,        \* per level: the subscribers registered after the permanent one, <<[k |-> kind, live |-> BOOLEAN]..>>
          out          \* observable output of the last step

vars == <<seen, evN, rR, aR, dR, rU, dU, pend, done, failed, relIssued, ackedSince, xmits, ids, lastId, alive, abandoned, epoch, floor, pongs, openSeen, subs, out>>
core == <<seen, evN, rR, aR, dR, rU, dU, pend, done, failed, relIssued, ackedSince, xmits, ids, lastId, alive, abandoned, epoch, floor, pongs, openSeen, subs>>
aux == <<floor, pongs, openSeen>>
life == <<alive, abandoned, epoch>>

Get(f, k) == IF k \in DOMAIN f THEN f[k] ELSE 0
Inc(f, k, n) == [x \in DOMAIN f \cup {k} |-> IF x = k THEN Get(f, k) + n ELSE f[x]]
PendIds == {e.id : e \in pend}
Range(q) == {q[i] : i \in DOMAIN q}
Remembered(p) == p \in Range(seen)
EverSeen(p) == p \in DOMAIN rR
\* p becomes the newest remembered ID; the oldest one falls out of a full memory
\* (a released ID that is dispatched again moves to the newest place)
Without(q, p) == SelectSeq(q, LAMBDA x : x # p)
Admit(q, p) == IF Len(Without(q, p)) >= Window THEN Append(Tail(Without(q, p)), p) ELSE Append(Without(q, p), p)
Evicts(q, p) == IF Len(Without(q, p)) >= Window THEN {Head(Without(q, p))} ELSE {}
Xm(id) == (CHOOSE x \in xmits : x[1] = id)[2]
Levels == {"sess", "reg"}
\* "once", "retTrue", "waitfor" remove themselves when they are called; "asyncq" is a subscribe_async() consumer: its
\* messages are parked in a queue (field q) until it drains them -- a SLOW consumer still gets every one, once, in order
Kinds == {"perm", "once", "retTrue", "waitfor", "asyncq"}
SelfRemoving(k) == k \in {"once", "retTrue", "waitfor"}
NoCalls == [l \in Levels |-> [i \in 1..Len(subs[l]) |-> 0]]
NoOut == [acks |-> <<>>, drained |-> <<>>, deliver |-> FALSE, byname |-> TRUE, pong |-> FALSE, open |-> FALSE, tx |-> {}, completed |-> {}, failed |-> {}, calls |-> NoCalls]

\* --- the dispatch loop (Event.notify) over the live extra subscribers of one level ---
\* positions (in subs[l]) of the subscribers that are called when one message is dispatched
LivePos(ss) == SelectSeq([i \in 1..Len(ss) |-> i], LAMBDA i : ss[i].live)
RemoveAt(q, i) == SubSeq(q, 1, i - 1) \o SubSeq(q, i + 1, Len(q))
RECURSIVE WalkLive(_, _, _, _)
WalkLive(ss, q, i, called) ==           \* q: live list (positions), mutated while it is walked by index
    IF i > Len(q) THEN called
    ELSE IF SelfRemoving(ss[q[i]].k) THEN WalkLive(ss, RemoveAt(q, i), i + 1, called \cup {q[i]})
    ELSE WalkLive(ss, q, i + 1, called \cup {q[i]})
Called(ss) == IF IterateLive THEN WalkLive(ss, LivePos(ss), 1, {})
              ELSE {i \in 1..Len(ss) : ss[i].live}          \* a snapshot is walked: removals do not disturb it
\* what the property demands: every live subscriber, once
MustCall(ss) == {i \in 1..Len(ss) : ss[i].live}
Dispatch(deliver, match, pid) ==
    IF deliver /\ match
    THEN /\ subs' = [l \in Levels |-> [i \in 1..Len(subs[l]) |->
                        IF subs[l][i].live /\ SelfRemoving(subs[l][i].k) THEN [subs[l][i] EXCEPT !.live = FALSE]
                        ELSE IF subs[l][i].live /\ subs[l][i].k = "asyncq" THEN [subs[l][i] EXCEPT !.q = Append(@, pid)]
                        ELSE subs[l][i]]]
    ELSE UNCHANGED subs
CallsOf(deliver, match) == [l \in Levels |-> [i \in 1..Len(subs[l]) |->
                               \* (a parked message is not a call the harness can see: it shows when the queue is drained)
                               IF deliver /\ match /\ i \in MustCall(subs[l]) /\ subs[l][i].k # "asyncq" THEN 1 ELSE 0]]

InitWith(a) ==
        /\ alive = a /\ abandoned = {} /\ epoch = 0 /\ floor = 0 /\ pongs = 0 /\ openSeen = {}
        /\ seen = <<>> /\ evN = <<>> /\ rR = <<>> /\ aR = <<>> /\ dR = <<>> /\ rU = <<>> /\ dU = <<>>
        /\ pend = {} /\ done = {} /\ failed = {} /\ relIssued = {} /\ ackedSince = {} /\ xmits = {}
        /\ ids = <<>> /\ lastId = -1 /\ subs = [l \in Levels |-> <<>>] /\ out = NoOut
Init == InitWith("pending")       \* as the client endpoint creates its circuits

(* The handshake completes (connect(): is_alive = True).  Nothing observable happens.        *)
GoAlive == /\ alive = "pending" /\ alive' = "alive"
           /\ UNCHANGED <<seen, evN, rR, aR, dR, rU, dU, pend, done, failed, relIssued, ackedSince, xmits, ids, lastId, abandoned, epoch, subs, aux>>
           /\ out' = NoOut
(* disconnect() -- the unchanged code, as an assumption: pending sends are orphaned, IDs start over. *)
Disconnect == /\ alive # "dead" /\ alive' = "dead"
              /\ abandoned' = abandoned \cup PendIds /\ pend' = {}
              /\ lastId' = -1 /\ epoch' = Len(ids)
              /\ UNCHANGED <<seen, evN, rR, aR, dR, rU, dU, done, failed, relIssued, ackedSince, xmits, ids, subs, aux>>
              /\ out' = NoOut

(* A datagram from the peer: packet ID p, reliable flag rel, carrying the set `acks` of      *)
(* acknowledged IDs (in whichever form).  aid = the packet ID the endpoint gives to the     *)
(* acknowledgement it emits (only meaningful when rel).  match = the message has the name    *)
(* the extra subscribers subscribed to (the permanent by-name ones take both names used).    *)
(* redeliver = what the endpoint does with a duplicate of an ID it no longer has to remember. *)
Recv(p, rel, acks, aid, match, redeliver) ==
    LET hit == acks \cap PendIds
        \* pushed out of the memory, or released by the peer's own announcement: open
        forgotten == EverSeen(p) /\ (~Remembered(p) \/ p < floor)
        deliver == ~EverSeen(p) \/ (forgotten /\ redeliver)
        pushed == IF deliver THEN Evicts(seen, p) ELSE {}
        again == deliver /\ Remembered(p) IN                    \* a released, still remembered ID dispatched again
    /\ pend' = {e \in pend : e.id \notin hit}
    /\ done' = done \cup hit
    /\ ackedSince' = ackedSince \cup hit
    /\ UNCHANGED <<failed, relIssued, xmits, life, floor, pongs>>
    /\ openSeen' = IF rel /\ forgotten THEN openSeen \cup {p} ELSE openSeen
    /\ IF rel
       THEN /\ aid > lastId
            /\ lastId' = aid /\ ids' = Append(ids, aid)
            /\ seen' = IF deliver THEN Admit(seen, p) ELSE seen
            /\ evN' = LET e1 == IF pushed # {} THEN Inc(evN, CHOOSE h \in pushed : TRUE, 1) ELSE evN IN
                       IF again THEN Inc(e1, p, 1) ELSE e1
            /\ rR' = Inc(rR, p, 1) /\ aR' = Inc(aR, p, 1)
            /\ dR' = Inc(dR, p, IF deliver THEN 1 ELSE 0)
            /\ UNCHANGED <<rU, dU>>
            /\ Dispatch(deliver, match, p)
            /\ out' = [acks |-> <<p>>, drained |-> <<>>, deliver |-> deliver, byname |-> TRUE, pong |-> FALSE, open |-> forgotten, tx |-> {}, completed |-> hit, failed |-> {},
                       calls |-> CallsOf(deliver, match)]
       ELSE /\ rU' = Inc(rU, p, 1) /\ dU' = Inc(dU, p, 1)
            /\ UNCHANGED <<seen, evN, rR, aR, dR, lastId, ids>>
            /\ Dispatch(TRUE, match, p)
            /\ out' = [acks |-> <<>>, drained |-> <<>>, deliver |-> TRUE, byname |-> TRUE, pong |-> FALSE, open |-> FALSE, tx |-> {}, completed |-> hit, failed |-> {}, calls |-> CallsOf(TRUE, match)]

(* StartPingCheck(OldestUnacked = oldest) from the peer: an unreliable packet of its own name (only    *)
(* wildcard subscribers see it); the endpoint answers with one CompletePingCheck taking ID cid.       *)
Ping(oldest, cid) ==
    /\ cid > lastId
    /\ lastId' = cid /\ ids' = Append(ids, cid)
    /\ floor' = IF oldest > floor THEN oldest ELSE floor
    /\ pongs' = pongs + 1
    /\ UNCHANGED <<seen, evN, rR, aR, dR, rU, dU, pend, done, failed, relIssued, ackedSince, xmits, subs, life, openSeen>>
    /\ out' = [NoOut EXCEPT !.deliver = TRUE, !.byname = FALSE, !.pong = TRUE,
                            !.tx = {[id |-> cid, rel |-> FALSE, resent |-> FALSE]}]

(* The slow consumer i of level l finally reads its queue: it gets everything parked for it, in order.   *)
Drain(l, i) ==
    /\ i \in 1..Len(subs[l]) /\ subs[l][i].k = "asyncq" /\ subs[l][i].live
    /\ subs' = [subs EXCEPT ![l][i].q = <<>>]
    /\ UNCHANGED <<seen, evN, rR, aR, dR, rU, dU, pend, done, failed, relIssued, ackedSince, xmits, ids, lastId, life, aux>>
    /\ out' = [NoOut EXCEPT !.drained = subs[l][i].q]

(* A further subscriber of kind k is registered at level l (after everything registered there before). *)
Subscribe(l, k) ==
    /\ alive # "dead"
    /\ subs' = [subs EXCEPT ![l] = Append(@, [k |-> k, live |-> TRUE, q |-> <<>>])]
    /\ UNCHANGED <<seen, evN, rR, aR, dR, rU, dU, pend, done, failed, relIssued, ackedSince, xmits, ids, lastId, life, aux>>
    /\ out' = [NoOut EXCEPT !.calls = [ll \in Levels |-> [i \in 1..Len(subs'[ll]) |-> 0]]]

(* A datagram from an address that is not the peer's: whatever it carries, nothing happens. *)
Stray == /\ UNCHANGED core /\ out' = NoOut

(* send_reliable(): the endpoint takes packet ID id for a new reliable message.             *)
SendRel(id) ==
    /\ alive # "dead"
    /\ id > lastId
    /\ lastId' = id /\ ids' = Append(ids, id)
    /\ pend' = pend \cup {[id |-> id, tries |-> Budget, age |-> 0]}
    /\ relIssued' = relIssued \cup {id}
    /\ xmits' = xmits \cup {<<id, 1>>}
    /\ UNCHANGED <<seen, evN, rR, aR, dR, rU, dU, done, failed, ackedSince, subs, life, aux>>
    /\ out' = [NoOut EXCEPT !.tx = {[id |-> id, rel |-> TRUE, resent |-> FALSE]}]

(* send() of an unreliable message: takes an ID, nothing to track.                          *)
SendUnrel(id) ==
    /\ alive # "dead"
    /\ id > lastId
    /\ lastId' = id /\ ids' = Append(ids, id)
    /\ UNCHANGED <<seen, evN, rR, aR, dR, rU, dU, pend, done, failed, relIssued, ackedSince, xmits, subs, life, aux>>
    /\ out' = [NoOut EXCEPT !.tx = {[id |-> id, rel |-> FALSE, resent |-> FALSE]}]

(* The clock advances by d and the resend pass runs: every pending send whose last          *)
(* transmission is at least Every old either is retransmitted (same ID, marked resent) or,  *)
(* if that would exceed the budget, fails.                                                  *)
Due(e, d) == e.age + d >= Every
Tick(d) ==
    LET due == {e \in pend : Due(e, d)}
        dead == {e \in due : e.tries = 1}
        again == due \ dead IN
    /\ alive # "dead"
    /\ pend' = {[e EXCEPT !.age = e.age + d] : e \in pend \ due}
               \cup {[id |-> e.id, tries |-> e.tries - 1, age |-> 0] : e \in again}
    /\ failed' = failed \cup {e.id : e \in dead}
    /\ xmits' = {IF x[1] \in {e.id : e \in again} THEN <<x[1], x[2] + 1>> ELSE x : x \in xmits}
    /\ UNCHANGED <<seen, evN, rR, aR, dR, rU, dU, done, relIssued, ackedSince, ids, lastId, subs, life, aux>>
    /\ out' = [NoOut EXCEPT !.tx = {[id |-> e.id, rel |-> TRUE, resent |-> TRUE] : e \in again},
                            !.failed = {e.id : e \in dead}]

(* The clock advances by d and nothing looks at the pending sends (they only grow older).     *)
Age(d) == /\ alive # "dead"
          /\ pend' = {[e EXCEPT !.age = e.age + d] : e \in pend}
          /\ UNCHANGED <<seen, evN, rR, aR, dR, rU, dU, done, failed, relIssued, ackedSince, xmits, ids, lastId, subs, life, aux>>
          /\ out' = NoOut
(* One iteration of the CLIENT's resend loop (HippoClient._attempt_resends) after the clock    *)
(* advanced by d: it runs the resend pass on every circuit that is alive.  On an alive         *)
(* circuit the pass therefore runs at EVERY iteration, whatever happened to other sends        *)
(* before: each reliable send keeps being retransmitted until it is acknowledged or ITS        *)
(* budget is spent.  (A circuit whose handshake is not through is skipped by that loop: the    *)
(* sends on it just grow older -- the unchanged code, taken as an assumption.)                 *)
LoopTick(d) == IF alive = "alive" THEN Tick(d) ELSE Age(d)

(*************************** Properties ************************************)
TypeOK == /\ \A e \in pend : e.tries \in 1..Budget /\ e.age >= 0
          /\ lastId >= -1

\* every reliable packet is acknowledged every time it is received
AckEveryReceipt == \A p \in DOMAIN rR : aR[p] = rR[p]
\* ... but its message reaches each subscriber at most once (and the first copy does)
\* (a packet can only be dispatched again after it was pushed out of the memory, once per push-out at most)
DispatchAtMostOnce == \A p \in DOMAIN rR : dR[p] <= 1 + Get(evN, p) /\ (Remembered(p) => dR[p] >= 1)
\* ... and never again while it is remembered and not released: in particular the announced `oldest` itself
ProtectedOnce == \A p \in Range(seen) : Get(evN, p) = 0 => dR[p] = 1
FirstCopyDispatched == \A p \in DOMAIN rR : rR[p] >= 1 => dR[p] >= 1
\* the memory holds the newest Window distinct IDs, each once
MemoryShape == /\ Len(seen) <= Window /\ Range(seen) \subseteq DOMAIN rR
               /\ \A i, j \in DOMAIN seen : seen[i] = seen[j] => i = j
               /\ Cardinality(DOMAIN rR) <= Window => Range(seen) = DOMAIN rR
\* a duplicate of a remembered ID is never dispatched again: a step that receives one delivers nothing
RememberedNeverAgain == [][\A p \in Range(seen) : p >= floor /\ Get(rR', p) > Get(rR, p) => dR'[p] = dR[p]]_vars
\* unreliable packets are always delivered
UnreliableAlwaysDelivered == \A p \in DOMAIN rU : dU[p] = rU[p]
\* the dispatch loop reaches every live subscriber whatever the others do while it runs
DispatchReachesAll == \A l \in Levels : Called(subs[l]) = MustCall(subs[l])
\* a self-removing subscriber is called at most once: once dead it stays dead, and only a call kills it
OneShotOnce == [][\A l \in Levels : \A i \in 1..Len(subs[l]) :
                    /\ (~subs[l][i].live => ~subs'[l][i].live /\ out'.calls[l][i] = 0)
                    /\ (subs[l][i].live /\ SelfRemoving(subs[l][i].k) => (subs'[l][i].live <=> out'.calls[l][i] = 0))
                    /\ (~SelfRemoving(subs[l][i].k) => subs'[l][i].live)]_vars
\* a slow consumer loses nothing: what is parked for it plus what it drained is every message dispatched since it subscribed
\* (ParkedInOrder: parked reliable packets are distinct unless one was dispatched again after leaving the memory)
ParkedShape == \A l \in Levels : \A i \in 1..Len(subs[l]) : subs[l][i].k # "asyncq" => subs[l][i].q = <<>>

\* a reliable send is in exactly one of the three states
Partition == /\ PendIds \cap done = {} /\ PendIds \cap failed = {} /\ done \cap failed = {}
             /\ PendIds \cup done \cup failed \cup abandoned = relIssued
             /\ abandoned \cap (PendIds \cup done \cup failed) = {}
             /\ (abandoned # {} => alive = "dead") /\ (alive = "dead" => pend = {})
             /\ Cardinality(pend) = Cardinality(PendIds)
\* completes exactly when an acknowledgement carrying its ID arrives (while it is waiting for one)
DoneIffAcked == done = ackedSince
\* fails exactly when the budget is spent: Budget transmissions were made, none acknowledged
FailedIffSpent == /\ \A id \in failed : Xm(id) = Budget /\ id \notin ackedSince
                  /\ \A e \in pend : Xm(e.id) = Budget - e.tries + 1
                  /\ \A id \in relIssued : Xm(id) <= Budget
\* packet IDs are strictly increasing
\* (on a live circuit: they start over where it was disconnected)
IdsIncreasing == \A i \in 1..(Len(ids) - 1) : i # epoch => ids[i] < ids[i + 1]
LastIsLast == lastId = (IF Len(ids) = epoch THEN -1 ELSE ids[Len(ids)])
\* reception does not wait for the handshake: whatever `alive` is, every receipt so far was acknowledged
\* (AckEveryReceipt holds in every state of every life; this names the states it is about)
AckedWhilePending == alive = "pending" => \A p \in DOMAIN rR : aR[p] = rR[p]
\* outcomes are final
Final == [][done \subseteq done' /\ failed \subseteq failed']_vars
=============================================================================
