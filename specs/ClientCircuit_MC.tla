---- MODULE ClientCircuit_MC ----
(* Bounded environment for exhaustive checking of ClientCircuit: which packets the peer may *)
(* send, which IDs it may acknowledge, how often the application sends, how the clock moves. *)
(* The endpoint's own ID choice is instantiated with lastId + 1.                             *)
EXTENDS ClientCircuit
CONSTANTS RelPids, UnrelPids,  \* inbound packet IDs that are reliable / unreliable
          MaxRcv,              \* each inbound packet arrives at most this often (duplication)
          MaxSends, MaxUnrel,  \* reliable / unreliable sends of the application
          MaxAcks,             \* acknowledgements carried by one inbound packet
          Ticks,               \* clock steps followed by the circuit's own resend pass (Circuit.resend_unacked)
          LoopTicks,           \* clock steps followed by one iteration of the client's resend loop
          MaxSubs, SubKinds,   \* further subscribers per level, and their kinds
          MaxPings, Oldest,    \* StartPingChecks of the peer, and what they may announce
          StartStates,         \* how the circuit starts: {"pending"} (client endpoint), {"alive"} (bare Circuit) or both
          Lifecycle,           \* TRUE: the handshake may complete and the circuit may be disconnected
          Depth                \* 0: unbounded, else bound on the behaviour length
Bound == Depth = 0 \/ TLCGet("level") <= Depth
View == core
\* IDs the peer may acknowledge: every reliable send (pending or not), the newest ID the endpoint
\* used for something else (an ack it sent, an unreliable send), and the next ID it has not used yet
Foreign == LET o == Range(ids) \ relIssued IN
           IF o = {} THEN {} ELSE {CHOOSE x \in o : \A y \in o : y <= x}
AckTargets == relIssued \cup Foreign \cup {lastId + 1}
AckSets == {S \in SUBSET AckTargets : Cardinality(S) <= MaxAcks}

\* a forgotten ID is dispatched again (the code's choice; the harness does not judge dispatch on such edges)
\* (a released but still remembered ID is suppressed, as the code does; dispatch is not judged on open edges either way)
RecvRel(p, acks) == Get(rR, p) < MaxRcv /\ Recv(p, TRUE, acks, lastId + 1, TRUE, ~Remembered(p))
\* match = FALSE: the packet is a PacketAck message (needs acks to carry), which the extra subscribers did not ask for
RecvUnrel(p, acks, match) == Get(rU, p) < MaxRcv /\ (match \/ acks # {}) /\ Recv(p, FALSE, acks, -1, match, TRUE)
DoSubscribe(l, k) == Len(subs[l]) < MaxSubs /\ Subscribe(l, k)
DoSendRel == Cardinality(relIssued) < MaxSends /\ SendRel(lastId + 1)
\* unreliable sends are counted through a ghost that needs no extra variable: ids issued that
\* are neither reliable sends nor acknowledgements (one ack per reliable receipt)
SumR == LET RECURSIVE S(_) S(D) == IF D = {} THEN 0 ELSE LET k == CHOOSE k \in D : TRUE IN aR[k] + S(D \ {k}) IN S(DOMAIN aR)
UnrelSent == Len(ids) - Cardinality(relIssued) - SumR - pongs
DoPing(o) == pongs < MaxPings /\ Ping(o, lastId + 1)
DoSendUnrel == UnrelSent < MaxUnrel /\ SendUnrel(lastId + 1)

Next == \/ \E p \in RelPids, acks \in AckSets : RecvRel(p, acks)
        \/ \E p \in UnrelPids, acks \in AckSets, match \in BOOLEAN : RecvUnrel(p, acks, match)
        \/ \E l \in Levels, k \in SubKinds : DoSubscribe(l, k)
        \/ \E l \in Levels, i \in 1..MaxSubs : Drain(l, i)
        \/ Stray
        \/ \E o \in Oldest : DoPing(o)
        \/ (Lifecycle /\ (GoAlive \/ Disconnect))
        \/ DoSendRel
        \/ DoSendUnrel
        \/ \E d \in Ticks : Tick(d)
        \/ \E d \in LoopTicks : LoopTick(d)
MCInit == \E a \in StartStates : InitWith(a)
Spec == MCInit /\ [][Next]_vars
====
