----------------------------- MODULE ObjectCache -----------------------------
(***************************************************************************)
(* Growth beyond the listed properties: the reader of the VIEWER'S object   *)
(* cache (hippolyzer/lib/proxy/vocache.py).  A viewer keeps, per cache      *)
(* directory, an index file objectcache/object.cache (version, address     *)
(* size, 128 slots of (index, region handle, time) written with the native  *)
(* struct padding) and one file objectcache/objects_<gx>_<gy>.slc per       *)
(* region (cache id, entry count, entries of local id / crc / three         *)
(* counters / size / data).  The proxy reads them to answer "what does the  *)
(* viewer have cached for (local id, crc)?" across all installed viewers.   *)
(*                                                                         *)
(* Written as a third party from the format description in the module       *)
(* docstring:                                                               *)
(*   - a LAYOUT part: abstract index / region-file descriptors, the bytes   *)
(*     TLC computes for them (IndexBytes, FilePieces) and what a reader     *)
(*     must get out of them (Regions, Read, Answer);                        *)
(*   - a STATE MACHINE: the viewers (environment) rewrite their cache       *)
(*     directories; the client calls is_valid_vocache_dir,                  *)
(*     ViewerObjectCache.from_path, read_region,                            *)
(*     RegionViewerObjectCache.lookup_object_data,                          *)
(*     RegionViewerObjectCacheChain.for_region and its lookup_object_data;  *)
(*     the objects those calls return are SNAPSHOTS (later writes of the    *)
(*     viewer do not show through, except that read_region opens the region *)
(*     file at call time).                                                  *)
(* What the format description leaves open -- a region file that ends       *)
(* inside its header or inside an entry -- is "open": the reader may refuse *)
(* the file or return the complete entries in front of the cut.             *)
(***************************************************************************)
EXTENDS Integers, Sequences, FiniteSets, TLC

CONSTANTS NDirs,       \* viewer cache directories (in the order the viewers are enumerated)
          NVariants,   \* how many of DirVariants the viewers may write
          MaxEnts,     \* table: entries per region file
          Cuts,        \* table: numbers of bytes missing at the end of the file (0 = complete)
          RichEnts,    \* table: FALSE = small entry alphabet, TRUE = full
          Rich,        \* graph: FALSE = small parameter alphabet of for_region, TRUE = full
          Interleave   \* TRUE: viewers rewrite their caches while the client holds objects read from them, and the client
                       \* mixes the index/region calls with the chain calls; FALSE: writes first, then one of the two flows

(******************************* bytes *************************************)
LE32(n) == <<n % 256, (n \div 256) % 256, (n \div 65536) % 256, (n \div 16777216) % 256>>
\* two's complement of small negative numbers without leaving 32-bit arithmetic
S32LE(n) == IF n >= 0 THEN LE32(n)
            ELSE LET m == (-n) - 1 IN <<255 - (m % 256), 255 - ((m \div 256) % 256), 255 - ((m \div 65536) % 256), 255 - ((m \div 16777216) % 256)>>
RECURSIVE Flat(_)
Flat(ss) == IF ss = <<>> THEN <<>> ELSE Head(ss) \o Flat(Tail(ss))
SetMax(S) == CHOOSE x \in S : \A y \in S : y <= x
Range(s) == {s[j] : j \in 1..Len(s)}

(************************ abstract values -> wire **************************)
\* local ids 1, 2 are stored in files, 3 is only ever asked for
LidVal(l) == CASE l = 1 -> 7 [] l = 2 -> 16909060 [] OTHER -> 9
\* crcs are U32: 1 -> 10, 2 -> 0xFFFFFFFE (beyond TLC's integers, hence bytes)
CrcBytes(c) == IF c = 1 THEN <<10, 0, 0, 0>> ELSE <<254, 255, 255, 255>>
\* cache ids (UUIDs)
CidBytes(c) == [j \in 1..16 |-> IF j = 1 THEN 16 * c ELSE IF j = 16 THEN c ELSE j]
\* region handles: global x and y (grid coordinate * 256) ORed into a U64; a pair <<gx, gy>> here
H1 == <<1000, 1001>>
H2 == <<1001, 1000>>
H3 == <<1000, 1000>>      \* never in any index
NoHandle == <<0, 0>>
HandleBytes(h) == LE32(h[2] * 256) \o LE32(h[1] * 256)
FileName(h) == "objects_" \o ToString(h[1]) \o "_" \o ToString(h[2]) \o ".slc"

(***************************** region files ********************************)
\* an entry: [lid, crc, dk]; dk is the kind of its size field / data
DataKinds == {"d1", "d2", "d3"}                      \* three bytes of data, told apart by content
DataOf(dk) == CASE dk = "d1" -> <<161, 0, 1>> [] dk = "d2" -> <<162, 0, 2>> [] dk = "d3" -> <<163, 0, 3>>
SizeField(dk) == CASE dk \in DataKinds -> LE32(3)
                   [] dk = "zero" -> LE32(0)           \* size 0: entry without data, skipped
                   [] dk = "over" -> LE32(10001)       \* size > 10000: no data follows, skipped
                   [] dk = "neg" -> S32LE(-1)          \* size <= 0: no data follows, skipped
                   [] dk = "max" -> LE32(10000)        \* the largest legal entry
DataLen(dk) == CASE dk \in DataKinds -> 3 [] dk = "max" -> 10000 [] OTHER -> 0
Stored(dk) == DataLen(dk) > 0
\* the three counters a reader has no use for
Counters == LE32(1) \o S32LE(-1) \o LE32(2)
\* a byte string is a sequence of pieces [b, rep]: b repeated rep times
Piece(bs) == [b |-> bs, rep |-> 1]
PLen(p) == Len(p.b) * p.rep
RECURSIVE PiecesLen(_)
PiecesLen(ps) == IF ps = <<>> THEN 0 ELSE PLen(Head(ps)) + PiecesLen(Tail(ps))
EntryPieces(e) ==
    <<Piece(LE32(LidVal(e.lid)) \o CrcBytes(e.crc) \o Counters \o SizeField(e.dk))>>
    \o (CASE e.dk \in DataKinds -> <<Piece(DataOf(e.dk))>>
          [] e.dk = "max" -> <<[b |-> <<77>>, rep |-> 10000]>>
          [] OTHER -> <<>>)
EntryLen(e) == 24 + DataLen(e.dk)
RECURSIVE Keep(_, _)
Keep(ps, n) == IF ps = <<>> \/ n <= 0 THEN <<>>
               ELSE LET h == Head(ps) IN
                    IF PLen(h) <= n THEN <<h>> \o Keep(Tail(ps), n - PLen(h))
                    ELSE IF h.rep = 1 THEN <<Piece(SubSeq(h.b, 1, n))>> ELSE <<[b |-> h.b, rep |-> n]>>
\* a region file: [cid, decl (the declared entry count), ents, drop (bytes missing at the end)]
HeaderLen == 20
RECURSIVE EntsLen(_)
EntsLen(es) == IF es = <<>> THEN 0 ELSE EntryLen(Head(es)) + EntsLen(Tail(es))
FullLen(f) == HeaderLen + EntsLen(f.ents)
FileLen(f) == FullLen(f) - f.drop
FilePieces(f) == Keep(<<Piece(CidBytes(f.cid) \o S32LE(f.decl))>> \o Flat([i \in 1..Len(f.ents) |-> EntryPieces(f.ents[i])]), FileLen(f))

\* what a reader gets: the stored entries in file order, or "open" when the file ends inside something
RECURSIVE Walk(_, _, _, _, _)
Walk(ents, n, o, K, acc) ==
    IF n <= 0 \/ ents = <<>> \/ o >= K THEN [k |-> "ok", es |-> acc]          \* all declared read, or end of file at an entry boundary
    ELSE LET e == Head(ents) IN
         IF o + EntryLen(e) > K THEN [k |-> "open", es |-> acc]
         ELSE Walk(Tail(ents), n - 1, o + EntryLen(e), K, IF Stored(e.dk) THEN Append(acc, e) ELSE acc)
Read(f) == IF FileLen(f) < HeaderLen THEN [k |-> "open", es |-> <<>>]
           ELSE Walk(f.ents, f.decl, HeaderLen, FileLen(f), <<>>)
\* local ids are unique in a cache: a later entry for the same local id replaces the earlier one
Winner(es, lid) == LET hits == {i \in 1..Len(es) : es[i].lid = lid} IN IF hits = {} THEN 0 ELSE SetMax(hits)
Entries(es) == {[lid |-> LidVal(es[i].lid), crc |-> CrcBytes(es[i].crc), data |-> es[i].dk] : i \in {j \in 1..Len(es) : Winner(es, es[j].lid) = j}}
\* lookup_object_data(local_id, crc): the data only if the cached entry has this very crc
Answer(es, lid, crc) == LET w == Winner(es, lid) IN IF w # 0 /\ es[w].crc = crc THEN es[w].dk ELSE "none"
ProbeLids == {1, 2, 3}
Crcs == {1, 2}
Answers(es) == [lid \in ProbeLids |-> [crc \in Crcs |-> Answer(es, lid, crc)]]

(****************************** index files ********************************)
\* [ver, addr, align (4: packed, 8: padded to the U64 member), junk (what the padding holds), slots: placed <<i, h, t>>]
MaxRegions == 128
Placed(ix, i) == {s \in Range(ix.slots) : s[1] = i}
SlotBytes(ix, i) ==
    LET s == IF Placed(ix, i) = {} THEN <<i, NoHandle, 0>> ELSE CHOOSE x \in Placed(ix, i) : TRUE
        J == <<ix.junk, ix.junk, ix.junk, ix.junk>>
    IN IF ix.align = 8 THEN LE32(i) \o J \o HandleBytes(s[2]) \o LE32(s[3]) \o J
       ELSE LE32(i) \o HandleBytes(s[2]) \o LE32(s[3])
IndexBytes(ix) == LE32(ix.ver) \o LE32(ix.addr) \o Flat([i \in 1..MaxRegions |-> SlotBytes(ix, i - 1)])
\* handle -> time of the slots in use (time 0 = free slot); nothing at all for a format we do not know
Regions(ix) == IF ix.ver # 15 \/ ix.addr \notin {32, 64} THEN [k |-> "none", regs |-> {}]
               ELSE [k |-> "ok", regs |-> {[h |-> s[2], t |-> s[3]] : s \in {x \in Range(ix.slots) : x[3] # 0}}]
Ix(ver, addr, align, junk, slots) == [ver |-> ver, addr |-> addr, align |-> align, junk |-> junk, slots |-> slots]
IdxVariants == <<
    Ix(15, 64, 8, 0, <<<<0, H1, 7>>>>),                                   \* 1 padded
    Ix(15, 32, 4, 0, <<<<0, H1, 1600000000>>>>),                          \* 2 packed
    Ix(15, 64, 8, 238, <<<<1, H2, 3>>, <<2, H1, 9>>>>),                   \* 3 junk in the padding, free slot 0
    Ix(14, 64, 8, 0, <<<<0, H1, 7>>>>),                                   \* 4 other version
    Ix(15, 16, 8, 0, <<<<0, H1, 7>>>>),                                   \* 5 other address size
    Ix(15, 64, 8, 0, <<<<0, H1, 0>>, <<1, H2, 5>>>>),                     \* 6 H1 in a free slot
    Ix(15, 32, 4, 0, <<<<0, H2, 3>>, <<1, H1, 4>>>>),                     \* 7 packed, two regions
    Ix(15, 64, 8, 255, <<<<127, H1, 8>>>>),                               \* 8 last slot
    Ix(15, 32, 4, 0, <<<<126, H2, 6>>, <<127, H1, 8>>>>),                 \* 9 packed, last slots
    Ix(15, 64, 8, 0, <<>>),                                               \* 10 no regions
    Ix(16, 64, 8, 0, <<<<0, H1, 7>>>>) >>                                 \* 11 a later version
NIdx == Len(IdxVariants)

(************************* what a viewer may write *************************)
E(l, c, dk) == [lid |-> l, crc |-> c, dk |-> dk]
F(cid, decl, ents) == [cid |-> cid, decl |-> decl, ents |-> ents, drop |-> 0]
GraphFiles == <<
    F(1, 2, <<E(1, 1, "d1"), E(2, 2, "d2")>>),           \* 1
    F(1, 1, <<E(1, 2, "d3")>>),                          \* 2 same local id, other crc
    F(2, 1, <<E(1, 1, "d2")>>),                          \* 3 other cache id
    F(1, 2, <<E(1, 1, "d1"), E(1, 2, "d2")>>),           \* 4 local id twice
    F(1, 3, <<E(2, 1, "zero"), E(1, 1, "d3")>>),         \* 5 declared more than present, an entry without data
    F(1, 1, <<E(2, 1, "max"), E(1, 1, "d1")>>),          \* 6 declared fewer than present, the largest entry
    F(1, 0, <<>>) >>                                     \* 7 empty
\* a cache directory: [ix: index variant or 0 (no object.cache), fl: region file or 0, at: region the file is named after]
DV(ix, fl, at) == [ix |-> ix, fl |-> fl, at |-> at]
DirVariants == <<
    DV(1, 1, H1), DV(3, 2, H1), DV(2, 3, H1), DV(4, 1, H1), DV(1, 0, H1),
    DV(6, 1, H1), DV(0, 1, H1), DV(3, 4, H2), DV(5, 1, H1), DV(8, 4, H1),
    DV(7, 5, H1), DV(9, 6, H1), DV(7, 1, H2), DV(10, 7, H1), DV(11, 2, H1) >>
NoDir == DV(0, 0, H1)
ASSUME /\ NVariants \in 1..Len(DirVariants) /\ NDirs \in 1..3
       /\ \A i \in 1..Len(GraphFiles) : Read(GraphFiles[i]).k = "ok"

(***************************** state machine *******************************)
VARIABLES dirs,     \* directory -> 0 (empty) or the DirVariant it holds
          vc,       \* the ViewerObjectCache the client holds: [k: "none"|"ok", d, regs]
          rc,       \* the RegionViewerObjectCache the client holds: [k: "none"|"ok", cid, es]
          chain     \* the RegionViewerObjectCacheChain the client holds: its members <<[d, cid, es]>>
vars == <<dirs, vc, rc, chain>>
Dirs == 1..NDirs
NoVc == [k |-> "none", d |-> 0, regs |-> {}]
NoRc == [k |-> "none", cid |-> 0, es |-> <<>>]
NoChain == <<>>
Init == dirs = [d \in Dirs |-> 0] /\ vc = NoVc /\ rc = NoRc /\ chain = NoChain
IsInit == dirs = [d \in Dirs |-> 0] /\ vc = NoVc /\ rc = NoRc /\ chain = NoChain
Dir(d) == IF dirs[d] = 0 THEN NoDir ELSE DirVariants[dirs[d]]
HasIndex(d) == Dir(d).ix # 0
IndexOf(d) == Regions(IdxVariants[Dir(d).ix])
FileAt(d, h) == IF Dir(d).fl # 0 /\ Dir(d).at = h THEN Dir(d).fl ELSE 0
Handles == {H1, H2, H3}

\* the viewer of directory d rewrites its cache
ViewerWrites(d, v) == /\ v \in 1..NVariants /\ dirs[d] # v
                      /\ Interleave \/ (vc = NoVc /\ rc = NoRc /\ chain = NoChain)
                      /\ dirs' = [dirs EXCEPT ![d] = v] /\ UNCHANGED <<vc, rc, chain>>
\* is_valid_vocache_dir(dir)
IsValid(d) == UNCHANGED vars
IsValidAns(d) == HasIndex(d)
\* ViewerObjectCache.from_path(dir / "objectcache"); callers check is_valid_vocache_dir first
FromPathRes(d) == LET r == IndexOf(d) IN IF r.k = "ok" THEN [k |-> "ok", d |-> d, regs |-> r.regs] ELSE NoVc
FromPath(d) == /\ HasIndex(d) /\ (Interleave \/ chain = NoChain)
               /\ vc' = FromPathRes(d) /\ UNCHANGED <<dirs, rc, chain>>
\* vc.read_region(handle): the index is the one read earlier, the region file is opened now
RegionOf(d, h, regs) ==
    IF h \notin {r.h : r \in regs} \/ FileAt(d, h) = 0 THEN NoRc
    ELSE LET f == GraphFiles[FileAt(d, h)] IN [k |-> "ok", cid |-> f.cid, es |-> Read(f).es]
ReadRegion(h) == /\ vc.k = "ok" /\ rc' = RegionOf(vc.d, h, vc.regs) /\ UNCHANGED <<dirs, vc, chain>>
\* rc.lookup_object_data(local_id, crc)
Lookup(lid, crc) == rc.k = "ok" /\ UNCHANGED vars
LookupAns(lid, crc) == Answer(rc.es, lid, crc)
\* RegionViewerObjectCacheChain.for_region(handle, cache_id, cache_dir): which = 0 -> every installed viewer
Member(d, h, cid) ==
    IF ~HasIndex(d) \/ IndexOf(d).k # "ok" THEN <<>>
    ELSE LET r == RegionOf(d, h, IndexOf(d).regs) IN
         IF r.k # "ok" \/ r.cid # cid THEN <<>> ELSE <<[d |-> d, cid |-> r.cid, es |-> r.es]>>
ForRegionRes(h, cid, which) ==
    Flat([d \in 1..NDirs |-> IF which \in {0, d} THEN Member(d, h, cid) ELSE <<>>])
ChainParams == IF Rich THEN Handles \X {1, 2} \X (0..NDirs)
               ELSE ({H1} \X {1, 2} \X {0, NDirs}) \cup {<<H2, 1, 0>>}
ForRegion(h, cid, which) == /\ <<h, cid, which>> \in ChainParams /\ (Interleave \/ vc = NoVc)
                            /\ chain' = ForRegionRes(h, cid, which) /\ UNCHANGED <<dirs, vc, rc>>
\* chain.lookup_object_data(local_id, crc): the first viewer that has it
ChainLookup(lid, crc) == (Interleave \/ vc = NoVc) /\ UNCHANGED vars
ChainAns(lid, crc) == LET hits == {i \in 1..Len(chain) : Answer(chain[i].es, lid, crc) # "none"}
                      IN IF hits = {} THEN "none" ELSE Answer(chain[CHOOSE i \in hits : \A j \in hits : i <= j].es, lid, crc)

Next == \/ \E d \in Dirs, v \in 1..NVariants : ViewerWrites(d, v)
        \/ \E d \in Dirs : IsValid(d) \/ FromPath(d)
        \/ \E h \in Handles : ReadRegion(h)
        \/ \E l \in ProbeLids, c \in Crcs : Lookup(l, c) \/ ChainLookup(l, c)
        \/ \E p \in ChainParams : ForRegion(p[1], p[2], p[3])
Spec == Init /\ [][Next]_vars

(******************** the format table (B3): pure calls ********************)
TableEnts == IF RichEnts THEN {E(l, c, dk) : l \in {1, 2}, c \in Crcs, dk \in DataKinds \cup {"zero", "over", "neg"}} \cup {E(2, 1, "max")}
             ELSE {E(1, 1, "d1"), E(1, 2, "d2"), E(2, 2, "d1"), E(2, 1, "zero"), E(1, 1, "over"), E(1, 2, "neg"), E(2, 1, "max")}
TableSeqs == UNION {[1..n -> TableEnts] : n \in 0..MaxEnts}
TableFilesOf(es) == {[cid |-> 1, decl |-> Len(es) + dd, ents |-> es, drop |-> c] :
                        dd \in {-1, 0, 1}, c \in {x \in Cuts : x <= HeaderLen + EntsLen(es)}}
TableFiles == UNION {TableFilesOf(es) : es \in {x \in TableSeqs : Cardinality({j \in 1..Len(x) : x[j].dk = "max"}) <= 1}}
\* RegionViewerObjectCache.from_file(path) on a file of its own, then every lookup
ParseFile(f) == IsInit /\ UNCHANGED vars
ParseFileRes(f) == LET r == Read(f) IN [k |-> r.k, cid |-> CidBytes(f.cid), ents |-> Entries(r.es), ans |-> Answers(r.es)]
\* ViewerObjectCache.from_path on a directory holding only this index
ParseIndex(i) == IsInit /\ UNCHANGED vars
ParseIndexRes(i) == Regions(IdxVariants[i])

(****************************** properties *********************************)
AllEs == (IF rc.k = "ok" THEN {rc.es} ELSE {}) \cup {chain[i].es : i \in 1..Len(chain)}
\* data is handed out only for an entry with exactly this local id and crc
CrcGuard == /\ \A es \in AllEs, l \in ProbeLids, c \in Crcs :
                 Answer(es, l, c) # "none" => \E i \in 1..Len(es) : es[i] = E(l, c, Answer(es, l, c))
            /\ \A l \in ProbeLids, c \in Crcs :
                 ChainAns(l, c) # "none" => \E m \in Range(chain) : \E i \in 1..Len(m.es) : m.es[i] = E(l, c, ChainAns(l, c))
\* a chain only holds caches written for the region instance asked for (the same coordinates on another grid have another cache id)
ChainMatchesRequest == [][\A p \in ChainParams : ForRegion(p[1], p[2], p[3]) => \A m \in Range(chain') : m.cid = p[2]]_vars
\* ... one per viewer, in the order the viewers are enumerated
ChainInViewerOrder == \A i, j \in 1..Len(chain) : i < j => chain[i].d < chain[j].d
\* a crc mismatch in one viewer's cache does not hide a match in another's
ChainComplete == \A l \in ProbeLids, c \in Crcs :
                    (\E m \in Range(chain) : Answer(m.es, l, c) # "none") => ChainAns(l, c) # "none"
\* nothing is ever loaded from a directory without index, from an index of an unknown format, for a region
\* the index does not list, or without region file
LoadedOnlyWhenListed ==
    [][\A h \in Handles : ReadRegion(h) /\ rc'.k = "ok" => (\E r \in vc.regs : r.h = h /\ r.t # 0) /\ FileAt(vc.d, h) # 0]_vars
SnapshotsStay == [][\A d \in Dirs, v \in 1..NVariants : ViewerWrites(d, v) => UNCHANGED <<vc, rc, chain>>]_vars
\* layout laws of the region file, over the whole table
LayoutLaws == IsInit =>
    \A f \in TableFiles :
       /\ PiecesLen(FilePieces(f)) = FileLen(f)
       /\ Read(f).k = "ok" => \A i \in 1..Len(Read(f).es) : DataLen(Read(f).es[i].dk) \in 1..10000
       /\ f.decl <= 0 /\ FileLen(f) >= HeaderLen => Read(f) = [k |-> "ok", es |-> <<>>]
       \* a file that ends at an entry boundary reads like the file that declares (and holds) only those entries
       /\ \A n \in 0..Len(f.ents) :
            f.drop = EntsLen(SubSeq(f.ents, n + 1, Len(f.ents)))
               => Read(f) = Read([f EXCEPT !.ents = SubSeq(f.ents, 1, n), !.drop = 0])
       \* a complete file is never refused
       /\ f.drop = 0 => Read(f).k = "ok"

Obs == [vc |-> [k |-> vc.k, regs |-> vc.regs],
        rc |-> [k |-> rc.k, cid |-> CidBytes(rc.cid), ents |-> Entries(rc.es)],
        chain |-> [i \in 1..Len(chain) |-> [cid |-> CidBytes(chain[i].cid), ents |-> Entries(chain[i].es)]]]
=============================================================================
