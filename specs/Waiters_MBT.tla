---- MODULE Waiters_MBT ----
EXTENDS Waiters, Json
CONSTANT Depth
P(act) == PrintT(ToJson([src |-> w, act |-> act, dst |-> w', obs |-> [o |-> out', s |-> Obs']]))
MInit == Init /\ PrintT(ToJson([init |-> w]))
MNext == /\ TLCGet("level") < Depth
         /\ \/ \E kind \in {"wait", "async"}, take \in BOOLEAN, hasTo \in BOOLEAN :
                  Start(kind, take, hasTo) /\ P([n |-> "Start", kind |-> kind, take |-> take, to |-> hasTo])
            \/ \E i \in 1..N : Cancel(i) /\ P([n |-> "Cancel", i |-> i])
            \/ \E i \in 1..N : Close(i) /\ P([n |-> "Close", i |-> i])
            \/ \E dt \in {1, T} : Advance(dt) /\ P([n |-> "Advance", dt |-> dt])
            \/ \E rel \in BOOLEAN : Message(rel) /\ P([n |-> "Message", rel |-> rel])
MSpec == MInit /\ [][MNext]_vars
====
