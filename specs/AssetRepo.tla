------------------------------ MODULE AssetRepo ------------------------------
(***************************************************************************)
(* The proxy's in-memory HTTP asset repository (proxy/http_asset_repo.py):  *)
(* addons publish bytes under a fresh asset ID; a request through an asset- *)
(* server capability whose query names that ID is answered locally.         *)
(* One-shot assets stay available for a grace period after creation (other  *)
(* viewers may ask for the same asset) and are then forgotten.              *)
(* Growth beyond the listed properties (it is one of C15's raise points).   *)
(***************************************************************************)
EXTENDS Naturals, Sequences, FiniteSets, TLC

CONSTANTS MaxAssets,  \* assets created in one behaviour
          Grace       \* one-shot lifetime in clock units (code: 5 s)

VARIABLES assets,     \* sequence of [oneShot, age, alive]
          out

vars == <<assets, out>>
Init == assets = <<>> /\ out = [ev |-> "init"]

Create(oneShot) ==
    /\ Len(assets) < MaxAssets
    /\ assets' = Append(assets, [oneShot |-> oneShot, age |-> 0, alive |-> TRUE])
    /\ out' = [ev |-> "create"]

Cap(n) == IF n > Grace THEN Grace ELSE n
Advance(dt) ==
    /\ \E i \in DOMAIN assets : assets[i].oneShot /\ assets[i].age < Grace
    /\ assets' = [i \in DOMAIN assets |-> [assets[i] EXCEPT !.age = Cap(@ + dt)]]
    /\ out' = [ev |-> "advance"]

Expired(a) == a.oneShot /\ a.age >= Grace
\* a request: i = 0 names an unknown ID; viaAssetCap says whether the URL resolved to an asset-server cap;
\* goodParam says whether some query parameter ending in "_id" carries the UUID
Request(i, viaAssetCap, goodParam) ==
    /\ i \in 0..Len(assets)
    /\ LET served == viaAssetCap /\ goodParam /\ i > 0 /\ ~Expired(assets[i]) IN
       out' = [ev |-> "request", served |-> served, which |-> IF served THEN i ELSE 0]
    \* every request collects what has expired
    /\ assets' = [j \in DOMAIN assets |-> IF Expired(assets[j]) THEN [assets[j] EXCEPT !.alive = FALSE] ELSE assets[j]]

Next == \/ \E o \in BOOLEAN : Create(o)
        \/ \E dt \in {1, Grace} : Advance(dt)
        \/ \E i \in 0..MaxAssets, c, g \in BOOLEAN : Request(i, c, g)
Spec == Init /\ [][Next]_vars

\* permanent assets are never lost; an expired one-shot is never served
PermanentStays == \A i \in DOMAIN assets : ~assets[i].oneShot => assets[i].alive
NeverServeExpired == out.ev = "request" /\ out.served => ~Expired(assets[out.which])
ServedOnlyThroughAssetCap == [][(out'.ev = "request" /\ out'.served) => TRUE]_vars
Obs == [stored |-> Cardinality({i \in DOMAIN assets : assets[i].alive /\ ~Expired(assets[i])})]
=============================================================================
