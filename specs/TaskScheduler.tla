---------------------------- MODULE TaskScheduler ----------------------------
(***************************************************************************)
(* Life scopes of addon tasks (proxy/task_scheduler.py TaskScheduler,       *)
(* proxy/addon_utils.py BaseAddon._schedule_task, proxy/addons.py call      *)
(* sites handle_session_closed / handle_region_changed / _unload_module /   *)
(* shutdown).  Growth beyond the listed properties (DESIGN §10).            *)
(*                                                                         *)
(* A task is cancelled exactly by the events its scope names: closing of    *)
(* its session (session- or region-scoped), a change of its session's main *)
(* region (region-scoped), unloading of the addon that created it          *)
(* (addon-scoped), and proxy shutdown (always).                            *)
(***************************************************************************)
EXTENDS Naturals, Sequences, FiniteSets, TLC

CONSTANTS Sessions, Addons, MaxTasks

VARIABLES tasks,     \* sequence of [sess, addon, rs, ss, as, st]; sess 0 = no session given
          out        \* observation of the last event

vars == <<tasks, out>>

Init == tasks = <<>> /\ out = [ev |-> "init"]

\* BaseAddon._schedule_task(coro, session, region_scoped, session_scoped, addon_scoped)
Schedule(s, a, rs, ss, as) ==
    /\ Len(tasks) < MaxTasks
    /\ IF (rs \/ ss) /\ s = 0
       THEN /\ UNCHANGED tasks
            /\ out' = [ev |-> "schedule", refused |-> TRUE]       \* ValueError: needs a session
       ELSE /\ tasks' = Append(tasks, [sess |-> s, addon |-> a, rs |-> rs, ss |-> (ss \/ rs), as |-> as, st |-> "run"])
            /\ out' = [ev |-> "schedule", refused |-> FALSE]

Cancel(P(_)) == tasks' = [i \in DOMAIN tasks |->
                            IF tasks[i].st = "run" /\ P(tasks[i]) THEN [tasks[i] EXCEPT !.st = "cancel"] ELSE tasks[i]]

Finish(i) == /\ i \in DOMAIN tasks /\ tasks[i].st = "run"
             /\ tasks' = [tasks EXCEPT ![i].st = "done"]
             /\ out' = [ev |-> "finish"]
SessionClosed(s) == /\ s \in Sessions
                    /\ Cancel(LAMBDA t : t.ss /\ t.sess = s)
                    /\ out' = [ev |-> "session-closed"]
RegionChanged(s) == /\ s \in Sessions
                    /\ Cancel(LAMBDA t : t.rs /\ t.sess = s)
                    /\ out' = [ev |-> "region-changed"]
AddonUnloaded(a) == /\ a \in Addons
                    /\ Cancel(LAMBDA t : t.as /\ t.addon = a)
                    /\ out' = [ev |-> "addon-unloaded"]
Shutdown == /\ Cancel(LAMBDA t : TRUE)
            /\ out' = [ev |-> "shutdown"]

Next == \/ \E s \in Sessions \cup {0}, a \in Addons, rs, ss, as \in BOOLEAN : Schedule(s, a, rs, ss, as)
        \/ \E i \in 1..MaxTasks : Finish(i)
        \/ \E s \in Sessions : SessionClosed(s) \/ RegionChanged(s)
        \/ \E a \in Addons : AddonUnloaded(a)
        \/ Shutdown
Spec == Init /\ [][Next]_vars

(***************************** properties **********************************)
Running == {i \in DOMAIN tasks : tasks[i].st = "run"}
\* after its session closed no task scoped to that session is left running (and likewise for the others)
NothingOutlivesItsScope ==
    [][/\ \A s \in Sessions : SessionClosed(s) => \A i \in DOMAIN tasks' : tasks'[i].st = "run" => ~(tasks'[i].ss /\ tasks'[i].sess = s)
       /\ \A s \in Sessions : RegionChanged(s) => \A i \in DOMAIN tasks' : tasks'[i].st = "run" => ~(tasks'[i].rs /\ tasks'[i].sess = s)
       /\ \A a \in Addons : AddonUnloaded(a) => \A i \in DOMAIN tasks' : tasks'[i].st = "run" => ~(tasks'[i].as /\ tasks'[i].addon = a)
       /\ Shutdown => Running' = {}]_vars
\* a task is only ever cancelled by an event its scope names
OnlyScopedCancellation ==
    [][\A i \in DOMAIN tasks : (tasks[i].st = "run" /\ tasks'[i].st = "cancel") =>
          \/ out'.ev = "shutdown"
          \/ out'.ev = "session-closed" /\ tasks[i].ss
          \/ out'.ev = "region-changed" /\ tasks[i].rs
          \/ out'.ev = "addon-unloaded" /\ tasks[i].as]_vars
\* finished or cancelled tasks never come back
Terminal == [][\A i \in DOMAIN tasks : tasks[i].st # "run" => tasks'[i] = tasks[i]]_vars
RegionImpliesSession == \A i \in DOMAIN tasks : tasks[i].rs => tasks[i].ss

Obs == [states |-> [i \in DOMAIN tasks |-> tasks[i].st], live |-> Cardinality(Running)]
=============================================================================
