----------------------------- MODULE AssetLayout -----------------------------
(***************************************************************************)
(* C20, animation and mesh clauses -- the byte layout of the two binary     *)
(* asset formats as far as TLC can compute it: sizes and positions as a      *)
(* function of the SHAPE of the model (hippolyzer/lib/base/llanim.py:        *)
(* Animation/Joint/RotKeyframe/PosKeyframe/Constraint with the version       *)
(* switch; mesh.py: LLMeshSerializer segment placement).  Float contents,    *)
(* zlib and LLSD bodies are opaque; equality of the parsed models is a       *)
(* recorded observation.                                                     *)
(***************************************************************************)
EXTENDS Integers, Sequences, FiniteSets, TLC

RECURSIVE Pow256(_)
Pow256(k) == IF k = 0 THEN 1 ELSE 256 * Pow256(k - 1)
LE(n, w) == [i \in 1..w |-> (n \div Pow256(i - 1)) % 256]

(*************************** animation *************************************)
\* version <<1,0>>: times and vectors are quantised to U16; version <<0,1>>: raw F32
Versions == {<<1, 0>>, <<0, 1>>}
KeySize(ver) == IF ver = <<1, 0>> THEN 2 + 3 * 2 ELSE 4 + 3 * 4
\* U16 U16 S32 F32 CStr F32 F32 S32 F32 F32 U32
HeaderSize(emote) == 2 + 2 + 4 + 4 + (emote + 1) + 4 + 4 + 4 + 4 + 4 + 4
\* CStr name, S32 priority, S32 count + rotation keys, S32 count + position keys
JointSize(ver, j) == (j.name + 1) + 4 + (4 + j.rot * KeySize(ver)) + (4 + j.pos * KeySize(ver))
\* U8 U8 StrFixed(16) Vector3 StrFixed(16) Vector3 Vector3 4 x F32
ConstraintSize == 1 + 1 + 16 + 12 + 16 + 12 + 12 + 4 * 4
RECURSIVE JointsSize(_, _)
JointsSize(ver, js) == IF js = <<>> THEN 0 ELSE JointSize(ver, Head(js)) + JointsSize(ver, Tail(js))
\* signed 32-bit little-endian without leaving TLC's 32-bit integers
S32LE(n) == IF n >= 0 THEN LE(n, 4)
            ELSE LET m == (n + 2147483647) + 1 IN <<m % 256, (m \div 256) % 256, (m \div 65536) % 256, (m \div 16777216) + 128>>
U32LE(n) == S32LE(n)
PriorityAt == 4                                   \* after the two U16 version fields
LoopAt(emote) == 12 + (emote + 1) + 8             \* after duration, emote name, loop in / out points
HandPoseAt(emote) == HeaderSize(emote) - 4
\* 0-based offset of the priority of joint k: behind its name
RECURSIVE JointPriorityAt(_, _, _, _)
JointPriorityAt(ver, emote, js, k) == IF k = 1 THEN HeaderSize(emote) + 4 + (js[1].name + 1)
                                      ELSE JointSize(ver, js[1]) + JointPriorityAt(ver, emote, Tail(js), k - 1) - 0
JointCountAt(emote) == HeaderSize(emote)                       \* 0-based offset of the U32 joint count
ConstraintCountAt(ver, emote, js) == HeaderSize(emote) + 4 + JointsSize(ver, js)
AnimSize(ver, emote, js, ncons) == ConstraintCountAt(ver, emote, js) + 4 + ncons * ConstraintSize
\* the two layouts differ exactly by 8 bytes per key frame
RECURSIVE TotalKeys(_)
TotalKeys(js) == IF js = <<>> THEN 0 ELSE Head(js).rot + Head(js).pos + TotalKeys(Tail(js))
VersionLaw(emote, js, ncons) ==
    AnimSize(<<0, 1>>, emote, js, ncons) - AnimSize(<<1, 0>>, emote, js, ncons) = 8 * TotalKeys(js)

(*************************** mesh ******************************************)
KnownSegments == <<"lowest_lod", "low_lod", "medium_lod", "high_lod", "physics_mesh", "physics_convex", "skin", "physics_havok">>
Rank(name) == IF \E i \in DOMAIN KnownSegments : KnownSegments[i] = name
              THEN CHOOSE i \in DOMAIN KnownSegments : KnownSegments[i] = name ELSE 1000
RECURSIVE SumSizes(_)
SumSizes(S) == IF S = {} THEN 0 ELSE LET s == CHOOSE x \in S : TRUE IN s.size + SumSizes(S \ {s})
\* segments are written back to back in the canonical order, the header points at them
Placed(segs, body) ==
    /\ \A s \in segs : s.offset = SumSizes({t \in segs : Rank(t.name) < Rank(s.name)})
    /\ body = SumSizes(segs)

(*************************** mesh object life cycle ************************)
(* A MeshAsset lives through: built by hand -> serialised -> parsed (with or  *)
(* without keeping the raw bytes of every segment, include_raw_segments) ->   *)
(* edited -> serialised again -> ...  The content of a segment is abstracted  *)
(* to a version number (0 = as built, +1 per edit).  A parse that keeps raw   *)
(* segments leaves a second, byte-level copy of every segment in the object;  *)
(* after an edit that copy is STALE.  A segment whose parsed form was removed *)
(* from the object is represented by its raw copy alone.                      *)
(* Law: what Serialize writes is the CURRENT model in every state -- an edit  *)
(* is never lost, whatever copies the object still carries.                   *)
CONSTANTS Segs,        \* segments of the modelled mesh
          MaxEdits,    \* edits per segment
          PreferRaw    \* FALSE: the parsed form wins over the raw copy (the code); TRUE: the raw copy wins
VARIABLES mode,        \* "built" | "parsed" | "parsedRaw": how the current object came to be
          cur,         \* segment -> version of the current model's content
          dropped,     \* segments whose parsed form was removed (only the raw copy is left)
          raw,         \* segment -> version held by the raw copy, -1 if there is none
          wire,       \* segment -> version in the last serialisation, -1 before the first
          want         \* ghost: the model at the moment of the last serialisation
mvars == <<mode, cur, dropped, raw, wire, want>>
None == [s \in Segs |-> -1]
MInit0 == /\ mode = "built" /\ cur = [s \in Segs |-> 0] /\ dropped = {} /\ raw = None /\ wire = None /\ want = None
Edit(s) == /\ s \notin dropped /\ cur[s] < MaxEdits
           /\ cur' = [cur EXCEPT ![s] = @ + 1]
           /\ UNCHANGED <<mode, dropped, raw, wire, want>>
\* the parsed form of s is taken out of the object; its raw copy now IS the segment
Drop(s) == /\ raw[s] # -1 /\ s \notin dropped
           /\ dropped' = dropped \cup {s} /\ cur' = [cur EXCEPT ![s] = raw[s]]
           /\ UNCHANGED <<mode, raw, wire, want>>
Written(s) == IF s \in dropped THEN raw[s]
              ELSE IF PreferRaw /\ raw[s] # -1 THEN raw[s] ELSE cur[s]
SerializeMesh == /\ wire' = [s \in Segs |-> Written(s)] /\ want' = cur
             /\ UNCHANGED <<mode, cur, dropped, raw>>
\* the last serialisation is parsed; the result replaces the object
Reparse(keepRaw) == /\ wire # None
                    /\ cur' = wire /\ dropped' = {}
                    /\ raw' = IF keepRaw THEN wire ELSE None
                    /\ mode' = IF keepRaw THEN "parsedRaw" ELSE "parsed"
                    /\ UNCHANGED <<wire, want>>
MNext0 == (\E s \in Segs : Edit(s) \/ Drop(s)) \/ SerializeMesh \/ (\E k \in BOOLEAN : Reparse(k))
\* parse(serialise(m)) = m for the current model m, in every state
Faithful == wire = None \/ wire = want
RawIsACopy == \A s \in Segs : (mode # "parsedRaw" => raw[s] = -1) /\ (s \in dropped => raw[s] = cur[s])

(*************************** mesh vertex weights ***************************)
(* "Weights" of a LOD segment: for every vertex up to 4 influences (joint     *)
(* index U8, weight U16 little-endian), then the terminator 0xFF IF AND ONLY   *)
(* IF the vertex has fewer than 4; a vertex without influences is the bare     *)
(* terminator.  Vertices follow each other without any other framing, so the   *)
(* byte after a full vertex belongs to the NEXT vertex.                        *)
Term == 255
RECURSIVE FlatB(_)
FlatB(ss) == IF ss = <<>> THEN <<>> ELSE Head(ss) \o FlatB(Tail(ss))
\* a vertex: <<<<joint, w16>>, ...>> with at most 4 entries, joint < 255
VertexBytes(v) == FlatB([i \in 1..Len(v) |-> <<v[i][1], v[i][2] % 256, v[i][2] \div 256>>])
                  \o (IF Len(v) < 4 THEN <<Term>> ELSE <<>>)
WeightsBytes(vs) == FlatB([k \in 1..Len(vs) |-> VertexBytes(vs[k])])
\* reference parser: one vertex starting at byte i (1-based); returns the vertex and the next position
RECURSIVE ParseVertex(_, _, _)
ParseVertex(b, i, acc) ==
    IF Len(acc) = 4 THEN [v |-> acc, i |-> i]                       \* full: no terminator follows
    ELSE IF i > Len(b) \/ b[i] = Term THEN [v |-> acc, i |-> i + 1]  \* terminator consumed
    ELSE ParseVertex(b, i + 3, Append(acc, <<b[i], b[i + 1] + 256 * b[i + 2]>>))
RECURSIVE ParseWeights(_, _)
ParseWeights(b, i) == IF i > Len(b) THEN <<>>
                      ELSE LET r == ParseVertex(b, i, <<>>) IN <<r.v>> \o ParseWeights(b, r.i)
\* generated vertices: raw weights whose bytes look like terminators, joints next to the terminator value
W16s == <<65535, 255, 65280, 1, 0, 32768, 65534, 511>>
GenVertex(vi, n, hiJoints) ==
    [i \in 1..n |-> <<IF hiJoints THEN 255 - i ELSE i - 1, W16s[((vi * 4 + i) % Len(W16s)) + 1]>>]
GenWeights(counts, hiJoints) == [k \in 1..Len(counts) |-> GenVertex(k, counts[k], hiJoints)]
WeightsRoundTrip(vs) == ParseWeights(WeightsBytes(vs), 1) = vs
=============================================================================
