---- MODULE NameCache_MBT ----
EXTENDS NameCache, Json
CONSTANT Depth
St == [cache |-> cache, held |-> held]
P(act, o) == PrintT(ToJson([src |-> St, act |-> act, dst |-> St', obs |-> [o |-> o, s |-> Obs', held |-> held']]))
MInit == Init /\ PrintT(ToJson([init |-> St]))
MNext == /\ TLCGet("level") < Depth
         /\ \/ \E i \in Ids, v \in GoodVals : Update(i, v) /\ P([n |-> "Update", id |-> i, vals |-> v], [ev |-> "update"])
            \/ \E bs \in Replies : NameReply(bs) /\ P([n |-> "NameReply", blocks |-> bs], [ev |-> "reply"])
            \/ \E r \in Responses : DisplayNames(r.status, r.agents, r.bad)
                                      /\ P([n |-> "DisplayNames", status |-> r.status, agents |-> r.agents, bad |-> r.bad], [ev |-> "response"])
            \/ \E i \in Ids, c \in BOOLEAN : Lookup(i, c) /\ P([n |-> "Lookup", id |-> i, create |-> c], [found |-> LookupFound(i, c)])
MSpec == MInit /\ [][MNext]_vars
====
