------------------------------ MODULE HttpFlow ------------------------------
(***************************************************************************)
(* C15 -- life cycle of ONE intercepted HTTP flow across the two processes *)
(* of the proxy (hippolyzer/lib/proxy/http_proxy.py, http_event_manager.py,*)
(* http_flow.py, caps.py, addons.py).                                      *)
(*                                                                         *)
(*  proxy process                      main process                        *)
(*  Intercept(ev)  --fromQ-->  Handle(cfg)  (from_state, handlers, hooks,  *)
(*                                           finally-resume)               *)
(*  Apply          <--toQ----  Handle / AddonCall(resume|preempt)          *)
(*                                                                         *)
(* Every action is one observable step of the real code (a hook call on the*)
(* proxy side, one pump_proxy_event, one addon call on a held flow, one    *)
(* iteration of _pump_callbacks).  What happens INSIDE one pump_proxy_event*)
(* is the operator pipeline RunRequest / RunResponse: stages in code order,*)
(* every stage that can raise has a fault position in cfg, addon hooks are *)
(* scripted behaviours.  Flows are independent of each other in the code   *)
(* (they only share the two FIFO queues), hence one flow per behaviour.    *)
(***************************************************************************)
EXTENDS Naturals, Sequences, FiniteSets, TLC

CONSTANTS Kinds,        \* cap kinds the flow's URL may point at (subset of AllKinds)
          Pairs,        \* 10 * session + region for the (session, region) pairs that may own the URL
          BadApply,     \* subset of BOOLEAN: explore unusable state dicts on the proxy side?
          Behaviours,   \* scripted addon behaviours (subset of AllBehaviours)
          NAddons,      \* number of scripted addons in front of the hooks
          Faults,       \* fault positions (subset of AllFaults)
          MaxCalls,     \* late addon calls (resume/take/preempt on a held flow) explored
          CloseSet,     \* sessions whose closing (viewer logout + garbage collection) is explored
          MaxOthers     \* events of OTHER flows that may wait in the proxy -> main queue around ours

AllKinds == {"none", "login", "normal", "seed", "eq", "upload", "temp", "asset", "wrapper", "proxyonly"}
\* "clearcap": the addon clears the attribution (flow.cap_data = None); "setcap": it replaces it
\* with another cap of the universe (AltCap)
AllBehaviours == {"ignore", "take", "takeResume", "resume", "inject", "rewrite", "nostream",
                  "raise", "takeRaise", "handled", "clearcap", "setcap", "mirror"}
\* "mirror": the addon copies the flow, points the copy at another host, drops its attribution and
\* asks the proxy process to replay it (addon_examples/message_mirror.py) while the original goes on
\* "cap": the input that makes the cap-specific code raise (malformed LLSD body for Seed /
\*        EventQueueGet / upload caps, missing wrapped cap for a wrapper, non-XML-RPC login reply)
\* "logger": the message logger raises
AllFaults == {"none", "cap", "logger"}
\* X-SecondLife-Owner-Key of a bridge reply: missing, malformed (UUID() raises), agent of session 1 / 2
Owners == {"absent", "bad", "s1", "s2"}

VARIABLES tgt,     \* [k, s, r]: what the flow's URL denotes (fixed per behaviour)
          px,      \* proxy-side original flow: [phase, icpt, meta]
          fromQ,   \* proxy -> main queue: Seq([ev, meta])
          toQ,     \* main -> proxy queue: Seq([kind, ev, meta]); ev is ghost
          mf,      \* main-process flow object of the last handled event
          hb,      \* ghost: callbacks put per event
          ap,      \* ghost: callbacks applied per event
          handled, \* ghost: events whose handling has ended
          fixed,   \* ghost: flags fixed by the proxy at request interception; a preempt was applied;
                   \*        an addon that changes the attribution was configured (recap)
          out,     \* observation of the last step (excluded from the state VIEW)
          calls,
          closed,  \* sessions that were closed (SessionManager.close_session) and whose objects are gone
          oth      \* other flows' request events: Seq([r, pos, q, back]); r: handling it raises out of
                   \* the pump; pos: queued "ahead" of / "behind" our event; q: still queued; back: callbacks

vars == <<tgt, px, fromQ, toQ, mf, hb, ap, handled, fixed, out, calls, closed, oth>>
View == <<tgt, px, fromQ, toQ, mf, hb, ap, handled, fixed, calls, closed, oth>>

Events == {"request", "response"}
NoCap == [k |-> "unset", s |-> 0, r |-> 0]        \* cap_data is None
EmptyCap == [k |-> "empty", s |-> 0, r |-> 0]     \* CapData(): nothing resolved
Meta0 == [cap |-> NoCap, rinj |-> FALSE, pinj |-> FALSE, stream |-> TRUE, browser |-> FALSE,
          url |-> "orig", resp |-> "none"]
NoFlow == [ev |-> "none", meta |-> Meta0, taken |-> FALSE, resumed |-> FALSE]

Owned(k) == k \notin {"none", "login", "asset"}   \* URL attributable to a session and region
FakeKind(k) == k \in {"wrapper", "proxyonly"}     \* CapType.fake
AssetKind(k) == k \in {"asset", "wrapper"}        \* is_asset_server_cap_name
Targets == {t \in [k : Kinds, s : 0..2, r : 0..2] :
               IF Owned(t.k) THEN 10 * t.s + t.r \in Pairs ELSE t.s = 0 /\ t.r = 0}

AllSessions == {1, 2}
\* session_manager.resolve_cap(url): the caps of a closed session no longer resolve (the shared
\* asset URL resolves through any session that is left)
Resolve(t) == IF t.k \in {"none", "login"} THEN EmptyCap
              ELSE IF t.k = "asset" THEN (IF closed = AllSessions THEN EmptyCap ELSE t)
              ELSE IF t.s \in closed THEN EmptyCap ELSE t
\* what is left of an attribution once the owning session is gone: the cap's name and type
\* stay, session and region read as none (dead weak references / identifiers that match nothing)
Gone(c) == [c EXCEPT !.s = 0, !.r = 0]
Deser(m) == IF m.cap.s \in closed THEN [m EXCEPT !.cap = Gone(@)] ELSE m

\* the cap an addon re-attributes a flow to: another kind, region 2 of the first session still open
Alt(a) == [k |-> IF tgt.k = "normal" THEN "upload" ELSE "normal", s |-> a, r |-> 2]
Open == AllSessions \ closed
AltCap == Alt(CHOOSE a \in Open : \A b \in Open : a <= b)

(*************************** scripted addon hooks **************************)
\* st = [meta, taken, resumed, puts, exc, stop]
\* puts: what the handling put on the main -> proxy queue, in order: [kind, meta]
Put(st) == [st EXCEPT !.puts = Append(@, [kind |-> "callback", meta |-> st.meta]), !.resumed = TRUE, !.taken = FALSE]
Raised(st, swallow) == IF swallow THEN st ELSE [st EXCEPT !.exc = TRUE]
CanTake(st) == ~st.taken /\ ~st.resumed            \* assert in HippoHTTPFlow.take
CanResume(st) == ~st.resumed                       \* assert in HippoHTTPFlow.resume

Hook(b, st, swallow) ==
    CASE b = "ignore" -> st
      [] b = "take" -> IF CanTake(st) THEN [st EXCEPT !.taken = TRUE] ELSE Raised(st, swallow)
      [] b = "takeResume" -> IF CanTake(st) THEN Put(st) ELSE Raised(st, swallow)
      [] b = "resume" -> IF CanResume(st) THEN Put(st) ELSE Raised(st, swallow)
      [] b = "inject" -> [st EXCEPT !.meta.resp = "addon", !.meta.pinj = TRUE]
      [] b = "rewrite" -> [st EXCEPT !.meta.url = "addon"]
      [] b = "nostream" -> [st EXCEPT !.meta.stream = FALSE]
      [] b = "raise" -> Raised(st, swallow)
      [] b = "takeRaise" -> IF CanTake(st) THEN Raised([st EXCEPT !.taken = TRUE], swallow)
                            ELSE Raised(st, swallow)
      [] b = "handled" -> [st EXCEPT !.stop = TRUE]
      [] b = "mirror" -> [st EXCEPT !.puts = Append(@, [kind |-> "replay",
                                                         meta |-> [st.meta EXCEPT !.cap = NoCap, !.url = "mirror"]])]
      [] b = "clearcap" -> [st EXCEPT !.meta.cap = NoCap]
      [] b = "setcap" -> IF Open = {} THEN st ELSE [st EXCEPT !.meta.cap = AltCap]

RECURSIVE Hooks(_, _, _, _)
Hooks(bs, i, st, swallow) ==
    IF i > Len(bs) \/ st.exc \/ st.stop THEN st
    ELSE Hooks(bs, i + 1, Hook(bs[i], st, swallow), swallow)

HandlerInject(st) == [st EXCEPT !.meta.resp = "handler", !.meta.pinj = TRUE]

(*************************** pump_proxy_event ******************************)
\* cfg = [addons : Seq(Behaviours), swallow : BOOLEAN, fault : Faults, logger : BOOLEAN, owner : Owners,
\*        proxied : BOOLEAN]   (proxied: the event manager has seen the asset server itself go through
\*        the proxy -- state it keeps across flows; FALSE for a fresh manager)
Start(m) == [meta |-> m, taken |-> FALSE, resumed |-> FALSE, puts |-> <<>>, exc |-> FALSE, stop |-> FALSE]

\* _handle_request after the hooks: per-cap special cases, then the proxy-only fallback; they go
\* by the cap the URL resolved to (k), whatever the addons made of the flow's attribution
ReqCapSpecific(cfg, k, st) ==
    IF st.exc THEN st
    ELSE LET s1 ==
             CASE k = "wrapper" ->
                      IF cfg.fault = "cap" THEN [st EXCEPT !.exc = TRUE]
                      \* redirect, unless the addons want to see the body or redirecting is known to be futile
                      \* either way the target is the request's CURRENT url (an addon's rewrite included)
                      \* with the wrapper host replaced by the wrapped cap's host
                      ELSE IF st.meta.stream /\ ~cfg.proxied
                           THEN [st EXCEPT !.meta.resp = IF st.meta.url = "addon" THEN "redirAddon" ELSE "redir",
                                           !.meta.pinj = TRUE]
                      ELSE [st EXCEPT !.meta.url = IF @ = "addon" THEN "handlerAddon" ELSE "handler"]
               [] k \in {"eq", "seed"} -> IF cfg.fault = "cap" THEN [st EXCEPT !.exc = TRUE] ELSE st
               [] k = "empty" -> IF tgt.k = "login" /\ ~st.meta.browser
                                 THEN [st EXCEPT !.meta.cap = [k |-> "login", s |-> 0, r |-> 0]] ELSE st
               [] OTHER -> st
         IN IF ~s1.exc /\ k = "proxyonly" /\ ~s1.taken /\ ~s1.meta.pinj THEN HandlerInject(s1) ELSE s1

RunRequest(cfg, m0) ==
    LET m1 == [m0 EXCEPT !.cap = Resolve(tgt)]
        s0 == Start(m1)
        \* the proxy's own requests are passed through unless only the proxy can answer them
        s1 == IF m1.rinj /\ ~FakeKind(m1.cap.k) THEN s0
              ELSE ReqCapSpecific(cfg, m1.cap.k, [Hooks(cfg.addons, 1, s0, cfg.swallow) EXCEPT !.stop = FALSE])
        \* an early injected response is logged now; a raising logger propagates
    IN IF ~s1.exc /\ cfg.logger /\ s1.meta.pinj /\ cfg.fault = "logger" THEN [s1 EXCEPT !.exc = TRUE] ELSE s1

\* FirestormBridge responses are attributed through the owner-key header
Bridge(cfg, st) ==
    IF st.meta.cap.k # "bridge" THEN st
    ELSE CASE cfg.owner = "absent" -> [st EXCEPT !.stop = TRUE]
           [] cfg.owner = "bad" -> [st EXCEPT !.exc = TRUE]
           \* (the agent of a closed session matches nobody: the flow goes on unattributed)
           [] cfg.owner = "s1" -> IF 1 \in closed THEN st ELSE [st EXCEPT !.meta.cap = [k |-> "bridge", s |-> 1, r |-> 1]]
           [] cfg.owner = "s2" -> IF 2 \in closed THEN st ELSE [st EXCEPT !.meta.cap = [k |-> "bridge", s |-> 2, r |-> 1]]

RunResponse(cfg, m0) ==
    LET s0 == Start(m0)   \* a raising logger is swallowed here
    IN IF m0.rinj \/ m0.pinj THEN s0
       ELSE LET sa == IF m0.cap.k = "unset" THEN [s0 EXCEPT !.meta.cap = EmptyCap] ELSE s0
                sb == Bridge(cfg, sa)
                sc == IF sb.exc \/ sb.stop THEN sb ELSE Hooks(cfg.addons, 1, sb, cfg.swallow)
            IN IF sc.exc \/ sc.stop THEN sc
               \* a login reply that is not XML-RPC makes _handle_login_flow raise; every other
               \* cap-specific failure (session/region subscribers, LLSD bodies) is logged and swallowed
               \* (decided by the attribution the event had before the hooks ran)
               ELSE IF sb.meta.cap.k = "login" /\ cfg.fault = "cap" THEN [sc EXCEPT !.exc = TRUE]
               ELSE sc

\* finally: hand the flow back unless an addon owns it or it went back already
Finally(st) == IF ~st.taken /\ ~st.resumed THEN Put(st) ELSE st

Cfgs == [addons : [1..NAddons -> Behaviours], swallow : BOOLEAN, fault : Faults, logger : BOOLEAN,
         owner : Owners, proxied : {FALSE}]
\* configurations that differ only in an input the event cannot observe are collapsed
Acting == {"take", "takeResume", "resume", "takeRaise"}
MayRaise(bs) == \/ \E i \in DOMAIN bs : bs[i] \in {"raise", "takeRaise"}
                \/ \E i, j \in DOMAIN bs : i < j /\ bs[i] \in Acting /\ bs[j] \in Acting
Relevant(ev, cfg, m) ==
    /\ (~MayRaise(cfg.addons) => cfg.swallow)                \* swallowing is moot when no hook raises
    \* where the handlers return before the hooks, "ignore"/"take" suffice to show no hook runs
    /\ ((IF ev = "request" THEN m.rinj /\ ~FakeKind(Resolve(tgt).k) ELSE m.rinj \/ m.pinj)
          => \A i \in DOMAIN cfg.addons : cfg.addons[i] \in {"ignore", "take"})
    /\ (cfg.fault = "logger" => cfg.logger)
    /\ (ev = "request" => cfg.owner = "absent")
    /\ (ev = "response" => (cfg.logger <=> cfg.fault = "logger"))   \* a logger there is the raising one
    /\ (ev = "response" /\ m.cap.k # "bridge" => cfg.owner = "absent")
    /\ (cfg.fault = "cap" => IF ev = "request" THEN Resolve(tgt).k \in {"wrapper", "eq", "seed"}
                                               ELSE m.cap.k \in {"login", "seed", "eq", "upload"})
    \* the login reply in this universe is never a well-formed XML-RPC login response
    /\ (ev = "response" /\ m.cap.k = "login" => cfg.fault = "cap")

(*************************** actions ***************************************)
Init == /\ tgt \in Targets
        /\ px = [phase |-> "start", icpt |-> FALSE, meta |-> Meta0]
        /\ fromQ = <<>> /\ toQ = <<>> /\ mf = NoFlow
        /\ hb = [e \in Events |-> 0] /\ ap = [e \in Events |-> 0] /\ handled = {}
        /\ fixed = [browser |-> FALSE, rinj |-> FALSE, preempted |-> FALSE, recap |-> FALSE]
        /\ out = [n |-> "init", exc |-> FALSE, res |-> "ok"]
        /\ calls = 0 /\ closed = {} /\ oth = <<>>

\* IPCInterceptionAddon.request: flags from the headers, intercept, queue the state
InterceptRequest(browser, hdr) ==
    /\ px.phase = "start"
    /\ LET m == [px.meta EXCEPT !.browser = browser, !.rinj = hdr /\ ~browser] IN
         /\ px' = [phase |-> "req", icpt |-> TRUE, meta |-> m]
         /\ fromQ' = Append(fromQ, [ev |-> "request", meta |-> m])
         /\ fixed' = [fixed EXCEPT !.browser = browser, !.rinj = m.rinj]
    /\ out' = [n |-> "InterceptRequest", exc |-> FALSE, res |-> "ok"]
    /\ UNCHANGED <<tgt, toQ, mf, hb, ap, handled, calls, closed, oth>>

\* SLMITMAddon.responseheaders + response: the server's answer (unless one was injected),
\* bridge replies get a fake cap, intercept, queue.  Whether an injected asset response is
\* handed to the main process at all is left open by the property: not explored.
InterceptResponse(bridge) ==
    /\ px.phase = "mid" /\ ~px.icpt /\ toQ = <<>>
    /\ ~(px.meta.pinj /\ AssetKind(px.meta.cap.k))
    /\ (bridge => ~px.meta.pinj)
    /\ LET m1 == IF px.meta.resp = "none" THEN [px.meta EXCEPT !.resp = "server"] ELSE px.meta
           m == IF bridge /\ ~m1.rinj /\ ~m1.browser /\ m1.cap.k \in {"empty", "unset"}
                THEN [m1 EXCEPT !.cap = [k |-> "bridge", s |-> 0, r |-> 0]] ELSE m1 IN
         /\ px' = [phase |-> "resp", icpt |-> TRUE, meta |-> m]
         /\ fromQ' = Append(fromQ, [ev |-> "response", meta |-> m])
    /\ out' = [n |-> "InterceptResponse", exc |-> FALSE, res |-> "ok"]
    /\ UNCHANGED <<tgt, toQ, mf, hb, ap, handled, fixed, calls, closed, oth>>

\* MITMProxyEventManager.pump_proxy_event, one queued event
HandleBody(cfg) ==
    /\ fromQ # <<>>
    /\ LET it == Head(fromQ)
           ev == it.ev
           m0 == Deser(it.meta)     \* from_state: identifiers of a closed session match nothing
       IN /\ LET st == Finally(IF ev = "request" THEN RunRequest(cfg, m0) ELSE RunResponse(cfg, m0)) IN
               /\ mf' = [ev |-> ev, meta |-> st.meta, taken |-> st.taken, resumed |-> st.resumed]
               /\ toQ' = toQ \o [i \in 1..Len(st.puts) |-> [kind |-> st.puts[i].kind, ev |-> ev, meta |-> st.puts[i].meta]]
               /\ hb' = [hb EXCEPT ![ev] = @ + Cardinality({i \in 1..Len(st.puts) : st.puts[i].kind = "callback"})]
               /\ out' = [n |-> "Handle", exc |-> st.exc \/ \E i \in DOMAIN oth : oth[i].q /\ oth[i].r, res |-> "ok"]
          /\ handled' = handled \cup {ev}
          /\ fromQ' = Tail(fromQ)
    /\ fixed' = [fixed EXCEPT !.recap = @ \/ \E i \in DOMAIN cfg.addons : cfg.addons[i] \in {"clearcap", "setcap"}]
    \* the main process pumps until the queue is empty (MITMProxyEventManager.run): every other
    \* event waiting there -- ahead of ours or behind it -- is handled and handed back too, exactly
    \* once each, whichever of them raises
    /\ oth' = [i \in DOMAIN oth |-> IF oth[i].q THEN [oth[i] EXCEPT !.q = FALSE, !.back = @ + 1] ELSE oth[i]]
    /\ UNCHANGED <<tgt, px, ap, calls, closed>>

Handle(cfg) == fromQ # <<>> /\ Relevant(Head(fromQ).ev, cfg, Head(fromQ).meta) /\ HandleBody(cfg)

\* an addon that kept the flow object calls take / resume / preempt on it later
\* (mod: it first injects a response, the usual reason for taking a request)
AddonCall(op, mod) ==
    /\ mf.ev # "none" /\ calls < MaxCalls
    /\ calls' = calls + 1
    /\ LET m == IF mod /\ op = "resume" /\ mf.taken THEN [mf.meta EXCEPT !.resp = "addon", !.pinj = TRUE] ELSE mf.meta
           \* (a late take is never legal: after handling a flow is owned or has gone back)
           legal == CASE op = "take" -> ~mf.taken /\ ~mf.resumed
                      [] op = "resume" -> ~mf.resumed
                      [] op = "preempt" -> ~mf.taken /\ mf.resumed
       IN /\ (mod => op = "resume" /\ mf.taken)
          /\ out' = [n |-> "AddonCall", exc |-> FALSE, res |-> IF legal THEN "ok" ELSE "assert"]
          /\ IF ~legal THEN UNCHANGED <<mf, toQ, hb>>
             ELSE CASE op = "take" -> mf' = [mf EXCEPT !.taken = TRUE] /\ UNCHANGED <<toQ, hb>>
                    [] op = "resume" ->
                         /\ mf' = [mf EXCEPT !.meta = m, !.taken = FALSE, !.resumed = TRUE]
                         /\ toQ' = Append(toQ, [kind |-> "callback", ev |-> mf.ev, meta |-> m])
                         /\ hb' = [hb EXCEPT ![mf.ev] = @ + 1]
                    [] op = "preempt" ->
                         /\ toQ' = Append(toQ, [kind |-> "preempt", ev |-> mf.ev, meta |-> mf.meta])
                         /\ UNCHANGED <<mf, hb>>
    /\ UNCHANGED <<tgt, px, fromQ, ap, handled, fixed, closed, oth>>

\* IPCInterceptionAddon._pump_callbacks, one item.  bad: the state dict is unusable
\* (set_state raises) -- the original flow must be resumed all the same.
Apply(bad) ==
    /\ toQ # <<>>
    /\ LET it == Head(toQ) IN
         /\ (bad => it.kind = "callback")
         \* a replay item creates ANOTHER flow (fresh identity, the copy's content): it is intercepted
         \* and its request event queued like any other flow's; the original is not touched by it
         /\ oth' = IF it.kind = "replay"
                   THEN Append(oth, [r |-> FALSE, pos |-> IF fromQ = <<>> THEN "ahead" ELSE "behind", q |-> TRUE, back |-> 0])
                   ELSE oth
         /\ px' = IF it.kind = "replay" THEN px ELSE
                 [phase |-> IF bad THEN "dead"
                             ELSE IF it.kind = "preempt" THEN px.phase
                             ELSE IF it.ev = "request" /\ px.phase = "req" THEN "mid"
                             ELSE IF it.ev = "response" /\ px.phase = "resp" THEN "end" ELSE px.phase,
                   icpt |-> FALSE,
                   meta |-> IF bad THEN px.meta ELSE it.meta]
         /\ ap' = IF it.kind = "callback" THEN [ap EXCEPT ![it.ev] = @ + 1] ELSE ap
    /\ fixed' = [fixed EXCEPT !.preempted = @ \/ Head(toQ).kind = "preempt"]
    /\ toQ' = Tail(toQ)
    /\ out' = [n |-> "Apply", exc |-> FALSE, res |-> IF bad THEN "bad" ELSE "ok"]
    /\ UNCHANGED <<tgt, fromQ, mf, hb, handled, calls, closed>>

\* The viewer logs out: SessionManager.close_session, and the session's and its regions' objects
\* become unreferenced and are collected.  Queue items and the proxy-side flow carry identifiers
\* (strings), they do not change; the main-process flow object holds weak references, which now
\* read as none.  A flow an addon holds must still go back exactly once when released.
CloseBody(s) ==
    /\ s \notin closed
    /\ closed' = closed \cup {s}
    /\ mf' = IF mf.meta.cap.s = s THEN [mf EXCEPT !.meta.cap = Gone(@)] ELSE mf
    /\ out' = [n |-> "SessionCloses", exc |-> FALSE, res |-> "ok"]
    /\ UNCHANGED <<tgt, px, fromQ, toQ, hb, ap, handled, fixed, calls, oth>>
\* explored: one closing per behaviour, any time after the first event was handled while nothing
\* waits for the main process (held by an addon, handed back, between request and response)
SessionCloses(s) == s \in CloseSet /\ closed = {} /\ mf.ev # "none" /\ fromQ = <<>> /\ CloseBody(s)

\* The proxy-side pump wakes up and finds nothing to apply (yet): any number of times, at any
\* point -- also while an item is still on its way through the queue.  Nothing may change; in
\* particular an intercepted flow stays intercepted (HeldUntilApplied).
IdlePoll == /\ out' = [n |-> "IdlePoll", exc |-> FALSE, res |-> "ok"]
            /\ UNCHANGED <<tgt, px, fromQ, toQ, mf, hb, ap, handled, fixed, calls, closed, oth>>

\* Another flow is intercepted and its request event queued for the main process: in front of our
\* event (ours is about to be intercepted) or behind it (ours is waiting).  Several events are
\* then pending when the main process pumps.
EnqueueOther(r) ==
    /\ Len(oth) < MaxOthers
    /\ fromQ # <<>> \/ (~px.icpt /\ px.phase \in {"start", "mid"} /\ toQ = <<>>)
    /\ oth' = Append(oth, [r |-> r, pos |-> IF fromQ = <<>> THEN "ahead" ELSE "behind", q |-> TRUE, back |-> 0])
    /\ out' = [n |-> "EnqueueOther", exc |-> FALSE, res |-> "ok"]
    /\ UNCHANGED <<tgt, px, fromQ, toQ, mf, hb, ap, handled, fixed, calls, closed>>

Next == \/ \E b, h \in BOOLEAN : InterceptRequest(b, h)
        \/ \E b \in BOOLEAN : InterceptResponse(b)
        \/ \E cfg \in Cfgs : Handle(cfg)
        \/ \E op \in {"take", "resume", "preempt"}, mod \in BOOLEAN : AddonCall(op, mod)
        \/ \E bad \in BadApply : Apply(bad)
        \/ \E s \in CloseSet : SessionCloses(s)
        \/ IdlePoll
        \/ \E r \in BOOLEAN : EnqueueOther(r)

Spec == Init /\ [][Next]_vars

(*************************** properties ************************************)
OwnedByAddon(ev) == mf.ev = ev /\ mf.taken /\ ~mf.resumed

\* never handed back twice
AtMostOnce == \A ev \in Events : hb[ev] <= 1
\* as soon as handling has ended the event has been handed back, unless an addon owns it
BackUnlessOwned == \A ev \in handled : hb[ev] = 1 \/ (hb[ev] = 0 /\ OwnedByAddon(ev))
\* ... and an owned flow has not gone back, a released one has, exactly when released
OwnedNotBack == \A ev \in Events : OwnedByAddon(ev) => hb[ev] = 0
ResumedIffBack == mf.ev # "none" => (mf.resumed <=> hb[mf.ev] = 1)
TakenExclusive == ~(mf.taken /\ mf.resumed)
\* not handed back before it was handled, not applied before it was handed back
Causal == /\ \A ev \in Events : ap[ev] <= hb[ev] /\ (hb[ev] > 0 => ev \in handled)
          /\ Len(fromQ) <= 1
\* the proxy keeps the flow intercepted until the hand-back is applied
\* (a preempt of the finished request event may race the response event: documented in the code)
HeldUntilApplied == /\ (px.phase = "req" /\ ap["request"] = 0) => px.icpt
                    /\ (px.phase = "resp" /\ ap["response"] = 0 /\ ~fixed.preempted) => px.icpt

\* every copy of the flow state, wherever it currently lives
Copies == {px.meta, mf.meta} \cup {fromQ[i].meta : i \in 1..Len(fromQ)} \cup {toQ[i].meta : i \in 1..Len(toQ)}
Expected(c) == \/ c.k \in {"unset", "empty"}
               \/ c = tgt /\ tgt.k \notin {"none", "login"}
               \/ c = Gone(tgt) /\ tgt.s \in closed
               \/ c.k = "login" /\ tgt.k = "login" /\ c.s = 0
               \/ c.k = "bridge"
               \/ \E a \in AllSessions : c = Alt(a) \/ c = Gone(Alt(a))
\* routing metadata never changes behind the back of the handlers
RoutingStable == \A m \in Copies : Expected(m.cap)
FlagsStable == \A m \in Copies : m = Meta0 \/ (m.browser = fixed.browser /\ m.rinj = fixed.rinj)
\* after resolution the attribution is never lost again on its way through the processes
\* (a hand-back made after the owning session went away names the cap without session and region)
AttributionKept == ("request" \in handled /\ Owned(tgt.k) /\ px.phase # "dead" /\ ~fixed.recap)
                     => \A i \in 1..Len(toQ) : toQ[i].kind = "replay" \/ toQ[i].meta.cap = tgt
                                                  \/ (tgt.s \in closed /\ toQ[i].meta.cap = Gone(tgt))
AppliedAttribution == (ap["request"] = 1 /\ Owned(tgt.k) /\ px.phase \in {"mid", "resp", "end"} /\ ~fixed.recap)
                        => px.meta.cap = tgt \/ (tgt.s \in closed /\ px.meta.cap = Gone(tgt))
\* the law is per flow: whatever else waits in the queue and whichever handler raises, every
\* event handed over is handed back exactly once
OthersExactlyOnce == \A i \in DOMAIN oth : oth[i].back = (IF oth[i].q THEN 0 ELSE 1)
\* the main-process object never shows a session that is gone
GoneReadsNone == mf.meta.cap.s \notin closed
\* closing a session neither hands a flow back nor prevents it: the other invariants are stated
\* over hb/ap/mf only and hold across SessionCloses (checked by TLC like any other action)
\* a hand-back says "response injected" exactly when it carries an injected response
InjectedSurvives == \A i \in 1..Len(toQ) :
                        toQ[i].meta.pinj <=> toQ[i].meta.resp \in {"addon", "handler", "redir", "redirAddon"}
\* a wrapper redirect never points at a stale (pre-rewrite) url
RedirectFollowsRewrite == \A i \in 1..Len(toQ) : LET m == toQ[i].meta IN toQ[i].kind = "replay" \/
                              /\ (m.resp = "redir" => m.url = "orig") /\ (m.resp = "redirAddon" => m.url = "addon")
(*************************** observation (binding B1) **********************)
Obs == [px |-> [icpt |-> px.icpt, meta |-> px.meta],
        fromQ |-> fromQ,
        toQ |-> [i \in 1..Len(toQ) |-> [kind |-> toQ[i].kind, meta |-> toQ[i].meta]],
        mf |-> mf, out |-> out]
=============================================================================
