------------------------------- MODULE Waiters -------------------------------
(***************************************************************************)
(* Life cycle of asynchronous message waiters on a proxied circuit          *)
(* (base/message/message_handler.py wait_for / subscribe_async,             *)
(*  base/events.py Event, proxy/lludp_proxy.py tail).                       *)
(*                                                                         *)
(* An addon coroutine may wait for the next matching message               *)
(* (wait_for, optional timeout) or open a subscription block               *)
(* (subscribe_async).  With take=TRUE a matching message is taken out of    *)
(* the normal flow (the original is dropped, the waiter owns a copy).       *)
(* C07 at this level: a message is withheld from the wire only while a      *)
(* LIVE waiter that takes is subscribed; once a waiter is resolved, timed   *)
(* out or closed it never takes a message again, and every message not      *)
(* taken is forwarded exactly once.                                        *)
(***************************************************************************)
EXTENDS Naturals, Sequences, FiniteSets, TLC

CONSTANTS N,        \* waiters created during one behaviour
          T         \* the timeout used by waiters that have one (clock units)

VARIABLES w,        \* sequence of waiters, in creation order
          out       \* observation of the last event

vars == <<w, out>>

\* kind "wait" = wait_for, "async" = subscribe_async block
\* st: "live" | "cancelled" (awaiting task cancelled) | "resolved" | "expired" | "closed"
\* sub: the waiter's handler is still subscribed;  left: time left until the timeout (0 = none)
Waiter(kind, take, to) == [kind |-> kind, take |-> take, left |-> to, st |-> "live", sub |-> TRUE, got |-> 0, el |-> FALSE]

Init == w = <<>> /\ out = [ev |-> "init"]

Start(kind, take, hasTo) ==
    /\ Len(w) < N
    /\ (kind = "async" => ~hasTo)
    /\ w' = Append(w, Waiter(kind, take, IF hasTo THEN T ELSE 0))
    /\ out' = [ev |-> "start"]

\* the coroutine awaiting a wait_for future is cancelled (addon unloaded, session closed ...)
Cancel(i) ==
    /\ i \in DOMAIN w /\ w[i].kind = "wait" /\ w[i].st = "live"
    /\ w' = [w EXCEPT ![i].st = "cancelled"]
    /\ out' = [ev |-> "cancel"]

\* the subscription block is left
Close(i) ==
    /\ i \in DOMAIN w /\ w[i].kind = "async" /\ w[i].st = "live"
    /\ w' = [w EXCEPT ![i].st = "closed", ![i].sub = FALSE]
    /\ out' = [ev |-> "close"]

\* the clock advances; pending timeouts that run out end their wait, whatever became of the future
Advance(dt) ==
    /\ \E i \in DOMAIN w : w[i].sub /\ w[i].left > 0
    /\ w' = [i \in DOMAIN w |->
                IF w[i].sub /\ w[i].left > 0
                THEN IF w[i].left <= dt
                     THEN [w[i] EXCEPT !.left = 0, !.sub = FALSE, !.el = TRUE,
                                       !.st = IF w[i].st = "live" THEN "expired" ELSE w[i].st]
                     ELSE [w[i] EXCEPT !.left = w[i].left - dt]
                ELSE w[i]]
    /\ out' = [ev |-> "advance"]

Takers == {i \in DOMAIN w : w[i].sub /\ w[i].take}
LiveTakers == {i \in Takers : w[i].st = "live"}
\* a stale taker: its coroutine was cancelled but its wait has not timed out yet.  Whether the
\* message is still withheld then is left open by the property.
\* a matching message passes the proxy
Message(rel) ==
    LET must0 == LiveTakers # {}
        may0 == Takers # {}
    IN
    /\ w' = [i \in DOMAIN w |->
                IF ~w[i].sub THEN w[i]
                ELSE IF w[i].kind = "async" THEN [w[i] EXCEPT !.got = @ + 1]
                ELSE [w[i] EXCEPT !.sub = FALSE, !.left = 0, !.got = IF w[i].st = "live" THEN @ + 1 ELSE @,
                                  !.st = IF w[i].st = "live" THEN "resolved" ELSE w[i].st]]
    /\ out' = [ev |-> "message", rel |-> rel,
               wireAllowed |-> IF must0 THEN {0} ELSE IF may0 THEN {0, 1} ELSE {1},
               delivered |-> {i \in DOMAIN w : w[i].sub /\ w[i].st = "live"}]

Next == \/ \E kind \in {"wait", "async"}, take \in BOOLEAN, hasTo \in BOOLEAN : Start(kind, take, hasTo)
        \/ \E i \in 1..N : Cancel(i) \/ Close(i)
        \/ \E dt \in {1, T} : Advance(dt)
        \/ \E rel \in BOOLEAN : Message(rel)
Spec == Init /\ [][Next]_vars

(***************************** properties **********************************)
\* a waiter that is resolved, expired or closed is unsubscribed: it can never take again
FinishedNeverTakes == \A i \in DOMAIN w : w[i].st \in {"resolved", "expired", "closed"} => ~w[i].sub
\* a timeout that ran out has ended the wait, whatever became of the future
ElapsedMeansGone == \A i \in DOMAIN w : w[i].el => ~w[i].sub
\* a message with no subscribed taker goes out exactly once; one with a live taker is withheld
ForwardRule == out.ev = "message" =>
                  /\ out.wireAllowed # {}
                  /\ (out.wireAllowed = {0} => \E i \in DOMAIN w : w[i].take /\ w[i].got > 0)
\* a wait_for waiter receives at most one message
WaitOnce == \A i \in DOMAIN w : w[i].kind = "wait" => w[i].got <= 1

Obs == [futs |-> [i \in DOMAIN w |-> IF w[i].kind = "async" THEN "async"
                                     ELSE CASE w[i].st = "live" -> "pending"
                                            [] w[i].st = "resolved" -> "result"
                                            [] w[i].st = "expired" -> "timeout"
                                            [] w[i].st = "cancelled" -> "cancelled"],
        got |-> [i \in DOMAIN w |-> w[i].got]]
=============================================================================
