------------------------------ MODULE LLUDPFrame ------------------------------
(***************************************************************************)
(* The LLUDP datagram format as executable reference semantics (binding B3) *)
(* for C01 (codec round trip) and C02 (pass-through fidelity).              *)
(*                                                                         *)
(* A template is data:                                                     *)
(*   [freq : {"High","Medium","Low","Fixed"}, num : Nat,                   *)
(*    blocks : Seq([kind : {"Single","Multiple","Variable"}, n : Nat,      *)
(*                  vars : Seq([t : type name, size : Nat])])]             *)
(*   `size' is the width of a Fixed variable resp. the width of the length *)
(*   prefix of a Variable one (1 or 2); the widths of all other types are  *)
(*   prescribed HERE (PrimWidth), not read from the implementation.        *)
(*                                                                         *)
(* A message is [flags : 0..255, pid : <<hi16, lo16>>, extra : bytes,      *)
(*               acks : Seq(<<hi16, lo16>>), blocks : Seq(Seq(Seq(value)))] *)
(* blocks[k] are the instances of template block k (trailing template      *)
(* blocks may be absent), an instance is the sequence of its variables'    *)
(* values.  A value is one of                                              *)
(*   [k |-> "raw", b |-> bytes]      the packed payload itself             *)
(*   [k |-> "str", b |-> utf8 bytes] text: payload is b followed by one 00 *)
(*   [k |-> "int", neg |-> 0/1, mag |-> little-endian 16-bit limbs]        *)
(*   [k |-> "unset"]                 left to default filling               *)
(* (32/64-bit quantities never exist as TLC integers.)                      *)
(*                                                                         *)
(* Zero-coding is ZeroCode!Encode / Decode (C03's module, extended here).   *)
(***************************************************************************)
EXTENDS ZeroCode

\* ------------------------------------------------------------------ helpers
Min2(a, b) == IF a < b THEN a ELSE b
Take(s, n) == SubSeq(s, 1, Min2(n, Len(s)))
Drop(s, n) == SubSeq(s, n + 1, Len(s))
Rev(s) == [i \in 1..Len(s) |-> s[Len(s) + 1 - i]]
RECURSIVE Flat(_)
Flat(ss) == IF ss = <<>> THEN <<>> ELSE ss[1] \o Flat(Tail(ss))
RECURSIVE Pow256(_)
Pow256(k) == IF k = 0 THEN 1 ELSE 256 * Pow256(k - 1)
LE(n, w) == [i \in 1..w |-> (n \div Pow256(i - 1)) % 256]        \* n < 2^31
BE(n, w) == Rev(LE(n, w))
RECURSIVE LEVal(_)
LEVal(bs) == IF bs = <<>> THEN 0 ELSE bs[1] + 256 * LEVal(Tail(bs))  \* Len(bs) <= 2 here
AllZero(s) == \A i \in 1..Len(s) : s[i] = 0
HasBit(f, bit) == (f \div bit) % 2 = 1
ZBit == 128
RBit == 64
SBit == 32
ABit == 16
ZCap == 12288   \* 0x3000, the expansion bound of the decoder (decided by C03)

\* -------------------------------------------------------- the type table
PrimWidth == [U8 |-> 1, S8 |-> 1, BOOL |-> 1, U16 |-> 2, S16 |-> 2, IPPORT |-> 2,
              U32 |-> 4, S32 |-> 4, F32 |-> 4, IPADDR |-> 4, U64 |-> 8, S64 |-> 8, F64 |-> 8,
              LLVector3 |-> 12, LLQuaternion |-> 12, LLVector4 |-> 16, LLUUID |-> 16, LLVector3d |-> 24]
TypeNames == DOMAIN PrimWidth \cup {"Fixed", "Variable"}
Signed(t) == t \in {"S8", "S16", "S32", "S64"}
BigEndian(t) == t = "IPPORT"          \* the one body field in network order
F32Count(t) == CASE t = "F32" -> 1 [] t \in {"LLVector3", "LLQuaternion"} -> 3 [] t = "LLVector4" -> 4 [] OTHER -> 0
Width(v) == IF v.t = "Fixed" THEN v.size ELSE PrimWidth[v.t]      \* not for Variable

WellFormedTemplate(T) ==
    /\ T.freq \in {"High", "Medium", "Low", "Fixed"}
    /\ T.num \in 0..(IF T.freq = "Low" THEN 65535 ELSE 255)
    /\ \A k \in 1..Len(T.blocks) :
         /\ T.blocks[k].kind \in {"Single", "Multiple", "Variable"}
         /\ T.blocks[k].kind = "Multiple" => T.blocks[k].n \in 1..255
         /\ \A j \in 1..Len(T.blocks[k].vars) :
              LET v == T.blocks[k].vars[j] IN
              /\ v.t \in TypeNames
              /\ v.t = "Variable" => v.size \in {1, 2}
              /\ v.t = "Fixed" => v.size \in 1..255

\* -------------------------------------------------------------- payloads
Inv(bs) == [i \in 1..Len(bs) |-> 255 - bs[i]]
RECURSIVE Inc(_)     \* little-endian + 1, wrapping
Inc(bs) == IF bs = <<>> THEN <<>>
           ELSE IF bs[1] = 255 THEN <<0>> \o Inc(Tail(bs)) ELSE <<bs[1] + 1>> \o Tail(bs)
LimbBytes(mag) == Flat([i \in 1..Len(mag) |-> <<mag[i] % 256, mag[i] \div 256>>])
MagLE(mag, w) == Take(LimbBytes(mag) \o Zeros(w), w)
TwosLE(x, w) == IF x.neg = 1 THEN Inc(Inv(MagLE(x.mag, w))) ELSE MagLE(x.mag, w)
IntPayload(v, x) == IF BigEndian(v.t) THEN Rev(TwosLE(x, Width(v))) ELSE TwosLE(x, Width(v))
IntInRange(v, x) ==
    LET w == Width(v)
        le == TwosLE(x, w)
    IN /\ AllZero(Drop(LimbBytes(x.mag), w))
       /\ IF Signed(v.t) THEN (le[w] >= 128) <=> (x.neg = 1 /\ ~AllZero(x.mag))
          ELSE x.neg = 0

Payload(v, x) ==
    CASE x.k = "raw" -> x.b
      [] x.k = "str" -> x.b \o <<0>>
      [] x.k = "int" -> IntPayload(v, x)
      [] x.k = "unset" -> IF v.t = "Variable" THEN <<>> ELSE Zeros(Width(v))   \* default filling
WellTypedVal(v, x) ==
    /\ x.k = "int" => (v.t \notin {"Fixed", "Variable"} /\ IntInRange(v, x))
    /\ x.k = "str" => v.t \in {"Fixed", "Variable"}
    /\ IF v.t = "Variable" THEN Len(Payload(v, x)) < Pow256(v.size)
       ELSE Len(Payload(v, x)) = Width(v)

EncVar(v, x) == LET p == Payload(v, x) IN IF v.t = "Variable" THEN LE(Len(p), v.size) \o p ELSE p
EncInst(b, inst) == Flat([j \in 1..Len(b.vars) |-> EncVar(b.vars[j], inst[j])])
EncBlock(b, insts) == (IF b.kind = "Variable" THEN <<Len(insts)>> ELSE <<>>)
                      \o Flat([i \in 1..Len(insts) |-> EncInst(b, insts[i])])
WellFormedBlock(b, insts) ==
    /\ CASE b.kind = "Single" -> Len(insts) = 1
         [] b.kind = "Multiple" -> Len(insts) = b.n
         [] b.kind = "Variable" -> Len(insts) <= 255
    /\ \A i \in 1..Len(insts) :
         /\ Len(insts[i]) = Len(b.vars)
         /\ \A j \in 1..Len(b.vars) : WellTypedVal(b.vars[j], insts[i][j])
\* a message that conforms to T (trailing blocks may be absent: Len(m.blocks) <= Len(T.blocks))
WellFormedMsg(T, m) ==
    /\ m.flags \in 0..255 /\ Len(m.extra) <= 255 /\ Len(m.acks) <= 255
    /\ \A i \in 1..Len(m.extra) : m.extra[i] \in 0..255
    /\ (~HasBit(m.flags, ABit)) => m.acks = <<>>
    /\ Len(m.blocks) <= Len(T.blocks)
    /\ \A k \in 1..Len(m.blocks) : WellFormedBlock(T.blocks[k], m.blocks[k])
Conformant(T, m) == WellFormedMsg(T, m) /\ Len(m.blocks) = Len(T.blocks)

\* the same message with every value replaced by its packed payload
PayInst(b, inst) == [j \in 1..Len(b.vars) |-> Payload(b.vars[j], inst[j])]
PayBlocks(T, bl) == [k \in 1..Len(bl) |-> [i \in 1..Len(bl[k]) |-> PayInst(T.blocks[k], bl[k][i])]]
HasUnset(m) == \E k \in 1..Len(m.blocks) : \E i \in 1..Len(m.blocks[k]) :
                 \E j \in 1..Len(m.blocks[k][i]) : m.blocks[k][i][j].k = "unset"
HasUnsetOf(T, m, ty) == \E k \in 1..Len(m.blocks) : \E i \in 1..Len(m.blocks[k]) :
                 \E j \in 1..Len(m.blocks[k][i]) : m.blocks[k][i][j].k = "unset" /\ T.blocks[k].vars[j].t = ty

\* --------------------------------------------------------------- encoding
MsgNum(T) == CASE T.freq = "High" -> <<T.num>>
               [] T.freq = "Medium" -> <<255, T.num>>
               [] T.freq = "Low" -> <<255, 255>> \o BE(T.num, 2)
               [] T.freq = "Fixed" -> <<255, 255, 255, T.num>>
NumLen(T) == Len(MsgNum(T))
BlocksBytes(T, bl) == Flat([k \in 1..Len(bl) |-> EncBlock(T.blocks[k], bl[k])])
\* the (uncompressed) body: message number, extra header bytes, blocks; all of it is zero-coded when Z
Body(T, m) == MsgNum(T) \o m.extra \o BlocksBytes(T, m.blocks)
BE32(p) == BE(p[1], 2) \o BE(p[2], 2)
\* acks: IDs in reverse order, big-endian, then the count byte
AckTail(acks) == Flat([i \in 1..Len(acks) |-> BE32(acks[Len(acks) + 1 - i])]) \o <<Len(acks)>>
WireBody(T, m) == IF HasBit(m.flags, ZBit) THEN Encode(Body(T, m)) ELSE Body(T, m)
Datagram(T, m) == <<m.flags>> \o BE32(m.pid) \o <<Len(m.extra)>> \o WireBody(T, m)
                  \o (IF HasBit(m.flags, ABit) THEN AckTail(m.acks) ELSE <<>>)
\* the length the template prescribes
RECURSIVE SumSeq(_)
SumSeq(s) == IF s = <<>> THEN 0 ELSE s[1] + SumSeq(Tail(s))
VarLen(v, x) == IF v.t = "Variable" THEN v.size + Len(Payload(v, x)) ELSE Width(v)
PrescribedBodyLen(T, m) ==
    NumLen(T) + Len(m.extra)
    + SumSeq([k \in 1..Len(m.blocks) |->
                (IF T.blocks[k].kind = "Variable" THEN 1 ELSE 0)
                + SumSeq([i \in 1..Len(m.blocks[k]) |->
                            SumSeq([j \in 1..Len(T.blocks[k].vars) |-> VarLen(T.blocks[k].vars[j], m.blocks[k][i][j])])])])

\* --------------------------------------------------------------- decoding
\* Fixed part of the header, ack trailer snipped off.  A datagram is refused when it is not longer
\* than the 6 header bytes or when the acks would reach into them.
Hdr(d) ==
    IF Len(d) <= 6 THEN [ok |-> FALSE]
    ELSE LET A == HasBit(d[1], ABit)
             n == IF A THEN d[Len(d)] ELSE 0
         IN IF A /\ ~(Len(d) > 4 * n + 7) THEN [ok |-> FALSE]
            ELSE LET size == IF A THEN Len(d) - 1 - 4 * n ELSE Len(d)
                 IN [ok |-> TRUE, flags |-> d[1],
                     pid |-> <<d[2] * 256 + d[3], d[4] * 256 + d[5]>>,
                     off |-> d[6],
                     body |-> SubSeq(d, 7, size),
                     \* the last ID on the wire is the first ack
                     acks |-> [i \in 1..n |-> LET p == size + 4 * (n - i) IN <<d[p + 1] * 256 + d[p + 2], d[p + 3] * 256 + d[p + 4]>>]]
\* message number: 0..3 leading FF select the frequency class
ParseMsgNum(s) ==
    LET ff == IF Len(s) >= 1 /\ s[1] = 255
              THEN (IF Len(s) >= 2 /\ s[2] = 255 THEN (IF Len(s) >= 3 /\ s[3] = 255 THEN 3 ELSE 2) ELSE 1)
              ELSE 0
    IN CASE ff = 0 -> IF Len(s) >= 1 THEN [ok |-> TRUE, freq |-> "High", num |-> s[1], len |-> 1] ELSE [ok |-> FALSE]
         [] ff = 1 -> IF Len(s) >= 2 THEN [ok |-> TRUE, freq |-> "Medium", num |-> s[2], len |-> 2] ELSE [ok |-> FALSE]
         [] ff = 2 -> IF Len(s) >= 4 THEN [ok |-> TRUE, freq |-> "Low", num |-> s[3] * 256 + s[4], len |-> 4] ELSE [ok |-> FALSE]
         [] ff = 3 -> IF Len(s) >= 4 THEN [ok |-> TRUE, freq |-> "Fixed", num |-> s[4], len |-> 4] ELSE [ok |-> FALSE]
\* what identifies the message: number and extra bytes, both inside the (possibly zero-coded) body.
\* Expanding the first 10 + 2*off wire bytes is enough: a byte never takes more than two.
Ident(h) ==
    LET hx == IF HasBit(h.flags, ZBit) THEN Decode(Take(h.body, 10 + 2 * h.off)) ELSE h.body
        mn == ParseMsgNum(hx)
    IN IF ~mn.ok THEN [ok |-> FALSE]
       ELSE IF Len(hx) < mn.len + h.off THEN [ok |-> FALSE]
       ELSE [ok |-> TRUE, freq |-> mn.freq, num |-> mn.num, extra |-> SubSeq(hx, mn.len + 1, mn.len + h.off)]
\* A header is acceptable for template T
HeaderFor(T, d) == LET h == Hdr(d) IN h.ok /\ LET id == Ident(h) IN id.ok /\ id.freq = T.freq /\ id.num = T.num

\* -- body
PVar(v, s, i) ==
    IF v.t = "Variable"
    THEN IF i + v.size - 1 > Len(s) THEN [ok |-> FALSE]
         ELSE LET n == LEVal(SubSeq(s, i, i + v.size - 1))
              IN IF i + v.size + n - 1 > Len(s) THEN [ok |-> FALSE]
                 ELSE [ok |-> TRUE, v |-> SubSeq(s, i + v.size, i + v.size + n - 1), i |-> i + v.size + n]
    ELSE LET w == Width(v)
         IN IF i + w - 1 > Len(s) THEN [ok |-> FALSE]
            ELSE [ok |-> TRUE, v |-> SubSeq(s, i, i + w - 1), i |-> i + w]
RECURSIVE PVars(_, _, _, _)
PVars(vs, j, s, i) ==
    IF j > Len(vs) THEN [ok |-> TRUE, vals |-> <<>>, i |-> i]
    ELSE LET r == PVar(vs[j], s, i)
         IN IF ~r.ok THEN [ok |-> FALSE]
            ELSE LET q == PVars(vs, j + 1, s, r.i)
                 IN IF ~q.ok THEN [ok |-> FALSE] ELSE [ok |-> TRUE, vals |-> <<r.v>> \o q.vals, i |-> q.i]
RECURSIVE PInsts(_, _, _, _)
PInsts(b, c, s, i) ==
    IF c = 0 THEN [ok |-> TRUE, insts |-> <<>>, i |-> i]
    ELSE LET r == PVars(b.vars, 1, s, i)
         IN IF ~r.ok THEN [ok |-> FALSE]
            ELSE LET q == PInsts(b, c - 1, s, r.i)
                 IN IF ~q.ok THEN [ok |-> FALSE] ELSE [ok |-> TRUE, insts |-> <<r.vals>> \o q.insts, i |-> q.i]
\* Blocks in template order; data ending exactly at a block boundary means the remaining
\* (trailing) blocks are absent.
RECURSIVE PBlocks(_, _, _, _)
PBlocks(bs, k, s, i) ==
    IF k > Len(bs) \/ i > Len(s) THEN [ok |-> TRUE, blocks |-> <<>>, i |-> i]
    ELSE LET b == bs[k]
             c == CASE b.kind = "Single" -> 1 [] b.kind = "Multiple" -> b.n [] b.kind = "Variable" -> s[i]
             r == PInsts(b, c, s, IF b.kind = "Variable" THEN i + 1 ELSE i)
         IN IF ~r.ok THEN [ok |-> FALSE]
            ELSE LET q == PBlocks(bs, k + 1, s, r.i)
                 IN IF ~q.ok THEN [ok |-> FALSE] ELSE [ok |-> TRUE, blocks |-> <<r.insts>> \o q.blocks, i |-> q.i]

\* Parse of a datagram whose header is acceptable for T.  status:
\*   "ok"    blocks (payload level) and the unknown bytes behind the last template block (rest)
\*   "fail"  the data ends inside a block / before the extra bytes end
\*   "empty" no block at all although the template has some (left open: may be refused)
\*   "open"  zero-coded body expanding beyond the decoder's bound (left open, see C03)
Parse(T, d) ==
    LET h == Hdr(d)
        hd == [flags |-> h.flags, pid |-> h.pid, acks |-> h.acks, off |-> h.off]
    IN IF HasBit(h.flags, ZBit) /\ DecodedLen(h.body) > ZCap THEN [status |-> "open", hd |-> hd]
       ELSE LET full == IF HasBit(h.flags, ZBit) THEN Decode(h.body) ELSE h.body
                start == NumLen(T) + h.off
            IN IF Len(full) < start THEN [status |-> "fail", hd |-> hd]
               ELSE LET r == PBlocks(T.blocks, 1, full, start + 1)
                        extra == SubSeq(full, NumLen(T) + 1, start)
                    IN IF ~r.ok THEN [status |-> "fail", hd |-> hd, extra |-> extra]
                       ELSE [status |-> IF r.blocks = <<>> /\ T.blocks # <<>> THEN "empty" ELSE "ok",
                             hd |-> hd, extra |-> extra, blocks |-> r.blocks, rest |-> Drop(full, r.i - 1)]
\* the decoded message, payload level (values are "raw")
RawBlocks(bl) == [k \in 1..Len(bl) |-> [i \in 1..Len(bl[k]) |-> [j \in 1..Len(bl[k][i]) |-> [k |-> "raw", b |-> bl[k][i][j]]]]]
DecodedMsg(p) == [flags |-> p.hd.flags, pid |-> p.hd.pid, extra |-> p.extra, acks |-> p.hd.acks, blocks |-> RawBlocks(p.blocks)]
PayMsg(T, m) == [flags |-> m.flags, pid |-> m.pid, extra |-> m.extra, acks |-> m.acks, blocks |-> RawBlocks(PayBlocks(T, m.blocks))]
\* the wire form of the body is the canonical one (trivially so when not zero-coded)
CanonicalZ(d) == LET h == Hdr(d) IN HasBit(h.flags, ZBit) => Encode(Decode(h.body)) = h.body
\* re-encoding of a parse result that keeps the unknown trailing bytes
Reassemble(T, p) ==
    LET m == DecodedMsg(p)
        body == Body(T, m) \o p.rest
    IN <<m.flags>> \o BE32(m.pid) \o <<Len(m.extra)>> \o (IF HasBit(m.flags, ZBit) THEN Encode(body) ELSE body)
       \o (IF HasBit(m.flags, ABit) THEN AckTail(m.acks) ELSE <<>>)

\* ---------------------------------------------- laws (checked by LLUDPFrame_MC)
\* C01: every conformant message decodes from its datagram to itself, by value
RoundTripLaw(T, m) ==
    LET d == Datagram(T, m)
    IN /\ HeaderFor(T, d)
       /\ LET p == Parse(T, d) IN p.status = "ok" /\ p.rest = <<>> /\ DecodedMsg(p) = PayMsg(T, m)
LengthLaw(T, m) == Len(Body(T, m)) = PrescribedBodyLen(T, m)
\* the ack trailer and the body never overlap: the datagram is exactly header, wire body, trailer
FramingLaw(T, m) ==
    LET d == Datagram(T, m)
        h == Hdr(d)
    IN /\ h.ok /\ h.body = WireBody(T, m) /\ h.acks = m.acks
       /\ Len(d) = 6 + Len(WireBody(T, m)) + (IF HasBit(m.flags, ABit) THEN 4 * Len(m.acks) + 1 ELSE 0)
\* default filling: an unset variable is written as the zero value at the prescribed width, the
\* datagram parses, and reads back as zeros / empty
FillLaw(T, m) ==
    LET p == Parse(T, Datagram(T, m))
    IN /\ p.status = "ok" /\ p.rest = <<>>
       /\ \A k \in 1..Len(m.blocks) : \A i \in 1..Len(m.blocks[k]) : \A j \in 1..Len(m.blocks[k][i]) :
            m.blocks[k][i][j].k = "unset" =>
              /\ AllZero(p.blocks[k][i][j])
              /\ Len(p.blocks[k][i][j]) = (IF T.blocks[k].vars[j].t = "Variable" THEN 0 ELSE Width(T.blocks[k].vars[j]))
\* C02: a datagram with an acceptable header and a parseable body is reproduced exactly from its
\* parse when its zero-coding is canonical, and always re-parses to the same message
ReassembleLaw(T, d) ==
    LET p == Parse(T, d)
    IN p.status = "ok" =>
         /\ CanonicalZ(d) => Reassemble(T, p) = d
         /\ HeaderFor(T, Reassemble(T, p))
         /\ LET q == Parse(T, Reassemble(T, p)) IN q.status = "ok" /\ DecodedMsg(q) = DecodedMsg(p) /\ q.rest = p.rest
=============================================================================
