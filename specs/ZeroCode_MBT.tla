---- MODULE ZeroCode_MBT ----
(* B3 spec->code tables: every state of the two machines is one row. *)
EXTENDS ZeroCodeMachines, Json
MInit == Init /\ PrintT(ToJson([init |-> mode]))
MFeed(b) == Feed(b) /\ PrintT(ToJson([row |-> "enc", inp |-> inp', enc |-> Encode(inp')]))
MDFeed(c) == DFeed(c) /\ PrintT(ToJson([row |-> "dec", enc |-> denc', rl |-> DecodeRL(denc'), len |-> DecodedLen(denc')]))
MNext == (\E b \in Alpha : MFeed(b)) \/ (\E c \in DAlpha : MDFeed(c))
MSpec == MInit /\ [][MNext]_vars
====
