---- MODULE CompressedObj_Hist ----
(***************************************************************************************)
(* C13, histories.  In CompressedObj.tla a decoder is a FUNCTION of the payload: what   *)
(* Decode(fast|tmpl, p) returns is Parse(p)'s view of p and nothing else - not what was *)
(* decoded before, not what a client did with an earlier result.  This module is the    *)
(* history machine that binds that statement to the real decoders (B1):                 *)
(*   Decode(d, k)     the client decodes payload k with decoder d and keeps the result  *)
(*   Mutate(i, f)     the client edits, in place, every mutable part of field f of the  *)
(*                    i-th result it holds (dict entries, list items, object attributes)*)
(*   MutateAll(i)     ... of every field of the i-th result, and the result dict itself *)
(* The abstract state only remembers which parts of which held result the client has    *)
(* dirtied.  The observation of a state says, for every held result, which fields must  *)
(* still equal the spec's value of their payload (all but the dirtied ones), and - not  *)
(* part of the state because decoding has no effect - that a fresh decode of EVERY      *)
(* payload by EITHER decoder yields the spec's (unchanged) values and re-encodes to the *)
(* payload.  The harness replays every edge of the bounded graph from a fresh process   *)
(* state and compares the whole observation; it also observes that no mutable object is *)
(* shared between two results or with module / class level state.                       *)
(***************************************************************************************)
EXTENDS CompressedObj, Json
CONSTANTS HPayloads,   \* sequence of <<flag word, pcode, content variant>>
          MaxRes       \* how many results the client holds at most
VARIABLES held
hvars == <<vars, held>>

\* ready-made payload lists (a cfg file cannot spell tuples)
HPQuick == << <<0, 9, 1>>, <<2047, 47, 3>> >>
HPThorough == << <<0, 9, 1>>, <<2047, 47, 3>>, <<1365, 255, 1>> >>

Decoders == {"fast", "tmpl"}
\* fields whose decoded value can have mutable parts (vectors, collections, records)
MutFields == {"Scale", "Position", "Rotation", "AngularVelocity", "PSBlock", "ExtraParams", "NameValue",
              "TextureEntry", "TextureAnim", "PSBlockNew"}

\* the complete payload for (flag word, kind, variant), as the encoder machine builds it
RECURSIVE BuildFrom(_, _, _, _)
BuildFrom(i, fl, pc, v) ==
  IF i > NF THEN <<>>
  ELSE (IF PresentIn(fl, i)
        THEN Frame(Fields[i], CASE i = FlagsIdx -> LE32(fl) [] i = PCodeIdx -> <<pc>>
                                [] OTHER -> Variant(Fields[i].name, i, v, v))
        ELSE <<>>) \o BuildFrom(i + 1, fl, pc, v)
NP == Len(HPayloads)
PL == [k \in 1..NP |-> BuildFrom(1, HPayloads[k][1], HPayloads[k][2], HPayloads[k][3])]
PR == [k \in 1..NP |-> Parse(PL[k])]
Names == {Fields[i].name : i \in 1..NF}
MutOf(k) == {Fields[i].name : i \in {j \in 1..NF : HasValue(PR[k], j) /\ Fields[j].name \in MutFields}}

HInit == /\ held = <<>>
         /\ flags = 0 /\ hi = 0 /\ pcode = 0 /\ v0 = 1 /\ idx = 1 /\ buf = <<>> /\ emitted = <<>>
Decode(d, k) == /\ Len(held) < MaxRes
                /\ held' = Append(held, [d |-> d, k |-> k, dirty |-> {}, all |-> FALSE])
                /\ UNCHANGED vars
Mutate(i, f) == /\ i \in 1..Len(held) /\ held[i].dirty = {} /\ ~held[i].all /\ f \in MutOf(held[i].k)
                /\ held' = [held EXCEPT ![i].dirty = {f}]
                /\ UNCHANGED vars
MutateAll(i) == /\ i \in 1..Len(held) /\ held[i].dirty = {} /\ ~held[i].all
                /\ held' = [held EXCEPT ![i].all = TRUE]
                /\ UNCHANGED vars
HNext == \/ \E d \in Decoders, k \in 1..NP : Decode(d, k)
         \/ \E i \in 1..MaxRes : (MutateAll(i) \/ \E f \in MutFields : Mutate(i, f))
HSpec == HInit /\ [][HNext]_hvars

\* what must be observable in a state: per held result the fields that still carry the spec's value
Clean(r) == IF r.all THEN {} ELSE Names \ r.dirty
Obs(h) == [i \in 1..Len(h) |-> [d |-> h[i].d, k |-> h[i].k, clean |-> Clean(h[i])]]

\* ---------------------------------------------------------------- checked on the model
HTypeOK == /\ Len(held) <= MaxRes
           /\ \A i \in 1..Len(held) : held[i].d \in Decoders /\ held[i].k \in 1..NP /\ held[i].dirty \subseteq MutOf(held[i].k)
\* the payloads of the history model are in the domain
HPayloadsOK == \A k \in 1..NP : WellFormed(PR[k], PL[k]) /\ Canonical(PR[k])
\* a step touches at most one held result, never which payload / decoder it came from, and decoding dirties nothing
OneAtATime == [][/\ \A i \in 1..Len(held) : held'[i].d = held[i].d /\ held'[i].k = held[i].k
                 /\ Cardinality({i \in 1..Len(held) : held'[i] # held[i]}) <= 1
                 /\ (Len(held') > Len(held) => Clean(held'[Len(held')]) = Names /\ \A i \in 1..Len(held) : held'[i] = held[i])]_hvars

\* ---------------------------------------------------------------- export (B1)
HRow(k) == [p |-> PL[k], pcode |-> HPayloads[k][2], flags |-> HPayloads[k][1], variant |-> HPayloads[k][3],
            f |-> [i \in 1..NF |-> [name |-> Fields[i].name, val |-> HasValue(PR[k], i), start |-> PR[k].f[i].start,
                                    off |-> PR[k].f[i].off, len |-> PR[k].f[i].len]],
            state |-> StateValue(HPayloads[k][2], PL[k][PR[k].f[StateIdx].off + 1])]
MHInit == HInit /\ PrintT(ToJson([init |-> held, obs |-> Obs(held), rows |-> [k \in 1..NP |-> HRow(k)]]))
MDecode(d, k) == Decode(d, k) /\ PrintT(ToJson([src |-> held, act |-> [n |-> "Decode", d |-> d, k |-> k], dst |-> held', obs |-> Obs(held')]))
MMutate(i, f) == Mutate(i, f) /\ PrintT(ToJson([src |-> held, act |-> [n |-> "Mutate", i |-> i, f |-> f], dst |-> held', obs |-> Obs(held')]))
MMutateAll(i) == MutateAll(i) /\ PrintT(ToJson([src |-> held, act |-> [n |-> "MutateAll", i |-> i], dst |-> held', obs |-> Obs(held')]))
MHNext == \/ \E d \in Decoders, k \in 1..NP : MDecode(d, k)
          \/ \E i \in 1..MaxRes : (MMutateAll(i) \/ \E f \in MutFields : MMutate(i, f))
MHSpec == MHInit /\ [][MHNext]_hvars
====
