--------------------------- MODULE PassThrough_Trace ---------------------------
(* Binding B2 for C02: executions of the REAL deserializer / Message / serializer on one     *)
(* received datagram, validated against the Spec layer of PassThrough (Allowed) with the     *)
(* format operators of LLUDPFrame.  TLC computes from the BYTES: the header, whether the     *)
(* body parses, its blocks, whether the zero-coding is canonical, the trailing bytes.        *)
(*                                                                                           *)
(* {"ev":"Recv","T":shape,"d":[..],"mode":"eager"|"deferred","res":"ok"|"raise","vals":typed blocks} *)
(* {"ev":"Hdr","flags":n,"pid":[hi,lo],"extra":[..],"acks":[[hi,lo]..]}                        *)
(* {"ev":"Body","res":"ok"|"raise","vals":typed blocks}   (Message.blocks / to_dict / ...)    *)
(* {"ev":"Reenc","res":"ok"|"raise","out":[..]}           (serialize)                         *)
(*                                                                                           *)
(* Named causes, appended to a clause so that a known finding matches exactly its case:      *)
(*  [str-multi-nul]  the decoder handed out text for a payload ending in two or more NULs    *)
(*  [f32-snan]       a float32 signalling-NaN bit pattern (cannot survive a Python float)    *)
(*  [trailing-bytes] bytes behind the last template block, and the output is exactly the     *)
(*                   datagram without them                                                   *)
EXTENDS PassThrough, Integers, Json, IOUtils, TLCExt
TraceLog == ndJsonDeserialize(IOEnv.TRACE_FILE)
VARIABLES l, tid,
          vals,   \* typed blocks the implementation handed out when it parsed (<<>> before)
          loss    \* named cause by which those values fail to denote the wire payloads ("" if none)
tvars == <<vars, l, tid, vals, loss>>
Rec == TraceLog[l]
Fail(name) == PrintT(ToJson([fail |-> name, line |-> l, tid |-> tid]))
Chk(name, cond) == IF cond THEN TRUE ELSE Fail(name)
Env(name, cond) == Assert(cond, <<"driver violated environment assumption", name, l>>)
IsEvent(e) == l <= Len(TraceLog) /\ TraceLog[l].ev = e /\ l' = l + 1

\* ---- how decoded values relate to the wire payloads
SNaN32(p, c) == \E g \in 0..(c - 1) :     \* little-endian float32 number g of payload p is a signalling NaN
    /\ p[4 * g + 4] % 128 = 127 /\ p[4 * g + 3] >= 128
    /\ (p[4 * g + 3] \div 64) % 2 = 0
    /\ (p[4 * g + 3] % 64 # 0 \/ p[4 * g + 2] # 0 \/ p[4 * g + 1] # 0)
SameShape(a, b) == /\ Len(a) = Len(b)
                   /\ \A k \in 1..Len(a) : /\ Len(a[k]) = Len(b[k])
                                            /\ \A i \in 1..Len(a[k]) : Len(a[k][i]) = Len(b[k][i])
\* class of the mismatch of one variable: "" none
VarLoss(v, x, wire) ==
    IF Payload(v, x) = wire THEN ""
    ELSE IF x.k = "str" /\ Len(wire) >= 2 /\ wire[Len(wire)] = 0 /\ wire[Len(wire) - 1] = 0 THEN "[str-multi-nul]"
    ELSE IF F32Count(v.t) > 0 /\ x.k = "raw" /\ Len(x.b) = Len(wire) /\ SNaN32(wire, F32Count(v.t)) THEN "[f32-snan]"
    ELSE "[other]"
AllLosses(t, vs, wire) ==
    UNION {UNION {{VarLoss(t.blocks[k].vars[j], vs[k][i][j], wire[k][i][j]) : j \in 1..Len(wire[k][i])} : i \in 1..Len(wire[k])} : k \in 1..Len(wire)} \ {""}
LossOf(t, vs, wire) ==
    IF ~SameShape(vs, wire) THEN "[other]"
    ELSE LET s == AllLosses(t, vs, wire)
         IN IF s = {} THEN "" ELSE IF Cardinality(s) = 1 THEN CHOOSE c \in s : TRUE ELSE "[other]"
\* checks on values handed out by a parse that the spec also performs; yields the loss cause
ValueChecks(t, dg, vs) ==
    LET p == Parse(t, dg) IN
    IF p.status # "ok" THEN ""
    ELSE LossOf(t, vs, p.blocks)
Clause(c) == IF c = "[other]" THEN "" ELSE c

\* Not zero-coded, with an ack trailer, and the body region ends before the message number and the
\* extra bytes do: whether such a header is acceptable is left open (the bytes that would complete it
\* belong to the trailer).  If a message is handed out its body cannot parse (Parse says "fail").
Overrun(t, dg) == LET h == Hdr(dg) IN /\ h.ok /\ HasBit(h.flags, ABit) /\ ~HasBit(h.flags, ZBit)
                                      /\ Len(h.body) < NumLen(t) + h.off
TInit == /\ l = 1 /\ tid = -1 /\ vals = <<>> /\ loss = ""
         /\ T = [freq |-> "High", num |-> 0, blocks |-> <<>>] /\ d = <<>> /\ mode = "deferred" /\ st = "refused"
         /\ hist = <<>> /\ out = [op |-> "none"]
TReset == /\ l <= Len(TraceLog) /\ TraceLog[l].ev = "Reset" /\ l' = l + 1 /\ tid' = Rec.tid
          /\ vals' = <<>> /\ loss' = "" /\ st' = "refused" /\ UNCHANGED <<T, d, mode, hist, out>>

TRecv ==
    /\ IsEvent("Recv") /\ UNCHANGED tid
    /\ Env("template", WellFormedTemplate(Rec.T))
    /\ IF ~HeaderFor(Rec.T, Rec.d) /\ ~(Rec.res = "ok" /\ Overrun(Rec.T, Rec.d))
       THEN \* refused: outside the property.  Accepted although the format cannot identify the
            \* message: reported, and nothing further can be said about this datagram
            /\ Chk("Recv.header-not-acceptable", Rec.res = "raise")
            /\ Receive(Rec.T, Rec.d, "eager", FALSE) /\ vals' = <<>> /\ loss' = ""
       ELSE LET acc == Rec.res = "ok"
                eager == Rec.mode = "eager"
                c == IF eager /\ acc THEN ValueChecks(Rec.T, Rec.d, Rec.vals) ELSE ""
            IN /\ Chk("Recv.refuses-parseable", ~acc => MayFail(Rec.T, Rec.d))
               /\ Chk("Recv.eager-accepts-unparseable", (eager /\ acc) => MayParse(Rec.T, Rec.d))
               /\ Chk("Recv.values" \o Clause(c), c = "")
               /\ Receive(Rec.T, Rec.d, Rec.mode, acc)
               /\ vals' = (IF eager /\ acc THEN Rec.vals ELSE <<>>) /\ loss' = c
THdr ==
    /\ IsEvent("Hdr") /\ UNCHANGED <<tid, vals, loss>>
    /\ IF Live THEN /\ InspectHeader /\ UNCHANGED hist
                    /\ Chk("Hdr.fields", /\ Rec.flags = HeaderView.flags /\ Rec.pid = HeaderView.pid
                                         /\ (HeaderView.idok => Rec.extra = HeaderView.extra) /\ Rec.acks = HeaderView.acks)
       ELSE UNCHANGED vars
TBody ==
    /\ IsEvent("Body") /\ UNCHANGED tid
    /\ IF Live
       THEN LET first == st = "raw"
                c == IF first /\ Rec.res = "ok" THEN ValueChecks(T, d, Rec.vals) ELSE loss
            IN /\ Chk("Body.refuses-parseable", (first /\ Rec.res = "raise") => MayFail(T, d))
               /\ Chk("Body.accepts-unparseable", (first /\ Rec.res = "ok") => MayParse(T, d))
               /\ Chk("Body.parsed-then-raises", st = "parsed" => Rec.res = "ok")
               /\ Chk("Body.values" \o Clause(c), (first /\ Rec.res = "ok") => c = "")
               /\ Chk("Body.values-unstable", (st = "parsed" /\ Rec.res = "ok") => Rec.vals = vals)
               /\ InspectBody(Rec.res) /\ UNCHANGED hist
               /\ vals' = (IF first /\ Rec.res = "ok" THEN Rec.vals ELSE vals) /\ loss' = c
       ELSE UNCHANGED <<vars, vals, loss>>
\* the datagram the serializer must produce for the values the implementation itself decoded
OfVals == Datagram(T, [flags |-> Hdr(d).flags, pid |-> Hdr(d).pid, extra |-> Ident(Hdr(d)).extra,
                       acks |-> Hdr(d).acks, blocks |-> vals])
ReencCause(o) ==
    IF st # "parsed" \/ P.status # "ok" THEN ""
    ELSE IF loss \notin {"", "[other]"} /\ SameShape(vals, P.blocks) /\ o = OfVals THEN loss
    ELSE IF loss = "" /\ P.rest # <<>> /\ o = Datagram(T, DecodedMsg(P)) THEN "[trailing-bytes]"
    ELSE ""
TReenc ==
    /\ IsEvent("Reenc") /\ UNCHANGED <<tid, vals, loss>>
    /\ IF Live
       THEN LET o == Rec.out
                ok == Rec.res = "ok"
                c == IF ok THEN ReencCause(o) ELSE ""
            IN /\ Reencode(Rec.res, o) /\ UNCHANGED hist
               \* which case of the property this re-encoding falls under (vacuity evidence for the harness)
               /\ PrintT(ToJson([cls |-> [st |-> st, status |-> P.status, canon |-> CanonicalZ(d),
                                          rest |-> (P.status = "ok" /\ P.rest # <<>>),
                                          partial |-> (P.status = "ok" /\ Len(P.blocks) < Len(T.blocks))]]))
               /\ CASE st = "raw" -> Chk("Reenc.unparsed-not-verbatim", ok /\ o = d)
                    [] st = "failed" -> Chk("Reenc.after-failed-parse", ok /\ o = d)
                    [] st = "parsed" ->
                         /\ Chk("Reenc.raises", ok)
                         /\ Chk("Reenc.not-identical" \o c, (ok /\ CanonicalZ(d)) => o = d)
                         /\ Chk("Reenc.other-message" \o c, (ok /\ P.status = "ok") => SameMessage(o))
       ELSE UNCHANGED vars
TNext == TReset \/ TRecv \/ THdr \/ TBody \/ TReenc
TraceSpec == TInit /\ [][TNext]_tvars
TraceAccepted == PrintT("TRACE_REACHED " \o ToString(TLCGet("stats").diameter - 1) \o " OF " \o ToString(Len(TraceLog)))
=============================================================================
