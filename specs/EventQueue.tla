---------------------------- MODULE EventQueue ----------------------------
(***************************************************************************)
(* C17 -- the proxied event queue of ONE region                            *)
(* (http_event_manager.py: EventQueueGet branches of _handle_request /     *)
(*  _handle_response, _handle_eq_event; region.py: EventQueueManager).     *)
(*                                                                         *)
(* Participants: the viewer (long-polls with the id of the last response   *)
(* it processed, one poll at a time, repeats the poll with the SAME ack    *)
(* when a response got lost), the simulator (answers a poll with the next  *)
(* events of its stream under a fresh id, or with a non-200; it never      *)
(* re-sends: that is why the proxy keeps the last response), addons (may   *)
(* swallow events, may inject events) and the proxy.                       *)
(* Simulator events are 1, 2, 3 .. in stream order; injected events are    *)
(* 901, 902 ..; ack 0 stands for the viewer's initial `undef` ack.         *)
(***************************************************************************)
EXTENDS Naturals, Sequences, FiniteSets, TLC

CONSTANTS MaxEv,     \* simulator events explored
          MaxInj,    \* injected events explored
          MaxDown,   \* region teardowns explored
          Batches    \* which response shapes the simulator uses (subset of 1..12)

VARIABLES
    (* proxy *)   queue, cache, regs, seen,
    (* sim *)     nev, sid, infl,
    (* viewer *)  vack, got,
    (* ghosts *)  ninj, ndown, sentOK, dropped, announced, unseen
vars == <<queue, cache, regs, seen, nev, sid, infl, vack, got, ninj, ndown, sentOK, dropped, announced, unseen>>

Range(s) == {s[i] : i \in DOMAIN s}
None == [k |-> "undef"]                       \* the protocol's no-events form
Pl(id, evs) == [k |-> "events", id |-> id, evs |-> evs]
IsInj(e) == e > 900

(* Response shapes: kind of every event.                                                   *)
(*  "p"  an event the proxy has no message template for (passed on as an opaque map);      *)
(*  "tc" / "to" / "te"  an event of a templated message (one with variables the proxy has  *)
(*       to unpack, U64 ..) whose LLSD body is complete / legitimately OMITS the variable-  *)
(*       count block holding those variables / carries that block as an empty list;        *)
(*  "ES" EnableSimulator, "EAC" EstablishAgentCommunication, "TF" TeleportFinish announce   *)
(*       region .reg.                                                                      *)
(*  "ba" / "bs" / "bu" / "bi"  an untemplated event whose body is not a map but an LLSD    *)
(*       array / string / undef / integer (BK rotates through them with the event number,  *)
(*       so every form meets every context);                                               *)
(*  "eq" an event that is EQUAL IN VALUE (same message, same body) to the other "eq" events  *)
(*       of its response.  Events are numbered by their POSITION in the simulator's stream   *)
(*       and every clause below is positional: exactly the positions no addon swallowed are  *)
(*       delivered, in order, however many of them carry the same content (the harness shows *)
(*       the viewer-visible content of position n as the content of the first "eq" event of  *)
(*       its response);                                                                      *)
(*  "CR" CrossedRegion (template-complete: RegionData AND Info blocks) announces .reg too;  *)
(* How (and whether) the proxy can decode an event never changes how the response is       *)
(* processed: all non-announcing kinds above are the same to every action below.           *)
(*  "hr" a templated, decodable-looking event on which the proxy's own handling RAISES     *)
(*       (e.g. a TeleportFinish whose U32 fields are plain LLSD integers).  The proxy then *)
(*       gives up rewriting THIS response: it reaches the viewer exactly as the simulator   *)
(*       sent it (nothing lost, duplicated or reordered -- events addons wanted swallowed   *)
(*       included), addons are not shown the raising event nor what follows it, regions     *)
(*       announced behind it are not registered, pending injections keep waiting and the    *)
(*       response is not remembered for replay.                                             *)
Ev(k) == [k |-> k, reg |-> 0]
P == Ev("p")
Ann(k, x) == [k |-> k, reg |-> x]
BK(n) == Ev(<<"ba", "bs", "bu", "bi">>[(n % 4) + 1])
Batch(i) == CASE i = 1 -> <<Ev("to")>>
              [] i = 2 -> <<P, Ev("to")>>
              [] i = 3 -> <<Ann("ES", 2)>>
              [] i = 4 -> <<Ann("EAC", 2), Ev("te")>>
              [] i = 5 -> <<Ev("to"), Ann("TF", 3)>>
              [] i = 6 -> <<Ann("ES", 2), Ann("TF", 2)>>
              [] i = 7 -> <<Ev("tc"), BK(nev + 2)>>
              [] i = 8 -> <<BK(nev + 1), Ann("CR", 3)>>
              [] i = 9 -> <<P, Ev("hr")>>
              [] i = 10 -> <<Ev("hr"), Ann("CR", 2)>>
              [] i = 11 -> <<Ann("CR", 2), Ev("hr")>>
              [] i = 12 -> <<Ev("eq"), Ev("eq"), Ev("eq")>>
(* Environment: addons swallow only events that announce no region (what a swallowed        *)
(* announcement means for registration is left open by the property).                       *)
RaisePos(b) == LET ix == {i \in DOMAIN b : b[i].k = "hr"} IN
               IF ix = {} THEN 0 ELSE CHOOSE i \in ix : \A j \in ix : i <= j
(* the part of the response the proxy gets to process *)
Handled(b) == IF RaisePos(b) = 0 THEN b ELSE SubSeq(b, 1, RaisePos(b) - 1)
Swallowable(b) == {i \in DOMAIN Handled(b) : b[i].reg = 0}

Init == /\ queue = <<>> /\ cache = [ack |-> 0, pl |-> None] /\ regs = <<>> /\ seen = <<>>
        /\ nev = 0 /\ sid = 0 /\ infl = [on |-> FALSE, ack |-> 0]
        /\ vack = 0 /\ got = <<>>
        /\ ninj = 0 /\ ndown = 0 /\ sentOK = <<>> /\ dropped = {} /\ announced = {} /\ unseen = {}

CacheHit(a) == cache.ack = a /\ cache.pl # None

(* The viewer polls.  OUTPUT: the previous response again if the ack is the one that       *)
(* response answered, otherwise the poll goes to the simulator.                            *)
OutPoll == IF CacheHit(vack) THEN cache.pl ELSE [k |-> "fwd"]
PollFwd == /\ ~infl.on /\ ~CacheHit(vack)
           /\ infl' = [on |-> TRUE, ack |-> vack]
           /\ UNCHANGED <<queue, cache, regs, seen, nev, sid, vack, got, ninj, ndown, sentOK, dropped, announced, unseen>>
PollCached(lost) ==
    /\ ~infl.on /\ CacheHit(vack)
    /\ IF lost THEN UNCHANGED <<vack, got>>
       ELSE vack' = cache.pl.id /\ got' = got \o cache.pl.evs
    /\ UNCHANGED <<queue, cache, regs, seen, nev, sid, infl, ninj, ndown, sentOK, dropped, announced, unseen>>

(* The simulator answers the outstanding poll with the events of shape b; addons swallow   *)
(* the events at positions sw.  OUTPUT: the body handed to the viewer.                     *)
Evs(b) == [i \in DOMAIN b |-> nev + i]
Surv(b, sw) == LET ix == SelectSeq([i \in DOMAIN b |-> i], LAMBDA i : i \notin sw)
               IN [j \in DOMAIN ix |-> nev + ix[j]]
OutEvs(b, sw) == Surv(b, sw) \o queue
OutRespond(b, sw) == IF RaisePos(b) > 0 THEN Pl(sid + 1, Evs(b))          \* untouched
                     ELSE IF OutEvs(b, sw) = <<>> THEN None ELSE Pl(sid + 1, OutEvs(b, sw))
RECURSIVE AddRegs(_, _, _)
AddRegs(rs, b, i) == IF i > Len(b) THEN rs
                     ELSE IF b[i].reg # 0 /\ b[i].reg \notin Range(rs) THEN AddRegs(Append(rs, b[i].reg), b, i + 1)
                     ELSE AddRegs(rs, b, i + 1)
SimRespond(i, sw, lost) ==
    /\ infl.on /\ i \in Batches
    /\ LET b == Batch(i)  h == Handled(b)  raised == RaisePos(b) > 0 IN
        /\ nev + Len(b) <= MaxEv
        /\ sw \subseteq Swallowable(b)
        /\ (lost => OutRespond(b, sw) # None /\ ~raised)   \* nothing to lose in an undef response; a response
                                                           \* the proxy gave up on is not replayable (environment)
        /\ IF raised THEN UNCHANGED <<cache, queue>>
           ELSE cache' = [ack |-> infl.ack, pl |-> OutRespond(b, sw)] /\ queue' = <<>>
        /\ seen' = seen \o SubSeq(Evs(b), 1, Len(h))
        /\ unseen' = unseen \cup {nev + j : j \in (Len(h) + 1)..Len(b)}
        /\ regs' = AddRegs(regs, h, 1)
        /\ announced' = announced \cup {h[j].reg : j \in {j \in DOMAIN h : h[j].reg # 0}}
        /\ nev' = nev + Len(b) /\ sid' = sid + 1
        /\ sentOK' = sentOK \o (IF raised THEN Evs(b) ELSE Surv(b, sw))
        /\ IF lost \/ OutRespond(b, sw) = None THEN UNCHANGED <<vack, got>>
           ELSE vack' = sid + 1 /\ got' = got \o OutRespond(b, sw).evs
    /\ infl' = [on |-> FALSE, ack |-> 0]
    /\ UNCHANGED <<ninj, ndown, dropped>>

(* An answer that carries no events -- a non-200 (the usual long-poll timeout) or a 200    *)
(* whose body is undef -- is handed through; nothing else changes (pending injections wait). *)
FailKinds == {"502", "undef200"}
OutFail(kind) == IF kind = "502" THEN [k |-> "fail"] ELSE None
SimFail(kind) ==
           /\ infl.on /\ kind \in FailKinds
           /\ infl' = [on |-> FALSE, ack |-> 0]
           /\ UNCHANGED <<queue, cache, regs, seen, nev, sid, vack, got, ninj, ndown, sentOK, dropped, announced, unseen>>

(* an addon injects an event *)
Inject == /\ ninj < MaxInj
          /\ queue' = Append(queue, 901 + ninj) /\ ninj' = ninj + 1
          /\ UNCHANGED <<cache, regs, seen, nev, sid, infl, vack, got, ndown, sentOK, dropped, announced, unseen>>

(* The region is torn down (and may be re-established later: the viewer starts again with  *)
(* the undef ack).  What was still owed to the viewer is dropped with the region.          *)
Owed == IF cache.pl # None /\ cache.ack = vack THEN cache.pl.evs ELSE <<>>
Teardown == /\ ndown < MaxDown /\ ndown' = ndown + 1
            /\ dropped' = dropped \cup Range(Owed) \cup Range(queue)
            /\ queue' = <<>> /\ cache' = [ack |-> 0, pl |-> None]
            /\ infl' = [on |-> FALSE, ack |-> 0] /\ vack' = 0
            /\ UNCHANGED <<regs, seen, nev, sid, got, ninj, sentOK, announced, unseen>>

Next == \/ PollFwd \/ \E lost \in BOOLEAN : PollCached(lost)
        \/ \E i \in 1..12 : \E sw \in SUBSET (1..3) : \E lost \in BOOLEAN : SimRespond(i, sw, lost)
        \/ (\E kind \in FailKinds : SimFail(kind)) \/ Inject \/ Teardown
Spec == Init /\ [][Next]_vars

(***************************** the property ********************************)
NoDups(s) == \A i, j \in DOMAIN s : i # j => s[i] # s[j]
SimOnly(s) == SelectSeq(s, LAMBDA e : ~IsInj(e))
(* every simulator event that no addon swallowed reaches the viewer exactly once, in order: *)
(* what the viewer has, followed by what it will be given again when it repeats its poll,   *)
(* is the unswallowed stream                                                                *)
Delivery == SimOnly(got) \o SimOnly(Owed) = SelectSeq(sentOK, LAMBDA e : e \notin dropped)
NoDuplicates == NoDups(got \o Owed)
(* every injected event is in exactly one place: delivered, owed, or still queued *)
InjectedOnce ==
    \A e \in 901..(900 + ninj) :
        LET all == got \o Owed \o queue
            cnt == Cardinality({i \in DOMAIN all : all[i] = e})
        IN IF e \in dropped THEN cnt = 0 ELSE cnt = 1
(* ... and leaves with the next response that carries events *)
InjectedNext == [][cache'.pl # None /\ sid' # sid /\ cache'.pl.id = sid' =>
                       /\ queue' = <<>> /\ Range(queue) \subseteq Range(cache'.pl.evs)]_vars
InjectedWaits == [][queue # <<>> /\ queue' = <<>> => (cache'.pl # None /\ sid' # sid) \/ ndown' # ndown]_vars
(* an emptied response is the undef form, never an empty event list *)
UndefForm == cache.pl # None => cache.pl.evs # <<>>
(* a repeated poll is answered with the previous response and addons do not see it again *)
SeenOnce == seen = SelectSeq([i \in 1..nev |-> i], LAMBDA e : e \notin unseen)
ReplayIsLast == [][\A lost \in BOOLEAN : PollCached(lost) => OutPoll = cache.pl /\ seen' = seen /\ cache' = cache]_vars
(* announced regions are registered exactly once *)
RegsOnce == NoDups(regs) /\ Range(regs) = announced

(***************************** observation (binding) ***********************)
(* Everything the proxy shows: the addon call log, the registered regions, and -- probed   *)
(* by the harness with extra polls on the discarded object -- the replay cache and the      *)
(* pending injections.                                                                      *)
Obs == [seen |-> seen, regs |-> regs, cack |-> cache.ack, cpl |-> cache.pl, queue |-> queue]
=============================================================================
