---- MODULE ClientSession_MBT ----
(* Binding B1: prints every edge of the bounded model together with what the step shows (out') and the *)
(* view of the state a user can read through the public interface (Obs').                            *)
EXTENDS ClientSession, Json
CONSTANT Depth
St == [regs |-> regs, main |-> main, tp |-> tp, calls |-> calls, env |-> env]
P(act) == PrintT(ToJson([src |-> St, act |-> act, dst |-> St', obs |-> [o |-> out', s |-> Obs']]))
MInit == Init /\ PrintT(ToJson([init |-> St, obs |-> [o |-> out, s |-> Obs]]))
MNext == /\ TLCGet("level") < Depth
         /\ \/ \E a \in Sims, mn \in BOOLEAN : Connect(a, mn) /\ P([n |-> "Connect", a |-> a, main |-> mn])
            \/ \E a \in Sims : Disconnect(a) /\ P([n |-> "Disconnect", a |-> a])
            \/ \E a \in Sims : Handshake(a) /\ P([n |-> "Handshake", a |-> a])
            \/ \E a \in Sims : Moved(a) /\ P([n |-> "Moved", a |-> a])
            \/ \E a \in Sims, k \in {"DisableSimulator", "CloseCircuit"} : Disable(a) /\ P([n |-> "Disable", a |-> a, k |-> k])
            \/ \E a \in Sims : TeleportLocal(a) /\ P([n |-> "TeleportLocal", a |-> a])
            \/ \E a \in Sims, m \in {UCC, CAM, RHR, THR, UPD, TLR} : Ack(a, m) /\ P([n |-> "Ack", a |-> a, m |-> m])
            \/ \E h \in Sims : Teleport(h) /\ P([n |-> "Teleport", h |-> h])
            \/ Logout /\ P([n |-> "Logout"])
            \/ \E x \in Sims \cup {Stranger} : Stray(x) /\ P([n |-> "Stray", a |-> x])
            \/ \E via \in Sims, k \in Kinds, a \in Sims, s \in Seeds :
                  Announce(via, k, a, s) /\ P([n |-> "Announce", via |-> via, k |-> k, a |-> a, s |-> s])
            \/ \E via \in Sims, a \in Sims : EnableSim(via, a) /\ P([n |-> "Announce", via |-> via, k |-> "EnableSimulator", a |-> a, s |-> 1])
            \/ \E via \in Sims : TeleportFailed(via) /\ P([n |-> "TeleportFailed", via |-> via])
            \/ SeedBreaks /\ P([n |-> "SeedFails"])
            \/ Tick /\ P([n |-> "Tick", k |-> 1])
            \/ Expire /\ P([n |-> "Tick", k |-> ExpireTicks])
MSpec == MInit /\ [][MNext]_vars
====
