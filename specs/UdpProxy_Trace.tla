---- MODULE UdpProxy_Trace ----
(* Binding B2: validates recorded runs of the real proxy objects, byte level.  The driver logs, *)
(* per datagram, the bytes it put on the association's socket, the source address, how it BUILT *)
(* the LLUDP payload (k: valid message / UseCircuitCode naming session s / banned / broken ...) *)
(* and what the real transport was asked to send afterwards plus the public session state.      *)
(* TLC itself decides from the bytes whether the datagram is a SOCKS5 UDP request and for which *)
(* far host (SocksStrip + the address table of the trace), runs the property-level action and   *)
(* recomputes the bytes that must have been handed to the transport (payload as stripped,       *)
(* SocksWrap with the simulator's address towards the viewer).                                  *)
EXTENDS UdpProxy, Json, IOUtils, TLCExt
TraceLog == ndJsonDeserialize(IOEnv.TRACE_FILE)
VARIABLES l, tid, addr
tvars == <<vars, l, tid, addr>>

Chk(name, cond) == IF cond THEN TRUE ELSE PrintT(ToJson([fail |-> name, line |-> l, tid |-> tid]))
Env(name, cond) == Assert(cond, <<"driver violated an environment assumption", name, l>>)
IsEvent(e) == l <= Len(TraceLog) /\ TraceLog[l].ev = e /\ l' = l + 1
Rec == TraceLog[l]
Range(f) == {f[i] : i \in DOMAIN f}

NoAddr == [clients |-> <<>>, sims |-> <<>>]
TInit == Init /\ l = 1 /\ tid = -1 /\ addr = NoAddr
TReset == /\ IsEvent("Reset")
          /\ ctl' = [a \in Assoc |-> "none"]
          /\ st' = [s \in Sess |-> "absent"] /\ regs' = [s \in Sess |-> {}]
          /\ sess' = [a \in Assoc |-> NoSess] /\ circ' = [s \in Sess |-> [h \in Sims |-> "none"]]
          /\ hnd' = [s \in Sess |-> [h \in Sims |-> 0]]
          /\ ev' = Ev("Init", 0, 0, "", 0, FALSE, "none") /\ out' = NoOut
          /\ tid' = Rec.tid /\ addr' = NoAddr
\* {"ev":"Cfg","clients":[{"ip":[..4],"port":p}..NA],"sims":[..NH]}: addresses of this trace
TCfg == /\ IsEvent("Cfg")
        /\ Env("Cfg.shape", Len(Rec.clients) = NA /\ Len(Rec.sims) = NH)
        /\ Env("Cfg.distinct", \A i, j \in 1..NH : i # j => Rec.sims[i] # Rec.sims[j])
        /\ addr' = [clients |-> Rec.clients, sims |-> Rec.sims]
        /\ UNCHANGED <<vars, tid>>

\* the public state as projected by the driver: {"st":[..],"regs":[[h..]..],"sess":[..],"circ":[[..]..]}
ProjOK(p) == /\ p.ctl = ctl' /\ p.st = st' /\ p.sess = sess' /\ p.circ = circ'
             /\ \A s \in Sess : Range(p.regs[s]) = regs'[s]
HostOf(ip, port) == IF \E h \in Sims : addr.sims[h] = [ip |-> ip, port |-> port]
                    THEN CHOOSE h \in Sims : addr.sims[h] = [ip |-> ip, port |-> port] ELSE Unk
\* the concrete datagrams `out'` stands for; pl = the LLUDP payload of the event
Concrete(o, pl) == [i \in DOMAIN o.sends |->
                      IF o.sends[i].to > 0
                      THEN [via |-> o.sends[i].via, data |-> pl, to |-> addr.sims[o.sends[i].to]]
                      ELSE [via |-> o.sends[i].via, data |-> SocksWrap(addr.sims[o.sends[i].hdr].ip, addr.sims[o.sends[i].hdr].port, pl),
                            to |-> addr.clients[0 - o.sends[i].to]]]
SentOK(pl) == \/ Rec.sent = Concrete(out', pl)
              \/ (out'.may /\ Rec.sent = <<>>)

TLogin == /\ IsEvent("Login") /\ Login(Rec.s)
          /\ Chk("Login.state env Login " \o ToString(Rec.i), ProjOK(Rec.proj)) /\ Chk("Login.sent env Login " \o ToString(Rec.i), Rec.sent = <<>>)
          /\ UNCHANGED <<tid, addr>>
\* {"ev":"Assoc","a":a,..} / {"ev":"Close","a":a,..}: the viewer's SOCKS control connection asked for its
\* UDP association / ended
TAssoc == /\ IsEvent("Assoc") /\ Associate(Rec.a)
          /\ Chk("Assoc.state env Assoc " \o ToString(Rec.i), ProjOK(Rec.proj)) /\ Chk("Assoc.sent env Assoc " \o ToString(Rec.i), Rec.sent = <<>>)
          /\ UNCHANGED <<tid, addr>>
TClose == /\ IsEvent("Close") /\ CloseControl(Rec.a)
          /\ Chk("Close.state env Close " \o ToString(Rec.i), ProjOK(Rec.proj)) /\ Chk("Close.sent env Close " \o ToString(Rec.i), Rec.sent = <<>>)
          /\ UNCHANGED <<tid, addr>>
\* {"ev":"Reg","s":s,"g":handle (0: none),"h":h,...}: the choice is read off the observed regions
TReg == /\ IsEvent("Reg")
        /\ Announce(Rec.s, Rec.g, Rec.h, /\ Rec.h \notin regs[Rec.s]
                                         /\ Moved(Rec.s, Rec.g, Rec.h) # {}
                                         /\ Moved(Rec.s, Rec.g, Rec.h) \cap Range(Rec.proj.regs[Rec.s]) = {})
        /\ Chk("Reg.state env Reg " \o ToString(Rec.i), ProjOK(Rec.proj)) /\ Chk("Reg.sent env Reg " \o ToString(Rec.i), Rec.sent = <<>>)
        /\ UNCHANGED <<tid, addr>>
\* label: the message name the driver used, i: index of the event in its trace (only quoted in failure names)
\* {"ev":"C","a":a,"src":{ip,port},"data":[..],"k":kind,"s":s,"ft":"none"|"err"|"raise","label":name,"sent":[{"via":a,"data":[..],"to":{ip,port}}..],"proj":{..}}
TClient == /\ IsEvent("C")
           /\ LET r == SocksStrip(Rec.data)
                  h == IF r.ok /\ r.atyp = 1 THEN HostOf(r.addr, r.port) ELSE Unk
              IN /\ Env("C.src is the viewer", Rec.src = addr.clients[Rec.a])
                 /\ Env("C.label/socks", (Rec.k \in SocksBad) <=> ~r.ok)
                 /\ Env("C.label/dom", (Rec.k = "dom") <=> (r.ok /\ r.atyp = 3))
                 /\ Env("C.label/kind", Rec.k \in CKinds)
                 \* the two choices the property leaves open are read off the observed public state
                 /\ Client(Rec.a, h, Rec.k, Rec.s,
                           \/ (Rec.k \in Kill /\ IsOpen(Rec.a, h) /\ Rec.proj.circ[sess[Rec.a]][h] # "open")
                           \/ (Rec.k = "ucc" /\ CanClaim(Rec.a, Rec.s) /\ h \notin regs[Rec.s] /\ Rec.proj.sess[Rec.a] = Rec.s),
                           Rec.ft)
                 /\ Chk("C.sent " \o Rec.k \o " " \o Rec.label \o " " \o ToString(Rec.i), SentOK(r.data))
                 /\ Chk("C.state " \o Rec.k \o " " \o Rec.label \o " " \o ToString(Rec.i), ProjOK(Rec.proj))
           /\ UNCHANGED <<tid, addr>>
\* {"ev":"H","a":a,"src":{ip,port},"data":[..],"k":kind,"s":s,"sent":[..],"proj":{..}}
THost == /\ IsEvent("H")
         /\ Env("H.src is no viewer", \A a \in Assoc : Rec.src # addr.clients[a])
         /\ Env("H.label/kind", Rec.k \in HKinds)
         /\ Env("H.spoof comes from a foreign IP", Rec.k = "spoof" => Rec.src.ip # addr.clients[Rec.a].ip)
         /\ Env("H.spoof is a SOCKS request", Rec.k = "spoof" => SocksStrip(Rec.data).ok)
         /\ LET h == HostOf(Rec.src.ip, Rec.src.port)
            IN Host(Rec.a, h, Rec.k, Rec.s, Rec.k \in Kill /\ IsOpen(Rec.a, h) /\ Rec.proj.circ[sess[Rec.a]][h] # "open", Rec.ft)
         /\ Chk("H.sent " \o Rec.k \o " " \o Rec.label \o " " \o ToString(Rec.i), SentOK(Rec.data))
         /\ Chk("H.state " \o Rec.k \o " " \o Rec.label \o " " \o ToString(Rec.i), ProjOK(Rec.proj))
         /\ UNCHANGED <<tid, addr>>
TNext == TReset \/ TCfg \/ TAssoc \/ TClose \/ TLogin \/ TReg \/ TClient \/ THost
TraceSpec == TInit /\ [][TNext]_tvars
TraceAccepted == PrintT("TRACE_REACHED " \o ToString(TLCGet("stats").diameter - 1) \o " OF " \o ToString(Len(TraceLog)))
====
