--------------------------- MODULE Combinators_Flags ---------------------------
(* Flag words of IntFlag adapters: every constructed flag class (multi-bit alias mask over otherwise   *)
(* un-named bits, second names for a bit, a zero member, gaps, mask-only, zero-only) x every word of   *)
(* the underlying byte.  TLC checks that the plain-data form determines the word and prints, per       *)
(* (class, word), the plain-data form the real adapter must produce; the harness replays every row in  *)
(* both reader modes, value -> bytes -> value and bytes -> value -> bytes.                              *)
EXTENDS Combinators, Json
M(n, v) == [n |-> n, v |-> v]
Classes == <<
  <<M("COPY", 1), M("MOD", 2), M("XFER", 4), M("ALL", 127)>>,
  <<M("NONE", 0), M("A", 1), M("A_AGAIN", 1), M("B", 4), M("HIGH", 128)>>,
  <<M("R", 1), M("W", 2), M("RW", 3), M("X", 32), M("MASKHI", 240)>>,
  <<M("ALL", 255)>>,
  <<M("Z", 0)>>,
  <<M("LOWMASK", 15), M("B1", 2), M("B6", 64), M("B6_AGAIN", 64), M("EVERYTHING", 255), M("B0", 1)>> >>
VARIABLES cls, word
Pod == FlagPod(Classes[cls], word)
Init == /\ cls \in 1..Len(Classes) /\ word \in 0..255
        /\ PrintT(ToJson([flagrow |-> cls, ms |-> Classes[cls], word |-> word, names |-> Pod.names, left |-> Pod.left]))
Next == UNCHANGED <<cls, word>>
Spec == Init /\ [][Next]_<<cls, word>>
\* nothing is dropped: the plain-data form determines the word
PodDeterminesWord == FlagOfPod(Classes[cls], Pod) = word
\* the left-over integer holds exactly the bits no canonical member names
LeftIsUnnamed == LET ms == Classes[cls] c == Canonical(ms)
                 IN /\ \A x \in 1..Len(c) : BitAnd(Pod.left, ms[c[x]].v) = 0
                    /\ \A b \in 0..7 : (BitAnd(word, Pow2(b)) # 0 /\ ~\E x \in 1..Len(c) : ms[c[x]].v = Pow2(b))
                                          => BitAnd(Pod.left, Pow2(b)) # 0
\* only canonical members are named, each at most once, in definition order
NamesCanonical == LET ms == Classes[cls] IN
                  \A x \in 1..Len(Pod.names) : \E j \in 1..Len(ms) :
                      ms[j].n = Pod.names[x] /\ IsPow2(ms[j].v) /\ BitAnd(word, ms[j].v) # 0
=============================================================================
