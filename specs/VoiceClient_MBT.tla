---- MODULE VoiceClient_MBT ----
EXTENDS VoiceClient, Json
CONSTANT Depth       \* added to every scenario's own depth
AllBugs == {"StaleSession", "Outlive", "PollDies", "IdReuse"}
Base == [name |-> "", bugs |-> AllBugs, replay |-> TRUE, kinds |-> {}, flavours |-> {"plain"}, chunks |-> {0}, atomic |-> TRUE,
         maxSessions |-> 2, start |-> "fresh", uris |-> {"me", "u1"}, channels |-> {"c1"}, ends |-> {}, callKinds |-> {},
         maxReqs |-> 0, direct |-> {"send"}, maxCalls |-> 0, maxDocs |-> 3, maxCancel |-> 0, depth |-> 5]
\* futures: request ids, matching / duplicate / unknown responses, cancellation, unparseable document, EOF, close()
Futures(reqs, nd, depth) == [Base EXCEPT !.name = "futures", !.kinds = {"resp", "dup", "zz", "junk"}, !.ends = {"close", "eof"},
                                         !.maxReqs = reqs, !.maxDocs = nd, !.maxCancel = 1, !.depth = depth]
\* session: session and participant events, also of sessions that are not the current one
Session(nd, depth) == [Base EXCEPT !.name = "session", !.kinds = {"sadd", "srem", "padd", "pupd", "prem"}, !.uris = {"u1", "u2"},
                                   !.maxDocs = nd, !.depth = depth]
\* login: login() / logout() against responses (also refusals) and state-change events
Login(nd, depth) == [Base EXCEPT !.name = "login", !.kinds = {"resp", "fail", "login", "loginx"}, !.callKinds = {"login", "logout"},
                                 !.maxCalls = 2, !.maxDocs = nd, !.depth = depth]
\* join: join_session() / leave_session() / logout() of a logged-in client, positions
Join(calls, ns, reqs, nd, depth) == [Base EXCEPT !.name = "join", !.kinds = {"resp", "sadd", "srem", "padd"}, !.callKinds = calls,
                                          !.start = "in", !.uris = {"me"}, !.direct = {"pos"}, !.maxSessions = ns, !.maxCalls = 2, !.maxReqs = reqs,
                                          !.maxDocs = nd, !.depth = depth]
\* framing: documents in all renderings cut into reads of 1 / 3 / all cells
Framing(kinds, ends, nd, depth) == [Base EXCEPT !.name = "framing", !.kinds = kinds, !.ends = ends, !.flavours = {"plain", "nl2", "trail"},
                                   !.chunks = {1, 3, 0}, !.atomic = FALSE, !.maxDocs = nd, !.depth = depth]
\* the same scenarios without the deviations of the pinned tree: model-checked only (the guarded invariants bite there)
Clean(ms) == {[m EXCEPT !.bugs = {}, !.replay = FALSE] : m \in ms}
QuickSet == {Futures(2, 3, 6), Session(5, 6), Login(3, 6), Join({"join", "logout"}, 1, 1, 4, 6), Framing({"login"}, {}, 2, 8)}
ThoroughSet == {Futures(3, 4, 7), Session(6, 7), Login(5, 8), Join({"join", "leave", "logout"}, 2, 1, 4, 7), Framing({"login", "req"}, {"eof"}, 2, 10)}
ModesQuick == QuickSet \cup Clean(QuickSet)
ModesThorough == ThoroughSet \cup Clean(ThoroughSet)
\* the quick scenarios one step shallower (for a heavily loaded machine)
SmallSet == {[m EXCEPT !.depth = @ - 1] : m \in QuickSet}
ModesSmall == SmallSet \cup Clean(SmallSet)
\* probes: the quick scenarios with ONE deviation not modelled -- replaying them shows that deviation as a divergence
Without(b) == {[m EXCEPT !.bugs = @ \ {b}] : m \in QuickSet}
ModesNoStaleSession == Without("StaleSession")
ModesNoOutlive == Without("Outlive")
ModesNoPollDies == Without("PollDies")
ModesNoIdReuse == {[m EXCEPT !.bugs = @ \ {"IdReuse"}] : m \in {Join({"join"}, 1, 0, 4, 7)}}

\* the state as far as the future depends on it: of the documents emitted only their number, what the daemon has
\* announced (its later choices depend on that) and those still on the way
Gone == [t |-> "-"]
MSt == [mode |-> mode.name,
        cl |-> cl, wire |-> wire, rbuf |-> rbuf, eof |-> eof, ncancel |-> ncancel,
        announced |-> [h \in AddedHandles |-> AddedUris(h)],
        docs |-> [i \in DOMAIN docs |-> IF i \in OnTheWay THEN docs[i] ELSE Gone]]
\* TLC may identify states that agree on this (VIEW)
MView == <<mode, MSt, out>>
MMode == [name |-> mode.name, start |-> mode.start, atomic |-> mode.atomic]
P(act) == IF mode.replay THEN PrintT(ToJson([src |-> MSt, act |-> act, dst |-> MSt', mode |-> MMode, obs |-> [o |-> out', s |-> Obs']])) ELSE TRUE
MInit == Init /\ (IF mode.replay THEN PrintT(ToJson([init |-> MSt])) ELSE TRUE)
MNext == /\ TLCGet("level") < mode.depth + Depth
         /\ mode' = mode
         /\ \/ Send /\ P([n |-> "Send"])
            \/ \E p \in Positions : SetPos(p) /\ P([n |-> "SetPos", p |-> p])
            \/ \E i \in 1..(MaxReqs + 3 * MaxCalls) : Cancel(i) /\ P([n |-> "Cancel", i |-> i])
            \/ \E k \in CallKinds, a \in Channels \cup {""} : Call(k, a) /\ P([n |-> "Call", k |-> k, arg |-> a, grid |-> GridOf(a)])
            \/ Close /\ P([n |-> "Close"])
            \/ Eof /\ P([n |-> "Eof"])
            \/ \E d \in DocChoices, fl \in Flavours :
                  Daemon(d, fl) /\ P([n |-> "Daemon", d |-> [d EXCEPT !.fl = fl], payload |-> Payload(d), cells |-> Render(Len(docs) + 1, fl)])
            \/ \E k \in Chunks : Feed(k) /\ P([n |-> "Feed", k |-> k, m |-> IF k = 0 THEN Len(wire) ELSE k])
MSpec == MInit /\ [][MNext]_vars
====
