------------------------------ MODULE Combinators ------------------------------
(***************************************************************************)
(* Denotational semantics of the serialization combinator algebra of       *)
(* hippolyzer/lib/base/serialization.py over Seq(0..255).                  *)
(*                                                                         *)
(* A SPEC TREE is a record [k |-> kind, ...]; kinds and their fields:      *)
(*   int        w (1,2,4,8), s (signed)                                    *)
(*   float      w (4,8)              value opaque: IEEE bytes, big-endian  *)
(*   uuid                            value opaque: 16 bytes                *)
(*   coord      n, w                 n floats (Vector3, Vector4, ...)      *)
(*   null                                                                  *)
(*   llsd                            one binary-LLSD document; the value   *)
(*                                   is opaque: [x |-> its bytes]          *)
(*   bytearray  p (int tree)         length-prefixed bytes                 *)
(*   bytesfixed n                                                          *)
(*   bytesgreedy                                                           *)
(*   bytesterm  terms (seq of bytes), wt (write terminator), eof           *)
(*   str        p, nt (null terminated)                                    *)
(*   strfixed   n                                                          *)
(*   cstr       terms, wt, eof                                             *)
(*   tuple      cs (seq of trees)                                          *)
(*   template   fs (seq of [n |-> name, t |-> tree]), skip                 *)
(*   coll       m ("prefix" | "fixed" | "greedy"), p, n, c                 *)
(*   optprefix  c                                                          *)
(*   optflag    field, mask, c       reads field of the innermost frame    *)
(*   ifpresent  c                                                          *)
(*   lenswitch  ch (seq of [key |-> n or -1 for the catch-all, t])         *)
(*   enumswitch e (int tree), ch (seq of [key, t])                         *)
(*   flagswitch f (int tree), ch (seq of [bit, name, t])                   *)
(*   ctxswitch  up (>= 0 parents up, -1 = outermost frame), field,         *)
(*              ch (seq of [key, t]), dflt (seq of 0/1 trees)              *)
(*   bitfield   p, fs (seq of [n, bits]), shift                            *)
(*   typedbytes m ("prefix"|"fixed"|"greedy"|"term"), p, n, terms, c,      *)
(*              ein (empty is none), ctb (check trailing bytes)            *)
(*   adapter    c                    value map is not modelled (C09/C10);  *)
(*                                   the value is the child's value        *)
(* Unused fields may carry any filler.                                     *)
(*                                                                         *)
(* A VALUE is a record with exactly one of these shapes:                   *)
(*   [i |-> n]   integer in -2^31 .. 2^31-1                                *)
(*   [w |-> b9]  any other integer: 9-byte big-endian two's complement     *)
(*   [f |-> bs]  float, IEEE bytes big-endian      [u |-> bs] UUID         *)
(*   [b |-> bs]  bytes      [s |-> bs] string (UTF-8 bytes)                *)
(*   [l |-> vs]  list/tuple [d |-> <<[n |-> name, v |-> value], ...>>]     *)
(*   [tag |-> v, val |-> v]  tagged union          [none |-> TRUE]         *)
(* A [d] value (template / dataclass, flagswitch, bitfield) DENOTES A      *)
(* FUNCTION from names to values, not a sequence: E only ever looks        *)
(* members up by name (Has / Get) and writes them in the order of the      *)
(* SPEC (t.fs, t.ch), so Enc does not depend on any order of the value.    *)
(* The sequence is merely the canonical listing of that function in spec   *)
(* order (what D produces, so that Dec(Enc(v)) = v is plain equality); the *)
(* binding presents the corresponding Python mapping to the real writer in *)
(* permuted insertion orders and expects the same bytes for every order.   *)
(* TEXT is its UTF-8 byte string and every width is a width in BYTES: the   *)
(* domain of strfixed(n) is Len(bytes) <= n (not the character count), of  *)
(* str(p, nt) it is Len(bytes) + (1 if nt) <= max of the prefix, and every  *)
(* accepted strfixed value encodes to exactly n bytes.  A string with fewer *)
(* than n characters but more than n bytes is REFUSED ("rej"), never        *)
(* written over-long or cut.                                                *)
(* For an un-shifted bitfield member at bit position pos with mask m the   *)
(* domain is v = v & (m << pos): bits above the mask AND bits below the    *)
(* position are refused ("rej"), never shifted or masked away.             *)
(*                                                                         *)
(* E(t, v, e, ctx) = [st, b]:                                              *)
(*   st = "ok"  : v is in the domain of t, b is its encoding               *)
(*   st = "rej" : v breaks a length / range limit: must be refused         *)
(*   st = "bad" : v is outside the domain for another reason (wrong shape, *)
(*                content that the format cannot delimit, context lookup   *)
(*                that does not resolve): nothing is claimed               *)
(* D(t, bs, e, ctx) = [ok, v, r]  decoded value and unread rest.           *)
(* ctx is the chain of enclosing container frames, innermost first; a      *)
(* frame holds what has been read BEFORE the current element.              *)
(* CONTEXT IS FIRST CLASS: exactly template (dataclass), tuple and         *)
(* collection -- in EVERY length mode, prefixed, fixed and greedy -- push   *)
(* one frame for their elements; every other kind (optionals, switches,    *)
(* typed bytes, adapters, bitfields) hands its context down unchanged.     *)
(* E and D build the chain by the same rule, so an element sees the same   *)
(* chain (same depth, same frames) on write and on read; a context switch  *)
(* nested under any container therefore resolves identically both ways.    *)
(* THE READER MODE (rich / plain data) is likewise state that every kind   *)
(* hands down unchanged: a canonical value has ONE rendering per mode and  *)
(* Dec does not depend on the mode, so the law is stated per mode by the   *)
(* binding: pod-read(write(v_pod)) = v_pod and rich-read(write(v)) = v,     *)
(* where the comparison is mode-strict on every node (reflect.canon).      *)
(***************************************************************************)
EXTENDS Integers, Sequences, FiniteSets, TLC

\* ------------------------------------------------------------------ helpers
Zeros(n) == [j \in 1..n |-> 0]
Rep(x, n) == [j \in 1..n |-> x]
Rev(s) == [j \in 1..Len(s) |-> s[Len(s) + 1 - j]]
Take(s, n) == SubSeq(s, 1, n)
Drop(s, n) == SubSeq(s, n + 1, Len(s))
Compl(s) == [j \in 1..Len(s) |-> 255 - s[j]]
RECURSIVE Flat(_)
Flat(ss) == IF ss = <<>> THEN <<>> ELSE Head(ss) \o Flat(Tail(ss))
RECURSIVE BitAnd(_, _)
BitAnd(x, y) == IF x = 0 \/ y = 0 THEN 0 ELSE (x % 2) * (y % 2) + 2 * BitAnd(x \div 2, y \div 2)
RECURSIVE Pow2(_)
Pow2(n) == IF n = 0 THEN 1 ELSE 2 * Pow2(n - 1)
Endian(bs, e) == IF e = "<" THEN Rev(bs) ELSE bs
HasByteIn(bs, S) == \E j \in 1..Len(bs) : bs[j] \in S
Range(s) == {s[j] : j \in 1..Len(s)}

None == [none |-> TRUE]
Is(v, f) == DOMAIN v = {f}
IsNone(v) == Is(v, "none")
IsBytes(v, f) == Is(v, f) /\ \A j \in 1..Len(v[f]) : v[f][j] \in 0..255

Ok(bs) == [st |-> "ok", b |-> bs]
Rej == [st |-> "rej", b |-> <<>>]
Bad == [st |-> "bad", b |-> <<>>]
Worst(a, b) == IF a = "bad" \/ b = "bad" THEN "bad" ELSE IF a = "rej" \/ b = "rej" THEN "rej" ELSE "ok"
Fail == [ok |-> FALSE, v |-> None, r |-> <<>>]
Got(val, rest) == [ok |-> TRUE, v |-> val, r |-> rest]

\* ----------------------------------------------------------------- integers
BE4(n) == <<(n \div 16777216) % 256, (n \div 65536) % 256, (n \div 256) % 256, n % 256>>
Val4(b) == ((b[1] * 256 + b[2]) * 256 + b[3]) * 256 + b[4]
IsIntVal(v) == \/ Is(v, "i")
               \/ Is(v, "w") /\ Len(v.w) = 9 /\ \A j \in 1..9 : v.w[j] \in 0..255
\* 9-byte big-endian two's complement
Nine(v) == IF Is(v, "i")
           THEN IF v.i >= 0 THEN Zeros(5) \o BE4(v.i) ELSE Compl(Zeros(5) \o BE4((-1) - v.i))
           ELSE v.w
\* canonical value of a 9-byte two's complement number
CanonInt(n9) == IF (\A j \in 1..5 : n9[j] = 0) /\ n9[6] < 128 THEN [i |-> Val4(SubSeq(n9, 6, 9))]
                ELSE IF (\A j \in 1..5 : n9[j] = 255) /\ n9[6] >= 128 THEN [i |-> (-1) - Val4(Compl(SubSeq(n9, 6, 9)))]
                ELSE [w |-> n9]
IntFits(t, n9) == IF t.s
                  THEN \/ (\A j \in 1..(9 - t.w) : n9[j] = 0) /\ n9[10 - t.w] < 128
                       \/ (\A j \in 1..(9 - t.w) : n9[j] = 255) /\ n9[10 - t.w] >= 128
                  ELSE \A j \in 1..(9 - t.w) : n9[j] = 0
EncInt(t, v, e) == IF ~IsIntVal(v) THEN Bad
                   ELSE LET n9 == Nine(v) IN
                        IF IntFits(t, n9) THEN Ok(Endian(SubSeq(n9, 10 - t.w, 9), e)) ELSE Rej
DecInt(t, bs, e) == IF Len(bs) < t.w THEN Fail
                    ELSE LET be == Endian(Take(bs, t.w), e)
                             ext == IF t.s /\ be[1] >= 128 THEN 255 ELSE 0
                         IN Got(CanonInt(Rep(ext, 9 - t.w) \o be), Drop(bs, t.w))

\* a decoded integer used as a count / flag word / selector: its value, or -1 when negative or too wide
NatOf(v) == IF Is(v, "i") THEN (IF v.i >= 0 THEN v.i ELSE -1) ELSE -1

\* ------------------------------------------------------------- dictionaries
Has(d, name) == \E j \in 1..Len(d) : d[j].n = name
Get(d, name) == d[CHOOSE j \in 1..Len(d) : d[j].n = name].v
Names(d) == [j \in 1..Len(d) |-> d[j].n]
RECURSIVE IsSubSeq(_, _)
IsSubSeq(a, b) == IF a = <<>> THEN TRUE ELSE IF b = <<>> THEN FALSE
                  ELSE IF Head(a) = Head(b) THEN IsSubSeq(Tail(a), Tail(b)) ELSE IsSubSeq(a, Tail(b))
NoDup(s) == \A x, y \in 1..Len(s) : s[x] = s[y] => x = y
IsDict(v) == Is(v, "d") /\ \A j \in 1..Len(v.d) : DOMAIN v.d[j] = {"n", "v"}

Optional(t) == t.k \in {"optprefix", "optflag"}

\* strip trailing NULs
RECURSIVE RStrip0(_)
RStrip0(bs) == IF bs # <<>> /\ bs[Len(bs)] = 0 THEN RStrip0(Take(bs, Len(bs) - 1)) ELSE bs
\* index of the first byte of bs that is in S, 0 if none
RECURSIVE FirstIn(_, _, _)
FirstIn(bs, S, j) == IF j > Len(bs) THEN 0 ELSE IF bs[j] \in S THEN j ELSE FirstIn(bs, S, j + 1)

\* choice tables
HasKey(ch, key) == \E j \in 1..Len(ch) : ch[j].key = key
Pick(ch, key) == ch[CHOOSE j \in 1..Len(ch) : ch[j].key = key].t

\* which frame a context switch reads: up >= 0 counts parents from the innermost frame (ctx.f, ctx._.f, ...),
\* up = -1 is the outermost frame (ctx._root.f, defined only below at least one parent); 0 = no such frame
FrameIdx(t, ctx) == IF t.up < 0 THEN (IF Len(ctx) >= 2 THEN Len(ctx) ELSE 0)
                    ELSE IF Len(ctx) >= t.up + 1 THEN t.up + 1 ELSE 0

\* ---------------------------------------------------------- self-delimiting
\* TRUE only where the encoding of every domain value can be followed by arbitrary bytes.
RECURSIVE SD(_)
SD(t) ==
  CASE t.k \in {"int", "float", "uuid", "coord", "null", "llsd", "bytearray", "bytesfixed", "str", "strfixed"} -> TRUE
    [] t.k \in {"bytesgreedy", "ifpresent", "lenswitch"} -> FALSE
    [] t.k \in {"bytesterm", "cstr"} -> t.wt
    [] t.k = "tuple" -> \A j \in 1..Len(t.cs) : SD(t.cs[j])
    [] t.k = "template" -> \A j \in 1..Len(t.fs) : SD(t.fs[j].t)
    [] t.k = "coll" -> t.m # "greedy" /\ SD(t.c)
    [] t.k \in {"optprefix", "optflag", "adapter"} -> SD(t.c)
    [] t.k \in {"enumswitch", "flagswitch"} -> \A j \in 1..Len(t.ch) : SD(t.ch[j].t)
    [] t.k = "ctxswitch" -> (\A j \in 1..Len(t.ch) : SD(t.ch[j].t)) /\ (\A j \in 1..Len(t.dflt) : SD(t.dflt[j]))
    [] t.k = "bitfield" -> TRUE
    [] t.k = "typedbytes" -> t.m \in {"prefix", "fixed"} \/ (t.m = "term" /\ ~t.ein)

\* ------------------------------------------------------------------- sizes
\* what a size query may report: a number, or -1 for "no fixed size".
RECURSIVE Size(_)
RECURSIVE SumSizes(_)
SumSizes(ts) == IF ts = <<>> THEN 0
                ELSE LET a == Size(Head(ts)) b == SumSizes(Tail(ts)) IN IF a = -1 \/ b = -1 THEN -1 ELSE a + b
Size(t) ==
  CASE t.k \in {"int", "float"} -> t.w
    [] t.k = "uuid" -> 16
    [] t.k = "coord" -> t.n * t.w
    [] t.k = "bytesfixed" -> t.n
    [] t.k = "tuple" -> SumSizes(t.cs)
    [] t.k = "template" -> SumSizes([j \in 1..Len(t.fs) |-> t.fs[j].t])
    [] t.k = "bitfield" -> Size(t.p)
    [] t.k = "adapter" -> Size(t.c)
    [] OTHER -> -1

\* Model bound: a length-prefixed collection announcing more entries than this is not decoded (the
\* implementation would loop that many times; no encoding explored by the model is that long).
CountCap == 300

\* ---------------------------------------------------- binary LLSD documents (framing only)
\* Length of the binary-LLSD document at the head of bs, -1 if there is none.  Only the framing is modelled:
\* the document is an opaque leaf value, but a reader must consume exactly its bytes wherever it stands.
BE32(bs, j) == IF bs[j] >= 128 THEN -1 ELSE Val4(SubSeq(bs, j, j + 3))
RECURSIVE LLSDLen(_)
RECURSIVE LLSDItems(_, _, _)
\* total length of n items (each preceded by a 'k' len key when keyed), -1 if malformed
LLSDItems(bs, n, keyed) ==
  IF n = 0 THEN 0
  ELSE LET klen == IF ~keyed THEN 0
                   ELSE IF Len(bs) < 5 THEN -1 ELSE IF bs[1] # 107 THEN -1
                   ELSE IF BE32(bs, 2) < 0 THEN -1 ELSE 5 + BE32(bs, 2)
       IN IF klen < 0 \/ klen > Len(bs) THEN -1
          ELSE LET one == LLSDLen(Drop(bs, klen)) IN
               IF one < 0 THEN -1
               ELSE LET more == LLSDItems(Drop(bs, klen + one), n - 1, keyed) IN IF more < 0 THEN -1 ELSE klen + one + more
LLSDLen(bs) ==
  IF bs = <<>> THEN -1
  ELSE LET tag == bs[1]
           fits(n) == IF n <= Len(bs) THEN n ELSE -1
       IN CASE tag \in {33, 48, 49} -> 1                                   \* ! 0 1
            [] tag = 105 -> fits(5)                                        \* i
            [] tag \in {114, 100} -> fits(9)                               \* r d
            [] tag = 117 -> fits(17)                                       \* u
            [] tag \in {115, 108, 98} ->                                   \* s l b
                 IF Len(bs) < 5 THEN -1 ELSE IF BE32(bs, 2) < 0 THEN -1 ELSE fits(5 + BE32(bs, 2))
            [] tag \in {91, 123} ->                                        \* [ {
                 IF Len(bs) < 5 THEN -1 ELSE IF BE32(bs, 2) < 0 \/ BE32(bs, 2) > CountCap THEN -1
                 ELSE LET body == LLSDItems(Drop(bs, 5), BE32(bs, 2), tag = 123) IN
                      IF body < 0 THEN -1
                      ELSE IF 5 + body + 1 > Len(bs) THEN -1
                      ELSE IF bs[5 + body + 1] # (IF tag = 91 THEN 93 ELSE 125) THEN -1 ELSE 5 + body + 1
            [] OTHER -> -1

\* ------------------------------------------------ the same spec with its terminator lists rotated
\* A terminated kind accepts ANY of its terminators on the wire and its reader stops at the EARLIEST position where
\* any of them stands, whatever their order in the list.  Rot(t, j) is t with every terminator list rotated by j, i.e.
\* a writer of the same format that ends its values with another legal terminator.
RotSeq(q, j) == IF q = <<>> THEN q ELSE [x \in 1..Len(q) |-> q[((x - 1 + j) % Len(q)) + 1]]
RECURSIVE Rot(_, _)
Rot(t, j) ==
  CASE t.k \in {"bytesterm", "cstr"} -> [t EXCEPT !.terms = RotSeq(t.terms, j)]
    [] t.k = "tuple" -> [t EXCEPT !.cs = [x \in 1..Len(t.cs) |-> Rot(t.cs[x], j)]]
    [] t.k = "template" -> [t EXCEPT !.fs = [x \in 1..Len(t.fs) |-> [n |-> t.fs[x].n, t |-> Rot(t.fs[x].t, j)]]]
    [] t.k \in {"coll", "optprefix", "optflag", "ifpresent", "adapter"} -> [t EXCEPT !.c = Rot(t.c, j)]
    [] t.k = "typedbytes" -> [t EXCEPT !.c = Rot(t.c, j), !.terms = RotSeq(t.terms, j)]
    [] t.k \in {"lenswitch", "enumswitch", "flagswitch"} ->
         [t EXCEPT !.ch = [x \in 1..Len(t.ch) |-> [t.ch[x] EXCEPT !.t = Rot(t.ch[x].t, j)]]]
    [] t.k = "ctxswitch" -> [t EXCEPT !.ch = [x \in 1..Len(t.ch) |-> [t.ch[x] EXCEPT !.t = Rot(t.ch[x].t, j)]],
                                      !.dflt = [x \in 1..Len(t.dflt) |-> Rot(t.dflt[x], j)]]
    [] OTHER -> t

\* ------------------------------------------------------------------ encoder
RECURSIVE E(_, _, _, _)
\* element j is encoded under fr(j) \o ctx (fr(j): a sequence of zero or one frames); evaluated once
Force(s) == s \o <<>>
ES(ts, vs, fr(_), e, ctx) ==
  LET rs == Force([j \in 1..Len(ts) |-> E(ts[j], vs[j], e, fr(j) \o ctx)])
  IN [st |-> IF \E j \in 1..Len(rs) : rs[j].st = "bad" THEN "bad"
             ELSE IF \E j \in 1..Len(rs) : rs[j].st = "rej" THEN "rej" ELSE "ok",
      ps |-> [j \in 1..Len(rs) |-> rs[j].b]]
\* an element that is not self-delimiting must be the last one that writes anything
SeqOK(ts, ps) == \A j \in 1..Len(ts) : SD(ts[j]) \/ \A x \in (j + 1)..Len(ps) : ps[x] = <<>>

\* bit field packing; returns -1 if a member does not fit (limit), -2 if malformed
RECURSIVE PackBits(_, _, _, _, _)
PackBits(fs, d, shift, cur, acc) ==
  IF fs = <<>> THEN acc
  ELSE LET bits == Head(fs).bits
           mask == Pow2(bits) - 1
           x == Head(d).v.i
       IN IF shift
          THEN IF x > mask THEN -1 ELSE PackBits(Tail(fs), Tail(d), shift, cur + bits, acc + x * Pow2(cur))
          ELSE IF x # BitAnd(x, mask * Pow2(cur)) THEN -1 ELSE PackBits(Tail(fs), Tail(d), shift, cur + bits, acc + x)
RECURSIVE SumBit(_)
SumBit(ch) == IF ch = <<>> THEN 0 ELSE Head(ch).bit + SumBit(Tail(ch))
RECURSIVE SumBits(_)
SumBits(fs) == IF fs = <<>> THEN 0 ELSE Head(fs).bits + SumBits(Tail(fs))

\* wrap an inner buffer according to a bytes mode
WrapBytes(t, buf, e) ==
  CASE t.m = "prefix" -> LET p == EncInt(t.p, [i |-> Len(buf)], e) IN IF p.st = "ok" THEN Ok(p.b \o buf) ELSE p
    [] t.m = "fixed" -> IF Len(buf) = t.n THEN Ok(buf) ELSE Rej
    [] t.m = "greedy" -> Ok(buf)
    [] t.m = "term" -> IF HasByteIn(buf, Range(t.terms)) THEN Bad ELSE Ok(buf \o <<t.terms[1]>>)

E(t, v, e, ctx) ==
  CASE t.k = "int" -> EncInt(t, v, e)
    [] t.k = "float" -> IF IsBytes(v, "f") /\ Len(v.f) = t.w THEN Ok(Endian(v.f, e)) ELSE Bad
    [] t.k = "uuid" -> IF IsBytes(v, "u") /\ Len(v.u) = 16 THEN Ok(v.u) ELSE Bad
    [] t.k = "coord" ->
         IF Is(v, "l") /\ Len(v.l) = t.n /\ \A j \in 1..Len(v.l) : IsBytes(v.l[j], "f") /\ Len(v.l[j].f) = t.w
         THEN Ok(Flat([j \in 1..t.n |-> Endian(v.l[j].f, e)])) ELSE Bad
    [] t.k = "null" -> IF IsNone(v) THEN Ok(<<>>) ELSE Bad
    [] t.k = "llsd" -> IF IsBytes(v, "x") THEN (IF LLSDLen(v.x) = Len(v.x) THEN Ok(v.x) ELSE Bad) ELSE Bad
    [] t.k = "bytearray" ->
         IF ~IsBytes(v, "b") THEN Bad
         ELSE LET p == EncInt(t.p, [i |-> Len(v.b)], e) IN IF p.st = "ok" THEN Ok(p.b \o v.b) ELSE p
    [] t.k = "bytesfixed" -> IF ~IsBytes(v, "b") THEN Bad ELSE IF Len(v.b) = t.n THEN Ok(v.b) ELSE Rej
    [] t.k = "bytesgreedy" -> IF IsBytes(v, "b") THEN Ok(v.b) ELSE Bad
    [] t.k = "bytesterm" ->
         IF ~IsBytes(v, "b") \/ HasByteIn(v.b, Range(t.terms)) \/ (~t.wt /\ ~t.eof) THEN Bad
         ELSE Ok(v.b \o (IF t.wt THEN <<t.terms[1]>> ELSE <<>>))
    [] t.k = "str" ->
         IF ~IsBytes(v, "s") \/ RStrip0(v.s) # v.s THEN Bad
         ELSE LET raw == v.s \o (IF t.nt THEN <<0>> ELSE <<>>)
                  p == EncInt(t.p, [i |-> Len(raw)], e)
              IN IF p.st = "ok" THEN Ok(p.b \o raw) ELSE p
    [] t.k = "strfixed" ->
         IF ~IsBytes(v, "s") \/ RStrip0(v.s) # v.s THEN Bad
         ELSE IF Len(v.s) > t.n THEN Rej ELSE Ok(v.s \o Zeros(t.n - Len(v.s)))
    [] t.k = "cstr" ->
         IF ~IsBytes(v, "s") \/ HasByteIn(v.s, Range(t.terms)) \/ (~t.wt /\ ~t.eof) THEN Bad
         ELSE Ok(v.s \o (IF t.wt THEN <<t.terms[1]>> ELSE <<>>))
    [] t.k = "tuple" ->
         IF ~Is(v, "l") THEN Bad
         ELSE LET n == IF Len(v.l) < Len(t.cs) THEN Len(v.l) ELSE Len(t.cs)
                  r == ES(Take(t.cs, n), Take(v.l, n), LAMBDA j : <<[l |-> Take(v.l, j - 1)]>>, e, ctx)
              IN IF Len(v.l) # Len(t.cs) THEN (IF r.st = "bad" THEN Bad ELSE Rej)
                 ELSE IF r.st # "ok" THEN [st |-> r.st, b |-> <<>>]
                 ELSE IF SeqOK(t.cs, r.ps) THEN Ok(Flat(r.ps)) ELSE Bad
    [] t.k = "template" ->
         IF ~IsDict(v) THEN Bad
         ELSE LET fn == [j \in 1..Len(t.fs) |-> t.fs[j].n]
                  ts == [j \in 1..Len(t.fs) |-> t.fs[j].t]
                  shape == /\ NoDup(Names(v.d)) /\ IsSubSeq(Names(v.d), fn)
                           /\ \A j \in 1..Len(fn) :
                                IF Has(v.d, fn[j]) THEN (t.skip /\ Optional(ts[j])) => ~IsNone(Get(v.d, fn[j]))
                                ELSE t.skip /\ Optional(ts[j])
                  \* under skip_missing an absent flagged optional means "flag not set" (a set flag with the
                  \* value None cannot be told from an absent field)
                  frame(j) == SelectSeq(v.d, LAMBDA en : \E x \in 1..(j - 1) : fn[x] = en.n)
                  absentOK == \A j \in 1..Len(fn) :
                                (~Has(v.d, fn[j]) /\ ts[j].k = "optflag" /\ Has(frame(j), ts[j].field)) =>
                                   LET fl == Get(frame(j), ts[j].field)
                                   IN (Is(fl, "i") /\ fl.i >= 0) => BitAnd(fl.i, ts[j].mask) = 0
              IN IF ~shape THEN Bad ELSE IF ~absentOK THEN Bad
                 ELSE LET vs == [j \in 1..Len(fn) |-> IF Has(v.d, fn[j]) THEN Get(v.d, fn[j]) ELSE None]
                          r == ES(ts, vs, LAMBDA j : <<[d |-> frame(j)]>>, e, ctx)
                      IN IF r.st # "ok" THEN [st |-> r.st, b |-> <<>>]
                         ELSE IF SeqOK(ts, r.ps) THEN Ok(Flat(r.ps)) ELSE Bad
    [] t.k = "coll" ->
         IF ~Is(v, "l") THEN Bad
         ELSE LET n == Len(v.l)
                  pre == IF t.m = "prefix" THEN EncInt(t.p, [i |-> n], e)
                         ELSE IF t.m = "fixed" /\ n # t.n THEN Rej ELSE Ok(<<>>)
                  ts == Rep(t.c, n)
                  r == ES(ts, v.l, LAMBDA j : <<[l |-> Take(v.l, j - 1)]>>, e, ctx)
              IN IF Worst(pre.st, r.st) # "ok" THEN [st |-> Worst(pre.st, r.st), b |-> <<>>]
                 ELSE IF ~SeqOK(ts, r.ps) \/ (t.m = "greedy" /\ \E j \in 1..n : r.ps[j] = <<>>) THEN Bad
                 ELSE Ok(pre.b \o Flat(r.ps))
    [] t.k = "optprefix" ->
         IF IsNone(v) THEN Ok(<<0>>)
         ELSE LET r == E(t.c, v, e, ctx) IN IF r.st = "ok" THEN Ok(<<1>> \o r.b) ELSE r
    [] t.k = "optflag" ->
         IF ctx = <<>> \/ ~IsDict(ctx[1]) THEN Bad
         ELSE IF ~Has(ctx[1].d, t.field) THEN Bad
         ELSE LET fl == NatOf(Get(ctx[1].d, t.field)) IN
              IF fl < 0 THEN Bad
              ELSE IF BitAnd(fl, t.mask) # 0 THEN E(t.c, v, e, ctx)
              ELSE IF IsNone(v) THEN Ok(<<>>) ELSE Bad
    [] t.k = "ifpresent" ->
         IF IsNone(v) THEN Ok(<<>>)
         ELSE LET r == E(t.c, v, e, ctx) IN IF r.st = "ok" /\ r.b = <<>> THEN Bad ELSE r
    [] t.k = "lenswitch" ->
         IF DOMAIN v # {"tag", "val"} THEN Bad
         ELSE IF ~Is(v.tag, "i") THEN Bad
         ELSE LET key == IF HasKey(t.ch, v.tag.i) THEN v.tag.i ELSE -1 IN
              IF v.tag.i < 0 \/ ~HasKey(t.ch, key) THEN Bad
              ELSE LET r == E(Pick(t.ch, key), v.val, e, ctx) IN
                   IF r.st = "ok" /\ Len(r.b) # v.tag.i THEN Bad ELSE r
    [] t.k = "enumswitch" ->
         IF DOMAIN v # {"tag", "val"} THEN Bad
         ELSE IF ~Is(v.tag, "i") THEN Bad
         ELSE IF ~HasKey(t.ch, v.tag.i) THEN Bad
         ELSE LET tg == EncInt(t.e, v.tag, e)
                  r == E(Pick(t.ch, v.tag.i), v.val, e, ctx)
              IN IF Worst(tg.st, r.st) # "ok" THEN [st |-> Worst(tg.st, r.st), b |-> <<>>]
                 ELSE Ok(tg.b \o r.b)
    [] t.k = "flagswitch" ->
         IF ~IsDict(v) THEN Bad
         ELSE LET cn == [j \in 1..Len(t.ch) |-> t.ch[j].name]
              IN IF ~(NoDup(Names(v.d)) /\ IsSubSeq(Names(v.d), cn)) THEN Bad
                 ELSE LET present == SelectSeq(t.ch, LAMBDA c : Has(v.d, c.name))
                          flags == SumBit(present)
                          fl == EncInt(t.f, [i |-> flags], e)
                          ts == [j \in 1..Len(present) |-> present[j].t]
                          r == ES(ts, [j \in 1..Len(present) |-> Get(v.d, present[j].name)],
                                  LAMBDA j : <<>>, e, ctx)
                      IN IF Worst(fl.st, r.st) # "ok" THEN [st |-> Worst(fl.st, r.st), b |-> <<>>]
                         ELSE IF SeqOK(ts, r.ps) THEN Ok(fl.b \o Flat(r.ps)) ELSE Bad
    [] t.k = "ctxswitch" ->
         IF FrameIdx(t, ctx) = 0 THEN Bad
         ELSE LET fr == ctx[FrameIdx(t, ctx)] IN
              IF ~IsDict(fr) THEN Bad ELSE IF ~Has(fr.d, t.field) THEN Bad
              ELSE LET sel == Get(fr.d, t.field) IN
                   IF ~Is(sel, "i") THEN Bad
                   ELSE IF HasKey(t.ch, sel.i) THEN E(Pick(t.ch, sel.i), v, e, ctx)
                   ELSE IF t.dflt # <<>> THEN E(t.dflt[1], v, e, ctx) ELSE Bad
    [] t.k = "bitfield" ->
         IF ~IsDict(v) THEN Bad
         ELSE IF Names(v.d) # [j \in 1..Len(t.fs) |-> t.fs[j].n] \/ SumBits(t.fs) > 30 THEN Bad
         ELSE IF \E j \in 1..Len(v.d) : NatOf(v.d[j].v) < 0 THEN Bad
         ELSE LET packed == PackBits(t.fs, v.d, t.shift, 0, 0) IN
              IF packed < 0 THEN Rej ELSE EncInt(t.p, [i |-> packed], e)
    [] t.k = "typedbytes" ->
         IF IsNone(v) /\ t.ein THEN (IF t.m = "term" THEN Ok(<<>>) ELSE WrapBytes(t, <<>>, e))
         ELSE LET r == E(t.c, v, e, ctx) IN
              IF r.st # "ok" THEN r
              ELSE IF t.ein /\ r.b = <<>> THEN Bad
              ELSE WrapBytes(t, r.b, e)
    [] t.k = "adapter" -> E(t.c, v, e, ctx)

\* ------------------------------------------------------------------ decoder
RECURSIVE D(_, _, _, _)
RECURSIVE DTuple(_, _, _, _, _)
DTuple(ts, bs, e, ctx, acc) ==
  IF ts = <<>> THEN Got([l |-> acc], bs)
  ELSE LET h == D(Head(ts), bs, e, <<[l |-> acc]>> \o ctx)
       IN IF ~h.ok THEN Fail ELSE DTuple(Tail(ts), h.r, e, ctx, Append(acc, h.v))
RECURSIVE DTemplate(_, _, _, _, _, _)
DTemplate(fs, skip, bs, e, ctx, acc) ==
  IF fs = <<>> THEN Got([d |-> acc], bs)
  ELSE LET h == D(Head(fs).t, bs, e, <<[d |-> acc]>> \o ctx)
       IN IF ~h.ok THEN Fail
          ELSE DTemplate(Tail(fs), skip, h.r, e, ctx,
                         IF Optional(Head(fs).t) /\ skip /\ IsNone(h.v) THEN acc
                         ELSE Append(acc, [n |-> Head(fs).n, v |-> h.v]))
RECURSIVE DCollN(_, _, _, _, _, _)
DCollN(c, n, bs, e, ctx, acc) ==
  IF n <= 0 THEN Got([l |-> acc], bs)
  ELSE LET h == D(c, bs, e, <<[l |-> acc]>> \o ctx)
       IN IF ~h.ok THEN Fail ELSE DCollN(c, n - 1, h.r, e, ctx, Append(acc, h.v))
RECURSIVE DCollG(_, _, _, _, _)
DCollG(c, bs, e, ctx, acc) ==
  IF bs = <<>> THEN Got([l |-> acc], bs)
  ELSE LET h == D(c, bs, e, <<[l |-> acc]>> \o ctx)
       IN IF ~h.ok \/ Len(h.r) = Len(bs) THEN Fail ELSE DCollG(c, h.r, e, ctx, Append(acc, h.v))
RECURSIVE DFlags(_, _, _, _, _, _)
DFlags(ch, flags, bs, e, ctx, acc) ==
  IF ch = <<>> THEN Got([d |-> acc], bs)
  ELSE IF BitAnd(flags, Head(ch).bit) = 0 THEN DFlags(Tail(ch), flags, bs, e, ctx, acc)
  ELSE LET h == D(Head(ch).t, bs, e, ctx)
       IN IF ~h.ok THEN Fail ELSE DFlags(Tail(ch), flags, h.r, e, ctx, Append(acc, [n |-> Head(ch).name, v |-> h.v]))
RECURSIVE Unpack(_, _, _, _)
Unpack(fs, packed, shift, cur) ==
  IF fs = <<>> THEN <<>>
  ELSE LET x == (packed \div Pow2(cur)) % Pow2(Head(fs).bits)
       IN <<[n |-> Head(fs).n, v |-> [i |-> IF shift THEN x ELSE x * Pow2(cur)]]>>
          \o Unpack(Tail(fs), packed, shift, cur + Head(fs).bits)

\* the byte window of a bytes mode: [ok, buf, r]
Window(t, bs, e) ==
  CASE t.m = "prefix" ->
         LET p == DecInt(t.p, bs, e) IN
         IF ~p.ok THEN Fail
         ELSE IF NatOf(p.v) < 0 \/ NatOf(p.v) > Len(p.r) THEN Fail
         ELSE Got(Take(p.r, p.v.i), Drop(p.r, p.v.i))
    [] t.m = "fixed" -> IF Len(bs) < t.n THEN Fail ELSE Got(Take(bs, t.n), Drop(bs, t.n))
    [] t.m = "greedy" -> Got(bs, <<>>)
    [] t.m = "term" ->
         LET x == FirstIn(bs, Range(t.terms), 1) IN
         IF x = 0 THEN (IF t.eof THEN Got(bs, <<>>) ELSE Fail) ELSE Got(Take(bs, x - 1), Drop(bs, x))
BytesMode(t) == [m |-> CASE t.k \in {"bytearray", "str"} -> "prefix" [] t.k \in {"bytesfixed", "strfixed"} -> "fixed"
                         [] t.k = "bytesgreedy" -> "greedy" [] OTHER -> "term",
                 p |-> IF t.k \in {"bytearray", "str"} THEN t.p ELSE 0,
                 n |-> IF t.k \in {"bytesfixed", "strfixed"} THEN t.n ELSE 0,
                 terms |-> IF t.k \in {"bytesterm", "cstr"} THEN t.terms ELSE <<>>,
                 eof |-> IF t.k \in {"bytesterm", "cstr"} THEN t.eof ELSE TRUE]

D(t, bs, e, ctx) ==
  CASE t.k = "int" -> DecInt(t, bs, e)
    [] t.k = "float" -> IF Len(bs) < t.w THEN Fail ELSE Got([f |-> Endian(Take(bs, t.w), e)], Drop(bs, t.w))
    [] t.k = "uuid" -> IF Len(bs) < 16 THEN Fail ELSE Got([u |-> Take(bs, 16)], Drop(bs, 16))
    [] t.k = "coord" ->
         IF Len(bs) < t.n * t.w THEN Fail
         ELSE Got([l |-> [j \in 1..t.n |-> [f |-> Endian(SubSeq(bs, (j - 1) * t.w + 1, j * t.w), e)]]], Drop(bs, t.n * t.w))
    [] t.k = "null" -> Got(None, bs)
    [] t.k = "llsd" -> LET n == LLSDLen(bs) IN IF n < 0 THEN Fail ELSE Got([x |-> Take(bs, n)], Drop(bs, n))
    [] t.k \in {"bytearray", "bytesfixed", "bytesgreedy", "bytesterm"} ->
         LET w == Window(BytesMode(t), bs, e) IN IF ~w.ok THEN Fail ELSE Got([b |-> w.v], w.r)
    [] t.k \in {"str", "strfixed"} ->
         LET w == Window(BytesMode(t), bs, e) IN IF ~w.ok THEN Fail ELSE Got([s |-> RStrip0(w.v)], w.r)
    [] t.k = "cstr" ->
         LET w == Window(BytesMode(t), bs, e) IN IF ~w.ok THEN Fail ELSE Got([s |-> w.v], w.r)
    [] t.k = "tuple" -> DTuple(t.cs, bs, e, ctx, <<>>)
    [] t.k = "template" -> DTemplate(t.fs, t.skip, bs, e, ctx, <<>>)
    [] t.k = "coll" ->
         IF t.m = "prefix"
         THEN LET p == DecInt(t.p, bs, e) IN
              IF ~p.ok THEN Fail ELSE IF ~Is(p.v, "i") THEN Fail ELSE IF p.v.i > CountCap THEN Fail
              ELSE DCollN(t.c, p.v.i, p.r, e, ctx, <<>>)
         ELSE IF t.m = "fixed" THEN DCollN(t.c, t.n, bs, e, ctx, <<>>)
         ELSE DCollG(t.c, bs, e, ctx, <<>>)
    [] t.k = "optprefix" ->
         IF bs = <<>> THEN Fail ELSE IF bs[1] = 0 THEN Got(None, Tail(bs)) ELSE D(t.c, Tail(bs), e, ctx)
    [] t.k = "optflag" ->
         IF ctx = <<>> \/ ~IsDict(ctx[1]) THEN Fail
         ELSE IF ~Has(ctx[1].d, t.field) THEN Fail
         ELSE LET fl == NatOf(Get(ctx[1].d, t.field)) IN
              IF fl < 0 THEN Fail
              ELSE IF BitAnd(fl, t.mask) # 0 THEN D(t.c, bs, e, ctx) ELSE Got(None, bs)
    [] t.k = "ifpresent" -> IF bs = <<>> THEN Got(None, bs) ELSE D(t.c, bs, e, ctx)
    [] t.k = "lenswitch" ->
         LET n == Len(bs)
             key == IF HasKey(t.ch, n) THEN n ELSE -1
         IN IF ~HasKey(t.ch, key) THEN Fail
            ELSE LET h == D(Pick(t.ch, key), bs, e, ctx) IN
                 IF ~h.ok THEN Fail ELSE Got([tag |-> [i |-> n], val |-> h.v], h.r)
    [] t.k = "enumswitch" ->
         LET g == DecInt(t.e, bs, e) IN
         IF ~g.ok THEN Fail ELSE IF ~Is(g.v, "i") THEN Fail ELSE IF ~HasKey(t.ch, g.v.i) THEN Fail
         ELSE LET h == D(Pick(t.ch, g.v.i), g.r, e, ctx) IN
              IF ~h.ok THEN Fail ELSE Got([tag |-> g.v, val |-> h.v], h.r)
    [] t.k = "flagswitch" ->
         LET g == DecInt(t.f, bs, e) IN
         IF ~g.ok THEN Fail ELSE IF NatOf(g.v) < 0 THEN Fail
         ELSE DFlags(t.ch, g.v.i, g.r, e, ctx, <<>>)
    [] t.k = "ctxswitch" ->
         IF FrameIdx(t, ctx) = 0 THEN Fail
         ELSE LET fr == ctx[FrameIdx(t, ctx)] IN
              IF ~IsDict(fr) THEN Fail ELSE IF ~Has(fr.d, t.field) THEN Fail
              ELSE LET sel == Get(fr.d, t.field) IN
                   IF ~Is(sel, "i") THEN Fail
                   ELSE IF HasKey(t.ch, sel.i) THEN D(Pick(t.ch, sel.i), bs, e, ctx)
                   ELSE IF t.dflt # <<>> THEN D(t.dflt[1], bs, e, ctx) ELSE Fail
    [] t.k = "bitfield" ->
         LET g == DecInt(t.p, bs, e) IN
         IF ~g.ok THEN Fail ELSE IF NatOf(g.v) < 0 THEN Fail
         ELSE Got([d |-> Unpack(t.fs, g.v.i, t.shift, 0)], g.r)
    [] t.k = "typedbytes" ->
         LET w == Window([m |-> t.m, p |-> t.p, n |-> t.n, terms |-> t.terms, eof |-> TRUE], bs, e) IN
         IF ~w.ok THEN Fail
         ELSE IF t.ein /\ w.v = <<>> THEN Got(None, w.r)
         ELSE LET h == D(t.c, w.v, e, ctx) IN
              IF ~h.ok THEN Fail ELSE IF t.ctb /\ h.r # <<>> THEN Fail ELSE Got(h.v, w.r)
    [] t.k = "adapter" -> D(t.c, bs, e, ctx)

\* ------------------------------------------------------- flag words (IntFlag adapters)
\* A flag class is a member table ms = <<[n |-> name, v |-> value], ...>> in definition order.  Only the
\* CANONICAL members name bits: single-bit values, first definition of that bit.  A zero member, a second
\* name for a bit and a multi-bit mask (e.g. ALL = 0x7F) are aliases: they name nothing, so a bit covered
\* only by a mask is un-named.  The plain-data form of a word n is the names of the canonical members set in
\* n (definition order) plus ONE left-over integer holding every set bit no canonical member names (absent
\* when zero); the rich form is the word itself.  Either form determines the word: nothing is dropped.
IsPow2(n) == n > 0 /\ \E x \in 0..30 : n = Pow2(x)
Canonical(ms) == SelectSeq([j \in 1..Len(ms) |-> j],
                           LAMBDA j : IsPow2(ms[j].v) /\ \A x \in 1..(j - 1) : ms[x].v # ms[j].v)
RECURSIVE SumSeq(_)
SumSeq(q) == IF q = <<>> THEN 0 ELSE Head(q) + SumSeq(Tail(q))
FlagPod(ms, n) == LET set == SelectSeq(Canonical(ms), LAMBDA j : BitAnd(n, ms[j].v) # 0)
                  IN [names |-> [x \in 1..Len(set) |-> ms[set[x]].n],
                      left |-> n - SumSeq([x \in 1..Len(set) |-> ms[set[x]].v])]
FlagOfPod(ms, pod) == LET named == SelectSeq(Canonical(ms), LAMBDA j : \E x \in 1..Len(pod.names) : pod.names[x] = ms[j].n)
                      IN SumSeq([x \in 1..Len(named) |-> ms[named[x]].v]) + pod.left

\* ------------------------------------------------------------- top level API
Enc(t, v, e) == E(t, v, e, <<>>)
Dec(t, bs, e) == D(t, bs, e, <<>>)

=============================================================================
