---- MODULE AssetLayout_Weights ----
(* B3 table for the vertex-weight layout: every sequence of up to MaxVerts vertices whose numbers of     *)
(* influences come from Counts, with low and with high joint indices.  TLC checks the round-trip law of  *)
(* the format on each and prints the vertices and the bytes they must be written as.                     *)
EXTENDS AssetLayout, Json
CONSTANTS Counts, MaxVerts
VARIABLE wrow
RECURSIVE Seqs(_)
Seqs(n) == IF n = 0 THEN {<<>>} ELSE LET S == Seqs(n - 1) IN S \cup {Append(s, c) : s \in {t \in S : Len(t) = n - 1}, c \in Counts}
WRows == {[counts |-> c, hi |-> h] : c \in Seqs(MaxVerts) \ {<<>>}, h \in BOOLEAN}
Verts == GenWeights(wrow.counts, wrow.hi)
WInit == MInit0 /\ wrow \in WRows
         /\ PrintT(ToJson([row |-> "weights", counts |-> wrow.counts, hi |-> wrow.hi, verts |-> Verts, bytes |-> WeightsBytes(Verts)]))
WNext == UNCHANGED <<mvars, wrow>>
WSpec == WInit /\ [][WNext]_<<mvars, wrow>>
RoundTrip == WeightsRoundTrip(Verts)
\* the format is self-delimiting only because a full vertex has no terminator: its length says so
Length == Len(WeightsBytes(Verts)) = 3 * (LET RECURSIVE Sum(_) Sum(c) == IF c = <<>> THEN 0 ELSE Head(c) + Sum(Tail(c)) IN Sum(wrow.counts))
                                     + Cardinality({k \in DOMAIN wrow.counts : wrow.counts[k] < 4})
====
