---- MODULE Quant ----
(***************************************************************************************)
(* C10 -- quantised floats and fixed-point fields, in exact integer arithmetic.         *)
(*                                                                                     *)
(* An INSTANCE is one distinct (wire type, lower, upper, rounding mode) representation *)
(* found by reflection in the imported code (harness/c10.py writes them to the JSON     *)
(* file named by the environment variable QUANT_INSTS).  Every number of an instance    *)
(* is an integer numerator over the instance's common denominator D, in units of the    *)
(* instance's `unit` (1, pi, or the animation duration for key-frame times; the unit    *)
(* is a positive real the specification never needs to know):                           *)
(*                                                                                     *)
(*    rawMin..rawMax   what the wire type can hold                                     *)
(*    lo, hi           declared range (numerators)                                     *)
(*    A, B             value of raw r on the linear grid is  A + B*(r - rawMin)         *)
(*    zm               rounding mode "zero-median": the grid values strictly within one *)
(*                     step of zero ARE zero, and keep the side they came from as a tag *)
(*                     (the code's signed-zero trick; the tag is not an observable)     *)
(*    kind             "qfloat" | "fixed" | "numpy" | "time"                            *)
(*    closed           the representation declares a closed range: rawMax means hi.     *)
(*                     FALSE only for fixed point (hi = 2^intbits is exclusive) and for  *)
(*                     subclasses that install their own step (PackedTERotation)         *)
(*                                                                                     *)
(* Spec layer: Val/Tag (what a raw means) and Enc (the quantiser on grid values: clamp,   *)
(* the raw of that grid point, a tagged zero goes back to its side).  The machine walks    *)
(* every raw value of every instance; TLC checks the property's clauses in every state. *)
(* Quant_MBT prints the table raw |-> (Val, Tag, Enc(Val,Tag), ends) that c10.py replays *)
(* into the real adapters.                                                              *)
(***************************************************************************************)
EXTENDS Integers, Sequences, Json, IOUtils, TLC

Insts == JsonDeserialize(IOEnv.QUANT_INSTS)
\* Composite representations (quantised vectors, packed quaternions, vector lists ...): each
\* is a sequence of scalar instances (indices into Insts) read/written as one field, found by
\* reflection: [id, comps: <<instance index>>, extra: <<raw tuples sampled by the harness>>]
Comps == JsonDeserialize(IOEnv.QUANT_COMPS)

VARIABLES inst, raw,      \* scalar machine: instance index, raw value
          ci, tup         \* composite machine: composite index, tuple of raw values
vars == <<inst, raw, ci, tup>>

Abs(x) == IF x < 0 THEN -x ELSE x
MinOf(a, b) == IF a < b THEN a ELSE b
MaxOf(a, b) == IF a > b THEN a ELSE b

-----------------------------------------------------------------------------------------
(* Spec layer *)
Num(i, r)  == i.A + i.B * (r - i.rawMin)
Snap(i, r) == i.zm /\ Abs(Num(i, r)) < i.B
Tag(i, r)  == IF Snap(i, r) THEN (IF Num(i, r) < 0 THEN "neg" ELSE "pos") ELSE "none"
Val(i, r)  == IF Snap(i, r) THEN 0 ELSE Num(i, r)

Clamp(i, n) == MaxOf(i.lo, MinOf(i.hi, n))

\* The quantiser on the values the property speaks of (grid values, declared ends, zero):
\* clamp into the declared range; an exact zero of a zero-median instance is pushed half a
\* step towards the side named by its tag ("none" counts as "pos"); the result is the raw
\* whose grid value that is.  Half-numerators keep the half-step push integral.  The
\* property says nothing about how off-grid values are rounded, so neither does Enc:
\* OnGrid is checked as an invariant wherever Enc is used.
Half(i, n, tag) ==
    LET c    == Clamp(i, n)
        push == IF i.zm /\ c = 0 THEN (IF tag = "neg" THEN -i.B ELSE i.B) ELSE 0
    IN 2 * (c - i.A) + push
OnGrid(i, n, tag) == Half(i, n, tag) % (2 * i.B) = 0
Enc(i, n, tag) == i.rawMin + Half(i, n, tag) \div (2 * i.B)

HiOnGrid(i) == Num(i, i.rawMax) = i.hi
Centred(i)  == i.lo + i.hi = 0
\* the vectorised variant documents that it has no zero rounding; every other
\* representation with a range centred on zero must be able to say exactly zero
NeedsZero(i) == Centred(i) /\ i.kind # "numpy"

-----------------------------------------------------------------------------------------
(* The machine: one state per (instance, raw) *)
I == Insts[inst]
Init == inst \in DOMAIN Insts /\ raw = Insts[inst].rawMin /\ ci = 0 /\ tup = <<>>
Step == raw < I.rawMax /\ raw' = raw + 1 /\ UNCHANGED <<inst, ci, tup>>
Next == Step
Spec == Init /\ [][Next]_vars

-----------------------------------------------------------------------------------------
(* The property, clause by clause *)
TypeOK == /\ I.rawMin <= raw /\ raw <= I.rawMax
          /\ I.B > 0 /\ I.D > 0 /\ I.A = I.lo /\ I.lo < I.hi
\* decode then encode gives back the same integer
RoundTrip == OnGrid(I, Val(I, raw), Tag(I, raw)) /\ Enc(I, Val(I, raw), Tag(I, raw)) = raw
\* decoding is monotonic in the raw value (strictly, outside the two-sided zero)
Monotone == raw > I.rawMin =>
              \/ Val(I, raw - 1) < Val(I, raw)
              \/ Val(I, raw - 1) = Val(I, raw) /\ Snap(I, raw - 1) /\ Snap(I, raw)
                   /\ Tag(I, raw - 1) = "neg" /\ Tag(I, raw) = "pos"
MonotoneStep == [][Val(I, raw) <= Val(I, raw')]_vars
\* ends of the declared range that lie on the raw grid
EndLo == raw = I.rawMin => Val(I, raw) = I.lo /\ OnGrid(I, I.lo, "none") /\ Enc(I, I.lo, "none") = raw
EndHi == (raw = I.rawMax /\ HiOnGrid(I)) => Val(I, raw) = I.hi /\ OnGrid(I, I.hi, "none") /\ Enc(I, I.hi, "none") = raw
\* a closed declared range ends on the raw grid
ClosedRange == I.closed => HiOnGrid(I)
\* nothing outside the declared range
InRange == I.lo <= Val(I, raw) /\ Val(I, raw) <= I.hi
\* zero of a centred range is representable (that every raw meaning zero gets back to
\* itself is RoundTrip; that the two sides of a zero are distinct is Monotone)
ZeroRepresentable == (raw = I.rawMin /\ NeedsZero(I)) => \E r \in I.rawMin..I.rawMax : Val(I, r) = 0

\* what the replay table says about a state: the meaning of the raw, where it must go back to,
\* whether it is an end of the declared range (and where that end, as a literal, must go),
\* whether the zero clause applies to it
End(i, r) == IF r = i.rawMin THEN "lo" ELSE IF r = i.rawMax /\ HiOnGrid(i) THEN "hi" ELSE ""
RowOf(i, r) == [i |-> i.id, raw |-> r, val |-> Val(i, r), tag |-> Tag(i, r),
                re |-> Enc(i, Val(i, r), Tag(i, r)), end |-> End(i, r),
                ee |-> Enc(i, IF End(i, r) = "hi" THEN i.hi ELSE i.lo, "none"),
                zero |-> (NeedsZero(i) /\ Val(i, r) = 0)]

-----------------------------------------------------------------------------------------
(* Composite representations.  The law: a composite of exact component inverses is an    *)
(* exact inverse -- decoding a tuple of raws component-wise and re-encoding the decoded   *)
(* composite value gives back the same tuple.  Nothing in the wire format couples the      *)
(* components, so no composite is exempt: this includes the 3-component packed             *)
(* quaternions, whose W is not sent and is reconstructed by the receiver (as 0 when the    *)
(* decoded X/Y/Z is longer than 1); re-encoding must leave X/Y/Z alone.                    *)
(* States: per composite, the lattice {ends, ends +-1, centre, centre +-1}^n of raw        *)
(* tuples plus the tuples sampled by the harness.                                          *)
ToSet(s) == {s[k] : k \in DOMAIN s}
Mid(i)  == i.rawMin + (i.rawMax - i.rawMin) \div 2
Edge(i) == {i.rawMin, i.rawMin + 1, Mid(i) - 1, Mid(i), Mid(i) + 1, i.rawMax - 1, i.rawMax}
CI(c, k) == Insts[c.comps[k]]
RECURSIVE Lattice(_, _)
Lattice(c, k) == IF k = 0 THEN {<<>>}
                 ELSE {Append(t, r) : t \in Lattice(c, k - 1), r \in Edge(CI(c, k))}
C == Comps[ci]
CInit == /\ ci \in DOMAIN Comps
         /\ tup \in Lattice(Comps[ci], Len(Comps[ci].comps)) \cup ToSet(Comps[ci].extra)
         /\ inst = 1 /\ raw = Insts[1].rawMin
CNext == UNCHANGED vars
CSpec == CInit /\ [][CNext]_vars

CompTypeOK == /\ Len(tup) = Len(C.comps)
              /\ \A k \in DOMAIN tup : CI(C, k).rawMin <= tup[k] /\ tup[k] <= CI(C, k).rawMax
CompRoundTrip == \A k \in DOMAIN tup :
                   LET i == CI(C, k) IN
                   /\ OnGrid(i, Val(i, tup[k]), Tag(i, tup[k]))
                   /\ Enc(i, Val(i, tup[k]), Tag(i, tup[k])) = tup[k]
CRow == [c |-> C.id, raws |-> tup,
         vals |-> [k \in DOMAIN tup |-> Val(CI(C, k), tup[k])],
         re   |-> [k \in DOMAIN tup |-> Enc(CI(C, k), Val(CI(C, k), tup[k]), Tag(CI(C, k), tup[k]))]]
====
